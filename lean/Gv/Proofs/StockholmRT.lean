import Gv.Model.Fmt.Stockholm
import Gv.Proofs.FastaRT
import Gv.Spec.Fmt
/-!
Stockholm round trip, helper development (the property statement is in `Props/C02.lean`).
Tokens of a written row, the parser loop over written rows as a fold of `Bag.add`, the header.
-/
namespace Gv.Proofs.StockholmRT
open Gv Gv.Model Gv.Model.Fmt Gv.Model.Fmt.Stockholm
open Gv.Proofs.FastaRT (takeWhile_append_stop addAll addAll_ok addAll_append)

set_option maxRecDepth 100000

/-- a run of identifier bytes that does not start with `#` -/
def Run (l : Seq) : Prop := l ≠ [] ∧ (∀ b ∈ l, identChar b = true) ∧ l.head? ≠ some 35

theorem identChar_facts (c : Byte) (h : identChar c = true) :
    isWS c = false ∧ (c == NL) = false ∧ (c == CR) = false ∧ (c == 0) = false := by
  simp only [identChar, Bool.and_eq_true, bne_iff_ne, ne_eq, Bool.not_eq_true'] at h
  obtain ⟨⟨⟨⟨⟨⟨⟨_, _⟩, _⟩, _⟩, h5⟩, h6⟩, h7⟩, h8⟩ := h
  refine ⟨h7, ?_, ?_, ?_⟩ <;> simp [*]

/-- scanning a run followed by a stop byte yields the classified run and leaves the stop byte -/
theorem scan_run (l : Seq) (h : Run l) (x : Byte) (hx : identChar x = false) (hx0 : x ≠ 0) (rest : Seq) :
    scan (l ++ x :: rest) = (classify l, x :: rest) := by
  obtain ⟨hne, hall, hh⟩ := h
  cases l with
  | nil => exact absurd rfl hne
  | cons c cs =>
    obtain ⟨f1, f2, f3, f4⟩ := identChar_facts c (hall c (by simp))
    have f5 : (c == 35) = false := by
      cases hc : (c == 35)
      · rfl
      · exfalso; apply hh; simp at hc; simp [hc]
    have hcs : ∀ b ∈ cs, identChar b = true := fun b hb => hall b (by simp [hb])
    obtain ⟨t1, t2⟩ := takeWhile_append_stop (p := identChar) cs x rest hcs hx
    have hx0' : (x == 0) = false := by simp [hx0]
    simp only [List.cons_append, scan, f1, f2, f3, f4, f5, Bool.false_eq_true, if_false, identFrom, t1, t2,
      afterRun, hx0']

theorem identChar_TAB : identChar TAB = false := by decide
theorem identChar_NL : identChar NL = false := by decide

/-- a written row: name, TAB, residues, newline -/
def line (r : XRow) : Seq := r.1 ++ [TAB] ++ r.2 ++ [NL]

/-- what the round trip needs of a row -/
structure RowOk (r : XRow) : Prop where
  name : Run r.1
  nameTok : classify r.1 = .ident r.1 ∨ classify r.1 = .num r.1
  seq : Run r.2
  seqTok : classify r.2 = .ident r.2
  noDot : dotsToGaps r.2 = r.2

theorem scanIW_name (r : XRow) (h : RowOk r) (rest : Seq) :
    scanIW (line r ++ rest) = (classify r.1, TAB :: (r.2 ++ NL :: rest)) := by
  have := scan_run r.1 h.name TAB identChar_TAB (by decide) (r.2 ++ NL :: rest)
  unfold scanIW line
  simp only [List.append_assoc, List.cons_append, List.nil_append] at this ⊢
  rw [this]
  cases h.nameTok with
  | inl e => rw [e]
  | inr e => rw [e]

theorem scanIW_seq (q : Seq) (h : Run q) (rest : Seq) :
    scanIW (TAB :: (q ++ NL :: rest)) = (classify q, NL :: rest) := by
  obtain ⟨hne, hall, _⟩ := h
  have hs := scan_run q ⟨hne, hall, ‹_›⟩ NL identChar_NL (by decide) rest
  cases q with
  | nil => exact absurd rfl hne
  | cons c cs =>
    obtain ⟨f1, _, _, f4⟩ := identChar_facts c (hall c (by simp))
    have e1 : scan (TAB :: (c :: cs ++ NL :: rest)) = (.ws [TAB], c :: cs ++ NL :: rest) := by
      have w : isWS TAB = true := by decide
      simp only [scan, w, if_true, List.cons_append, List.takeWhile_cons, f1, List.dropWhile_cons,
        Bool.false_eq_true, if_false, afterRun, f4]
    unfold scanIW
    rw [e1]
    simp only
    exact hs

theorem scanIW_nl (rest : Seq) : scanIW (NL :: rest) = (.eol, rest) := by
  simp [scanIW, scan, isWS, NL, SP, TAB]

/-- one written row costs two iterations of the main loop and is one `Bag.add` -/
theorem loop_row (m : Bool) (f : Nat) (r : XRow) (h : RowOk r) (rest : Seq) (bag : Bag) :
    loop m (f + 2) (line r ++ rest) bag =
      match bag.add r.1 r.2 with
      | none => .error
      | some b => loop m f rest b := by
  rw [loop, scanIW_name r h rest]
  have hseq := scanIW_seq r.2 h.seq rest
  cases h.nameTok with
  | inl e =>
    rw [e]; simp only
    rw [hseq, h.seqTok]; simp only [h.noDot]
    cases bag.add r.1 r.2 with
    | none => rfl
    | some b => simp only; rw [loop, scanIW_nl]
  | inr e =>
    rw [e]; simp only
    rw [hseq, h.seqTok]; simp only [h.noDot]
    cases bag.add r.1 r.2 with
    | none => rfl
    | some b => simp only; rw [loop, scanIW_nl]

theorem loop_rows (m : Bool) : ∀ (rows : List XRow), (∀ r ∈ rows, RowOk r) → ∀ (f : Nat) (tail : Seq) (bag : Bag),
    loop m (f + 2 * rows.length) (rows.flatMap line ++ tail) bag =
      match addAll bag rows with
      | none => .error
      | some b => loop m f tail b
  | [], _, f, tail, bag => by simp [addAll]
  | r :: rs, h, f, tail, bag => by
    have hr := h r (by simp)
    have e : f + 2 * (r :: rs).length = (f + 2 * rs.length) + 2 := by simp; omega
    rw [e]
    simp only [List.flatMap_cons, List.append_assoc]
    rw [loop_row m _ r hr]
    simp only [addAll, List.foldlM_cons]
    cases hadd : bag.add r.1 r.2 with
    | none => simp
    | some b =>
      simp only [Option.bind_eq_bind, Option.bind_some]
      have := loop_rows m rs (fun x hx => h x (by simp [hx])) f tail b
      simpa [addAll] using this

theorem loop_end (m : Bool) (f : Nat) (bag : Bag) : loop m (f + 1) [47, 47] bag = .ok bag := by
  rw [loop]
  have hu : Utf8.upperLit [47, 47] = [47, 47] := by decide
  simp [scanIW, scan, identFrom, classify, isInt64, isWS, identChar, afterRun, NL, CR, SP, TAB, hu, isDigit]

/-- more fuel does not change a result that is not `hang` -/
theorem loop_mono (m : Bool) : ∀ (f : Nat) (inp : Seq) (bag : Bag) (r : Outcome Bag),
    loop m f inp bag = r → r ≠ .hang → loop m (f + 1) inp bag = r := by
  intro f
  induction f with
  | zero => intro inp bag r h hr; simp [loop] at h; exact absurd h.symm hr
  | succ f ih =>
    intro inp bag r h hr
    rw [loop] at h ⊢
    rcases hsc : scanIW inp with ⟨t, r1⟩
    rw [hsc] at h
    cases t <;> simp only at h ⊢
    case ident name =>
      rcases hs2 : scanIW r1 with ⟨t2, r2⟩
      rw [hs2] at h
      cases t2 <;> simp only at h ⊢ <;> try exact h
      cases ha : bag.add name (dotsToGaps ‹Seq›) <;> rw [ha] at h <;> simp only at h ⊢
      · exact h
      · exact ih _ _ _ h hr
    case num name =>
      rcases hs2 : scanIW r1 with ⟨t2, r2⟩
      rw [hs2] at h
      cases t2 <;> simp only at h ⊢ <;> try exact h
      cases ha : bag.add name (dotsToGaps ‹Seq›) <;> rw [ha] at h <;> simp only at h ⊢
      · exact h
      · exact ih _ _ _ h hr
    case markup =>
      cases hk : skipMarkup m (r1.length + 2) r1 <;> rw [hk] at h <;> simp only at h ⊢
      · exact h
      · exact ih _ _ _ h hr
    case eof => exact h
    case endTok => exact h
    all_goals exact ih _ _ _ h hr

theorem loop_mono_le (m : Bool) (f g : Nat) (hfg : f ≤ g) (inp : Seq) (bag : Bag) (r : Outcome Bag)
    (h : loop m f inp bag = r) (hr : r ≠ .hang) : loop m g inp bag = r := by
  induction g with
  | zero => have : f = 0 := by omega
            subst this; exact h
  | succ g ih =>
    by_cases e : f = g + 1
    · subst e; exact h
    · exact loop_mono m g inp bag r (ih (by omega)) hr

theorem flatMap_line_length (rows : List XRow) : 2 * rows.length ≤ (rows.flatMap line).length := by
  induction rows with
  | nil => simp
  | cons r rs ih =>
    have : (line r).length ≥ 2 := by simp [line]; omega
    simp only [List.flatMap_cons, List.length_append, List.length_cons]; omega

end Gv.Proofs.StockholmRT
