import Gv.Proofs.WeightsTape
/-!
Helper development for C20: the normalisation loops of `Dirichlet`, `BuildWeightsGamma`,
`BuildWeightsDirichlet` over `ℝ`, for all answer tapes.
-/
namespace Gv.Proofs.WeightsNorm
open Gv Gv.Model Gv.Model.FProg Gv.Model.Weights Gv.Proofs.WeightsTape

/-! ## sums of normalised lists -/

theorem sum_map_mul_div (c S : ℝ) (l : List ℝ) : (l.map fun x => c * x / S).sum = c * l.sum / S := by
  induction l with
  | nil => simp
  | cons a l ih => simp only [List.map_cons, List.sum_cons, ih]; ring

theorem sum_map_mul_div' (c S : ℝ) (l : List ℝ) : (l.map fun x => x * c / S).sum = l.sum * c / S := by
  induction l with
  | nil => simp
  | cons a l ih => simp only [List.map_cons, List.sum_cons, ih]; ring

theorem sum_pos_of_pos : ∀ (l : List ℝ), l ≠ [] → (∀ x ∈ l, 0 < x) → 0 < l.sum
  | [], h, _ => absurd rfl h
  | [a], _, hp => by simpa using hp a (by simp)
  | a :: b :: l, _, hp => by
    have := sum_pos_of_pos (b :: l) (by simp) (fun x hx => hp x (by simp [hx]))
    have ha := hp a (by simp)
    simp only [List.sum_cons] at this ⊢
    linarith

/-! ## the first loop of `Dirichlet` -/

/-- what the accumulating loop returns: the reversed accumulator followed by one draw per parameter, and
the running sum -/
theorem dirichletLoop_post {A : ℝ → Prop} {Pg : ℝ → Prop} (fuel : ℕ) :
    ∀ (alphas : List ℝ) (_hg : ∀ a ∈ alphas, 0 < a → Post A (gammaS a 1 fuel) (fun r => ∀ x, r = some x → Pg x))
      (acc : List ℝ) (sum : ℝ),
      Post A (dirichletLoop fuel alphas acc sum) (fun r => ∀ s total, r = .ok (s, total) →
        (∀ a ∈ alphas, 0 < a) ∧
        ∃ gs : List ℝ, s = acc.reverse ++ gs ∧ total = sum + gs.sum ∧ gs.length = alphas.length ∧ ∀ g ∈ gs, Pg g) := by
  intro alphas
  induction alphas with
  | nil =>
    intro _ acc sum
    refine Post.pure ?_
    intro s total h
    simp only [Res.ok.injEq, Prod.mk.injEq] at h
    obtain ⟨rfl, rfl⟩ := h
    exact ⟨by simp, [], by simp, by simp, rfl, by simp⟩
  | cons a rest ih =>
    intro hg acc sum
    unfold dirichletLoop
    simp only [RealLike.real_one]
    split
    · exact Post.pure (by intro s total h; cases h)
    · rename_i hle
      have ha : 0 < a := by
        simp only [RealLike.real_ltb, RealLike.real_zero, Bool.or_eq_true, Bool.not_eq_true', decide_eq_false_iff_not,
          decide_eq_true_eq, not_or, not_not] at hle
        exact hle.1
      refine Post.bind (hg a (by simp) ha) ?_
      intro r hr
      cases r with
      | none => exact Post.pure (by intro s total h; cases h)
      | some g =>
        refine Post.mono (ih (fun b hb => hg b (by simp [hb])) (g :: acc) (sum + g)) ?_
        intro r' h s total hs
        obtain ⟨hpos, gs, h1, h2, h3, h4⟩ := h s total hs
        refine ⟨?_, g :: gs, ?_, ?_, ?_, ?_⟩
        · intro b hb
          rcases List.mem_cons.mp hb with rfl | hb
          · exact ha
          · exact hpos b hb
        · simp [h1]
        · simp only [List.sum_cons]; rw [h2]; ring
        · simp [h3]
        · intro x hx
          rcases List.mem_cons.mp hx with rfl | hx
          · exact hr x rfl
          · exact h4 x hx

/-- a parameter the loop rejects: not positive, or `+Inf` (`> MaxFloat64`) -/
def BadAlpha (a : ℝ) : Prop := a ≤ 0 ∨ (maxFloat : ℝ) < a

theorem one_le_maxFloat : (1 : ℝ) ≤ (maxFloat : ℝ) := by
  simp only [maxFloat, RealLike.real_pow, RealLike.real_one, RealLike.real_ofNat]
  have h1 : (1 : ℝ) ≤ (2 : ℝ) ^ (52 : ℝ) := Real.one_le_rpow (by norm_num) (by norm_num)
  have h2 : (1 : ℝ) ≤ (2 : ℝ) ^ (1023 : ℝ) := Real.one_le_rpow (by norm_num) (by norm_num)
  have h3 : 1 / (2 : ℝ) ^ (52 : ℝ) ≤ 1 := by rw [div_le_one (by linarith)]; exact h1
  have h4 : (1 : ℝ) ≤ 2 - 1 / (2 : ℝ) ^ (52 : ℝ) := by linarith
  calc (1 : ℝ) = 1 * 1 := by ring
    _ ≤ (2 - 1 / (2 : ℝ) ^ (52 : ℝ)) * (2 : ℝ) ^ (1023 : ℝ) := mul_le_mul h4 h2 (by norm_num) (by linarith)

/-- error analysis of the loop: `err` exactly when some parameter is rejected (unless the fuel of an
earlier draw ran out first); never `exit` -/
theorem dirichletLoop_err {A : ℝ → Prop} (fuel : ℕ) :
    ∀ (alphas acc : List ℝ) (sum : ℝ),
      Post A (dirichletLoop fuel alphas acc sum) (fun r =>
        (r = .err → ∃ a ∈ alphas, BadAlpha a) ∧ ((∃ a ∈ alphas, BadAlpha a) → r = .err ∨ r = .fuel) ∧ r ≠ .exit) := by
  intro alphas
  induction alphas with
  | nil =>
    intro acc sum
    exact Post.pure ⟨(by intro h; cases h), (by rintro ⟨a, ha, _⟩; cases ha), (by intro h; cases h)⟩
  | cons a rest ih =>
    intro acc sum
    unfold dirichletLoop
    split
    · rename_i hle
      simp only [RealLike.real_ltb, RealLike.real_zero, Bool.or_eq_true, Bool.not_eq_true', decide_eq_false_iff_not,
        decide_eq_true_eq, not_lt] at hle
      exact Post.pure ⟨fun _ => ⟨a, by simp, hle⟩, fun _ => Or.inl rfl, (by intro h; cases h)⟩
    · rename_i hle
      simp only [RealLike.real_ltb, RealLike.real_zero, Bool.or_eq_true, Bool.not_eq_true', decide_eq_false_iff_not,
        decide_eq_true_eq, not_lt] at hle
      refine Post.bind (Post.trivial _) ?_
      · intro r _
        cases r with
        | none => exact Post.pure ⟨(by intro h; cases h), fun _ => Or.inr rfl, (by intro h; cases h)⟩
        | some g =>
          refine Post.mono (ih (g :: acc) (sum + g)) ?_
          rintro r' ⟨h1, h2, h3⟩
          refine ⟨?_, ?_, h3⟩
          · intro h
            obtain ⟨b, hb, hb0⟩ := h1 h
            exact ⟨b, by simp [hb], hb0⟩
          · rintro ⟨b, hb, hb0⟩
            rcases List.mem_cons.mp hb with rfl | hb
            · exact absurd hb0 hle
            · exact h2 ⟨b, hb, hb0⟩

/-! ## `Dirichlet` -/

/-- shape of a successful `Dirichlet` call: more than two strictly positive parameters, one draw per
parameter, every entry is `factor · draw / Σ draws` -/
theorem dirichlet_post {A : ℝ → Prop} {Pg : ℝ → Prop} (fuel : ℕ) (factor : ℝ) (alphas : List ℝ)
    (hg : ∀ a ∈ alphas, 0 < a → Post A (gammaS a 1 fuel) (fun r => ∀ x, r = some x → Pg x)) :
    Post A (dirichlet factor alphas fuel) (fun r => ∀ w, r = .ok w →
      2 < alphas.length ∧ (∀ a ∈ alphas, 0 < a) ∧
      ∃ gs : List ℝ, gs.length = alphas.length ∧ (∀ g ∈ gs, Pg g) ∧ w = gs.map (fun x => factor * x / gs.sum)) := by
  unfold dirichlet
  simp only [RealLike.real_zero]
  split
  · exact Post.pure (by intro w h; cases h)
  · rename_i hlen
    refine Post.bind (dirichletLoop_post fuel alphas hg [] 0) ?_
    intro r hr
    cases r with
    | ok v =>
      obtain ⟨s, total⟩ := v
      refine Post.pure ?_
      intro w hw
      simp only [Res.ok.injEq] at hw
      obtain ⟨hpos, gs, h1, h2, h3, h4⟩ := hr s total rfl
      simp only [List.reverse_nil, List.nil_append] at h1
      simp only [zero_add] at h2
      subst h1 h2
      exact ⟨by omega, hpos, s, h3, h4, hw.symm⟩
    | err => exact Post.pure (by intro w h; cases h)
    | exit => exact Post.pure (by intro w h; cases h)
    | fuel => exact Post.pure (by intro w h; cases h)

/-- the error rule of `Dirichlet` (the code says `len(alpha) <= 2`) -/
theorem dirichlet_err {A : ℝ → Prop} (fuel : ℕ) (factor : ℝ) (alphas : List ℝ) :
    Post A (dirichlet factor alphas fuel) (fun r =>
      (r = .err → alphas.length ≤ 2 ∨ ∃ a ∈ alphas, BadAlpha a) ∧
      ((alphas.length ≤ 2 ∨ ∃ a ∈ alphas, BadAlpha a) → r = .err ∨ r = .fuel) ∧ r ≠ .exit) := by
  unfold dirichlet
  simp only [RealLike.real_zero]
  split
  · rename_i hlen
    exact Post.pure ⟨fun _ => Or.inl hlen, fun _ => Or.inl rfl, (by intro h; cases h)⟩
  · rename_i hlen
    refine Post.bind (dirichletLoop_err fuel alphas [] 0) ?_
    rintro r ⟨h1, h2, h3⟩
    cases r with
    | ok v =>
      refine Post.pure ⟨(by intro h; cases h), ?_, (by intro h; cases h)⟩
      rintro (h | h)
      · exact absurd h hlen
      · rcases h2 h with h | h <;> cases h
    | err => exact Post.pure ⟨fun _ => Or.inr (h1 rfl), fun _ => Or.inl rfl, (by intro h; cases h)⟩
    | exit => exact absurd rfl h3
    | fuel => exact Post.pure ⟨(by intro h; cases h), fun _ => Or.inr rfl, (by intro h; cases h)⟩

/-- a normalised positive sample sums to the factor and is entrywise positive -/
theorem normalised_sum {factor : ℝ} {gs : List ℝ} (hne : gs ≠ []) (hpos : ∀ g ∈ gs, 0 < g) :
    (gs.map (fun x => factor * x / gs.sum)).sum = factor := by
  have hS := sum_pos_of_pos gs hne hpos
  rw [sum_map_mul_div]; field_simp

/-! ## `BuildWeightsGamma` -/

theorem gammaS_post_of_one_lt (A : ℝ → Prop) {alpha beta : ℝ} (ha : 1 < alpha) (hb : 0 < beta) (fuel : ℕ) :
    Post A (gammaS alpha beta fuel) (fun r => ∀ x, r = some x → 0 < x) := by
  unfold gammaS
  rw [if_pos (by simp [ha])]
  exact gammaCheng_post _ (by linarith) hb fuel

theorem gammaExported_post {A : ℝ → Prop} {Pg : ℝ → Prop} {alpha beta : ℝ} (ha : 0 < alpha) (hb : 0 < beta) (fuel : ℕ)
    (hg : Post A (gammaS alpha beta fuel) (fun r => ∀ x, r = some x → Pg x)) :
    Post A (gammaExported alpha beta fuel) (fun r => r ≠ .err ∧ r ≠ .exit ∧ ∀ x, r = .ok x → Pg x) := by
  unfold gammaExported
  rw [if_neg (by simp [ha, hb])]
  refine Post.bind hg ?_
  intro r hr
  cases r with
  | none => exact Post.pure ⟨(by intro h; cases h), (by intro h; cases h), (by intro x h; cases h)⟩
  | some g =>
    refine Post.pure ⟨(by intro h; cases h), (by intro h; cases h), ?_⟩
    intro x hx
    simp only [Res.ok.injEq] at hx
    exact hr x (by rw [hx])

theorem weightsGammaLoop_post {A : ℝ → Prop} {Pg : ℝ → Prop} {alpha beta : ℝ} (ha : 0 < alpha) (hb : 0 < beta) (fuel : ℕ)
    (hg : Post A (gammaS alpha beta fuel) (fun r => ∀ x, r = some x → Pg x)) :
    ∀ (n : ℕ) (acc : List ℝ) (total : ℝ),
      Post A (weightsGammaLoop alpha beta fuel n acc total) (fun r => r ≠ .err ∧ r ≠ .exit ∧
        ∀ s tot, r = .ok (s, tot) →
          ∃ gs : List ℝ, s = acc.reverse ++ gs ∧ tot = total + gs.sum ∧ gs.length = n ∧ ∀ g ∈ gs, Pg g) := by
  intro n
  induction n with
  | zero =>
    intro acc total
    refine Post.pure ⟨(by intro h; cases h), (by intro h; cases h), ?_⟩
    intro s tot h
    simp only [Res.ok.injEq, Prod.mk.injEq] at h
    obtain ⟨rfl, rfl⟩ := h
    exact ⟨[], by simp, by simp, rfl, by simp⟩
  | succ n ih =>
    intro acc total
    unfold weightsGammaLoop
    refine Post.bind (gammaExported_post ha hb fuel hg) ?_
    rintro r ⟨h1, h2, h3⟩
    cases r with
    | ok g =>
      refine Post.mono (ih (g :: acc) (total + g)) ?_
      rintro r' ⟨e1, e2, e3⟩
      refine ⟨e1, e2, ?_⟩
      intro s tot hs
      obtain ⟨gs, q1, q2, q3, q4⟩ := e3 s tot hs
      refine ⟨g :: gs, by simp [q1], ?_, by simp [q3], ?_⟩
      · simp only [List.sum_cons]; rw [q2]; ring
      · intro x hx
        rcases List.mem_cons.mp hx with rfl | hx
        · exact h3 x rfl
        · exact q4 x hx
    | err => exact absurd rfl h1
    | exit => exact absurd rfl h2
    | fuel => exact Post.pure ⟨(by intro h; cases h), (by intro h; cases h), (by intro s tot h; cases h)⟩

theorem wgAlpha_real (L : ℕ) : (wgAlpha L : ℝ) = (L : ℝ) * (1 / (L : ℝ)) / (1 - 1 / (L : ℝ)) := by
  simp [wgAlpha]

theorem wgBeta_real (L : ℕ) : (wgBeta L : ℝ) = 1 - 1 / (L : ℝ) := by
  simp [wgBeta]

theorem wgBeta_pos {L : ℕ} (hL : 2 ≤ L) : 0 < (wgBeta L : ℝ) := by
  rw [wgBeta_real]
  have h2 : (2 : ℝ) ≤ (L : ℝ) := by exact_mod_cast hL
  have : 1 / (L : ℝ) ≤ 1 / 2 := one_div_le_one_div_of_le (by norm_num) h2
  linarith

theorem wgAlpha_gt_one {L : ℕ} (hL : 2 ≤ L) : 1 < (wgAlpha L : ℝ) := by
  have hb := wgBeta_pos hL
  rw [wgBeta_real] at hb
  rw [wgAlpha_real]
  have h2 : (2 : ℝ) ≤ (L : ℝ) := by exact_mod_cast hL
  have hL0 : (0 : ℝ) < (L : ℝ) := by linarith
  rw [mul_one_div_cancel hL0.ne', lt_div_iff₀ hb]
  have : 0 < 1 / (L : ℝ) := by positivity
  linarith

/-- `BuildWeightsGamma` on an alignment of length `L ≥ 2`, for EVERY tape -/
theorem buildWeightsGamma_post (A : ℝ → Prop) {L : ℕ} (hL : 2 ≤ L) (fuel : ℕ) :
    Post A (buildWeightsGamma L fuel) (fun r => r ≠ .err ∧ r ≠ .exit ∧ ∀ w, r = .ok w →
      w.length = L ∧ (∀ x ∈ w, 0 < x) ∧ w.sum = (L : ℝ)) := by
  unfold buildWeightsGamma
  simp only [RealLike.real_zero]
  have ha := wgAlpha_gt_one hL
  have hb := wgBeta_pos hL
  refine Post.bind (weightsGammaLoop_post (by linarith) hb fuel (gammaS_post_of_one_lt A ha hb fuel) L [] 0) ?_
  rintro r ⟨h1, h2, h3⟩
  cases r with
  | ok v =>
    obtain ⟨s, tot⟩ := v
    refine Post.pure ⟨(by intro h; cases h), (by intro h; cases h), ?_⟩
    intro w hw
    simp only [Res.ok.injEq] at hw
    obtain ⟨gs, q1, q2, q3, q4⟩ := h3 s tot rfl
    simp only [List.reverse_nil, List.nil_append] at q1
    simp only [zero_add] at q2
    subst q1 q2
    have hne : s ≠ [] := by intro h; rw [h] at q3; simp at q3; omega
    have hS := sum_pos_of_pos s hne q4
    have hL0 : (0 : ℝ) < (L : ℝ) := by exact_mod_cast (by omega : 0 < L)
    subst hw
    refine ⟨by simp [q3], ?_, ?_⟩
    · intro x hx
      simp only [List.mem_map, RealLike.real_ofNat'] at hx
      obtain ⟨g, hg, rfl⟩ := hx
      have := q4 g hg
      positivity
    · simp only [RealLike.real_ofNat']
      rw [sum_map_mul_div']; field_simp
  | err => exact absurd rfl h1
  | exit => exact absurd rfl h2
  | fuel => exact Post.pure ⟨(by intro h; cases h), (by intro h; cases h), (by intro w h; cases h)⟩

/-! ## `BuildWeightsDirichlet` -/

/-- `BuildWeightsDirichlet` on an alignment of length `L ≥ 3`, for every tape of `rand.Float64()` answers -/
theorem buildWeightsDirichlet_post {L : ℕ} (hL : 3 ≤ L) (fuel : ℕ) :
    Post Unit01 (buildWeightsDirichlet L fuel) (fun r => r ≠ .err ∧ r ≠ .exit ∧ ∀ w, r = .ok w →
      w.length = L ∧ (∀ x ∈ w, 0 < x) ∧ w.sum = (L : ℝ)) := by
  unfold buildWeightsDirichlet
  have hg : ∀ a ∈ List.replicate L (1 : ℝ), 0 < a →
      Post Unit01 (gammaS a 1 fuel) (fun r => ∀ x, r = some x → 0 < x) := by
    intro a ha _
    rw [List.eq_of_mem_replicate ha]
    exact gammaS_post_of_one_le le_rfl one_pos fuel
  simp only [RealLike.real_one, RealLike.real_ofNat']
  refine Post.bind (Q₁ := fun r => r ≠ .exit ∧ r ≠ .err ∧ ∀ w, r = .ok w →
      w.length = L ∧ (∀ x ∈ w, 0 < x) ∧ w.sum = (L : ℝ)) ?_ ?_
  · intro t ht r t' hr
    have h1 := dirichlet_post (Pg := fun x => 0 < x) fuel (L : ℝ) (List.replicate L 1) hg t ht r t' hr
    have h2 := dirichlet_err (A := Unit01) fuel (L : ℝ) (List.replicate L 1) t ht r t' hr
    refine ⟨⟨h2.1.2.2, ?_, ?_⟩, h1.2⟩
    · intro he
      rcases h2.1.1 he with h | ⟨a, ha, ha0⟩
      · simp at h; omega
      · rw [List.eq_of_mem_replicate ha] at ha0
        rcases ha0 with h | h
        · linarith
        · exact absurd h (not_lt.2 one_le_maxFloat)
    · intro w hw
      obtain ⟨_, _, gs, g1, g2, g3⟩ := h1.1 w hw
      have hlen : gs.length = L := by simpa using g1
      have hne : gs ≠ [] := by intro h; rw [h] at hlen; simp at hlen; omega
      have hS := sum_pos_of_pos gs hne g2
      have hL0 : (0 : ℝ) < (L : ℝ) := by exact_mod_cast (by omega : 0 < L)
      subst g3
      refine ⟨by simp [hlen], ?_, normalised_sum hne g2⟩
      intro x hx
      simp only [List.mem_map] at hx
      obtain ⟨g, hg', rfl⟩ := hx
      have := g2 g hg'
      positivity
  · rintro r ⟨h1, h2, h3⟩
    cases r with
    | ok w => exact Post.pure ⟨(by intro h; cases h), (by intro h; cases h), fun w' hw' => by
        simp only [Res.ok.injEq] at hw'; subst hw'; exact h3 w rfl⟩
    | err => exact absurd rfl h2
    | exit => exact absurd rfl h1
    | fuel => exact Post.pure ⟨(by intro h; cases h), (by intro h; cases h), (by intro w h; cases h)⟩

end Gv.Proofs.WeightsNorm
