import Gv.Proofs.ClustalRT
/-!
Clustal round trip, helper development, part 2: the main loop of `Parse` over the rows of a block, the
conservation line and the transition to the next block.
-/
namespace Gv.Proofs.ClustalRT
open Gv Gv.Model Gv.Model.Fmt Gv.Model.Fmt.Clustal
open Gv.Model.Fmt.Phylip (isWS identChar afterRun parseInt64 Stop R isDigit)
open Gv.Proofs.PhylipRT (Run Res identChar_facts isWS_SP identChar_SP identChar_NL)

set_option maxRecDepth 100000

/-- a name the lexer hands to the row loop as a sequence identifier -/
def NameOk (nm : Name) : Prop := Run nm ∧ (classify nm = .ident nm ∨ classify nm = .num nm)

/-- the lexer on a row: the name token, the rest of the row still to read -/
theorem name_scan (nm : Name) (hn : Run nm) (k : Nat) (sg : Seq) (e : Nat) (T : Seq) (l : Tok) :
    St.scan ⟨nm ++ rowTail k sg e ++ T, l, false⟩ = .ok (classify nm, ⟨rowTail k sg e ++ T, classify nm, false⟩) := by
  have := scan_run nm hn SP identChar_SP (by decide) (List.replicate k SP ++ sg ++ SP :: (natDec e ++ [NL]) ++ T)
  have e0 : nm ++ rowTail k sg e ++ T = nm ++ SP :: (List.replicate k SP ++ sg ++ SP :: (natDec e ++ [NL]) ++ T) := by
    simp [rowTail, List.replicate_succ, List.append_assoc]
  have e1 : rowTail k sg e ++ T = SP :: (List.replicate k SP ++ sg ++ SP :: (natDec e ++ [NL]) ++ T) := by
    simp [rowTail, List.replicate_succ, List.append_assoc]
  rw [e0, e1]
  exact st_scan _ _ _ _ this

theorem nameOk_tok (nm : Name) (h : NameOk nm) :
    (classify nm == Tok.ws) = false ∧ (classify nm == Tok.eof) = false ∧ (classify nm != Tok.eol) = true := by
  cases h.2 with
  | inl h => rw [h]; simp
  | inr h => rw [h]; simp

/-- one iteration of the main loop on a row whose name token is the next token -/
theorem loop_row (c : Bool) (f : Nat) (s : St) (ls ls' : LS) (nm : Name) (hn : NameOk nm) (k : Nat) (sg : Seq)
    (hsg : SegOk sg) (e : Nat) (he : e ≤ 9223372036854775807) (T : Seq) (l : Tok)
    (hs : s.scan = .ok (classify nm, ⟨rowTail k sg e ++ T, l, false⟩))
    (hp : place c ls nm sg = .ok ls') :
    loop c (f + 1) .eol s ls = loop c f .eol ⟨T, .eol, false⟩ ls' := by
  obtain ⟨t1, _, _⟩ := nameOk_tok nm hn
  rw [loop]
  simp only [reduceCtorEq, beq_iff_eq, if_false, hs, bind, Except.bind, t1, Bool.false_eq_true, pure, Except.pure]
  rw [row_written nm (classify nm) (by cases hn.2 with | inl h => exact Or.inl h | inr h => exact Or.inr h)
    k sg hsg e he T l]
  simp only [hp]

/-! ### `place` -/

theorem place_first (c : Bool) (nb cu : Nat) (A : List XRow) (nm : Name) (sg : Seq) :
    place c ⟨nb, cu, 0, A⟩ nm sg = .ok ⟨nb, cu + 1, 0, A ++ [(nm, sg)]⟩ := by
  simp [place, pure, Except.pure]

theorem mapIdx_id : ∀ (B : List XRow) (g : Nat → XRow → XRow), (∀ i r, g i r = r) → B.mapIdx g = B
  | [], _, _ => rfl
  | b :: B, g, h => by
    rw [List.mapIdx_cons, h 0 b, mapIdx_id B (fun i => g (i + 1)) (fun i r => h (i + 1) r)]

theorem setRow_at (x : XRow) (B : List XRow) (sg : Seq) : ∀ (A : List XRow),
    setRow (A ++ x :: B) A.length sg = A ++ (x.1, x.2 ++ sg) :: B
  | [] => by
    simp only [setRow, List.nil_append, List.length_nil, List.mapIdx_cons, beq_self_eq_true, if_true]
    rw [mapIdx_id B _ (fun i r => by simp)]
  | a :: A => by
    have ih := setRow_at x B sg A
    simp only [setRow] at ih
    simp only [setRow, List.cons_append, List.length_cons, List.mapIdx_cons]
    have hshift : (fun (i : Nat) (r : XRow) => if (i + 1 == A.length + 1) = true then (r.1, r.2 ++ sg) else r) =
        (fun (i : Nat) (r : XRow) => if (i == A.length) = true then (r.1, r.2 ++ sg) else r) := by
      funext i r; simp
    rw [hshift, ih]
    simp

theorem place_later (c : Bool) (nb k : Nat) (A B : List XRow) (nm : Name) (q sg : Seq) :
    place c ⟨nb, A.length, k + 1, A ++ (nm, q) :: B⟩ nm sg =
      .ok ⟨nb, A.length + 1, k + 1, A ++ (nm, q ++ sg) :: B⟩ := by
  have hget : (A ++ (nm, q) :: B)[A.length]? = some (nm, q) := by simp
  simp only [place, Nat.add_one_ne_zero, beq_iff_eq, if_false, hget, bne_self_eq_false, Bool.false_eq_true,
    pure, Except.pure, setRow_at (nm, q) B sg A]

/-! ### the rows of a block -/

section Rows
variable (c : Bool) (maxname L W : Nat)

/-- the residues of `r` in the block at column `cur` -/
def cseg (cur : Nat) (r : XRow) : Seq := (r.2.drop cur).take (min (cur + W) L - cur)

/-- a written row -/
def rowText (cur : Nat) (r : XRow) : Seq :=
  r.1 ++ rowTail (maxname + 2 - r.1.length) (cseg L W cur r) (min (cur + W) L)

/-- a row the Clustal parser reads back as it was written -/
structure RowOk (r : XRow) : Prop where
  name : NameOk r.1
  seg : ∀ cur, cur < L → SegOk (cseg L W cur r)
  len : r.2.length = L

variable (hLmax : L ≤ 9223372036854775807)
include hLmax

/-- the rows of the first block, after the first one -/
theorem first_block_rows : ∀ (B : List XRow), (∀ r ∈ B, RowOk L W r) → 0 < L → ∀ (A : List XRow) (nb cu f : Nat) (T : Seq),
    loop c (f + B.length) .eol ⟨B.flatMap (rowText maxname L W 0) ++ T, .eol, false⟩ ⟨nb, cu, 0, A⟩ =
      loop c f .eol ⟨T, .eol, false⟩ ⟨nb, cu + B.length, 0, A ++ B.map (fun r => (r.1, cseg L W 0 r))⟩
  | [], _, _, A, nb, cu, f, T => by simp
  | r :: B, h, hL, A, nb, cu, f, T => by
    have hr := h r (by simp)
    have ih := first_block_rows B (fun x hx => h x (by simp [hx])) hL (A ++ [(r.1, cseg L W 0 r)]) nb (cu + 1) f T
    simp only [List.flatMap_cons, List.length_cons, List.map_cons]
    rw [List.append_assoc, ← Nat.add_assoc,
      show rowText maxname L W 0 r = r.1 ++ rowTail (maxname + 2 - r.1.length) (cseg L W 0 r) (min (0 + W) L) from rfl]
    rw [loop_row c (f + B.length) _ _ _ r.1 hr.name _ _ (hr.seg 0 hL) _ (by omega) _ _
      (name_scan r.1 hr.name.1 _ _ _ _ .eol) (place_first c nb cu A r.1 _), ih]
    simp [Nat.add_assoc, Nat.add_comm 1]

/-- the rows of a later block, after the first one -/
theorem later_block_rows (cur : Nat) (hc : cur < L) : ∀ (B : List XRow), (∀ r ∈ B, RowOk L W r) →
    ∀ (A : List XRow) (nb k f : Nat) (T : Seq),
    loop c (f + B.length) .eol ⟨B.flatMap (rowText maxname L W cur) ++ T, .eol, false⟩
        ⟨nb, A.length, k + 1, A ++ B.map (fun r => (r.1, r.2.take cur))⟩ =
      loop c f .eol ⟨T, .eol, false⟩
        ⟨nb, A.length + B.length, k + 1, A ++ B.map (fun r => (r.1, r.2.take cur ++ cseg L W cur r))⟩
  | [], _, A, nb, k, f, T => by simp
  | r :: B, h, A, nb, k, f, T => by
    have hr := h r (by simp)
    have ih := later_block_rows cur hc B (fun x hx => h x (by simp [hx]))
      (A ++ [(r.1, r.2.take cur ++ cseg L W cur r)]) nb k f T
    simp only [List.flatMap_cons, List.length_cons, List.map_cons]
    rw [List.append_assoc, ← Nat.add_assoc,
      show rowText maxname L W cur r = r.1 ++ rowTail (maxname + 2 - r.1.length) (cseg L W cur r) (min (cur + W) L) from rfl]
    rw [loop_row c (f + B.length) _ _ _ r.1 hr.name _ _ (hr.seg cur hc) _ (by omega) _ _
      (name_scan r.1 hr.name.1 _ _ _ _ .eol) (place_later c nb k A _ r.1 _ _)]
    simp only [List.length_append, List.length_cons, List.length_nil, List.append_assoc, List.cons_append,
      List.nil_append, Nat.zero_add] at ih
    rw [ih]
    simp [Nat.add_assoc, Nat.add_comm 1]

end Rows

/-! ### the conservation line and what follows it -/

/-- the last conservation line of the file -/
theorem loop_end (c : Bool) (f : Nat) (v : Seq) (hv : NoEol (SP :: v)) (ls : LS) (h0 : ls.cur ≠ 0)
    (hnb : ls.nbseq = 0 ∨ ls.cur = ls.nbseq) :
    loop c (f + 1) .eol ⟨SP :: v ++ [NL], .eol, false⟩ ls = .ok ls := by
  obtain ⟨t, v', hs, _, _, hl, hv', hws⟩ := scan_step SP v hv []
  obtain rfl := hws isWS_SP
  have hsk := skipLine_line ((v' ++ [NL]).length + 3) v' hv' (by simp) .ws .ws [] (by decide) (by decide)
  have hc1 : (ls.cur == 0) = false := by simpa using h0
  have hc2 : (ls.nbseq != 0 && ls.cur != ls.nbseq) = false := by
    cases hnb with
    | inl h => simp [h]
    | inr h => simp [h]
  rw [loop]
  simp only [reduceCtorEq, beq_iff_eq, if_false, st_scan _ _ _ _ hs, bind, Except.bind, beq_self_eq_true, if_true]
  unfold blockEnd
  simp only [hc1, hc2, Bool.false_eq_true, if_false, bind, Except.bind, pure, Except.pure, hsk,
    bne_self_eq_false, scanWithEOL_of _ _ _ (st_scan _ _ _ _ scan_nil) (by decide), beq_self_eq_true, if_true]

/-- a conservation line, the empty line after it, the first row of the next block -/
theorem loop_next (c : Bool) (f : Nat) (v : Seq) (hv : NoEol (SP :: v)) (ls ls' : LS) (h0 : ls.cur ≠ 0)
    (hnb : ls.nbseq = 0 ∨ ls.cur = ls.nbseq) (nm : Name) (hn : NameOk nm) (k : Nat) (sg : Seq) (hsg : SegOk sg)
    (e : Nat) (he : e ≤ 9223372036854775807) (T : Seq)
    (hp : place c { ls with nbseq := ls.cur, nblocks := ls.nblocks + 1, cur := 0 } nm sg = .ok ls') :
    loop c (f + 1) .eol ⟨SP :: v ++ NL :: NL :: (nm ++ rowTail k sg e ++ T), .eol, false⟩ ls =
      loop c f .eol ⟨T, .eol, false⟩ ls' := by
  obtain ⟨t, v', hs, _, _, hl, hv', hws⟩ := scan_step SP v hv (NL :: (nm ++ rowTail k sg e ++ T))
  obtain rfl := hws isWS_SP
  obtain ⟨t1, t2, t3⟩ := nameOk_tok nm hn
  have hsk := skipLine_line ((v' ++ NL :: NL :: (nm ++ rowTail k sg e ++ T)).length + 3) v' hv'
    (by simp only [List.length_append, List.length_cons]; omega) .ws .ws
    (NL :: (nm ++ rowTail k sg e ++ T)) (by decide) (by decide)
  have hc1 : (ls.cur == 0) = false := by simpa using h0
  have hc2 : (ls.nbseq != 0 && ls.cur != ls.nbseq) = false := by
    cases hnb with
    | inl h => simp [h]
    | inr h => simp [h]
  have hnm := name_scan nm hn.1 k sg e T .eol
  have hwe : scanWithEOL ⟨NL :: (nm ++ rowTail k sg e ++ T), .eol, false⟩ =
      .ok (.eol, ⟨rowTail k sg e ++ T, classify nm, true⟩) := by
    unfold scanWithEOL
    simp only [st_scan _ _ _ _ (scan_nl _), bind, Except.bind, bne_self_eq_false, Bool.false_eq_true, if_false]
    rw [skipEols]
    simp only [hnm, bind, Except.bind, pure, Except.pure, St.unscan]
    have : (classify nm == Tok.eol) = false := by simpa using t3
    simp [this]
  rw [loop]
  simp only [reduceCtorEq, beq_iff_eq, if_false, st_scan _ _ _ _ hs, bind, Except.bind, beq_self_eq_true, if_true]
  unfold blockEnd
  simp only [hc1, hc2, Bool.false_eq_true, if_false, bind, Except.bind, pure, Except.pure, hsk,
    bne_self_eq_false, hwe, reduceCtorEq, beq_iff_eq, st_scan_pushed, t2]
  rw [row_written nm (classify nm) (by cases hn.2 with | inl h => exact Or.inl h | inr h => exact Or.inr h)
    k sg hsg e he T _]
  simp only [hp]

end Gv.Proofs.ClustalRT
