import Gv.Proofs.BagRefExt
import Gv.Proofs.BagRefExt2
import Gv.Proofs.BagExt3
/-!
Refinement (C01), part 13: the operations that only rewrite residues in place — `ReverseComplementSequences`, …
-/
namespace Gv.Proofs.BagAbs
open Gv Gv.Model Gv.Spec Gv.Proofs.BagInv

theorem SameShape.good {b' b : Bag} (s : SameShape b' b) (h : Good b) : Good b' :=
  h.transfer_seqs s.keys s.index s.next s.isAlign s.alphabet (s.rect h.rect)

theorem setSeqById_of_not_mem (i : Nat) (s : Seq) (rows : List Row) (h : i ∉ rows.map (·.id)) :
    setSeqById i s rows = rows := by
  induction rows with
  | nil => rfl
  | cons x t ih =>
    simp only [List.map_cons, List.mem_cons, not_or] at h
    have hx : (x.id == i) = false := by simpa using fun e => h.1 e.symm
    have := ih h.2
    simp only [setSeqById, List.map_cons] at this ⊢
    rw [this, hx]; simp

/-- writing `f` of its buffer through the pointer of the first row called `n` = updating the first pair called `n` -/
theorem pairs_setSeqById {rows : List Row} (hn : (rows.map (·.id)).Nodup) {n : String} {r0 : Row}
    (hf : rows.find? (fun r => r.name == n) = some r0) (f : Seq → Seq) :
    (setSeqById r0.id (f r0.seq) rows).map (fun r => (r.name, r.seq)) =
      updateFirst n f (rows.map fun r => (r.name, r.seq)) := by
  induction rows with
  | nil => simp at hf
  | cons x t ih =>
    simp only [List.map_cons, List.nodup_cons] at hn
    simp only [List.find?_cons] at hf
    by_cases hx : (x.name == n) = true
    · simp only [hx, Option.some.injEq] at hf
      subst hf
      have htail := setSeqById_of_not_mem x.id (f x.seq) t hn.1
      simp only [setSeqById, List.map_cons] at htail ⊢
      rw [htail]
      simp [updateFirst, hx]
    · have hx' : (x.name == n) = false := by simpa using hx
      simp only [hx'] at hf
      have hmem : r0 ∈ t := List.mem_of_find?_eq_some hf
      have hid : (x.id == r0.id) = false := by
        have : x.id ≠ r0.id := fun e => hn.1 (e ▸ List.mem_map_of_mem (f := (·.id)) hmem)
        simpa using this
      have := ih hn.2 hf
      simp only [setSeqById, List.map_cons] at this ⊢
      rw [this, hid]
      simp [updateFirst, hx']

/-! ### `ReverseComplementSequences` -/

theorem revcompSeq_ok (s : Seq) (h : (s.any fun c => (complementByte c).isNone) = false) :
    revcompSeq s = ((complMap s).reverse, false) := by
  simp [revcompSeq, complementSeq_ok s h]

/-- where the reference gives rows, the loop over the index gives those rows and no error -/
theorem revcompNamedBag_ref (names : List String) : ∀ (b : Bag), Good b → ∀ rows',
    revcompNamedRef names (pairs b) = some rows' →
      pairs (revcompNamedBag names b).1 = rows' ∧ (revcompNamedBag names b).2 = false := by
  induction names with
  | nil =>
    intro b _ rows' e
    simp only [revcompNamedRef, Option.some.injEq] at e
    exact ⟨e, rfl⟩
  | cons nm rest ih =>
    intro b h rows' e
    simp only [revcompNamedRef, pairs, firstNamed_pairs] at e
    simp only [revcompNamedBag, getByName_eq_find h]
    cases hf : b.rows.find? (fun r => r.name == nm) with
    | none =>
      simp only [hf, Option.map_none] at e
      exact ih b h rows' e
    | some r0 =>
      simp only [hf, Option.map_some] at e
      split at e
      · cases e
      · rename_i hbad
        have hbad' : (r0.seq.any fun c => (complementByte c).isNone) = false := by simpa using hbad
        simp only [revcompSeq_ok _ hbad', Bool.false_eq_true, if_false]
        have hs : SameShape { b with rows := setSeqById r0.id (complMap r0.seq).reverse b.rows } b := by
          apply sameShape_setSeqById
          intro x hx e'
          have : x = r0 := by
            have h1 := deref_of_mem h.inv.ids_nodup hx
            have h2 := deref_of_mem h.inv.ids_nodup (List.mem_of_find?_eq_some hf)
            rw [e', h2] at h1
            exact (Option.some.inj h1).symm
          rw [this]; simp [complMap]
        have hp := pairs_setSeqById h.inv.ids_nodup hf (fun s => (complMap s).reverse)
        apply ih _ (hs.good h) rows'
        simp only [pairs]
        rw [hp]
        exact e

theorem ref_revcompSeqs {b : Bag} (h : Good b) (names : List String) : Refines b (.revcompSeqs names) := by
  intro s' st e
  simp only [Spec.stepOp] at e
  simp only [Model.stepOp]
  by_cases ha : ((abs b).alphabet != NUCLEOTIDS) = true
  · have hv : reverseComplementSequences names b = (b, true) := by
      unfold reverseComplementSequences; exact if_pos ha
    rw [if_pos ha] at e
    simp only [Prod.mk.injEq, Option.some.injEq] at e
    simp only [hv]
    exact ⟨e.1, by simpa using e.2, h⟩
  · have hv : reverseComplementSequences names b = revcompNamedBag names b := by
      unfold reverseComplementSequences; exact if_neg ha
    rw [if_neg ha] at e
    simp only [hv]
    cases hr : revcompNamedRef names (pairs b) with
    | none => simp [hr] at e
    | some rows' =>
      simp only [abs_rows, hr, Prod.mk.injEq, Option.some.injEq] at e
      obtain ⟨h1, h2⟩ := revcompNamedBag_ref names b h rows' hr
      have hs := sameShape_revcompNamedBag names b h.inv
      refine ⟨?_, by simp only [h2]; simpa using e.2, hs.good h⟩
      rw [← e.1]
      simp only [abs, h1, hs.policy, hs.alphabet, hs.isAlign]

/-! ### `DiffWithFirst`, `ReplaceMatchChars` -/

theorem mapIdx_eq_zipIdx_map (o : Seq) (g : Nat → Byte → Byte) (k : Byte × Nat → Byte)
    (h : ∀ i (hi : i < o.length), g i o[i] = k (o[i], i)) : o.mapIdx g = o.zipIdx.map k := by
  apply List.ext_getElem
  · simp
  · intro i h1 h2
    have hi : i < o.length := by simpa using h1
    simp [h i hi]

theorem abs_againstFirst (g : Seq → Seq → Seq) (b : Bag) :
    abs { b with rows := withSeqs b.rows (againstFirst g (pairs b)) } =
      { abs b with rows := againstFirst g (pairs b) } := by
  have := pairs_withSeqs b.rows _ ((againstFirst_names g _).trans (pairs_names b))
  simp only [abs, pairs] at this ⊢
  rw [this]

theorem rect_pairs_len {b : Bag} (h : Rect b) (ha : b.isAlign = true) :
    ∀ p ∈ pairs b, p.2.length = b.length.toNat := by
  intro p hp
  obtain ⟨r, hr, rfl⟩ := List.mem_map.mp hp
  have := h.rows_len ha r hr
  simp only []
  omega

theorem diffCell_eq (f : Seq) (i : Nat) (c : Byte) :
    (decide (i < f.length) && f.getD i 0 == c) = (f[i]? == some c) := by
  by_cases hi : i < f.length
  · simp [hi, List.getD_eq_getElem?_getD, List.getElem?_eq_getElem hi]
  · have : f[i]? = none := List.getElem?_eq_none (by omega)
    simp [hi, this]

theorem diffSeq_eq (f o : Seq) :
    diffSeq f o = o.zipIdx.map fun (c, i) => if f[i]? == some c then POINT else c := by
  unfold diffSeq
  apply mapIdx_eq_zipIdx_map
  intro i hi
  simp only [diffCell_eq]

theorem ref_diffFirst {b : Bag} (h : Good b) : Refines b .diffFirst := by
  intro s' st e
  simp only [Spec.stepOp, Model.stepOp, abs_isAlign, abs_rows] at e ⊢
  by_cases ha : b.isAlign = true
  · simp only [ha, Bool.not_true, Bool.false_eq_true, if_false] at e ⊢
    have hlen := rect_pairs_len h.rect ha
    have hnp : diffPanics (pairs b) = false := by
      cases hp : pairs b with
      | nil => rfl
      | cons r0 rest =>
        simp only [diffPanics, List.any_eq_false, decide_eq_true_eq, Nat.not_lt]
        intro r hr
        rw [hlen r (by rw [hp]; exact List.mem_cons_of_mem _ hr), hlen r0 (by rw [hp]; simp)]
        exact Nat.le_refl _
    have hv : diffWithFirstBag b = some { b with rows := withSeqs b.rows (againstFirst diffSeq (pairs b)) } := by
      unfold diffWithFirstBag; simp [hnp]
    simp only [hv]
    refine ⟨?_, ?_, (sameShape_againstFirst _ diffSeq_length b).good h⟩
    · rw [abs_againstFirst]
      cases hp : pairs b with
      | nil =>
        simp only [hp, Prod.mk.injEq, Option.some.injEq] at e
        rw [← e.1]; simp [abs, hp, againstFirst, ha]
      | cons r0 rest =>
        simp only [hp, Prod.mk.injEq, Option.some.injEq] at e
        rw [← e.1]
        simp only [abs, hp, againstFirst, diffSeq_eq, ha]
    · cases hp : pairs b with
      | nil => simp only [hp, Prod.mk.injEq] at e; exact e.2
      | cons r0 rest => simp only [hp, Prod.mk.injEq] at e; exact e.2
  · have ha' : b.isAlign = false := by simpa using ha
    simp only [ha', Bool.not_false, if_true, Prod.mk.injEq, Option.some.injEq] at e ⊢
    exact ⟨e.1, e.2, h⟩

theorem matchPanics_false (L : Nat) (rows : List (String × Seq)) (h : ∀ p ∈ rows, p.2.length = L) :
    matchPanics L rows = false := by
  match rows, h with
  | [], _ => rfl
  | [_], _ => rfl
  | r :: o :: t, h =>
    have hr : r.2.length = L := h r (by simp)
    have h1 : decide (r.2.length < L) = false := by simp; omega
    have h2 : ((o :: t).any fun q => (List.range L).any fun i => decide (q.2.length ≤ i) && r.2.getD i 0 != POINT) = false := by
      rw [List.any_eq_false]
      intro q hq
      rw [Bool.not_eq_true, List.any_eq_false]
      intro i hi
      have hql : q.2.length = L := h q (List.mem_cons_of_mem _ hq)
      have hiL : i < L := List.mem_range.mp hi
      have : decide (q.2.length ≤ i) = false := by simp; omega
      simp [this]
    simp only [matchPanics, h1, h2, Bool.or_false]

theorem matchSeq_eq (L : Nat) (f o : Seq) (hf : f.length = L) (ho : o.length = L) :
    matchSeq L f o = o.zipIdx.map fun (c, i) => if c == POINT then (f[i]?).getD c else c := by
  unfold matchSeq
  apply mapIdx_eq_zipIdx_map
  intro i hi
  have hiL : i < L := by omega
  have hif : i < f.length := by omega
  simp only [hiL, decide_true, Bool.true_and, List.getD_eq_getElem?_getD, List.getElem?_eq_getElem hif,
    Option.getD_some]
  by_cases hc : o[i] = POINT
  · by_cases hfp : f[i] = POINT
    · simp [hc, hfp]
    · simp [hc, hfp]
  · simp [hc]

theorem ref_replaceMatch {b : Bag} (h : Good b) : Refines b .replaceMatch := by
  intro s' st e
  simp only [Spec.stepOp, Model.stepOp, abs_isAlign, abs_rows] at e ⊢
  by_cases ha : b.isAlign = true
  · simp only [ha, Bool.not_true, Bool.false_eq_true, if_false] at e ⊢
    have hlen := rect_pairs_len h.rect ha
    have hnp := matchPanics_false b.length.toNat (pairs b) hlen
    have hv : replaceMatchCharsBag b =
        some { b with rows := withSeqs b.rows (againstFirst (matchSeq b.length.toNat) (pairs b)) } := by
      unfold replaceMatchCharsBag; simp [hnp]
    simp only [hv]
    refine ⟨?_, ?_, (sameShape_againstFirst _ (matchSeq_length _) b).good h⟩
    · rw [abs_againstFirst]
      cases hp : pairs b with
      | nil =>
        simp only [hp, Prod.mk.injEq, Option.some.injEq] at e
        rw [← e.1]; simp [abs, hp, againstFirst, ha]
      | cons r0 rest =>
        simp only [hp, Prod.mk.injEq, Option.some.injEq] at e
        rw [← e.1]
        simp only [abs, hp, againstFirst, ha]
        congr 2
        apply List.map_congr_left
        intro r hr
        rw [matchSeq_eq _ _ _ (hlen r0 (by rw [hp]; simp)) (hlen r (by rw [hp]; exact List.mem_cons_of_mem _ hr))]
    · cases hp : pairs b with
      | nil => simp only [hp, Prod.mk.injEq] at e; exact e.2
      | cons r0 rest => simp only [hp, Prod.mk.injEq] at e; exact e.2
  · have ha' : b.isAlign = false := by simpa using ha
    simp only [ha', Bool.not_false, if_true, Prod.mk.injEq, Option.some.injEq] at e ⊢
    exact ⟨e.1, e.2, h⟩

/-! ### `Mask`, `MaskOccurences` / `MaskUnique` -/

/-- the lookup of the reference sequence through the name index = the first row of that name -/
theorem getByName_seq {b : Bag} (h : Good b) (n : String) :
    (getByName b n).map (·.seq) = ((pairs b).find? fun p => p.1 == n).map Prod.snd := by
  rw [getByName_eq_find h, pairs, List.find?_map]
  have e : ((fun p : String × Seq => p.1 == n) ∘ fun r : Row => (r.name, r.seq)) = fun r => r.name == n := rfl
  rw [e]
  cases b.rows.find? (fun r => r.name == n) <;> rfl

theorem abs_withSeqs (b : Bag) (ps : List (String × Seq)) (hn : ps.map Prod.fst = b.rows.map (·.name)) :
    abs { b with rows := withSeqs b.rows ps } = { abs b with rows := ps } := by
  have := pairs_withSeqs b.rows ps hn
  simp only [abs, pairs] at this ⊢
  rw [this]

theorem ref_mask {b : Bag} (h : Good b) (refseq : String) (start len : Int) (mr : MaskRep) (nogap noref : Bool) :
    Refines b (.mask refseq start len mr nogap noref) := by
  intro s' st e
  simp only [Spec.stepOp, Model.stepOp, abs_isAlign, abs_rows, abs_alphabet] at e ⊢
  by_cases ha : b.isAlign = true
  · simp only [ha, Bool.not_true, Bool.false_eq_true, if_false, h.rect.abs_length ha] at e ⊢
    have hm : maskWithRef (pairs b) b.length b.alphabet refseq start len mr nogap noref
        ((getByName b refseq).map (·.seq)) = mask (pairs b) b.length b.alphabet refseq start len mr nogap noref := by
      rw [getByName_seq h]; rfl
    cases hr : mask (pairs b) b.length b.alphabet refseq start len mr nogap noref with
    | none =>
      have hv : maskBag refseq start len mr nogap noref b = some (b, true) := by
        unfold maskBag; rw [hm, hr]
      simp only [hr, Prod.mk.injEq, Option.some.injEq] at e
      simp only [hv]
      exact ⟨e.1, by simpa using e.2, h⟩
    | some ps =>
      have hshort : ¬ (decide (start < min (start + len) b.length) &&
          b.rows.any fun r => decide ((r.seq.length : Int) < min (start + len) b.length)) = true := by
        simp only [Bool.and_eq_true, List.any_eq_true, decide_eq_true_eq, not_and, not_exists]
        intro _ r hr'
        have := h.rect.rows_len ha r hr'
        omega
      have hv : maskBag refseq start len mr nogap noref b = some ({ b with rows := withSeqs b.rows ps }, false) := by
        unfold maskBag; rw [hm, hr]; simp only []; rw [if_neg hshort]
      obtain ⟨hn, _⟩ := maskWithRef_names_lens (hm.trans hr)
      simp only [hr, Prod.mk.injEq, Option.some.injEq] at e
      simp only [hv]
      refine ⟨?_, by simpa using e.2, (sameShape_maskBag hv).good h⟩
      rw [abs_withSeqs b ps (hn.trans (pairs_names b)), ← e.1]
      simp [abs, ha]
  · have ha' : b.isAlign = false := by simpa using ha
    simp only [ha', Bool.not_false, if_true, Prod.mk.injEq, Option.some.injEq] at e ⊢
    exact ⟨e.1, e.2, h⟩

theorem ref_maskOcc {b : Bag} (h : Good b) (refseq : String) (maxOcc : Int) (mr : MaskRep) :
    Refines b (.maskOcc refseq maxOcc mr) := by
  intro s' st e
  simp only [Spec.stepOp, Model.stepOp, abs_isAlign, abs_rows, abs_alphabet] at e ⊢
  by_cases ha : b.isAlign = true
  · simp only [ha, Bool.not_true, Bool.false_eq_true, if_false, h.rect.abs_length ha] at e ⊢
    have hm : maskOccWithRef (pairs b) b.length b.alphabet refseq maxOcc mr
        ((getByName b refseq).map (·.seq)) = maskOccurences (pairs b) b.length b.alphabet refseq maxOcc mr := by
      rw [getByName_seq h]; rfl
    cases hr : maskOccurences (pairs b) b.length b.alphabet refseq maxOcc mr with
    | none =>
      have hv : maskOccBag refseq maxOcc mr b = some (b, true) := by
        unfold maskOccBag; rw [hm, hr]
      simp only [hr, Prod.mk.injEq, Option.some.injEq] at e
      simp only [hv]
      exact ⟨e.1, by simpa using e.2, h⟩
    | some ps =>
      have hshort : ¬ (b.rows.any fun r => decide (r.seq.length < b.length.toNat)) = true := by
        simp only [List.any_eq_true, decide_eq_true_eq, not_exists, not_and, Nat.not_lt]
        intro r hr'
        have := h.rect.rows_len ha r hr'
        omega
      obtain ⟨hn, _⟩ := maskOccWithRef_names_len (hm.trans hr)
      have hlen : ps.length = b.rows.length := length_of_names (hn.trans (pairs_names b))
      have hex : keepTails b.length.toNat b.rows ps = ps := by
        apply keepTails_exact _ _ _ hlen
        intro r hr'
        have := h.rect.rows_len ha r hr'
        omega
      have hv : maskOccBag refseq maxOcc mr b = some ({ b with rows := withSeqs b.rows ps }, false) := by
        unfold maskOccBag; rw [hm, hr]; simp only []; rw [if_neg hshort, hex]
      simp only [hr, Prod.mk.injEq, Option.some.injEq] at e
      simp only [hv]
      refine ⟨?_, by simpa using e.2, (sameShape_maskOccBag hv).good h⟩
      rw [abs_withSeqs b ps (hn.trans (pairs_names b)), ← e.1]
      simp [abs, ha]
  · have ha' : b.isAlign = false := by simpa using ha
    simp only [ha', Bool.not_false, if_true, Prod.mk.injEq, Option.some.injEq] at e ⊢
    exact ⟨e.1, e.2, h⟩

end Gv.Proofs.BagAbs
