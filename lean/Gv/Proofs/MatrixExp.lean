import Mathlib.Analysis.Normed.Algebra.MatrixExponential
import Mathlib.Analysis.SpecialFunctions.Exponential
import Mathlib.Topology.Instances.Matrix
/-!
# Rate matrices, their exponentials and eigen-assembled transition matrices (generic layer of C18)

For a finite state space `n` and a real matrix `Q`:

* `assembly R L d t = R · diag(exp(d_k t)) · L` is what `models.Pij.SetLength` computes (before its
  positivity floor) from an eigen-system;
* `eigen_assembly_eq_exp`: if `L·R = 1` and `R·diag(d)·L = Q` then `assembly R L d t = exp(t·Q)`;
* for *every* `Q`: `exp_zero_smul` (P(0)=I), `exp_semigroup`;
* if `Q·1 = 0`: `exp_rows_sum_one`;
* if the off-diagonal entries of `Q` are non-negative: `exp_nonneg` for `t ≥ 0`, hence `exp_le_one`;
* if `π_i q_ij = π_j q_ji` with `π > 0`: `exp_detailed_balance`;
* `assembly_tendsto_stationary`: one eigenvalue `0`, the others negative ⇒ `P(t) → π/Σπ`.
-/
namespace Gv.Proofs.MatrixExp
open Matrix NormedSpace Filter Topology

variable {n : Type*} [Fintype n] [DecidableEq n]

/-- `R · diag(exp(d_k · t)) · L` -/
noncomputable def assembly (R L : Matrix n n ℝ) (d : n → ℝ) (t : ℝ) : Matrix n n ℝ :=
  R * diagonal (fun k => Real.exp (d k * t)) * L

theorem assembly_apply (R L : Matrix n n ℝ) (d : n → ℝ) (t : ℝ) (i j : n) :
    assembly R L d t i j = ∑ k, R i k * Real.exp (d k * t) * L k j := by
  unfold assembly
  rw [Matrix.mul_apply]
  simp only [Matrix.mul_diagonal]

/-- the eigen-assembled matrix is the matrix exponential -/
theorem eigen_assembly_eq_exp {R L Q : Matrix n n ℝ} {d : n → ℝ}
    (hLR : L * R = 1) (hQ : R * diagonal d * L = Q) (t : ℝ) :
    assembly R L d t = exp (t • Q) := by
  have hRL : R * L = 1 := mul_eq_one_comm.mp hLR
  have hinv : R⁻¹ = L := inv_eq_right_inv hRL
  have hunit : IsUnit R := (isUnit_iff_isUnit_det R).mpr (isUnit_det_of_right_inverse hRL)
  have h1 : t • Q = R * diagonal (fun k => d k * t) * R⁻¹ := by
    rw [hinv, ← hQ]
    have : diagonal (fun k => d k * t) = t • diagonal d := by
      ext i j; by_cases h : i = j <;> simp [diagonal, h, mul_comm]
    rw [this]; simp
  rw [h1, exp_conj _ _ hunit, exp_diagonal, hinv]
  unfold assembly
  congr 2
  ext i j
  by_cases h : i = j
  · subst h; simp [Pi.coe_exp, Real.exp_eq_exp_ℝ]
  · simp [h]

theorem exp_zero_smul (Q : Matrix n n ℝ) : exp ((0 : ℝ) • Q) = 1 := by simp

theorem exp_semigroup (Q : Matrix n n ℝ) (s t : ℝ) :
    exp ((s + t) • Q) = exp (s • Q) * exp (t • Q) := by
  rw [add_smul]
  exact exp_add_of_commute _ _ ((Commute.refl Q).smul_left s |>.smul_right t)

/-- the exponential series of a real matrix converges (entrywise topology) to `exp A` -/
theorem hasSum_exp (A : Matrix n n ℝ) :
    HasSum (fun k : ℕ => ((k.factorial : ℝ)⁻¹ • A ^ k)) (exp A) := by
  open scoped Matrix.Norms.Operator in
  exact exp_series_hasSum_exp' (𝕂 := ℝ) A

/-- a vector in the kernel of `A` is fixed by `exp A` -/
theorem exp_mulVec_of_mulVec_eq_zero {A : Matrix n n ℝ} {v : n → ℝ} (h : A *ᵥ v = 0) :
    exp A *ᵥ v = v := by
  have hs := hasSum_exp A
  -- apply the continuous additive map `B ↦ B *ᵥ v`
  let f : Matrix n n ℝ →+ (n → ℝ) :=
    { toFun := fun B => B *ᵥ v, map_zero' := zero_mulVec v, map_add' := fun B C => add_mulVec B C v }
  have hf : Continuous f := Continuous.matrix_mulVec continuous_id continuous_const
  have h2 := hs.map f hf
  have hterm : ∀ k : ℕ, k ≠ 0 → (f ∘ fun k : ℕ => ((k.factorial : ℝ)⁻¹ • A ^ k)) k = 0 := by
    intro k hk
    obtain ⟨m, rfl⟩ := Nat.exists_eq_succ_of_ne_zero hk
    show (((m + 1).factorial : ℝ)⁻¹ • A ^ (m + 1)) *ᵥ v = 0
    rw [smul_mulVec, pow_succ, ← mulVec_mulVec, h, mulVec_zero, smul_zero]
  have h3 : HasSum (f ∘ fun k : ℕ => ((k.factorial : ℝ)⁻¹ • A ^ k)) v := by
    have := hasSum_single (f := f ∘ fun k : ℕ => ((k.factorial : ℝ)⁻¹ • A ^ k)) 0 (fun k hk => hterm k hk)
    simpa [f] using this
  exact h2.unique h3

/-- rows of `exp(t·Q)` sum to one when the rows of `Q` sum to zero -/
theorem exp_rows_sum_one {Q : Matrix n n ℝ} (hQ : ∀ i, ∑ j, Q i j = 0) (t : ℝ) (i : n) :
    ∑ j, exp (t • Q) i j = 1 := by
  have h : (t • Q) *ᵥ (fun _ => (1 : ℝ)) = 0 := by
    ext i; simp [mulVec, dotProduct, ← Finset.mul_sum, hQ]
  have := congrFun (exp_mulVec_of_mulVec_eq_zero h) i
  simpa [mulVec, dotProduct] using this

/-- detailed balance for `Q` (with positive weights) passes to `exp(t·Q)` -/
theorem exp_detailed_balance {Q : Matrix n n ℝ} {π : n → ℝ} (hπ : ∀ i, 0 < π i)
    (hrev : ∀ i j, π i * Q i j = π j * Q j i) (t : ℝ) (i j : n) :
    π i * exp (t • Q) i j = π j * exp (t • Q) j i := by
  set D : Matrix n n ℝ := diagonal π with hD
  have hDinv : D⁻¹ = diagonal (fun i => (π i)⁻¹) := by
    apply inv_eq_right_inv
    rw [hD, diagonal_mul_diagonal]
    ext a b
    by_cases h : a = b
    · subst h; simp [(hπ a).ne']
    · simp [h]
  have hunit : IsUnit D := by
    rw [isUnit_iff_isUnit_det, hD, det_diagonal]
    exact isUnit_iff_ne_zero.mpr (Finset.prod_ne_zero_iff.mpr fun a _ => (hπ a).ne')
  have hconj : D * (t • Q) * D⁻¹ = (t • Q)ᵀ := by
    rw [hDinv, hD]
    ext a b
    simp only [Matrix.mul_diagonal, Matrix.diagonal_mul, transpose_apply, Matrix.smul_apply, smul_eq_mul]
    have := hrev a b
    field_simp [(hπ b).ne']
    nlinarith [this, congrArg (fun x => t * x) this]
  have h := exp_conj D (t • Q) hunit
  rw [hconj, exp_transpose] at h
  -- (exp tQ)ᵀ * D = D * exp tQ
  have h2 : (exp (t • Q))ᵀ * D = D * exp (t • Q) := by
    rw [h, Matrix.mul_assoc, Matrix.nonsing_inv_mul _ ((isUnit_iff_isUnit_det D).mp hunit), Matrix.mul_one]
  have := congrFun (congrFun h2 j) i
  simp only [hD, Matrix.mul_diagonal, Matrix.diagonal_mul, transpose_apply] at this
  linarith [this]

theorem pow_nonneg_entry {A : Matrix n n ℝ} (hA : ∀ i j, 0 ≤ A i j) (k : ℕ) : ∀ i j, 0 ≤ (A ^ k) i j := by
  induction k with
  | zero => intro i j; by_cases h : i = j <;> simp [h]
  | succ k ih =>
    intro i j
    rw [pow_succ, Matrix.mul_apply]
    exact Finset.sum_nonneg fun l _ => mul_nonneg (ih i l) (hA l j)

/-- the exponential of an entrywise non-negative matrix is entrywise non-negative -/
theorem exp_nonneg_of_nonneg {A : Matrix n n ℝ} (hA : ∀ i j, 0 ≤ A i j) (i j : n) : 0 ≤ exp A i j := by
  have hs := hasSum_exp A
  have hij : HasSum (fun k : ℕ => ((k.factorial : ℝ)⁻¹ • A ^ k) i j) (exp A i j) :=
    Pi.hasSum.mp (Pi.hasSum.mp hs i) j
  refine hij.nonneg fun k => ?_
  simp only [Matrix.smul_apply, smul_eq_mul]
  exact mul_nonneg (by positivity) (pow_nonneg_entry hA k i j)

/-- `exp(t·Q)` is entrywise non-negative for `t ≥ 0` when the off-diagonal rates are non-negative -/
theorem exp_nonneg {Q : Matrix n n ℝ} (hoff : ∀ i j, i ≠ j → 0 ≤ Q i j) {t : ℝ} (ht : 0 ≤ t) (i j : n) :
    0 ≤ exp (t • Q) i j := by
  set c : ℝ := ∑ a, |Q a a| with hc
  have hcd : ∀ a, 0 ≤ Q a a + c := by
    intro a
    have h1 : |Q a a| ≤ c := Finset.single_le_sum (f := fun a => |Q a a|) (fun _ _ => abs_nonneg _) (Finset.mem_univ a)
    have h2 := neg_abs_le (Q a a)
    linarith
  set S : Matrix n n ℝ := (t * c) • (1 : Matrix n n ℝ) with hS
  set B : Matrix n n ℝ := t • Q + S with hB
  have hBnn : ∀ a b, 0 ≤ B a b := by
    intro a b
    by_cases h : a = b
    · subst h
      simp only [hB, hS, Matrix.add_apply, Matrix.smul_apply, one_apply_eq, smul_eq_mul, mul_one]
      have := mul_nonneg ht (hcd a); linarith
    · simp only [hB, hS, Matrix.add_apply, Matrix.smul_apply, one_apply_ne h, smul_eq_mul, mul_zero, add_zero]
      exact mul_nonneg ht (hoff a b h)
  have hcomm : Commute B (-S) := by
    rw [hS]; exact ((Commute.one_right B).smul_right (t * c)).neg_right
  have hsplit : t • Q = B + (-S) := by rw [hB]; abel
  have hexpS : exp (-S) = Real.exp (-(t * c)) • (1 : Matrix n n ℝ) := by
    have : -S = diagonal (fun _ : n => -(t * c)) := by
      rw [hS]; ext a b; by_cases h : a = b <;> simp [h]
    rw [this, exp_diagonal]
    ext a b
    by_cases h : a = b
    · subst h; simp [Pi.coe_exp, Real.exp_eq_exp_ℝ]
    · simp [h]
  rw [hsplit, exp_add_of_commute _ _ hcomm, hexpS, Matrix.mul_smul, Matrix.mul_one, Matrix.smul_apply, smul_eq_mul]
  exact mul_nonneg (Real.exp_pos _).le (exp_nonneg_of_nonneg hBnn i j)

/-- entries of `exp(t·Q)` are at most one for a rate matrix -/
theorem exp_le_one {Q : Matrix n n ℝ} (hoff : ∀ i j, i ≠ j → 0 ≤ Q i j) (hQ : ∀ i, ∑ j, Q i j = 0)
    {t : ℝ} (ht : 0 ≤ t) (i j : n) : exp (t • Q) i j ≤ 1 := by
  rw [← exp_rows_sum_one hQ t i]
  exact Finset.single_le_sum (f := fun j => exp (t • Q) i j) (fun b _ => exp_nonneg hoff ht i b) (Finset.mem_univ j)

/-- Convergence of an eigen-assembled reversible transition matrix to the stationary distribution:
one eigenvalue `0`, all others negative. -/
theorem assembly_tendsto_stationary {R L Q : Matrix n n ℝ} {d π : n → ℝ}
    (hLR : L * R = 1) (hQ : R * diagonal d * L = Q) (hrow : ∀ i, ∑ j, Q i j = 0)
    (hπ : ∀ i, 0 < π i) (hrev : ∀ i j, π i * Q i j = π j * Q j i)
    (k0 : n) (h0 : d k0 = 0) (hneg : ∀ k, k ≠ k0 → d k < 0) (i j : n) :
    Tendsto (fun t => assembly R L d t i j) atTop (𝓝 (π j / ∑ a, π a)) := by
  -- entrywise limit M a b = R a k0 * L k0 b
  have hlim : ∀ a b, Tendsto (fun t => assembly R L d t a b) atTop (𝓝 (R a k0 * L k0 b)) := by
    intro a b
    have hterm : ∀ k, Tendsto (fun t : ℝ => R a k * Real.exp (d k * t) * L k b) atTop
        (𝓝 (if k = k0 then R a k0 * L k0 b else 0)) := by
      intro k
      by_cases hk : k = k0
      · subst hk; simp [h0]
      · simp only [hk, if_false]
        have he : Tendsto (fun t : ℝ => Real.exp (d k * t)) atTop (𝓝 0) :=
          Real.tendsto_exp_atBot.comp (tendsto_id.const_mul_atTop_of_neg (hneg k hk))
        have := (he.const_mul (R a k)).mul_const (L k b)
        simpa using this
    have hsum := tendsto_finsetSum (Finset.univ : Finset n) fun k _ => hterm k
    simp only [Finset.sum_ite_eq', Finset.mem_univ, if_true] at hsum
    simpa only [assembly_apply] using hsum
  have hsumπ : 0 < ∑ a, π a := Finset.sum_pos (fun a _ => hπ a) ⟨i, Finset.mem_univ i⟩
  -- rows of the limit sum to one
  have hrowM : ∀ a, ∑ b, R a k0 * L k0 b = 1 := by
    intro a
    have h1 : Tendsto (fun t => ∑ b, assembly R L d t a b) atTop (𝓝 (∑ b, R a k0 * L k0 b)) :=
      tendsto_finsetSum _ fun b _ => hlim a b
    have h2 : (fun t => ∑ b, assembly R L d t a b) = fun _ => (1 : ℝ) := by
      funext t; rw [eigen_assembly_eq_exp hLR hQ]; exact exp_rows_sum_one hrow t a
    rw [h2] at h1
    exact (tendsto_nhds_unique h1 tendsto_const_nhds)
  -- detailed balance of the limit
  have hdbM : ∀ a b, π a * (R a k0 * L k0 b) = π b * (R b k0 * L k0 a) := by
    intro a b
    have h1 : Tendsto (fun t => π a * assembly R L d t a b) atTop (𝓝 (π a * (R a k0 * L k0 b))) :=
      (hlim a b).const_mul _
    have h2 : Tendsto (fun t => π b * assembly R L d t b a) atTop (𝓝 (π b * (R b k0 * L k0 a))) :=
      (hlim b a).const_mul _
    have h3 : (fun t => π a * assembly R L d t a b) = fun t => π b * assembly R L d t b a := by
      funext t; rw [eigen_assembly_eq_exp hLR hQ]; exact exp_detailed_balance hπ hrev t a b
    rw [h3] at h1
    exact tendsto_nhds_unique h1 h2
  -- R a k0 does not depend on a
  set S := ∑ b, L k0 b with hSdef
  have hRS : ∀ a, R a k0 * S = 1 := by
    intro a; rw [hSdef, Finset.mul_sum]; exact hrowM a
  have hS0 : S ≠ 0 := by
    intro h; have := hRS i; rw [h, mul_zero] at this; exact zero_ne_one this
  have hR : ∀ a, R a k0 = 1 / S := fun a => eq_div_of_mul_eq hS0 (hRS a)
  -- hence the limit row ρ b = L k0 b / S, with (Σπ) ρ j = π j
  have key : (∑ a, π a) * (R i k0 * L k0 j) = π j := by
    have h1 : ∀ a, π a * (R i k0 * L k0 j) = π j * (R j k0 * L k0 a) := by
      intro a
      have := hdbM a j
      rw [hR a] at this; rw [hR i]; exact this
    rw [Finset.sum_mul, Finset.sum_congr rfl fun a _ => h1 a, ← Finset.mul_sum, hrowM j, mul_one]
  have hval : R i k0 * L k0 j = π j / ∑ a, π a := by
    rw [eq_div_iff hsumπ.ne']; linarith [key]
  rw [← hval]
  exact hlim i j

end Gv.Proofs.MatrixExp
