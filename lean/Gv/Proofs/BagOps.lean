import Gv.Proofs.BagInv
/-! The representation invariant is preserved by every operation of the history language (C01). -/
namespace Gv.Proofs.BagInv
open Gv Gv.Model

theorem fst_ite {β : Type} {c : Prop} [Decidable c] {x y : Bag × β} (hx : Inv x.1) (hy : Inv y.1) :
    Inv (if c then x else y).1 := by
  split <;> assumption

theorem inv_resetLengthIfEmpty (b : Bag) (h : Inv b) : Inv (resetLengthIfEmpty b) := by
  unfold resetLengthIfEmpty
  split
  · exact h.congr rfl rfl rfl
  · exact h

theorem inv_filterLength (mn mx : Int) (b : Bag) : Inv (filterLength mn mx b).1 := by
  unfold filterLength
  exact inv_resetLengthIfEmpty _ (inv_addAllStopBase _ _ (inv_clearBase b))

theorem inv_dedupLoop (alpha : Nat) (g : Bool) (l : List Row) (b : Bag) (h : Inv b)
    (seen : List (Seq × Nat)) (groups : List (List String)) :
    Inv (dedupLoop alpha g l b seen groups).1 := by
  induction l generalizing b seen groups with
  | nil => exact h
  | cons r t ih =>
    simp only [dedupLoop]
    split
    · split
      · exact inv_addSeqBase b h _ _
      · exact ih _ (inv_addSeqBase b h _ _) _ _
    · exact ih _ h _ _

theorem inv_deduplicate (g : Bool) (b : Bag) : Inv (deduplicate g b).1 :=
  inv_dedupLoop _ _ _ _ (inv_clearBase b) _ _

theorem inv_removeCharacterSeqs (test : Nat → Nat → Bool) (c : Byte) (ic ig iN : Bool) (b : Bag)
    (r : Bag × Nat) (h : removeCharacterSeqs test c ic ig iN b = some r) : Inv r.1 := by
  unfold removeCharacterSeqs at h
  simp only [] at h
  split at h
  · simp at h
  · simp only [Option.some.injEq] at h
    subst h
    exact inv_addAllIgnore _ _ (inv_clear b)

theorem inv_translateLoop1 (code) (phases : List Nat) (sfx : Bool) (r : Row) (l : List Nat) (b : Bag) (h : Inv b) :
    Inv (translateLoop1 code phases sfx r l b).1 := by
  induction l generalizing b with
  | nil => exact h
  | cons ph rest ih =>
    simp only [translateLoop1]
    split
    · exact h
    · exact fst_ite (inv_addSeqBase b h _ _) (ih _ (inv_addSeqBase b h _ _))

theorem inv_translateRows (code) (phases : List Nat) (sfx : Bool) (l : List Row) (b : Bag) (h : Inv b) :
    Inv (translateRows code phases sfx l b).1 := by
  induction l generalizing b with
  | nil => exact h
  | cons r t ih =>
    simp only [translateRows]
    exact fst_ite (inv_translateLoop1 _ _ _ _ _ _ h) (ih _ (inv_translateLoop1 _ _ _ _ _ _ h))

theorem inv_fixLength (b : Bag) (h : Inv b) : Inv (fixLength b) := by
  unfold fixLength; split
  · exact h.congr rfl rfl rfl
  · exact h

theorem inv_translateBag (ph code : Int) (b : Bag) (h : Inv b) : Inv (translateBag ph code b).1 := by
  unfold translateBag
  split
  · exact inv_fixLength b h
  · split
    · exact inv_fixLength b h
    · rename_i code _ _
      simp only []
      have := inv_translateRows code (if ph == -1 then [0, 1, 2] else [ph.toNat]) (ph == -1) b.rows (clearBase b) (inv_clearBase b)
      exact fst_ite (inv_fixLength _ this) (inv_fixLength _ (this.congr rfl rfl rfl))

theorem inv_clone (b : Bag) : Inv (clone b).1 := by
  unfold clone
  apply inv_addAllStop
  split
  · exact (inv_newAlign b.alphabet).congr rfl rfl rfl
  · exact (inv_newBag b.alphabet).congr rfl rfl rfl

theorem inv_sample (nb : Int) (perm : List Nat) (b s : Bag) (h : sample nb perm b = some s) : Inv s := by
  unfold sample at h
  split at h
  · simp at h
  · simp only [] at h
    have := inv_addAllIgnore (((perm.take nb.toNat).filterMap fun i => b.rows[i]?).map fun r => (r.name, r.seq))
      (newBag b.alphabet) (inv_newBag _)
    split at h
    · unfold seqBagToAlignment at h
      split at h
      · simp at h
      · simp only [Option.some.injEq] at h; subst h
        exact this.congr rfl rfl rfl
    · simp only [Option.some.injEq] at h; subst h
      exact this

theorem inv_replaceBag (o n : Seq) (b : Bag) (h : Inv b) : Inv (replaceBag o n b).1 := inv_mapSeqs _ b h

theorem keys_set (rows : List Row) (i : Nat) (r : Row) (s : Seq) (h : rows[i]? = some r) :
    keys (rows.set i { r with seq := s }) = keys rows := by
  induction rows generalizing i with
  | nil => simp
  | cons x t ih =>
    cases i with
    | zero => simp at h; subst h; simp [keys]
    | succ i =>
      simp only [List.getElem?_cons_succ] at h
      have := ih i h
      simp only [keys, List.set_cons_succ, List.map_cons] at this ⊢
      rw [this]

theorem inv_setSequenceChar (i j : Int) (c : Byte) (b : Bag) (h : Inv b) : Inv (setSequenceChar i j c b).1 := by
  unfold setSequenceChar
  split
  · exact h
  · split
    · exact h
    · split
      · exact h
      · rename_i r hr _
        exact h.transfer (by simp only []; rw [keys_set _ _ _ _ hr]) rfl (Nat.le_refl _)

theorem inv_trimSequences (n : Int) (fs : Bool) (b : Bag) (h : Inv b) (r : Bag × Bool)
    (hr : trimSequences n fs b = some r) : Inv r.1 := by
  unfold trimSequences at hr
  split at hr
  · simp only [Option.some.injEq] at hr; subst hr; exact h
  · split at hr
    · simp only [Option.some.injEq] at hr; subst hr; exact h
    · split at hr
      · simp at hr
      · simp only [Option.some.injEq] at hr; subst hr
        exact (inv_mapSeqs (fun s => if fs then s.drop n.toNat else s.take (s.length - n.toNat)) b h).congr rfl rfl rfl

theorem inv_appendToSequence (nm : String) (s : Seq) (b : Bag) (h : Inv b) : Inv (appendToSequence nm s b).1 := by
  unfold appendToSequence
  split
  · exact h
  · refine h.transfer ?_ rfl (Nat.le_refl _)
    simp only [keys, List.map_map]
    apply List.Perm.of_eq
    apply List.map_congr_left
    intro r _
    simp only [Function.comp]
    split <;> rfl

theorem inv_concatLoop2 (alen : Nat) (l : List (String × Seq)) (b : Bag) (h : Inv b) : Inv (concatLoop2 alen l b).1 := by
  induction l generalizing b with
  | nil => exact h
  | cons p t ih =>
    obtain ⟨n, s⟩ := p
    simp only [concatLoop2]
    have h1 : Inv (if (getByName b n).isSome = true then b else (addSeq b n (List.replicate alen GAP)).1) := by
      split
      · exact h
      · exact inv_addSeq b h _ _
    exact fst_ite (inv_appendToSequence _ _ _ h1) (ih _ (inv_appendToSequence _ _ _ h1))

theorem inv_concat (other : List (String × Seq)) (clen : Int) (ca : Nat) (b : Bag) (h : Inv b) :
    Inv (concat other clen ca b).1 := by
  unfold concat
  split
  · exact h
  · simp only []
    have h1 : ∀ (l : List Row) (acc : Bag × Bool), Inv acc.1 →
        Inv (l.foldl (fun (acc : Bag × Bool) r =>
          if acc.2 then acc
          else if (other.find? fun p => p.1 == r.name).isSome then acc
          else appendToSequence r.name (List.replicate clen.toNat GAP) acc.1) acc).1 := by
      intro l
      induction l with
      | nil => intro acc ha; exact ha
      | cons r t ih =>
        intro acc ha
        simp only [List.foldl_cons]
        apply ih
        split
        · exact ha
        · split
          · exact ha
          · exact inv_appendToSequence _ _ _ ha
    have hs1 := h1 b.rows (b, false) h
    apply fst_ite hs1
    have hs2 := inv_concatLoop2 b.length.toNat other _ hs1
    exact fst_ite hs2 (hs2.congr rfl rfl rfl)

/-! ### name trimming: the loops only change names -/

theorem trimAutoLoop_ids (l : List Row) (nm : List (String × String)) (cur len : Nat) (acc : List Row) :
    (trimAutoLoop l nm cur len acc).1.map (·.id) = acc.reverse.map (·.id) ++ l.map (·.id) := by
  induction l generalizing nm cur len acc with
  | nil => simp [trimAutoLoop]
  | cons r t ih =>
    simp only [trimAutoLoop]
    split <;> (rw [ih]; simp)

theorem inv_trimNamesAuto (cur : Nat) (b : Bag) (h : Inv b) : Inv (trimNamesAuto cur b).1 := by
  unfold trimNamesAuto
  simp only []
  have hids := trimAutoLoop_ids b.rows [] cur (ceilLog10 (b.rows.length + 1)) []
  simp only [List.reverse_nil, List.map_nil, List.nil_append] at hids
  apply inv_rebuild
  · rw [hids]; exact h.ids_nodup
  · intro r hr
    have : r.id ∈ (trimAutoLoop b.rows [] cur (ceilLog10 (b.rows.length + 1)) []).1.map (·.id) :=
      List.mem_map_of_mem (f := (·.id)) hr
    rw [hids] at this
    obtain ⟨r0, hr0, e⟩ := List.mem_map.mp this
    have := h.ids_lt r0 hr0
    omega

theorem trimNamesLoop_ids (size : Int) (l : List Row) (nm : List (String × String)) (short : List String) (acc : List Row) :
    (trimNamesLoop size l nm short acc).1.map (·.id) = acc.reverse.map (·.id) ++ l.map (·.id) := by
  induction l generalizing nm short acc with
  | nil => simp [trimNamesLoop]
  | cons r t ih =>
    simp only [trimNamesLoop]
    split
    · rw [ih]; simp
    · split
      · simp
      · rw [ih]; simp

theorem inv_trimNames (size : Int) (b : Bag) (h : Inv b) : Inv (trimNames size b).1 := by
  unfold trimNames
  simp only []
  apply fst_ite h
  · have hids := trimNamesLoop_ids size b.rows [] [] []
    simp only [List.reverse_nil, List.map_nil, List.nil_append] at hids
    apply inv_rebuild
    · rw [hids]; exact h.ids_nodup
    · intro r hr
      have : r.id ∈ (trimNamesLoop size b.rows [] [] []).1.map (·.id) := List.mem_map_of_mem (f := (·.id)) hr
      rw [hids] at this
      obtain ⟨r0, hr0, e⟩ := List.mem_map.mp this
      have := h.ids_lt r0 hr0
      omega

/-- a shuffle permutation: every position exactly once -/
def IsPerm (perm : List Nat) (n : Nat) : Prop := perm.Perm (List.range n)

theorem filterMap_range_get (rows : List Row) :
    ((List.range rows.length).filterMap fun i => rows[i]?) = rows := by
  induction rows with
  | nil => simp
  | cons x t ih =>
    rw [List.length_cons, List.range_succ_eq_map, List.filterMap_cons]
    simp only [List.getElem?_cons_zero, List.filterMap_map]
    have : ((fun i => (x :: t)[i]?) ∘ Nat.succ) = fun i => t[i]? := by
      funext i; simp
    rw [this, ih]

theorem permute_perm (perm : List Nat) (rows : List Row) (hp : IsPerm perm rows.length) :
    (perm.filterMap fun i => rows[i]?).Perm rows := by
  have h1 := filterMap_range_get rows
  have := hp.filterMap (fun i => rows[i]?)
  rw [h1] at this
  exact this

theorem inv_permuteRows (perm : List Nat) (b : Bag) (h : Inv b) (hp : IsPerm perm b.rows.length) :
    Inv (permuteRows perm b) :=
  inv_perm_rows b h _ (permute_perm perm b.rows hp)

end Gv.Proofs.BagInv
