import Gv.Proofs.BagRef10
import Gv.Props.C12
/-!
Refinement (C01), part 11: `ReverseComplement`, `ReplaceChar`, `RemoveGapSites`, `Compress` — the
operations whose row-level models are shared with C06, C12 and C13.
-/
namespace Gv.Proofs.BagAbs
open Gv Gv.Model Gv.Spec Gv.Proofs.BagInv

/-! ### `ReverseComplement` -/

/-- the plain meaning of complementing: residue by residue -/
def complMap (s : Seq) : Seq := s.map fun c => (complementByte c).getD c

theorem complementSeq_ok (s : Seq) (h : (s.any fun c => (complementByte c).isNone) = false) :
    complementSeq s = (complMap s, false) := by
  induction s with
  | nil => rfl
  | cons c t ih =>
    simp only [List.any_cons, Bool.or_eq_false_iff] at h
    simp only [complementSeq]
    cases hc : complementByte c with
    | none => simp [hc] at h
    | some d => simp [ih h.2, complMap, hc]

theorem revcompRows_ok (l : List (String × Seq))
    (h : (l.any fun r => r.2.any fun c => (complementByte c).isNone) = false) :
    revcompRows l = (l.map fun r => (r.1, (complMap r.2).reverse), false) := by
  induction l with
  | nil => rfl
  | cons p t ih =>
    obtain ⟨n, s⟩ := p
    simp only [List.any_cons, Bool.or_eq_false_iff] at h
    simp only [revcompRows, revcompSeq, complementSeq_ok s h.1, ih h.2]
    simp

theorem good_reverseComplement {b : Bag} (h : Good b) : Good (reverseComplement b).1 :=
  h.transfer_seqs (reverseComplement_keys b) (reverseComplement_fields b).1 (reverseComplement_fields b).2.1
    (reverseComplement_fields b).2.2.1 (reverseComplement_fields b).2.2.2.1 (rect_reverseComplement h.rect)

theorem ref_revcomp {b : Bag} (h : Good b) : Refines b .revcomp := by
  intro s' st e
  simp only [Spec.stepOp] at e
  simp only [Model.stepOp]
  refine ⟨?_, ?_, good_reverseComplement h⟩
  · by_cases ha : ((abs b).alphabet != NUCLEOTIDS) = true
    · have ha' : (b.alphabet != NUCLEOTIDS) = true := ha
      rw [if_pos ha] at e
      simp only [Prod.mk.injEq, Option.some.injEq] at e
      rw [← e.1]
      unfold reverseComplement; rw [if_pos ha']
    · have ha' : ¬ (b.alphabet != NUCLEOTIDS) = true := ha
      rw [if_neg ha] at e
      split at e
      · simp at e
      · rename_i hbad
        have hbad' : ((pairs b).any fun r => r.2.any fun c => (complementByte c).isNone) = false := by
          simpa using hbad
        simp only [Prod.mk.injEq, Option.some.injEq] at e
        rw [← e.1]
        unfold reverseComplement; rw [if_neg ha']
        simp only [revcompRows_ok _ hbad']
        have hn : ((pairs b).map fun r => (r.1, (complMap r.2).reverse)).map Prod.fst = b.rows.map (·.name) := by
          simp [pairs, List.map_map, Function.comp_def]
        have := pairs_withSeqs b.rows _ hn
        simp only [abs, pairs] at this ⊢
        rw [this]
        simp [complMap]
  · by_cases ha : ((abs b).alphabet != NUCLEOTIDS) = true
    · have ha' : (b.alphabet != NUCLEOTIDS) = true := ha
      rw [if_pos ha] at e
      simp only [Prod.mk.injEq] at e
      rw [← e.2]
      unfold reverseComplement; rw [if_pos ha']; rfl
    · have ha' : ¬ (b.alphabet != NUCLEOTIDS) = true := ha
      rw [if_neg ha] at e
      split at e
      · simp at e
      · rename_i hbad
        have hbad' : ((pairs b).any fun r => r.2.any fun c => (complementByte c).isNone) = false := by
          simpa using hbad
        simp only [Prod.mk.injEq] at e
        rw [← e.2]
        unfold reverseComplement; rw [if_neg ha']
        simp only [revcompRows_ok _ hbad']
        rfl

/-! ### `ReplaceChar` -/

theorem setInRow_of_not_mem (i j : Nat) (c : Byte) (rows : List Row) (h : i ∉ rows.map (·.id)) :
    setInRow i j c rows = rows := by
  induction rows with
  | nil => rfl
  | cons x t ih =>
    simp only [List.map_cons, List.mem_cons, not_or] at h
    have hx : (x.id == i) = false := by simpa using fun e => h.1 e.symm
    have := ih h.2
    simp only [setInRow, List.map_cons] at this ⊢
    rw [this, hx]; simp

/-- writing through the pointer of the first row called `n` = updating the first pair called `n` -/
theorem pairs_setInRow {rows : List Row} (hn : (rows.map (·.id)).Nodup) {n : String} {r0 : Row}
    (hf : rows.find? (fun r => r.name == n) = some r0) (j : Nat) (c : Byte) :
    (setInRow r0.id j c rows).map (fun r => (r.name, r.seq)) =
      updateFirst n (fun s => s.set j c) (rows.map fun r => (r.name, r.seq)) := by
  induction rows with
  | nil => simp at hf
  | cons x t ih =>
    simp only [List.map_cons, List.nodup_cons] at hn
    simp only [List.find?_cons] at hf
    by_cases hx : (x.name == n) = true
    · simp only [hx, Option.some.injEq] at hf
      subst hf
      have htail := setInRow_of_not_mem x.id j c t hn.1
      simp only [setInRow, List.map_cons] at htail ⊢
      rw [htail]
      simp [updateFirst, hx, setAt]
    · have hx' : (x.name == n) = false := by simpa using hx
      simp only [hx'] at hf
      have hmem : r0 ∈ t := List.mem_of_find?_eq_some hf
      have hid : (x.id == r0.id) = false := by
        have : x.id ≠ r0.id := fun e => hn.1 (e ▸ List.mem_map_of_mem (f := (·.id)) hmem)
        simpa using this
      have := ih hn.2 hf
      simp only [setInRow, List.map_cons] at this ⊢
      rw [this, hid]
      simp [updateFirst, hx']

theorem ref_replaceChar {b : Bag} (h : Good b) (name : String) (site : Int) (c : Byte) :
    Refines b (.replaceChar name site c) := by
  intro s' st e
  simp only [Spec.stepOp, Model.stepOp, abs_isAlign] at e ⊢
  by_cases ha : b.isAlign = true
  · simp only [ha, Bool.not_true, Bool.false_eq_true, if_false, h.rect.abs_length ha] at e ⊢
    by_cases c1 : site < 0
    · have hv : replaceChar name site c b = some (b, true) := by unfold replaceChar; rw [if_pos c1]
      simp only [c1, decide_true, Bool.true_or, if_true, Prod.mk.injEq, Option.some.injEq] at e
      simp only [hv]
      exact ⟨e.1, by simpa using e.2, h⟩
    · by_cases c2 : site ≥ b.length
      · have hv : replaceChar name site c b = some (b, true) := by
          unfold replaceChar; rw [if_neg c1, if_pos c2]
        simp only [c2, decide_true, Bool.or_true, if_true, Prod.mk.injEq, Option.some.injEq] at e
        simp only [hv]
        exact ⟨e.1, by simpa using e.2, h⟩
      · simp only [c1, c2, decide_false, Bool.or_false, Bool.false_eq_true, if_false] at e
        have hfirst := h.first name
        cases hf : b.rows.find? (fun r => r.name == name) with
        | none =>
          have hl : idxLookup name b.index = none := by rw [hfirst, hf]; rfl
          have hv : replaceChar name site c b = some (b, true) := by
            unfold replaceChar; rw [if_neg c1, if_neg c2]; simp only [hl]
          have hn : (firstNamed name (abs b).rows).isNone = true := by
            rw [abs_rows, pairs, firstNamed_pairs, hf]; rfl
          rw [if_pos hn] at e
          simp only [Prod.mk.injEq, Option.some.injEq] at e
          simp only [hv]
          exact ⟨e.1, by simpa using e.2, h⟩
        | some r0 =>
          have hl : idxLookup name b.index = some r0.id := by rw [hfirst, hf]; rfl
          have hshort : (b.rows.any fun r => r.id == r0.id && decide (r.seq.length ≤ site.toNat)) = false := by
            simp only [List.any_eq_false, Bool.and_eq_true, decide_eq_true_eq, not_and, Nat.not_le]
            intro r hr _
            have := h.rect.rows_len ha r hr
            omega
          have hv : replaceChar name site c b =
              some ({ b with rows := setInRow r0.id site.toNat c b.rows }, false) := by
            unfold replaceChar; rw [if_neg c1, if_neg c2]; simp only [hl, hshort]
            simp
          have hn : ¬ (firstNamed name (abs b).rows).isNone = true := by
            rw [abs_rows, pairs, firstNamed_pairs, hf]; simp
          rw [if_neg hn] at e
          simp only [Prod.mk.injEq, Option.some.injEq] at e
          obtain ⟨e1, e2⟩ := e
          subst e1 e2
          simp only [hv]
          refine ⟨?_, by simp, ?_⟩
          · have := pairs_setInRow h.inv.ids_nodup hf site.toNat c
            simp only [abs, pairs] at this ⊢
            rw [this, ha]
          · exact h.transfer_seqs (by simp only []; rw [keys_setInRow]) rfl rfl rfl rfl
              (h.rect.congr rfl rfl (lens_setInRow _ _ _ _))
  · have ha' : b.isAlign = false := by simpa using ha
    simp only [ha', Bool.not_false, if_true, Prod.mk.injEq, Option.some.injEq] at e ⊢
    exact ⟨e.1, e.2, h⟩

/-! ### `RemoveGapSites`: the C12 model on rectangular rows is the reference's statement -/

/-- the reference's statement on plain rows of `L` columns: new rows and status -/
def specGapSites (num den : Nat) (ends : Bool) (rows : List (String × Seq)) (L : Nat) : List (String × Seq) × String :=
  let q : List Bool := (List.range L).map fun j =>
    cutoffTest num den (rows.filter fun r => r.2[j]? == some GAP).length rows.length
  let lead := (q.takeWhile id).length
  let trail := (q.reverse.takeWhile id).length
  let gone (i : Nat) : Bool := q.getD i false && (!ends || i < lead || i ≥ L - trail)
  let kept := (List.range L).filter fun i => !gone i
  let removed := (List.range L).filter gone
  (rows.map fun r => (r.1, kept.filterMap fun j => r.2[j]?), sitesStatus lead trail kept removed)

theorem spec_rmGapSites_eq (s : SBag) (num den : Nat) (ends : Bool) :
    Spec.stepOp s (.rmGapSites num den ends) =
      if !s.isAlign then (some s, "na") else
      if s.rows = [] then (some s, sitesStatus 0 0 [] []) else
      (some { s with rows := (specGapSites num den ends s.rows s.length.toNat).1 },
       (specGapSites num den ends s.rows s.length.toNat).2) := rfl

theorem siteCounts_gap (col : List Byte) (alphabet : Nat) :
    siteCounts col [GAP] alphabet false false false false = ((col.filter fun x => x == GAP).length, col.length) := by
  have h1 : (col.filter fun x => (containsRune [GAP] x false) != false) = col.filter fun x => x == GAP := by
    apply List.filter_congr
    intro x _
    simp only [containsRune, List.any_cons, List.any_nil, Bool.false_and, Bool.or_false]
    cases h : (GAP == x) <;> cases h' : (x == GAP) <;> simp_all
  have h2 : (col.filter fun x => !((false && x == GAP) || (false && (x == (wildcard alphabet).1 || x == (wildcard alphabet).2)))) = col := by
    simp
  simp only [siteCounts]
  rw [h1, h2]

theorem map_getD_eq_filterMap (s : Seq) (ks : List Nat) (h : ∀ k ∈ ks, k < s.length) :
    ks.map (fun j => s.getD j 0) = ks.filterMap (fun j => s[j]?) := by
  induction ks with
  | nil => rfl
  | cons k t ih =>
    have hk := h k (by simp)
    have := ih (fun k hk => h k (List.mem_cons_of_mem _ hk))
    rw [List.map_cons, List.filterMap_cons, this]
    simp [List.getD_eq_getElem?_getD, List.getElem?_eq_getElem hk]

/-- the qualification list of the model = the reference's, on rows that all have `L` columns -/
theorem gapQual_eq (num den : Nat) (rows : CRows) (L : Nat) (hlen : ∀ p ∈ rows, p.2.length = L) (alphabet : Nat) :
    ((List.range L).map fun j =>
      cutoffTest num den (siteCounts (columnAt rows j) [GAP] alphabet false false false false).1
        (siteCounts (columnAt rows j) [GAP] alphabet false false false false).2) =
    (List.range L).map fun j => cutoffTest num den (rows.filter fun r => r.2[j]? == some GAP).length rows.length := by
  apply List.map_congr_left
  intro j hj
  have hj' : j < L := List.mem_range.mp hj
  rw [siteCounts_gap]
  simp only [columnAt, List.length_map, List.filter_map, Function.comp_def]
  congr 1
  apply congrArg List.length
  apply List.filter_congr
  intro p hp
  have hlt : j < p.2.length := by rw [hlen p hp]; exact hj'
  simp [List.getD_eq_getElem?_getD, List.getElem?_eq_getElem hlt]

theorem suffixRun_le (q : List Bool) : (q.reverse.takeWhile id).length ≤ q.length := by
  have := (List.takeWhile_sublist (p := id) (l := q.reverse)).length_le
  simpa using this

/-- **the C12 model of `RemoveGapSites` on non-empty rectangular rows = the reference's statement** -/
theorem removeGapSites_rows_eq (num den : Nat) (ends : Bool) (rows : CRows) (hne : rows ≠ []) (L : Nat)
    (hlen : ∀ p ∈ rows, p.2.length = L) (alphabet : Nat) :
    (removeCharacterSites (cutoffTest num den) rows (L : Int) alphabet [GAP] ends false false false false).rows =
      (specGapSites num den ends rows L).1 ∧
    (let r := removeCharacterSites (cutoffTest num den) rows (L : Int) alphabet [GAP] ends false false false false
     sitesStatus r.first r.last r.kept r.removed) = (specGapSites num den ends rows L).2 := by
  rw [Gv.Props.C12.removeCharacterSites_unfold, gapQual_eq num den rows L hlen]
  generalize hq : ((List.range L).map fun j =>
    cutoffTest num den (rows.filter fun r => r.2[j]? == some GAP).length rows.length) = q
  have hql : q.length = L := by rw [← hq]; simp
  have he : rows.isEmpty = false := by cases rows <;> simp_all
  have hsuf := suffixRun_le q
  unfold specGapSites
  simp only [hq]
  subst hql
  have hp : (q.takeWhile id).length = Gv.Props.C12.prefixRun q := rfl
  have hs : (q.reverse.takeWhile id).length = Gv.Props.C12.suffixRun q := rfl
  rw [hs] at hsuf
  simp only [hp, hs]
  unfold removeSites
  rw [Gv.Props.C12.trackers_spec]
  simp only [he, Bool.false_eq_true, if_false]
  generalize Gv.Props.C12.prefixRun q = lead
  generalize Gv.Props.C12.suffixRun q = trail at hsuf
  have hpt : ∀ i, (q.getD i false && (!ends || decide (i ≥ q.length - trail) || decide (i + 1 ≤ lead))) =
      (q.getD i false && (!ends || decide (i < lead) || decide (i ≥ q.length - trail))) := by
    intro i
    have e : decide (i + 1 ≤ lead) = decide (i < lead) := by simp [Nat.lt_iff_add_one_le]
    rw [e]
    cases q.getD i false <;> cases ends <;> cases decide (i < lead) <;>
      cases decide (i ≥ q.length - trail) <;> rfl
  have hkept : (List.range q.length).filter (fun i => !(q.getD i false && (!ends || decide (i ≥ q.length - trail) || decide (i + 1 ≤ lead)))) =
      (List.range q.length).filter (fun i => !(q.getD i false && (!ends || decide (i < lead) || decide (i ≥ q.length - trail)))) := by
    apply List.filter_congr
    intro i _
    rw [hpt i]
  have hrem : (List.range q.length).filter (fun i => (q.getD i false && (!ends || decide (i ≥ q.length - trail) || decide (i + 1 ≤ lead)))) =
      (List.range q.length).filter (fun i => (q.getD i false && (!ends || decide (i < lead) || decide (i ≥ q.length - trail)))) := by
    apply List.filter_congr
    intro i _
    rw [hpt i]
  have hlast : q.length - (q.length - trail) = trail := by omega
  rw [hkept, hrem, hlast]
  refine ⟨?_, rfl⟩
  apply List.map_congr_left
  intro p hp
  congr 1
  apply map_getD_eq_filterMap
  intro k hk
  rw [hlen p hp]
  exact List.mem_range.mp (List.mem_filter.mp hk).1

/-- result and state of the model's `RemoveGapSites` when no row is too short -/
def rgsRes (test : Nat → Nat → Bool) (ends : Bool) (b : Bag) : CleanResult :=
  removeCharacterSites test (pairs b) b.length b.alphabet [GAP] ends false false false false
def rgsState (test : Nat → Nat → Bool) (ends : Bool) (b : Bag) : Bag :=
  { b with rows := withSeqs b.rows (rgsRes test ends b).rows, length := (rgsRes test ends b).length }

theorem removeGapSites_rect_eq {b : Bag} (h : Rect b) (ha : b.isAlign = true) (test : Nat → Nat → Bool) (ends : Bool) :
    removeGapSites test ends b = some (rgsState test ends b, rgsRes test ends b) := by
  have hshort : ¬ (b.rows.any fun r => decide (r.seq.length < b.length.toNat)) = true := by
    simp only [List.any_eq_true, decide_eq_true_eq, not_exists, not_and, Nat.not_lt]
    intro r hr
    have := h.rows_len ha r hr
    omega
  unfold removeGapSites; rw [if_neg hshort]; rfl

theorem rgsRes_empty {b : Bag} (h : Rect b) (ha : b.isAlign = true) (hrows : b.rows = [])
    (test : Nat → Nat → Bool) (ends : Bool) : rgsRes test ends b = unchanged [] (-1) := by
  have hlen : b.length = -1 := h.empty_len ha hrows
  unfold rgsRes removeCharacterSites
  rw [if_pos (by omega), hlen]
  simp [pairs, hrows]

theorem rgsRes_nonempty {b : Bag} (h : Rect b) (ha : b.isAlign = true) (hrows : b.rows ≠ [])
    (num den : Nat) (ends : Bool) :
    (rgsRes (cutoffTest num den) ends b).rows = (specGapSites num den ends (pairs b) b.length.toNat).1 ∧
    sitesStatus (rgsRes (cutoffTest num den) ends b).first (rgsRes (cutoffTest num den) ends b).last
      (rgsRes (cutoffTest num den) ends b).kept (rgsRes (cutoffTest num den) ends b).removed =
        (specGapSites num den ends (pairs b) b.length.toNat).2 := by
  have hpne : pairs b ≠ [] := by simpa [pairs] using hrows
  have hnn : 0 ≤ b.length := by
    cases hr : b.rows with
    | nil => exact absurd hr hrows
    | cons y t =>
      have := h.rows_len ha y (by simp [hr])
      omega
  have hL : ((b.length.toNat : Nat) : Int) = b.length := Int.toNat_of_nonneg hnn
  have hlen : ∀ p ∈ pairs b, p.2.length = b.length.toNat := by
    intro p hp
    obtain ⟨r, hr, rfl⟩ := List.mem_map.mp hp
    have := h.rows_len ha r hr
    simp only []
    omega
  have key := removeGapSites_rows_eq num den ends (pairs b) hpne b.length.toNat hlen b.alphabet
  rw [hL] at key
  exact key

theorem ref_rmGapSites {b : Bag} (h : Good b) (num den : Nat) (ends : Bool) :
    Refines b (.rmGapSites num den ends) := by
  intro s' st e
  rw [spec_rmGapSites_eq] at e
  simp only [Model.stepOp, abs_isAlign] at e ⊢
  by_cases ha : b.isAlign = true
  · simp only [ha, Bool.not_true, Bool.false_eq_true, if_false] at e ⊢
    have hv := removeGapSites_rect_eq h.rect ha (cutoffTest num den) ends
    have hgood : Good (rgsState (cutoffTest num den) ends b) := by
      obtain ⟨k, i, n, a, al, _⟩ := removeGapSites_fields hv
      exact h.transfer_seqs k i n a al (rect_removeGapSites _ ends h.rect _ hv)
    have hnames : (rgsRes (cutoffTest num den) ends b).rows.map Prod.fst = b.rows.map (·.name) :=
      (removeCharacterSites_names (cutoffTest num den) (pairs b) b.length b.alphabet [GAP] ends false false false false).trans (pairs_names b)
    have habs : abs (rgsState (cutoffTest num den) ends b) =
        { abs b with rows := (rgsRes (cutoffTest num den) ends b).rows } := by
      have := pairs_withSeqs b.rows _ hnames
      simp only [abs, pairs, rgsState]
      rw [this]
    simp only [hv]
    refine ⟨?_, ?_, hgood⟩
    · rw [habs]
      by_cases hrows : b.rows = []
      · have hp : (abs b).rows = [] := by simp [pairs, hrows]
        rw [if_pos hp] at e
        simp only [Prod.mk.injEq, Option.some.injEq] at e
        rw [← e.1, rgsRes_empty h.rect ha hrows]
        simp [unchanged, abs, pairs, hrows]
      · have hp : ¬ (abs b).rows = [] := by simpa [pairs] using hrows
        rw [if_neg hp] at e
        simp only [Prod.mk.injEq, Option.some.injEq] at e
        rw [← e.1, (rgsRes_nonempty h.rect ha hrows num den ends).1, h.rect.abs_length ha]
        simp [abs, ha]
    · by_cases hrows : b.rows = []
      · have hp : (abs b).rows = [] := by simp [pairs, hrows]
        rw [if_pos hp] at e
        simp only [Prod.mk.injEq] at e
        rw [← e.2, rgsRes_empty h.rect ha hrows]
        rfl
      · have hp : ¬ (abs b).rows = [] := by simpa [pairs] using hrows
        rw [if_neg hp] at e
        simp only [Prod.mk.injEq] at e
        rw [← e.2, (rgsRes_nonempty h.rect ha hrows num den ends).2, h.rect.abs_length ha]
        rfl
  · have ha' : b.isAlign = false := by simpa using ha
    simp only [ha', Bool.not_false, if_true, Prod.mk.injEq, Option.some.injEq] at e ⊢
    exact ⟨e.1, e.2, h⟩

/-! ### `Compress`: the C13 model on rectangular rows is the reference's statement -/

/-- the reference's statement on plain rows of `L` columns: new rows and status -/
def specCompress (rows : List (String × Seq)) (L : Nat) : List (String × Seq) × String :=
  let cols := (List.range L).map fun j => rows.filterMap fun r => r.2[j]?
  let tbl := patternTable cols
  (rows.zipIdx.map fun (r, i) => (r.1, tbl.filterMap fun p => p.1[i]?), "ok[" ++ plusList (tbl.map Prod.snd) ++ "]")

theorem spec_compress_eq (s : SBag) :
    Spec.stepOp s .compress =
      if !s.isAlign then (some s, "na") else
      if s.rows = [] then (some s, "ok[_]") else
      (some { s with rows := (specCompress s.rows s.length.toNat).1 }, (specCompress s.rows s.length.toNat).2) := rfl

theorem column_eq_filterMap (rows : CRows) (j : Nat) (h : ∀ p ∈ rows, j < p.2.length) :
    columnAt rows j = rows.filterMap fun r => r.2[j]? := by
  induction rows with
  | nil => rfl
  | cons p t ih =>
    have hp := h p (by simp)
    have := ih (fun q hq => h q (List.mem_cons_of_mem _ hq))
    simp only [columnAt, List.map_cons] at this ⊢
    rw [List.filterMap_cons, this]
    simp [List.getD_eq_getElem?_getD, List.getElem?_eq_getElem hp]

theorem pats_getD_eq_filterMap (tbl : List (List Byte × Nat)) (i : Nat) (h : ∀ p ∈ tbl, i < p.1.length) :
    (tbl.map fun p => p.1.getD i 0) = tbl.filterMap fun p => p.1[i]? := by
  induction tbl with
  | nil => rfl
  | cons p t ih =>
    have hp := h p (by simp)
    have := ih (fun q hq => h q (List.mem_cons_of_mem _ hq))
    rw [List.map_cons, List.filterMap_cons, this]
    simp [List.getD_eq_getElem?_getD, List.getElem?_eq_getElem hp]

/-- **the C13 model of `Compress` on rectangular rows = the reference's statement** -/
theorem compress_rows_eq (rows : CRows) (L : Nat) (hlen : ∀ p ∈ rows, p.2.length = L) :
    (compress rows (L : Int)).1 = (specCompress rows L).1 ∧
    "ok[" ++ plusList (compress rows (L : Int)).2.1 ++ "]" = (specCompress rows L).2 := by
  have hcols : ((List.range L).map (columnAt rows)) = (List.range L).map fun j => rows.filterMap fun r => r.2[j]? := by
    apply List.map_congr_left
    intro j hj
    apply column_eq_filterMap
    intro p hp
    rw [hlen p hp]; exact List.mem_range.mp hj
  have hpat : ∀ e ∈ patternTable ((List.range L).map (columnAt rows)), e.1.length = rows.length := by
    intro e he
    obtain ⟨j, _, ej⟩ := List.mem_map.mp (Gv.Props.C13.patternTable_mem _ e he).1
    rw [← ej]; simp [columnAt]
  unfold compress specCompress
  simp only [Int.toNat_natCast]
  rw [← hcols]
  refine ⟨?_, rfl⟩
  apply List.map_congr_left
  intro ri hri
  obtain ⟨r, i⟩ := ri
  have hi : i < rows.length := by simpa using List.snd_lt_of_mem_zipIdx hri
  simp only []
  congr 1
  apply pats_getD_eq_filterMap
  intro e he
  rw [hpat e he]; exact hi

/-- result and state of the model's `Compress` when no row is too short -/
def cmpRes (b : Bag) : CRows × List Nat × Int := compress (pairs b) b.length
def cmpState (b : Bag) : Bag := { b with rows := withSeqs b.rows (cmpRes b).1, length := (cmpRes b).2.2 }

theorem compressBag_rect_eq {b : Bag} (h : Rect b) (ha : b.isAlign = true) :
    compressBag b = some (cmpState b, (cmpRes b).2.1) := by
  have hshort : ¬ (b.rows.any fun r => decide (r.seq.length < b.length.toNat)) = true := by
    simp only [List.any_eq_true, decide_eq_true_eq, not_exists, not_and, Nat.not_lt]
    intro r hr
    have := h.rows_len ha r hr
    omega
  unfold compressBag; rw [if_neg hshort]; rfl

theorem cmpRes_nonempty {b : Bag} (h : Rect b) (ha : b.isAlign = true) (hrows : b.rows ≠ []) :
    (cmpRes b).1 = (specCompress (pairs b) b.length.toNat).1 ∧
    "ok[" ++ plusList (cmpRes b).2.1 ++ "]" = (specCompress (pairs b) b.length.toNat).2 := by
  have hnn : 0 ≤ b.length := by
    cases hr : b.rows with
    | nil => exact absurd hr hrows
    | cons y t =>
      have := h.rows_len ha y (by simp [hr])
      omega
  have hL : ((b.length.toNat : Nat) : Int) = b.length := Int.toNat_of_nonneg hnn
  have hlen : ∀ p ∈ pairs b, p.2.length = b.length.toNat := by
    intro p hp
    obtain ⟨r, hr, rfl⟩ := List.mem_map.mp hp
    have := h.rows_len ha r hr
    simp only []
    omega
  have key := compress_rows_eq (pairs b) b.length.toNat hlen
  rw [hL] at key
  exact key

theorem ref_compress {b : Bag} (h : Good b) : Refines b .compress := by
  intro s' st e
  rw [spec_compress_eq] at e
  simp only [Model.stepOp, abs_isAlign] at e ⊢
  by_cases ha : b.isAlign = true
  · simp only [ha, Bool.not_true, Bool.false_eq_true, if_false] at e ⊢
    by_cases hrows : b.rows = []
    · have hp : (abs b).rows = [] := by simp [pairs, hrows]
      rw [if_pos hp] at e
      simp only [Prod.mk.injEq, Option.some.injEq] at e
      have hemp : b.rows.isEmpty = true := by simp [hrows]
      simp only [hemp, if_true]
      exact ⟨e.1, e.2, h⟩
    · have hp : ¬ (abs b).rows = [] := by simpa [pairs] using hrows
      rw [if_neg hp] at e
      simp only [Prod.mk.injEq, Option.some.injEq] at e
      have hemp : b.rows.isEmpty = false := by cases hb : b.rows <;> simp_all
      simp only [hemp, Bool.false_eq_true, if_false]
      have hv := compressBag_rect_eq h.rect ha
      have hgood : Good (cmpState b) := by
        obtain ⟨k, i, n, a, al, _⟩ := compressBag_fields hv
        exact h.transfer_seqs k i n a al (rect_compressBag hrows _ hv)
      have hnames : (cmpRes b).1.map Prod.fst = b.rows.map (·.name) :=
        ((Gv.Props.C13.compress_spec (pairs b) b.length).1).trans (pairs_names b)
      have habs : abs (cmpState b) = { abs b with rows := (cmpRes b).1 } := by
        have := pairs_withSeqs b.rows _ hnames
        simp only [abs, pairs, cmpState]
        rw [this]
      simp only [hv]
      refine ⟨?_, ?_, hgood⟩
      · rw [habs, ← e.1, (cmpRes_nonempty h.rect ha hrows).1, h.rect.abs_length ha]
        simp [abs, ha]
      · rw [← e.2, (cmpRes_nonempty h.rect ha hrows).2, h.rect.abs_length ha]
        rfl
  · have ha' : b.isAlign = false := by simpa using ha
    simp only [ha', Bool.not_false, if_true, Prod.mk.injEq, Option.some.injEq] at e ⊢
    exact ⟨e.1, e.2, h⟩

end Gv.Proofs.BagAbs
