import Gv.Proofs.BagRef10
/-!
Refinement (C01), part 11: `ReverseComplement`, `ReplaceChar`, `RemoveGapSites`, `Compress` — the
operations whose row-level models are shared with C06, C12 and C13.
-/
namespace Gv.Proofs.BagAbs
open Gv Gv.Model Gv.Spec Gv.Proofs.BagInv

/-! ### `ReverseComplement` -/

/-- the plain meaning of complementing: residue by residue -/
def complMap (s : Seq) : Seq := s.map fun c => (complementByte c).getD c

theorem complementSeq_ok (s : Seq) (h : (s.any fun c => (complementByte c).isNone) = false) :
    complementSeq s = (complMap s, false) := by
  induction s with
  | nil => rfl
  | cons c t ih =>
    simp only [List.any_cons, Bool.or_eq_false_iff] at h
    simp only [complementSeq]
    cases hc : complementByte c with
    | none => simp [hc] at h
    | some d => simp [ih h.2, complMap, hc]

theorem revcompRows_ok (l : List (String × Seq))
    (h : (l.any fun r => r.2.any fun c => (complementByte c).isNone) = false) :
    revcompRows l = (l.map fun r => (r.1, (complMap r.2).reverse), false) := by
  induction l with
  | nil => rfl
  | cons p t ih =>
    obtain ⟨n, s⟩ := p
    simp only [List.any_cons, Bool.or_eq_false_iff] at h
    simp only [revcompRows, revcompSeq, complementSeq_ok s h.1, ih h.2]
    simp

theorem good_reverseComplement {b : Bag} (h : Good b) : Good (reverseComplement b).1 :=
  h.transfer_seqs (reverseComplement_keys b) (reverseComplement_fields b).1 (reverseComplement_fields b).2.1
    (reverseComplement_fields b).2.2.1 (reverseComplement_fields b).2.2.2.1 (rect_reverseComplement h.rect)

theorem ref_revcomp {b : Bag} (h : Good b) : Refines b .revcomp := by
  intro s' st e
  simp only [Spec.stepOp] at e
  simp only [Model.stepOp]
  refine ⟨?_, ?_, good_reverseComplement h⟩
  · by_cases ha : ((abs b).alphabet != NUCLEOTIDS) = true
    · have ha' : (b.alphabet != NUCLEOTIDS) = true := ha
      rw [if_pos ha] at e
      simp only [Prod.mk.injEq, Option.some.injEq] at e
      rw [← e.1]
      unfold reverseComplement; rw [if_pos ha']
    · have ha' : ¬ (b.alphabet != NUCLEOTIDS) = true := ha
      rw [if_neg ha] at e
      split at e
      · simp at e
      · rename_i hbad
        have hbad' : ((pairs b).any fun r => r.2.any fun c => (complementByte c).isNone) = false := by
          simpa using hbad
        simp only [Prod.mk.injEq, Option.some.injEq] at e
        rw [← e.1]
        unfold reverseComplement; rw [if_neg ha']
        simp only [revcompRows_ok _ hbad']
        have hn : ((pairs b).map fun r => (r.1, (complMap r.2).reverse)).map Prod.fst = b.rows.map (·.name) := by
          simp [pairs, List.map_map, Function.comp_def]
        have := pairs_withSeqs b.rows _ hn
        simp only [abs, pairs] at this ⊢
        rw [this]
        simp [complMap]
  · by_cases ha : ((abs b).alphabet != NUCLEOTIDS) = true
    · have ha' : (b.alphabet != NUCLEOTIDS) = true := ha
      rw [if_pos ha] at e
      simp only [Prod.mk.injEq] at e
      rw [← e.2]
      unfold reverseComplement; rw [if_pos ha']; rfl
    · have ha' : ¬ (b.alphabet != NUCLEOTIDS) = true := ha
      rw [if_neg ha] at e
      split at e
      · simp at e
      · rename_i hbad
        have hbad' : ((pairs b).any fun r => r.2.any fun c => (complementByte c).isNone) = false := by
          simpa using hbad
        simp only [Prod.mk.injEq] at e
        rw [← e.2]
        unfold reverseComplement; rw [if_neg ha']
        simp only [revcompRows_ok _ hbad']
        rfl

end Gv.Proofs.BagAbs
