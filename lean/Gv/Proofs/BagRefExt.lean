import Gv.Proofs.BagRef10
/-!
Refinement (C01), part 11: `ReverseComplement`, `ReplaceChar`, `RemoveGapSites`, `Compress` — the
operations whose row-level models are shared with C06, C12 and C13.
-/
namespace Gv.Proofs.BagAbs
open Gv Gv.Model Gv.Spec Gv.Proofs.BagInv

/-! ### `ReverseComplement` -/

/-- the plain meaning of complementing: residue by residue -/
def complMap (s : Seq) : Seq := s.map fun c => (complementByte c).getD c

theorem complementSeq_ok (s : Seq) (h : (s.any fun c => (complementByte c).isNone) = false) :
    complementSeq s = (complMap s, false) := by
  induction s with
  | nil => rfl
  | cons c t ih =>
    simp only [List.any_cons, Bool.or_eq_false_iff] at h
    simp only [complementSeq]
    cases hc : complementByte c with
    | none => simp [hc] at h
    | some d => simp [ih h.2, complMap, hc]

theorem revcompRows_ok (l : List (String × Seq))
    (h : (l.any fun r => r.2.any fun c => (complementByte c).isNone) = false) :
    revcompRows l = (l.map fun r => (r.1, (complMap r.2).reverse), false) := by
  induction l with
  | nil => rfl
  | cons p t ih =>
    obtain ⟨n, s⟩ := p
    simp only [List.any_cons, Bool.or_eq_false_iff] at h
    simp only [revcompRows, revcompSeq, complementSeq_ok s h.1, ih h.2]
    simp

theorem good_reverseComplement {b : Bag} (h : Good b) : Good (reverseComplement b).1 :=
  h.transfer_seqs (reverseComplement_keys b) (reverseComplement_fields b).1 (reverseComplement_fields b).2.1
    (reverseComplement_fields b).2.2.1 (reverseComplement_fields b).2.2.2.1 (rect_reverseComplement h.rect)

theorem ref_revcomp {b : Bag} (h : Good b) : Refines b .revcomp := by
  intro s' st e
  simp only [Spec.stepOp] at e
  simp only [Model.stepOp]
  refine ⟨?_, ?_, good_reverseComplement h⟩
  · by_cases ha : ((abs b).alphabet != NUCLEOTIDS) = true
    · have ha' : (b.alphabet != NUCLEOTIDS) = true := ha
      rw [if_pos ha] at e
      simp only [Prod.mk.injEq, Option.some.injEq] at e
      rw [← e.1]
      unfold reverseComplement; rw [if_pos ha']
    · have ha' : ¬ (b.alphabet != NUCLEOTIDS) = true := ha
      rw [if_neg ha] at e
      split at e
      · simp at e
      · rename_i hbad
        have hbad' : ((pairs b).any fun r => r.2.any fun c => (complementByte c).isNone) = false := by
          simpa using hbad
        simp only [Prod.mk.injEq, Option.some.injEq] at e
        rw [← e.1]
        unfold reverseComplement; rw [if_neg ha']
        simp only [revcompRows_ok _ hbad']
        have hn : ((pairs b).map fun r => (r.1, (complMap r.2).reverse)).map Prod.fst = b.rows.map (·.name) := by
          simp [pairs, List.map_map, Function.comp_def]
        have := pairs_withSeqs b.rows _ hn
        simp only [abs, pairs] at this ⊢
        rw [this]
        simp [complMap]
  · by_cases ha : ((abs b).alphabet != NUCLEOTIDS) = true
    · have ha' : (b.alphabet != NUCLEOTIDS) = true := ha
      rw [if_pos ha] at e
      simp only [Prod.mk.injEq] at e
      rw [← e.2]
      unfold reverseComplement; rw [if_pos ha']; rfl
    · have ha' : ¬ (b.alphabet != NUCLEOTIDS) = true := ha
      rw [if_neg ha] at e
      split at e
      · simp at e
      · rename_i hbad
        have hbad' : ((pairs b).any fun r => r.2.any fun c => (complementByte c).isNone) = false := by
          simpa using hbad
        simp only [Prod.mk.injEq] at e
        rw [← e.2]
        unfold reverseComplement; rw [if_neg ha']
        simp only [revcompRows_ok _ hbad']
        rfl

/-! ### `ReplaceChar` -/

theorem setInRow_of_not_mem (i j : Nat) (c : Byte) (rows : List Row) (h : i ∉ rows.map (·.id)) :
    setInRow i j c rows = rows := by
  induction rows with
  | nil => rfl
  | cons x t ih =>
    simp only [List.map_cons, List.mem_cons, not_or] at h
    have hx : (x.id == i) = false := by simpa using fun e => h.1 e.symm
    have := ih h.2
    simp only [setInRow, List.map_cons] at this ⊢
    rw [this, hx]; simp

/-- writing through the pointer of the first row called `n` = updating the first pair called `n` -/
theorem pairs_setInRow {rows : List Row} (hn : (rows.map (·.id)).Nodup) {n : String} {r0 : Row}
    (hf : rows.find? (fun r => r.name == n) = some r0) (j : Nat) (c : Byte) :
    (setInRow r0.id j c rows).map (fun r => (r.name, r.seq)) =
      updateFirst n (fun s => s.set j c) (rows.map fun r => (r.name, r.seq)) := by
  induction rows with
  | nil => simp at hf
  | cons x t ih =>
    simp only [List.map_cons, List.nodup_cons] at hn
    simp only [List.find?_cons] at hf
    by_cases hx : (x.name == n) = true
    · simp only [hx, Option.some.injEq] at hf
      subst hf
      have htail := setInRow_of_not_mem x.id j c t hn.1
      simp only [setInRow, List.map_cons] at htail ⊢
      rw [htail]
      simp [updateFirst, hx, setAt]
    · have hx' : (x.name == n) = false := by simpa using hx
      simp only [hx'] at hf
      have hmem : r0 ∈ t := List.mem_of_find?_eq_some hf
      have hid : (x.id == r0.id) = false := by
        have : x.id ≠ r0.id := fun e => hn.1 (e ▸ List.mem_map_of_mem (f := (·.id)) hmem)
        simpa using this
      have := ih hn.2 hf
      simp only [setInRow, List.map_cons] at this ⊢
      rw [this, hid]
      simp [updateFirst, hx']

theorem ref_replaceChar {b : Bag} (h : Good b) (name : String) (site : Int) (c : Byte) :
    Refines b (.replaceChar name site c) := by
  intro s' st e
  simp only [Spec.stepOp, Model.stepOp, abs_isAlign] at e ⊢
  by_cases ha : b.isAlign = true
  · simp only [ha, Bool.not_true, Bool.false_eq_true, if_false, h.rect.abs_length ha] at e ⊢
    by_cases c1 : site < 0
    · have hv : replaceChar name site c b = some (b, true) := by unfold replaceChar; rw [if_pos c1]
      simp only [c1, decide_true, Bool.true_or, if_true, Prod.mk.injEq, Option.some.injEq] at e
      simp only [hv]
      exact ⟨e.1, by simpa using e.2, h⟩
    · by_cases c2 : site ≥ b.length
      · have hv : replaceChar name site c b = some (b, true) := by
          unfold replaceChar; rw [if_neg c1, if_pos c2]
        simp only [c2, decide_true, Bool.or_true, if_true, Prod.mk.injEq, Option.some.injEq] at e
        simp only [hv]
        exact ⟨e.1, by simpa using e.2, h⟩
      · simp only [c1, c2, decide_false, Bool.or_false, Bool.false_eq_true, if_false] at e
        have hfirst := h.first name
        cases hf : b.rows.find? (fun r => r.name == name) with
        | none =>
          have hl : idxLookup name b.index = none := by rw [hfirst, hf]; rfl
          have hv : replaceChar name site c b = some (b, true) := by
            unfold replaceChar; rw [if_neg c1, if_neg c2]; simp only [hl]
          have hn : (firstNamed name (abs b).rows).isNone = true := by
            rw [abs_rows, pairs, firstNamed_pairs, hf]; rfl
          rw [if_pos hn] at e
          simp only [Prod.mk.injEq, Option.some.injEq] at e
          simp only [hv]
          exact ⟨e.1, by simpa using e.2, h⟩
        | some r0 =>
          have hl : idxLookup name b.index = some r0.id := by rw [hfirst, hf]; rfl
          have hshort : (b.rows.any fun r => r.id == r0.id && decide (r.seq.length ≤ site.toNat)) = false := by
            simp only [List.any_eq_false, Bool.and_eq_true, decide_eq_true_eq, not_and, Nat.not_le]
            intro r hr _
            have := h.rect.rows_len ha r hr
            omega
          have hv : replaceChar name site c b =
              some ({ b with rows := setInRow r0.id site.toNat c b.rows }, false) := by
            unfold replaceChar; rw [if_neg c1, if_neg c2]; simp only [hl, hshort]
            simp
          have hn : ¬ (firstNamed name (abs b).rows).isNone = true := by
            rw [abs_rows, pairs, firstNamed_pairs, hf]; simp
          rw [if_neg hn] at e
          simp only [Prod.mk.injEq, Option.some.injEq] at e
          obtain ⟨e1, e2⟩ := e
          subst e1 e2
          simp only [hv]
          refine ⟨?_, by simp, ?_⟩
          · have := pairs_setInRow h.inv.ids_nodup hf site.toNat c
            simp only [abs, pairs] at this ⊢
            rw [this, ha]
          · exact h.transfer_seqs (by simp only []; rw [keys_setInRow]) rfl rfl rfl rfl
              (h.rect.congr rfl rfl (lens_setInRow _ _ _ _))
  · have ha' : b.isAlign = false := by simpa using ha
    simp only [ha', Bool.not_false, if_true, Prod.mk.injEq, Option.some.injEq] at e ⊢
    exact ⟨e.1, e.2, h⟩

end Gv.Proofs.BagAbs
