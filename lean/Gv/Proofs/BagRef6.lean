import Gv.Proofs.BagRef5
/-!
Refinement (C01), part 6: `Translate`.  The Go code re-inserts, row by row and frame by frame, into
the cleared container and refreshes the cached length from the first row; the reference maps every row
to its frames.
-/
namespace Gv.Proofs.BagAbs
open Gv Gv.Model Gv.Spec Gv.Proofs.BagInv

theorem pushAll_append (f : Bool) (b : Bag) (l1 l2 : List (String × Seq)) :
    pushAll f b (l1 ++ l2) = pushAll f (pushAll f b l1) l2 := by
  simp [pushAll, List.foldl_append]

theorem idxLookup_pushAll (f : Bool) (l : List (String × Seq)) (b : Bag) (m : String) (hm : m ∉ l.map Prod.fst) :
    idxLookup m (pushAll f b l).index = idxLookup m b.index := by
  induction l generalizing b with
  | nil => rfl
  | cons p t ih =>
    simp only [List.map_cons, List.mem_cons, not_or] at hm
    show idxLookup m (pushAll f (pushed f b p.1 p.2) t).index = _
    rw [ih _ hm.2]
    simp only [pushed]
    exact idxLookup_insert_other _ _ _ _ hm.1

theorem freshIn_append {f : Bool} {b : Bag} {l1 l2 : List (String × Seq)} (h : FreshIn b (l1 ++ l2)) :
    FreshIn b l1 ∧ FreshIn (pushAll f b l1) l2 := by
  obtain ⟨h1, h2⟩ := h
  rw [List.map_append] at h1
  obtain ⟨n1, n2, n3⟩ := List.nodup_append.mp h1
  refine ⟨⟨n1, fun p hp => h2 p (List.mem_append_left _ hp)⟩, n2, ?_⟩
  intro p hp
  rw [idxLookup_pushAll]
  · exact h2 p (List.mem_append_right _ hp)
  · intro hm
    exact n3 _ hm _ (List.mem_map_of_mem (f := Prod.fst) hp) rfl

/-- the frames of one row -/
def framesOf (code : List (List Byte × Byte)) (sfx : Bool) (r : Row) (l : List Nat) : List (String × Seq) :=
  l.map fun p => ((if sfx then r.name ++ "_" ++ toString p else r.name), (bufferTranslate code p r.seq).getD [])

theorem translateLoop1_ok (code) (phases : List Nat) (sfx : Bool) (r : Row) (l : List Nat) (b : Bag)
    (hok : ∀ p ∈ l, (bufferTranslate code p r.seq).isSome = true) (hf : FreshIn b (framesOf code sfx r l)) :
    translateLoop1 code phases sfx r l b = (pushAll false b (framesOf code sfx r l), false) := by
  induction l generalizing b with
  | nil => rfl
  | cons ph rest ih =>
    simp only [translateLoop1]
    cases hb : bufferTranslate code ph r.seq with
    | none => have := hok ph (by simp); rw [hb] at this; cases this
    | some q =>
      simp only []
      have hhead : framesOf code sfx r (ph :: rest) =
          ((if sfx then r.name ++ "_" ++ toString ph else r.name), q) :: framesOf code sfx r rest := by
        simp [framesOf, hb]
      rw [hhead] at hf ⊢
      have e := addSeqAs_fresh false b (if sfx then r.name ++ "_" ++ toString ph else r.name) q
        (hf.2 _ (List.mem_cons_self ..)) (by simp)
      simp only [addSeqBase, e, Bool.false_eq_true, if_false]
      exact ih _ (fun p hp => hok p (List.mem_cons_of_mem _ hp)) (freshIn_tail hf)

theorem translateRows_ok (code) (phases : List Nat) (sfx : Bool) (l : List Row) (b : Bag)
    (hok : ∀ r ∈ l, ∀ p ∈ phases, (bufferTranslate code p r.seq).isSome = true)
    (hf : FreshIn b (l.flatMap fun r => framesOf code sfx r phases)) :
    translateRows code phases sfx l b = (pushAll false b (l.flatMap fun r => framesOf code sfx r phases), false) := by
  induction l generalizing b with
  | nil => rfl
  | cons r t ih =>
    simp only [translateRows, List.flatMap_cons] at hf ⊢
    obtain ⟨f1, f2⟩ := freshIn_append (f := false) hf
    rw [translateLoop1_ok code phases sfx r phases b (hok r (by simp)) f1]
    simp only [Bool.false_eq_true, if_false]
    rw [ih _ (fun x hx => hok x (List.mem_cons_of_mem _ hx)) f2, pushAll_append]

def phasesOf (ph : Int) : List Nat := if ph == -1 then [0, 1, 2] else [ph.toNat]

/-- the reference's frames, translation outcome still optional -/
def specFrames (code : List (List Byte × Byte)) (ph : Int) (rows : List (String × Seq)) : List (String × Option Seq) :=
  rows.flatMap fun r => (phasesOf ph).map fun p =>
    ((if ph == -1 then r.1 ++ "_" ++ toString p else r.1), bufferTranslate code p r.2)

def specRows (code : List (List Byte × Byte)) (ph : Int) (rows : List (String × Seq)) : List (String × Seq) :=
  (specFrames code ph rows).map fun x => (x.1, x.2.getD [])

theorem spec_translate_eq (s : SBag) (ph codeId : Int) :
    Spec.stepOp s (.translate ph codeId) =
      match geneticCode codeId with
      | none => (none, "err")
      | some code =>
        if s.alphabet != NUCLEOTIDS then (none, "err") else
        if !s.names.Nodup then (none, "ok") else
        if (specFrames code ph s.rows).any (fun x => x.2.isNone) then (none, "err") else
        if !((specRows code ph s.rows).map Prod.fst).Nodup then (none, "ok") else
        if s.isAlign && (specRows code ph s.rows).any
            (fun r => r.2.length != ((specRows code ph s.rows).head?.map (·.2.length)).getD 0) then (none, "ok") else
        (some { s with rows := specRows code ph s.rows, alphabet := autoAlphabet ((specRows code ph s.rows).map Prod.snd) }, "ok") := rfl

theorem specRows_pairs (code : List (List Byte × Byte)) (ph : Int) (rows : List Row) :
    specRows code ph (rows.map fun r => (r.name, r.seq)) =
      rows.flatMap fun r => framesOf code (ph == -1) r (phasesOf ph) := by
  simp only [specRows, specFrames, framesOf, List.flatMap_map, List.map_flatMap, List.map_map, Function.comp_def]

theorem specFrames_all_some (code : List (List Byte × Byte)) (ph : Int) (rows : List Row)
    (h : (specFrames code ph (rows.map fun r => (r.name, r.seq))).any (fun x => x.2.isNone) = false) :
    ∀ r ∈ rows, ∀ p ∈ phasesOf ph, (bufferTranslate code p r.seq).isSome = true := by
  intro r hr p hp
  have := List.any_eq_false.mp h ((if ph == -1 then r.name ++ "_" ++ toString p else r.name), bufferTranslate code p r.seq)
    (by
      simp only [specFrames, List.mem_flatMap, List.mem_map]
      exact ⟨(r.name, r.seq), ⟨r, hr, rfl⟩, p, hp, rfl⟩)
  cases hb : bufferTranslate code p r.seq with
  | none => simp [hb] at this
  | some q => rfl

theorem fixLength_fields (x : Bag) : (fixLength x).rows = x.rows ∧ (fixLength x).index = x.index ∧
    (fixLength x).next = x.next ∧ (fixLength x).policy = x.policy ∧ (fixLength x).alphabet = x.alphabet ∧
    (fixLength x).isAlign = x.isAlign := by
  unfold fixLength; split <;> simp

theorem autoAlphabet_ne_both (rows : List Seq) : autoAlphabet rows ≠ BOTH := by
  simp only [autoAlphabet]
  split
  · simp [NUCLEOTIDS, BOTH]
  · split <;> simp [AMINOACIDS, UNKNOWN, BOTH]

def setAlpha (x : Bag) : Bag := { x with alphabet := autoAlphabet (x.rows.map (·.seq)) }

theorem translate_finish {b P : Bag} {F : List (String × Seq)} {T : Nat} (hgi : GI P) (hp : pairs P = F)
    (hpol : P.policy = b.policy) (hal : P.isAlign = b.isAlign)
    (hlen : b.isAlign = true → ∀ r ∈ F, r.2.length = T) :
    abs (fixLength (setAlpha P)) = { abs b with rows := F, alphabet := autoAlphabet (F.map Prod.snd) } ∧
    Good (fixLength (setAlpha P)) := by
  obtain ⟨f1, f2, f3, f4, f5, f6⟩ := fixLength_fields (setAlpha P)
  have hseqs : P.rows.map (·.seq) = F.map Prod.snd := by
    rw [← hp]; simp [pairs, List.map_map, Function.comp_def]
  constructor
  · have hp' : List.map (fun r => (r.name, r.seq)) P.rows = F := hp
    unfold abs pairs
    rw [f1, f4, f5, f6]
    simp only [setAlpha, hseqs, hpol, hal, hp']
  · refine good_of_gi (hgi.congr f1 f2 f3) ?_ ?_
    · by_cases ha : b.isAlign = true
      · apply rect_fixLength_allLen (T := T)
        intro r hr
        have : (r.name, r.seq) ∈ F := by
          rw [← hp]; exact List.mem_map_of_mem (f := fun r => (r.name, r.seq)) hr
        exact hlen ha _ this
      · exact Rect.of_not_align (by rw [f6]; simp only [setAlpha]; rw [hal]; simpa using ha)
    · intro _; rw [f5]; exact autoAlphabet_ne_both _

theorem ref_translate {b : Bag} (_h : Good b) (ph codeId : Int) : Refines b (.translate ph codeId) := by
  intro s' st e
  rw [spec_translate_eq] at e
  cases hcode : geneticCode codeId with
  | none => simp [hcode] at e
  | some code =>
    simp only [hcode] at e
    by_cases halpha : ((abs b).alphabet != NUCLEOTIDS) = true
    · rw [if_pos halpha] at e; simp at e
    · rw [if_neg halpha] at e
      by_cases hnd : (!decide (abs b).names.Nodup) = true
      · rw [if_pos hnd] at e; simp at e
      · rw [if_neg hnd] at e
        by_cases hall : (specFrames code ph (abs b).rows).any (fun x => x.2.isNone) = true
        · rw [if_pos hall] at e; simp at e
        · rw [if_neg hall] at e
          by_cases hnd2 : (!decide ((specRows code ph (abs b).rows).map Prod.fst).Nodup) = true
          · rw [if_pos hnd2] at e; simp at e
          · rw [if_neg hnd2] at e
            by_cases hlen : ((abs b).isAlign && (specRows code ph (abs b).rows).any
                (fun r => r.2.length != ((specRows code ph (abs b).rows).head?.map (·.2.length)).getD 0)) = true
            · rw [if_pos hlen] at e; simp at e
            · rw [if_neg hlen] at e
              simp only [Prod.mk.injEq, Option.some.injEq] at e
              obtain ⟨e1, e2⟩ := e
              subst e1 e2
              have hall' : (specFrames code ph (pairs b)).any (fun x => x.2.isNone) = false := by
                cases hq : (specFrames code ph (pairs b)).any (fun x => x.2.isNone) with
                | false => rfl
                | true => exact absurd hq hall
              have hok := specFrames_all_some code ph b.rows hall'
              have hrows := specRows_pairs code ph b.rows
              have hnames : ((b.rows.flatMap fun r => framesOf code (ph == -1) r (phasesOf ph)).map Prod.fst).Nodup := by
                rw [← hrows]
                have : decide ((specRows code ph (pairs b)).map Prod.fst).Nodup = true := by
                  cases hq : decide ((specRows code ph (pairs b)).map Prod.fst).Nodup with
                  | true => rfl
                  | false => exact absurd (by show (!decide ((specRows code ph (abs b).rows).map Prod.fst).Nodup) = true; rw [abs_rows, hq]; rfl) hnd2
                exact of_decide_eq_true this
              have hfresh : FreshIn (clearBase b) (b.rows.flatMap fun r => framesOf code (ph == -1) r (phasesOf ph)) :=
                freshIn_of_nil rfl hnames
              have hrun := translateRows_ok code (phasesOf ph) (ph == -1) b.rows (clearBase b) hok hfresh
              obtain ⟨k1, k2, k3, k4, k5⟩ := pushAll_spec false _ (gi_clearBase b) hfresh
              have halpha' : ¬ (b.alphabet != NUCLEOTIDS) = true := halpha
              have hval : translateBag ph codeId b =
                  (fixLength (setAlpha (pushAll false (clearBase b) (b.rows.flatMap fun r => framesOf code (ph == -1) r (phasesOf ph)))), false) := by
                have hrun' : translateRows code (if ph == -1 then [0, 1, 2] else [ph.toNat]) (ph == -1) b.rows (clearBase b) = _ := hrun
                unfold translateBag
                simp only [hcode]
                rw [if_neg halpha']
                simp only [hrun', Bool.false_eq_true, if_false, setAlpha]
              simp only [Model.stepOp, hval, Bool.false_eq_true, if_false]
              have k2' : pairs (pushAll false (clearBase b) (b.rows.flatMap fun r => framesOf code (ph == -1) r (phasesOf ph))) =
                  specRows code ph (pairs b) := by
                rw [k2]
                show pairs (clearBase b) ++ _ = specRows code ph (List.map (fun r => (r.name, r.seq)) b.rows)
                rw [hrows]; simp [pairs, clearBase]
              have hT : b.isAlign = true → ∀ r ∈ specRows code ph (pairs b),
                  r.2.length = ((specRows code ph (pairs b)).head?.map (·.2.length)).getD 0 := by
                intro ha r hmem
                have hq : (specRows code ph (pairs b)).any
                    (fun r => r.2.length != ((specRows code ph (pairs b)).head?.map (·.2.length)).getD 0) = false := by
                  cases hq : (specRows code ph (pairs b)).any
                    (fun r => r.2.length != ((specRows code ph (pairs b)).head?.map (·.2.length)).getD 0) with
                  | false => rfl
                  | true =>
                    exfalso; apply hlen
                    have : ((abs b).isAlign && (specRows code ph (pairs b)).any
                      (fun r => r.2.length != ((specRows code ph (pairs b)).head?.map (·.2.length)).getD 0)) = true := by
                      rw [hq, abs_isAlign, ha]; rfl
                    exact this
                have := List.any_eq_false.mp hq _ hmem
                simpa using this
              obtain ⟨t1, t2⟩ := translate_finish (b := b) k1 k2' k3 k5 hT
              exact ⟨t1, trivial, t2⟩

end Gv.Proofs.BagAbs
