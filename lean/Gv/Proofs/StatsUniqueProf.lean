import Gv.Proofs.StatsUnique
import Gv.Proofs.StatsProfile
/-!
C14: the counter loops of `NumGapsUniquePerSequence(profile)` and `NumMutationsUniquePerSequence(profile)`
(three counter slices: unique / new / both) equal the naive per-row recounts of `Gv.Spec.Stats`
(`gapsWithProfileOf`, `mutationsWithProfileOf`).
-/
namespace Gv.Proofs.StatsUniqueProf
open Gv Gv.Model Gv.Proofs.StatsCount Gv.Proofs.StatsSites Gv.Proofs.StatsUnique
set_option linter.unusedSimpArgs false

/-! ### folds -/

/-- a fold whose three components do not look at each other is three folds -/
theorem foldl_triple {α β γ ι : Type} (f1 : α → ι → α) (f2 : β → ι → β) (f3 : γ → ι → γ) (xs : List ι) (a : α) (b : β) (c : γ) :
    xs.foldl (fun (acc : α × β × γ) i => (f1 acc.1 i, f2 acc.2.1 i, f3 acc.2.2 i)) (a, b, c) =
      (xs.foldl f1 a, xs.foldl f2 b, xs.foldl f3 c) := by
  induction xs generalizing a b c with
  | nil => rfl
  | cons x t ih => simp only [List.foldl_cons, ih]

theorem foldl_pair {α β ι : Type} (f1 : α → ι → α) (f2 : β → ι → β) (xs : List ι) (a : α) (b : β) :
    xs.foldl (fun (acc : α × β) i => (f1 acc.1 i, f2 acc.2 i)) (a, b) = (xs.foldl f1 a, xs.foldl f2 b) := by
  induction xs generalizing a b with
  | nil => rfl
  | cons x t ih => simp only [List.foldl_cons, ih]

/-- nested folds where the inner list depends on the outer item -/
theorem foldl_flat {α β γ : Type} (f : γ → α × β → γ) (xs : List α) (g : α → List β) (init : γ) :
    xs.foldl (fun acc x => (g x).foldl (fun acc y => f acc (x, y)) acc) init =
      (xs.flatMap fun x => (g x).map fun y => (x, y)).foldl f init := by
  induction xs generalizing init with
  | nil => rfl
  | cons x t ih =>
    simp only [List.foldl_cons, List.flatMap_cons, List.foldl_append, List.foldl_map]
    exact ih _

theorem filter_flat_length {α β : Type} (xs : List α) (g : α → List β) (q : α × β → Bool) :
    ((xs.flatMap fun x => (g x).map fun y => (x, y)).filter q).length =
      (xs.map fun x => ((g x).filter fun y => q (x, y)).length).sum := by
  induction xs with
  | nil => rfl
  | cons x t ih =>
    simp only [List.flatMap_cons, List.filter_append, List.length_append, List.map_cons, List.sum_cons, ih]
    congr 1
    rw [List.filter_map, List.length_map]
    rfl

/-- among the (value, index) pairs of a list, those at index `r` satisfying `p`: one if `p` holds of the `r`-th value -/
theorem zipIdx_filter_at (col : List Byte) (p : Byte → Bool) (r k : Nat) (hr : r < col.length) :
    ((col.zipIdx k).filter fun q => p q.1 && q.2 == k + r).length = if p (col.getD r 0) then 1 else 0 := by
  induction col generalizing r k with
  | nil => simp at hr
  | cons x t ih =>
    cases r with
    | zero =>
      have hrest : ((t.zipIdx (k + 1)).filter fun q => p q.1 && q.2 == k + 0).length = 0 := by
        rw [List.length_eq_zero_iff, List.filter_eq_nil_iff]
        intro q hq
        have := List.le_snd_of_mem_zipIdx hq
        simp only [Bool.and_eq_true, beq_iff_eq, not_and]
        intro _; omega
      simp only [List.zipIdx_cons, List.filter_cons, Nat.add_zero, BEq.rfl, Bool.and_true, List.getD_cons_zero]
      by_cases hp : p x = true
      · simp only [hp, if_true, List.length_cons]
        simpa using hrest
      · have hp' : p x = false := by simpa using hp
        simp only [hp', Bool.false_eq_true, if_false]
        simpa using hrest
    | succ r =>
      have hne : (k == k + (r + 1)) = false := by simp
      simp only [List.zipIdx_cons, List.filter_cons, hne, Bool.and_false, Bool.false_eq_true, if_false,
        List.getD_cons_succ]
      have := ih r (k + 1) (by simpa using hr)
      rw [show k + 1 + r = k + (r + 1) by omega] at this
      exact this

/-! ### the profile as the counters read it -/

theorem mem_of_lookup {β : Type} (c : Byte) (v : β) : ∀ (l : List (Byte × β)), lookup c l = some v → (c, v) ∈ l
  | [], h => by simp [lookup] at h
  | (k, w) :: t, h => by
    by_cases hk : (c == k) = true
    · simp only [lookup, hk, if_true, Option.some.injEq] at h
      have : c = k := by simpa using hk
      subst this; subst h; simp
    · have hk' : (c == k) = false := by simpa using hk
      simp only [lookup, hk', Bool.false_eq_true, if_false] at h
      exact List.mem_cons_of_mem _ (mem_of_lookup c v t h)

theorem lookup_of_mem {β : Type} : ∀ (l : List (Byte × β)), (l.map Prod.fst).Nodup → ∀ p ∈ l, lookup p.1 l = some p.2
  | [], _, p, hp => by simp at hp
  | (k, v) :: t, hn, p, hp => by
    simp only [List.map_cons, List.nodup_cons] at hn
    rcases List.mem_cons.mp hp with h | h
    · subst h; simp [lookup]
    · have hne : (p.1 == k) = false := by
        simp only [beq_eq_false_iff_ne, ne_eq]
        intro e
        apply hn.1
        rw [← e]
        exact List.mem_map_of_mem h
      simp only [lookup, hne, Bool.false_eq_true, if_false]
      exact lookup_of_mem t hn.2 p h

/-- what `NewCountProfileFromAlignment` guarantees (`StatsProfile.profile_spec`) -/
structure ProfOf (prows : CRows) (Lp : Nat) (prof : List (Byte × List Nat)) : Prop where
  keys : prof.map Prod.fst = Spec.profileHeader prows
  sized : ∀ q v, lookup q prof = some v → v.length = Lp
  mem : ∀ q, (lookup q prof).isSome = true ↔ q ∈ prows.flatMap Prod.snd
  counts : ∀ q j, j < Lp → ((lookup q prof).getD (List.replicate Lp 0)).getD j 0 = Spec.profileCountAt prows j q

theorem profOf_of_countProfile (prows : CRows) (Lp : Int) (prof : List (Byte × List Nat))
    (h : countProfile prows Lp = some prof) : ProfOf prows Lp.toNat prof := by
  unfold countProfile at h
  split at h
  · simp at h
  · simp only [Option.some.injEq] at h
    subst h
    obtain ⟨h1, h2, h3, h4⟩ := Proofs.StatsProfile.profile_spec prows Lp.toNat
    exact ⟨h1, h2, h3, h4⟩

theorem profileCountAt_absent (prows : CRows) (j : Nat) (r : Byte) (h : r ∉ prows.flatMap Prod.snd) :
    Spec.profileCountAt prows j r = 0 := by
  unfold Spec.profileCountAt
  rw [List.length_eq_zero_iff, List.filter_eq_nil_iff]
  intro row hrow
  simp only [beq_iff_eq]
  intro e
  apply h
  rw [List.mem_flatMap]
  exact ⟨row, hrow, List.mem_of_getElem? e⟩

/-- `c, _ = countProfile.Count(r, j)` is the number of profile rows holding `r` at site `j` (0 on the error paths) -/
theorem count0_eq (prows : CRows) (Lp : Nat) (prof : List (Byte × List Nat)) (hp : ProfOf prows Lp prof)
    (r : Byte) (hr : ¬ r ≥ 130) (j : Nat) (hj : r ∈ prows.flatMap Prod.snd → j < Lp) :
    profileCount0 prof r j = Spec.profileCountAt prows j r := by
  unfold profileCount0 profileCount
  simp only [hr, if_false]
  cases hl : lookup r prof with
  | none =>
    have : r ∉ prows.flatMap Prod.snd := by
      intro hm
      have := (hp.mem r).mpr hm
      rw [hl] at this; simp at this
    simp [profileCountAt_absent prows j r this]
  | some cs =>
    have hm : r ∈ prows.flatMap Prod.snd := (hp.mem r).mp (by rw [hl]; rfl)
    have hlen := hp.sized r cs hl
    have hjl := hj hm
    have hc := hp.counts r j hjl
    rw [hl] at hc
    simp only [Option.getD_some] at hc
    have h1 : ¬ (((j : Int) < 0) ∨ cs.length ≤ j) := by omega
    rw [List.getD_eq_getElem?_getD] at hc
    simp [h1, hc]

/-- `CheckLength(L)` on a profile built from an alignment of `Lp` sites: no character at all, or `Lp = L` -/
theorem checkLength_eq (prows : CRows) (Lp : Nat) (prof : List (Byte × List Nat)) (hp : ProfOf prows Lp prof) (L : Int) :
    profileCheckLength prof L = ((prows.flatMap Prod.snd).isEmpty || ((Lp : Int) == L)) := by
  have hnd : (prof.map Prod.fst).Nodup := by rw [hp.keys]; exact Proofs.StatsDiff.firstOccurrences_nodup _
  unfold profileCheckLength
  by_cases he : prows.flatMap Prod.snd = []
  · have hprof : prof = [] := by
      cases prof with
      | nil => rfl
      | cons p t =>
        have := (hp.mem p.1).mp (by simp [lookup])
        rw [he] at this; simp at this
    simp [he, hprof]
  · have hne : (prows.flatMap Prod.snd).isEmpty = false := by
      cases h : prows.flatMap Prod.snd with
      | nil => exact absurd h he
      | cons _ _ => rfl
    rw [hne, Bool.false_or, Bool.eq_iff_iff, List.all_eq_true]
    simp only [beq_iff_eq]
    constructor
    · intro hall
      obtain ⟨c, hc⟩ := List.exists_mem_of_ne_nil _ he
      have hs := (hp.mem c).mpr hc
      cases hl : lookup c prof with
      | none => rw [hl] at hs; simp at hs
      | some v =>
        have hv := hp.sized c v hl
        have hmem : (c, v) ∈ prof := mem_of_lookup c v prof hl
        have := hall (c, v) hmem
        simp only at this
        omega
    · intro hL p hpm
      have := hp.sized p.1 p.2 (lookup_of_mem prof hnd p hpm)
      omega

/-! ### NumGapsUniquePerSequence(profile) -/

theorem gapScanProf_eq (isNew : Bool) (col : List Byte) (j nb idx : Nat) (nn : List Nat) :
    gapScanProf isNew col j nb idx nn =
      (nb + col.count GAP, lastRowOf GAP col j idx,
       (col.zipIdx j).foldl (fun nn (q : Byte × Nat) => if q.1 == GAP && isNew then incrAt nn q.2 else nn) nn) := by
  induction col generalizing j nb idx nn with
  | nil => simp [gapScanProf, lastRowOf]
  | cons r t ih =>
    by_cases hr : (r == GAP) = true
    · have hre : r = GAP := by simpa using hr
      subst hre
      simp only [gapScanProf, BEq.rfl, if_true, ih, lastRowOf, List.count_cons_self, List.zipIdx_cons, List.foldl_cons,
        Bool.true_and]
      congr 1
      omega
    · have hr' : (r == GAP) = false := by simpa using hr
      simp only [gapScanProf, hr', Bool.false_eq_true, if_false, ih, lastRowOf, List.zipIdx_cons, List.foldl_cons,
        Bool.false_and, List.count_cons, hr']
      simp

/-- the only occurrence of `c` in a column is in row `r` -/
theorem once_at (c : Byte) (col : List Byte) (r : Nat) (hr : r < col.length) :
    (col.count c == 1 && lastRowOf c col 0 0 == r) = (col.getD r 0 == c && col.count c == 1) := by
  by_cases h1 : col.count c = 1
  · rw [lastRowOf_once c col 0 0 h1]
    have := idxOf_eq_iff_of_count_one c col h1 r hr
    simp only [h1, BEq.rfl, Bool.true_and, Bool.and_true, Nat.zero_add]
    rw [Bool.eq_iff_iff]
    simpa using this
  · have : (col.count c == 1) = false := by simpa using h1
    simp [this]

theorem zeros_getD (rows : CRows) (r : Nat) : (rows.map fun _ => 0).getD r 0 = 0 := by
  simp [List.getD_eq_getElem?_getD, List.getElem?_map]
  cases rows[r]? <;> simp

def gF1 (rows : CRows) (u : List Nat) (i : Nat) : List Nat :=
  if (columnAt rows i).count GAP == 1 then incrAt u (lastRowOf GAP (columnAt rows i) 0 0) else u
def gF2 (rows : CRows) (isNew : Nat → Bool) (nn : List Nat) (i : Nat) : List Nat :=
  ((columnAt rows i).zipIdx).foldl (fun nn (q : Byte × Nat) => if q.1 == GAP && isNew i then incrAt nn q.2 else nn) nn
def gF3 (rows : CRows) (isNew : Nat → Bool) (b : List Nat) (i : Nat) : List Nat :=
  if (columnAt rows i).count GAP == 1 && isNew i then incrAt b (lastRowOf GAP (columnAt rows i) 0 0) else b

/-- the three counter slices after `n` sites, for any "new at site `i`" test -/
theorem gapsProf_fold (rows : CRows) (n : Nat) (isNew : Nat → Bool) :
    (List.range n).foldl (fun (acc : List Nat × List Nat × List Nat) i =>
      let r := gapScanProf (isNew i) (columnAt rows i) 0 0 0 acc.2.1
      if r.1 == 1 then (incrAt acc.1 r.2.1, r.2.2, if isNew i then incrAt acc.2.2 r.2.1 else acc.2.2)
      else (acc.1, r.2.2, acc.2.2)) (rows.map fun _ => 0, rows.map fun _ => 0, rows.map fun _ => 0) =
    ((List.range rows.length).map fun r =>
        ((List.range n).filter fun j => (columnAt rows j).getD r 0 == 45 && (columnAt rows j).count 45 == 1).length,
     (List.range rows.length).map fun r =>
        ((List.range n).filter fun j => (columnAt rows j).getD r 0 == 45 && isNew j).length,
     (List.range rows.length).map fun r =>
        ((List.range n).filter fun j => (columnAt rows j).getD r 0 == 45 && (columnAt rows j).count 45 == 1 && isNew j).length) := by
  have hG : GAP = 45 := rfl
  have hstep : (fun (acc : List Nat × List Nat × List Nat) i =>
      let r := gapScanProf (isNew i) (columnAt rows i) 0 0 0 acc.2.1
      if r.1 == 1 then (incrAt acc.1 r.2.1, r.2.2, if isNew i then incrAt acc.2.2 r.2.1 else acc.2.2)
      else (acc.1, r.2.2, acc.2.2)) =
    fun (acc : List Nat × List Nat × List Nat) i =>
      (gF1 rows acc.1 i, gF2 rows isNew acc.2.1 i, gF3 rows isNew acc.2.2 i) := by
    funext acc i
    simp only [gapScanProf_eq, Nat.zero_add, gF1, gF2, gF3]
    by_cases h1 : ((columnAt rows i).count GAP == 1) = true
    · by_cases h2 : isNew i = true
      · simp [h1, h2]
      · have h2' : isNew i = false := by simpa using h2
        simp [h1, h2']
    · have h1' : ((columnAt rows i).count GAP == 1) = false := by simpa using h1
      simp [h1']
  rw [hstep, foldl_triple (gF1 rows) (gF2 rows isNew) (gF3 rows isNew)]
  have hlen : ∀ j, (columnAt rows j).length = rows.length := fun j => length_column rows j
  refine Prod.ext ?_ (Prod.ext ?_ ?_)
  · refine (fold_incr (fun i => (columnAt rows i).count GAP == 1) (fun i => lastRowOf GAP (columnAt rows i) 0 0)
      (List.range n) (rows.map fun _ => 0)).trans ?_
    simp only [List.length_map]
    apply List.map_congr_left
    intro r hr
    rw [List.mem_range] at hr
    rw [zeros_getD, Nat.zero_add]
    congr 1
    apply List.filter_congr
    intro j _
    rw [once_at GAP (columnAt rows j) r (by rw [hlen]; exact hr), hG]
  · refine (foldl_flat (fun nn (x : Nat × Byte × Nat) => if x.2.1 == GAP && isNew x.1 then incrAt nn x.2.2 else nn)
      (List.range n) (fun i => (columnAt rows i).zipIdx) (rows.map fun _ => 0)).trans ?_
    rw [fold_incr (fun (x : Nat × Byte × Nat) => x.2.1 == GAP && isNew x.1) (fun x => x.2.2)]
    simp only [List.length_map]
    apply List.map_congr_left
    intro r hr
    rw [List.mem_range] at hr
    rw [zeros_getD, Nat.zero_add, filter_flat_length, ← sum_indicator]
    congr 1
    apply List.map_congr_left
    intro j _
    have := zipIdx_filter_at (columnAt rows j) (fun c => c == GAP && isNew j) r 0 (by rw [hlen]; exact hr)
    simp only [Nat.zero_add] at this
    rw [hG] at this ⊢
    rw [← this]
  · refine (fold_incr (fun i => (columnAt rows i).count GAP == 1 && isNew i) (fun i => lastRowOf GAP (columnAt rows i) 0 0)
      (List.range n) (rows.map fun _ => 0)).trans ?_
    simp only [List.length_map]
    apply List.map_congr_left
    intro r hr
    rw [List.mem_range] at hr
    rw [zeros_getD, Nat.zero_add]
    congr 1
    apply List.filter_congr
    intro j _
    have := once_at GAP (columnAt rows j) r (by rw [hlen]; exact hr)
    rw [hG] at this ⊢
    rw [Bool.and_right_comm, this]

/-- **`NumGapsUniquePerSequence(profile)`** with the profile of a second alignment `prows` (of `Lp` sites): an error
exactly when the profile holds a character and `Lp ≠ L`; otherwise the three counter slices hold, for every row, the
naive recounts `Spec.gapsWithProfileOf` (unique gaps / gaps at sites where the profile has none / both) -/
theorem numGapsUniqueProf_eq (rows prows : CRows) (L : Int) (Lp : Nat) (prof : List (Byte × List Nat))
    (hp : ProfOf prows Lp prof) :
    numGapsUniqueProf rows L prof =
      if ((prows.flatMap Prod.snd).isEmpty || ((Lp : Int) == L)) then
        some ((List.range rows.length).map (fun i => (Spec.gapsWithProfileOf rows prows L.toNat i).1),
              (List.range rows.length).map (fun i => (Spec.gapsWithProfileOf rows prows L.toNat i).2.1),
              (List.range rows.length).map (fun i => (Spec.gapsWithProfileOf rows prows L.toNat i).2.2))
      else none := by
  unfold numGapsUniqueProf
  rw [checkLength_eq prows Lp prof hp L]
  by_cases hf : ((prows.flatMap Prod.snd).isEmpty || ((Lp : Int) == L)) = true
  · simp only [hf, Bool.not_true, Bool.false_eq_true, if_false, if_true, Option.some.injEq]
    have hnew : ∀ j ∈ List.range L.toNat, (profileCount0 prof GAP j == 0) = (Spec.profileCountAt prows j 45 == 0) := by
      intro j hj
      rw [List.mem_range] at hj
      rw [count0_eq prows Lp prof hp GAP (by decide) j]
      · rfl
      · intro hm
        have : (prows.flatMap Prod.snd).isEmpty = false := by
          cases h : prows.flatMap Prod.snd with
          | nil => rw [h] at hm; simp at hm
          | cons _ _ => rfl
        rw [this, Bool.false_or] at hf
        have : (Lp : Int) = L := by simpa using hf
        omega
    rw [gapsProf_fold rows L.toNat (fun i => profileCount0 prof GAP i == 0)]
    unfold Spec.gapsWithProfileOf
    refine Prod.ext ?_ (Prod.ext ?_ ?_)
    · rfl
    · simp only []
      apply List.map_congr_left
      intro r _
      congr 1
      apply List.filter_congr
      intro j hj
      rw [hnew j hj]; rfl
    · simp only []
      apply List.map_congr_left
      intro r _
      congr 1
      apply List.filter_congr
      intro j hj
      rw [hnew j hj]; rfl
  · have hf' : ((prows.flatMap Prod.snd).isEmpty || ((Lp : Int) == L)) = false := by simpa using hf
    simp [hf']

/-! ### NumMutationsUniquePerSequence(profile) -/

/-- what the second inner loop does at one site for a counter of row `r`, with an extra test `p` on the character -/
theorem mutScan_spec_p (all : Byte) (p : Byte → Bool) (col : List Byte) (r : Nat) (hr : r < col.length)
    (hlow : ∀ x ∈ col, x.toNat < 130) :
    ((List.range 130).filter fun c =>
      (col.count (UInt8.ofNat c) == 1 && UInt8.ofNat c != all && UInt8.ofNat c != GAP && p (UInt8.ofNat c)) &&
        lastRowOf (UInt8.ofNat c) col 0 0 == r).length =
    if (col.getD r 0 != all && col.getD r 0 != 45 && col.count (col.getD r 0) == 1 && p (col.getD r 0)) then 1 else 0 := by
  have hmem : col.getD r 0 ∈ col := by
    rw [List.getD_eq_getElem?_getD, List.getElem?_eq_getElem hr]
    exact List.getElem_mem hr
  rw [← filter_range_eq 130 (by omega) (col.getD r 0)
    (col.getD r 0 != all && col.getD r 0 != 45 && col.count (col.getD r 0) == 1 && p (col.getD r 0)) (hlow _ hmem)]
  congr 1
  apply List.filter_congr
  intro c _
  generalize UInt8.ofNat c = ch
  have hG : GAP = 45 := rfl
  have hiff : col.count ch = 1 → (col.idxOf ch = r ↔ col.getD r 0 = ch) :=
    fun h1 => idxOf_eq_iff_of_count_one ch col h1 r hr
  generalize col.getD r 0 = g at hiff
  by_cases h1 : col.count ch = 1
  · rw [lastRowOf_once ch col 0 0 h1]
    by_cases e : ch = g
    · have e' : col.idxOf ch = r := (hiff h1).mpr e.symm
      subst e
      simp [h1, e', hG]
    · have e' : ¬ col.idxOf ch = r := fun x => e ((hiff h1).mp x).symm
      have e1 : (ch == g) = false := by simpa using e
      simp [e', e1]
  · have hc : (col.count ch == 1) = false := by simpa using h1
    by_cases e : ch = g
    · subst e; simp [hc]
    · have e1 : (ch == g) = false := by simpa using e
      simp [hc, e1]

def mCond (all : Byte) (col : List Byte) (c : Nat) : Bool :=
  col.count (UInt8.ofNat c) == 1 && UInt8.ofNat c != all && UInt8.ofNat c != GAP

def mF1 (all : Byte) (rows : CRows) (u : List Nat) (i : Nat) : List Nat :=
  (List.range 130).foldl (fun u c =>
    if mCond all (columnAt rows i) c then incrAt u (lastRowOf (UInt8.ofNat c) (columnAt rows i) 0 0) else u) u
def mF2 (all : Byte) (rows : CRows) (isNew : Byte → Nat → Bool) (nn : List Nat) (i : Nat) : List Nat :=
  ((columnAt rows i).zipIdx).foldl (fun nn (q : Byte × Nat) =>
    if q.1 != all && q.1 != GAP && isNew q.1 i then incrAt nn q.2 else nn) nn
def mF3 (all : Byte) (rows : CRows) (isNew : Byte → Nat → Bool) (b : List Nat) (i : Nat) : List Nat :=
  (List.range 130).foldl (fun b c =>
    if mCond all (columnAt rows i) c && isNew (UInt8.ofNat c) i
    then incrAt b (lastRowOf (UInt8.ofNat c) (columnAt rows i) 0 0) else b) b

/-- the three counter slices after `n` sites, for any "new" test, when no column holds a byte ≥ 130 -/
theorem mutsProf_fold (all : Byte) (rows : CRows) (n : Nat) (isNew : Byte → Nat → Bool)
    (hlow : ∀ i ∈ List.range n, ∀ x ∈ columnAt rows i, x.toNat < 130) :
    (List.range n).foldl (fun (acc : List Nat × List Nat × List Nat) i =>
      let col := columnAt rows i
      let nn := col.zipIdx.foldl (fun nn (p : Byte × Nat) =>
        if p.1 != all && p.1 != GAP && isNew p.1 i then incrAt nn p.2 else nn) acc.2.1
      let ub := (List.range 130).foldl (fun (ub : List Nat × List Nat) c =>
        let ch := UInt8.ofNat c
        if col.count ch == 1 && ch != all && ch != GAP then
          let ind := lastRowOf ch col 0 0
          (incrAt ub.1 ind, if isNew ch i then incrAt ub.2 ind else ub.2)
        else ub) (acc.1, acc.2.2)
      (ub.1, nn, ub.2)) (rows.map fun _ => 0, rows.map fun _ => 0, rows.map fun _ => 0) =
    ((List.range rows.length).map fun r => ((List.range n).filter fun j =>
        let c := (columnAt rows j).getD r 0
        c != all && c != 45 && (columnAt rows j).count c == 1).length,
     (List.range rows.length).map fun r => ((List.range n).filter fun j =>
        let c := (columnAt rows j).getD r 0
        c != all && c != 45 && isNew c j).length,
     (List.range rows.length).map fun r => ((List.range n).filter fun j =>
        let c := (columnAt rows j).getD r 0
        c != all && c != 45 && (columnAt rows j).count c == 1 && isNew c j).length) := by
  have hG : GAP = 45 := rfl
  have hstep : (fun (acc : List Nat × List Nat × List Nat) i =>
      let col := columnAt rows i
      let nn := col.zipIdx.foldl (fun nn (p : Byte × Nat) =>
        if p.1 != all && p.1 != GAP && isNew p.1 i then incrAt nn p.2 else nn) acc.2.1
      let ub := (List.range 130).foldl (fun (ub : List Nat × List Nat) c =>
        let ch := UInt8.ofNat c
        if col.count ch == 1 && ch != all && ch != GAP then
          let ind := lastRowOf ch col 0 0
          (incrAt ub.1 ind, if isNew ch i then incrAt ub.2 ind else ub.2)
        else ub) (acc.1, acc.2.2)
      (ub.1, nn, ub.2)) =
    fun (acc : List Nat × List Nat × List Nat) i =>
      (mF1 all rows acc.1 i, mF2 all rows isNew acc.2.1 i, mF3 all rows isNew acc.2.2 i) := by
    funext acc i
    have hin : (fun (ub : List Nat × List Nat) c =>
        let ch := UInt8.ofNat c
        if (columnAt rows i).count ch == 1 && ch != all && ch != GAP then
          let ind := lastRowOf ch (columnAt rows i) 0 0
          (incrAt ub.1 ind, if isNew ch i then incrAt ub.2 ind else ub.2)
        else ub) =
      fun (ub : List Nat × List Nat) c =>
        ((fun u c => if mCond all (columnAt rows i) c then incrAt u (lastRowOf (UInt8.ofNat c) (columnAt rows i) 0 0) else u) ub.1 c,
         (fun b c => if mCond all (columnAt rows i) c && isNew (UInt8.ofNat c) i
            then incrAt b (lastRowOf (UInt8.ofNat c) (columnAt rows i) 0 0) else b) ub.2 c) := by
      funext ub c
      simp only [mCond]
      by_cases h1 : ((columnAt rows i).count (UInt8.ofNat c) == 1 && UInt8.ofNat c != all && UInt8.ofNat c != GAP) = true
      · by_cases h2 : isNew (UInt8.ofNat c) i = true
        · simp [h1, h2]
        · have h2' : isNew (UInt8.ofNat c) i = false := by simpa using h2
          simp [h1, h2']
      · have h1' : ((columnAt rows i).count (UInt8.ofNat c) == 1 && UInt8.ofNat c != all && UInt8.ofNat c != GAP) = false := by
          simpa using h1
        simp [h1']
    simp only [hin]
    rw [foldl_pair
      (fun u c => if mCond all (columnAt rows i) c then incrAt u (lastRowOf (UInt8.ofNat c) (columnAt rows i) 0 0) else u)
      (fun b c => if mCond all (columnAt rows i) c && isNew (UInt8.ofNat c) i
        then incrAt b (lastRowOf (UInt8.ofNat c) (columnAt rows i) 0 0) else b)]
    rfl
  rw [hstep, foldl_triple (mF1 all rows) (mF2 all rows isNew) (mF3 all rows isNew)]
  have hlen : ∀ j, (columnAt rows j).length = rows.length := fun j => length_column rows j
  refine Prod.ext ?_ (Prod.ext ?_ ?_)
  · refine (foldl_nested (fun acc (x : Nat × Nat) =>
      if mCond all (columnAt rows x.1) x.2 then incrAt acc (lastRowOf (UInt8.ofNat x.2) (columnAt rows x.1) 0 0) else acc)
      (List.range n) (List.range 130) (rows.map fun _ => 0)).trans ?_
    rw [fold_incr (fun (x : Nat × Nat) => mCond all (columnAt rows x.1) x.2)
      (fun x => lastRowOf (UInt8.ofNat x.2) (columnAt rows x.1) 0 0)]
    simp only [List.length_map]
    apply List.map_congr_left
    intro r hr
    rw [List.mem_range] at hr
    rw [zeros_getD, Nat.zero_add, filter_flatMap_length, ← sum_indicator]
    congr 1
    apply List.map_congr_left
    intro i hi
    exact mutScan_spec all (columnAt rows i) r (by rw [hlen]; exact hr) (hlow i hi)
  · refine (foldl_flat (fun nn (x : Nat × Byte × Nat) =>
      if x.2.1 != all && x.2.1 != GAP && isNew x.2.1 x.1 then incrAt nn x.2.2 else nn)
      (List.range n) (fun i => (columnAt rows i).zipIdx) (rows.map fun _ => 0)).trans ?_
    rw [fold_incr (fun (x : Nat × Byte × Nat) => x.2.1 != all && x.2.1 != GAP && isNew x.2.1 x.1) (fun x => x.2.2)]
    simp only [List.length_map]
    apply List.map_congr_left
    intro r hr
    rw [List.mem_range] at hr
    rw [zeros_getD, Nat.zero_add, filter_flat_length, ← sum_indicator]
    congr 1
    apply List.map_congr_left
    intro j _
    have := zipIdx_filter_at (columnAt rows j) (fun c => c != all && c != GAP && isNew c j) r 0 (by rw [hlen]; exact hr)
    simp only [Nat.zero_add] at this
    rw [hG] at this ⊢
    rw [← this]
  · refine (foldl_nested (fun acc (x : Nat × Nat) =>
      if mCond all (columnAt rows x.1) x.2 && isNew (UInt8.ofNat x.2) x.1
      then incrAt acc (lastRowOf (UInt8.ofNat x.2) (columnAt rows x.1) 0 0) else acc)
      (List.range n) (List.range 130) (rows.map fun _ => 0)).trans ?_
    rw [fold_incr (fun (x : Nat × Nat) => mCond all (columnAt rows x.1) x.2 && isNew (UInt8.ofNat x.2) x.1)
      (fun x => lastRowOf (UInt8.ofNat x.2) (columnAt rows x.1) 0 0)]
    simp only [List.length_map]
    apply List.map_congr_left
    intro r hr
    rw [List.mem_range] at hr
    rw [zeros_getD, Nat.zero_add, filter_flatMap_length, ← sum_indicator]
    congr 1
    apply List.map_congr_left
    intro i hi
    exact mutScan_spec_p all (fun c => isNew c i) (columnAt rows i) r (by rw [hlen]; exact hr) (hlow i hi)

/-- **`NumMutationsUniquePerSequence(profile)`** with the profile of a second alignment `prows` (of `Lp` sites): an
error exactly when the profile holds a character and `Lp ≠ L`; else an index panic exactly when a column holds a byte
≥ 130; otherwise the three counter slices hold, for every row, the naive recounts `Spec.mutationsWithProfileOf`
(characters occurring once in their column / characters the profile does not have at that site / both) -/
theorem numMutationsUniqueProf_eq (rows prows : CRows) (L : Int) (Lp : Nat) (alphabet : Nat)
    (prof : List (Byte × List Nat)) (hp : ProfOf prows Lp prof) :
    numMutationsUniqueProf rows L alphabet prof =
      if !((prows.flatMap Prod.snd).isEmpty || ((Lp : Int) == L)) then some none
      else if Spec.hasHighByte rows L.toNat then none
      else some (some (
        (List.range rows.length).map (fun i => (Spec.mutationsWithProfileOf (Spec.wildcardOf alphabet) rows prows L.toNat i).1),
        (List.range rows.length).map (fun i => (Spec.mutationsWithProfileOf (Spec.wildcardOf alphabet) rows prows L.toNat i).2.1),
        (List.range rows.length).map (fun i => (Spec.mutationsWithProfileOf (Spec.wildcardOf alphabet) rows prows L.toNat i).2.2))) := by
  unfold numMutationsUniqueProf
  have hw : (if alphabet == AMINOACIDS then (88 : Byte) else if alphabet == NUCLEOTIDS then 78 else 46) =
      Spec.wildcardOf alphabet := by
    unfold Spec.wildcardOf AMINOACIDS NUCLEOTIDS
    by_cases h0 : alphabet = 0
    · simp [h0]
    · by_cases h1 : alphabet = 1
      · simp [h1]
      · simp [h0, h1]
  simp only [hw]
  rw [checkLength_eq prows Lp prof hp L]
  have hc : ((List.range L.toNat).any fun i => (columnAt rows i).any fun r => r ≥ 130) = Spec.hasHighByte rows L.toNat := rfl
  rw [hc]
  by_cases hf : ((prows.flatMap Prod.snd).isEmpty || ((Lp : Int) == L)) = true
  · simp only [hf, Bool.not_true, Bool.false_eq_true, if_false]
    by_cases hh : Spec.hasHighByte rows L.toNat = true
    · simp [hh]
    · have hh' : Spec.hasHighByte rows L.toNat = false := by simpa using hh
      simp only [hh', Bool.false_eq_true, if_false, Option.some.injEq]
      have hlow : ∀ i ∈ List.range L.toNat, ∀ x ∈ columnAt rows i, x.toNat < 130 := by
        intro i hi x hx
        unfold Spec.hasHighByte at hh'
        rw [List.any_eq_false] at hh'
        have h2 : ((columnAt rows i).any fun r => decide (r ≥ 130)) = false := Bool.eq_false_iff.mpr (hh' i hi)
        rw [List.any_eq_false] at h2
        have := h2 x hx
        simp only [ge_iff_le, decide_eq_true_eq, UInt8.le_iff_toNat_le] at this
        have e : (130 : UInt8).toNat = 130 := rfl
        omega
      have hlen : ∀ j, (columnAt rows j).length = rows.length := fun j => length_column rows j
      have hnew : ∀ r ∈ List.range rows.length, ∀ j ∈ List.range L.toNat,
          (profileCount0 prof ((columnAt rows j).getD r 0) j == 0) =
            (Spec.profileCountAt prows j ((columnAt rows j).getD r 0) == 0) := by
        intro r hr j hj
        rw [List.mem_range] at hr
        have hmem : (columnAt rows j).getD r 0 ∈ columnAt rows j := by
          have hr' : r < (columnAt rows j).length := by rw [hlen]; exact hr
          rw [List.getD_eq_getElem?_getD, List.getElem?_eq_getElem hr']
          exact List.getElem_mem hr'
        have hlt := hlow j hj _ hmem
        rw [List.mem_range] at hj
        have hnot : ¬ (columnAt rows j).getD r 0 ≥ 130 := by
          intro hge
          rw [ge_iff_le, UInt8.le_iff_toNat_le] at hge
          have e : (130 : UInt8).toNat = 130 := rfl
          omega
        rw [count0_eq prows Lp prof hp _ hnot j]
        · intro hm
          have : (prows.flatMap Prod.snd).isEmpty = false := by
            cases h : prows.flatMap Prod.snd with
            | nil => rw [h] at hm; simp at hm
            | cons _ _ => rfl
          rw [this, Bool.false_or] at hf
          have : (Lp : Int) = L := by simpa using hf
          omega
      rw [mutsProf_fold (Spec.wildcardOf alphabet) rows L.toNat (fun c i => profileCount0 prof c i == 0) hlow]
      unfold Spec.mutationsWithProfileOf
      refine Prod.ext ?_ (Prod.ext ?_ ?_)
      · rfl
      · simp only []
        apply List.map_congr_left
        intro r hr
        congr 1
        apply List.filter_congr
        intro j hj
        rw [hnew r hr j hj]; rfl
      · simp only []
        apply List.map_congr_left
        intro r hr
        congr 1
        apply List.filter_congr
        intro j hj
        rw [hnew r hr j hj]; rfl
  · have hf' : ((prows.flatMap Prod.snd).isEmpty || ((Lp : Int) == L)) = false := by simpa using hf
    simp [hf']

end Gv.Proofs.StatsUniqueProf
