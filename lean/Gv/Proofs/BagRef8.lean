import Gv.Proofs.BagRef7
/-! Refinement (C01), part 8: the two loops of `Concat`. -/
namespace Gv.Proofs.BagAbs
open Gv Gv.Model Gv.Spec Gv.Proofs.BagInv Gv.Proofs.BagFresh

/-! ### first loop: rows of `a` absent from `c` get gaps appended -/

def present (other : List (String × Seq)) (n : String) : Bool := (other.find? fun p => p.1 == n).isSome

def step1Rows (other : List (String × Seq)) (gaps : Seq) (l : List Row) (rows : List Row) : List Row :=
  l.foldl (fun rows r => if present other r.name then rows else updRows r.name gaps rows) rows


theorem step1_fold (other : List (String × Seq)) (gaps : Seq) (l : List Row) (x : Bag) (h : NI x)
    (hl : ∀ r ∈ l, r.name ∈ x.rows.map (·.name)) :
    l.foldl (fun (acc : Bag × Bool) r =>
      if acc.2 then acc
      else if (other.find? fun p => p.1 == r.name).isSome then acc
      else appendToSequence r.name gaps acc.1) (x, false) =
    ({ x with rows := step1Rows other gaps l x.rows }, false) := by
  induction l generalizing x with
  | nil => simp [step1Rows]
  | cons r t ih =>
    simp only [List.foldl_cons, Bool.false_eq_true, if_false, step1Rows]
    by_cases hp : (other.find? fun p => p.1 == r.name).isSome = true
    · have hp' : present other r.name = true := hp
      simp only [hp, hp', if_true]
      exact ih x h (fun q hq => hl q (List.mem_cons_of_mem _ hq))
    · have hp' : present other r.name = false := by
        cases hq : present other r.name with
        | false => rfl
        | true => exact absurd hq hp
      simp only [hp, hp', Bool.false_eq_true, if_false]
      rw [appendToSequence_named h r.name gaps (hl r (by simp))]
      have := ih { x with rows := updRows r.name gaps x.rows } (ni_updRows h r.name gaps)
        (fun q hq => by simp only []; rw [names_updRows]; exact hl q (List.mem_cons_of_mem _ hq))
      simpa [step1Rows] using this

/-- the first loop as one map (the names of `l` are pairwise distinct) -/
theorem step1Rows_char (other : List (String × Seq)) (gaps : Seq) (l : List Row) (rows : List Row)
    (hl : (l.map (·.name)).Nodup) :
    step1Rows other gaps l rows =
      rows.map fun x => if l.any (fun r => x.name == r.name) && !present other x.name then { x with seq := x.seq ++ gaps } else x := by
  induction l generalizing rows with
  | nil => simp [step1Rows]
  | cons r t ih =>
    simp only [List.map_cons, List.nodup_cons] at hl
    have hstep : step1Rows other gaps (r :: t) rows =
        step1Rows other gaps t (if present other r.name then rows else updRows r.name gaps rows) := by
      simp [step1Rows]
    rw [hstep, ih _ hl.2]
    by_cases hp : present other r.name = true
    · simp only [hp, if_true]
      apply List.map_congr_left
      intro x _
      simp only [List.any_cons]
      by_cases hx : x.name = r.name
      · simp [hx, hp]
      · have : (x.name == r.name) = false := by simpa using hx
        simp [this]
    · have hp' : present other r.name = false := by simpa using hp
      simp only [hp', Bool.false_eq_true, if_false, updRows, List.map_map]
      apply List.map_congr_left
      intro x _
      simp only [Function.comp, List.any_cons]
      by_cases hx : x.name = r.name
      · have hnot : t.any (fun q => r.name == q.name) = false := by
          apply List.any_eq_false.mpr
          intro q hq hc
          have : r.name = q.name := by simpa using hc
          exact hl.1 (this ▸ List.mem_map_of_mem (f := (·.name)) hq)
        simp [hx, hp', hnot]
      · have : (x.name == r.name) = false := by simpa using hx
        simp [this]

/-! ### second loop, on plain lists -/

def updNamedP (n : String) (s : Seq) (ps : List (String × Seq)) : List (String × Seq) :=
  ps.map fun p => if p.1 == n then (p.1, p.2 ++ s) else p

def stepP (alen : Nat) (q : String × Seq) (ps : List (String × Seq)) : List (String × Seq) :=
  if (firstNamed q.1 ps).isSome then updNamedP q.1 q.2 ps else ps ++ [(q.1, List.replicate alen GAP ++ q.2)]

/-- what the second loop computes: rows present in `l` get its sequence appended; rows of `l` absent
from `ps` are added behind, preceded by `alen` gaps -/
def closedP (alen : Nat) (l ps : List (String × Seq)) : List (String × Seq) :=
  (ps.map fun p => match firstNamed p.1 l with | some q => (p.1, p.2 ++ q.2) | none => p) ++
  ((l.filter fun q => (firstNamed q.1 ps).isNone).map fun q => (q.1, List.replicate alen GAP ++ q.2))

theorem firstNamed_none_iff (n : String) (ps : List (String × Seq)) :
    firstNamed n ps = none ↔ n ∉ ps.map Prod.fst := by
  induction ps with
  | nil => simp [firstNamed]
  | cons p t ih =>
    simp only [firstNamed, List.map_cons, List.mem_cons, not_or]
    by_cases h : p.1 = n
    · simp [h]
    · have : (p.1 == n) = false := by simpa using h
      simp only [this, Bool.false_eq_true, if_false, ih]
      exact ⟨fun hh => ⟨fun e => h e.symm, hh⟩, fun hh => hh.2⟩

theorem firstNamed_isNone_congr (n : String) {ps ps' : List (String × Seq)} (h : ps'.map Prod.fst = ps.map Prod.fst) :
    (firstNamed n ps').isNone = (firstNamed n ps).isNone := by
  have e1 := firstNamed_none_iff n ps
  have e2 := firstNamed_none_iff n ps'
  rw [h] at e2
  cases h1 : firstNamed n ps <;> cases h2 : firstNamed n ps' <;> simp_all

theorem names_updNamedP (n : String) (s : Seq) (ps : List (String × Seq)) :
    (updNamedP n s ps).map Prod.fst = ps.map Prod.fst := by
  simp only [updNamedP, List.map_map]
  apply List.map_congr_left
  intro p _
  simp only [Function.comp]; split <;> rfl

theorem foldl_stepP (alen : Nat) (l ps : List (String × Seq)) (hl : (l.map Prod.fst).Nodup) :
    l.foldl (fun ps q => stepP alen q ps) ps = closedP alen l ps := by
  induction l generalizing ps with
  | nil => simp [closedP, firstNamed]
  | cons q t ih =>
    obtain ⟨n, s⟩ := q
    simp only [List.map_cons, List.nodup_cons] at hl
    have hnt : firstNamed n t = none := (firstNamed_none_iff n t).mpr hl.1
    simp only [List.foldl_cons]
    rw [ih _ hl.2]
    unfold stepP closedP
    by_cases hs : (firstNamed n ps).isSome = true
    · simp only [hs, if_true]
      have hnone : (firstNamed n ps).isNone = false := by
        cases h : firstNamed n ps <;> simp_all
      congr 1
      · simp only [updNamedP, List.map_map]
        apply List.map_congr_left
        intro p _
        simp only [Function.comp, firstNamed]
        by_cases hp : p.1 = n
        · obtain ⟨p1, p2⟩ := p
          simp only at hp
          subst hp
          simp only [beq_self_eq_true, if_true, hnt]
        · have h1 : (p.1 == n) = false := by simpa using hp
          have h2 : (n == p.1) = false := by simpa using (fun e => hp (Eq.symm e))
          simp only [h1, h2, Bool.false_eq_true, if_false]
      · simp only [List.filter_cons, hnone, Bool.false_eq_true, if_false]
        congr 1
        apply List.filter_congr
        intro x _
        exact firstNamed_isNone_congr x.1 (names_updNamedP n s ps)
    · have hs' : (firstNamed n ps).isSome = false := by simpa using hs
      have hnone : (firstNamed n ps).isNone = true := by
        cases h : firstNamed n ps <;> simp_all
      have hn : firstNamed n ps = none := by cases h : firstNamed n ps <;> simp_all
      simp only [hs', Bool.false_eq_true, if_false, List.map_append, List.map_cons, List.map_nil, hnt,
        List.filter_cons, hnone, if_true, List.append_assoc, List.cons_append, List.nil_append]
      congr 1
      · apply List.map_congr_left
        intro p hp
        have hne : p.1 ≠ n := by
          intro e
          exact (firstNamed_none_iff n ps).mp hn (e ▸ List.mem_map_of_mem (f := Prod.fst) hp)
        have h2 : (n == p.1) = false := by simpa using (fun e => hne (Eq.symm e))
        simp only [firstNamed, h2, Bool.false_eq_true, if_false]
      · congr 2
        apply List.filter_congr
        intro x hx
        have hne : x.1 ≠ n := by
          intro e; exact hl.1 (e ▸ List.mem_map_of_mem (f := Prod.fst) hx)
        -- `x.1` is looked up in `ps ++ [(n, _)]` vs `ps`
        have : ∀ (l : List (String × Seq)), firstNamed x.1 (l ++ [(n, List.replicate alen GAP ++ s)]) = firstNamed x.1 l := by
          intro l
          induction l with
          | nil =>
            have : (n == x.1) = false := by simpa using (fun e => hne (Eq.symm e))
            simp [firstNamed, this]
          | cons a l' ih' => simp only [List.cons_append, firstNamed, ih']
        rw [this]

end Gv.Proofs.BagAbs
