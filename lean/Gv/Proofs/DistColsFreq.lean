import Gv.Proofs.DistColsAln
/-!
Helper development for property C08, first half — Part D: `probaNt` (base frequencies) of
`Model/Dist.lean` over the reals is a normalised weighted sum over the columns of the alignment.
-/
namespace Gv.Proofs.DistCols
open Gv Gv.Model.Dist

/-- (Σ share of A, of C, of G, of T, Σ counted cells) -/
abbrev V := ℝ × ℝ × ℝ × ℝ × ℝ

def toV (st : Freq ℝ × ℝ) : V := (st.1.pa, st.1.pc, st.1.pg, st.1.pt, st.2)

/-- `r.1.pa / r.2, …` — the last step of `probaNt` -/
noncomputable def normV (v : V) : Freq ℝ := ⟨v.1 / v.2.2.2.2, v.2.1 / v.2.2.2.2, v.2.2.1 / v.2.2.2.2, v.2.2.2.1 / v.2.2.2.2⟩

/-- number of the bases of an ambiguity code that have index `k` in `pi` -/
def idCount (k : Int) (ids : List Code) : Nat :=
  (ids.filter fun n => Gen.ntByteToId.getD n.toNat (-1) == k).length

/-- contribution of one cell with unit weight -/
noncomputable def cellV (ov : Bool) (c : Code) : V :=
  if isNuc c then
    ((idCount 0 (possibleNt c) : ℝ) / ((possibleNt c).length : ℝ), (idCount 1 (possibleNt c) : ℝ) / ((possibleNt c).length : ℝ),
     (idCount 2 (possibleNt c) : ℝ) / ((possibleNt c).length : ℝ), (idCount 3 (possibleNt c) : ℝ) / ((possibleNt c).length : ℝ), 1)
  else (0, 0, 0, 0, if ov then 0 else 1)

/-- contribution of one column with unit weight -/
noncomputable def colF (ov rm : Bool) (x : List Byte) : V :=
  if selCol rm x then (x.map fun b => cellV ov (codeOf b)).sum else 0

theorem foldl_addM {β γ M : Type} [AddCommMonoid M] (T : β → M) (f : β → γ → β) (g : γ → M) (l : List γ)
    (h : ∀ st, ∀ x ∈ l, T (f st x) = T st + g x) (st : β) :
    T (l.foldl f st) = T st + (l.map g).sum := by
  induction l generalizing st with
  | nil => simp
  | cons x t ih =>
    simp only [List.foldl, List.map, List.sum_cons]
    rw [ih (fun st y hy => h st y (by simp [hy])), h st x (by simp), add_assoc]

theorem sum_ite_const {γ : Type} (p : γ → Bool) (x : ℝ) (l : List γ) :
    (l.map fun n => if p n then x else 0).sum = ((l.filter p).length : ℝ) * x := by
  induction l with
  | nil => simp
  | cons a t ih =>
    simp only [List.map, List.sum_cons, ih, List.filter_cons]
    cases p a <;> simp <;> ring

theorem addAt_eq (f : Freq ℝ) (idx : Int) (x : ℝ) : f.addAt idx x =
    ⟨f.pa + (if idx == 0 then x else 0), f.pc + (if idx == 1 then x else 0),
     f.pg + (if idx == 2 then x else 0), f.pt + (if idx == 3 then x else 0)⟩ := by
  unfold Freq.addAt
  by_cases h0 : idx = 0
  · subst h0; simp
  by_cases h1 : idx = 1
  · subst h1; simp
  by_cases h2 : idx = 2
  · subst h2; simp
  by_cases h3 : idx = 3
  · subst h3; simp
  simp [h0, h1, h2, h3]

theorem addFold (ids : List Code) (x : ℝ) (f : Freq ℝ) :
    ids.foldl (fun f n => f.addAt (Gen.ntByteToId.getD n.toNat (-1)) x) f =
      ⟨f.pa + (idCount 0 ids : ℝ) * x, f.pc + (idCount 1 ids : ℝ) * x,
       f.pg + (idCount 2 ids : ℝ) * x, f.pt + (idCount 3 ids : ℝ) * x⟩ := by
  have ha := foldl_addM Freq.pa (fun (f : Freq ℝ) (n : Code) => f.addAt (Gen.ntByteToId.getD n.toNat (-1)) x)
    (fun n => if Gen.ntByteToId.getD n.toNat (-1) == 0 then x else 0) ids (fun st n _ => by rw [addAt_eq]) f
  have hc := foldl_addM Freq.pc (fun (f : Freq ℝ) (n : Code) => f.addAt (Gen.ntByteToId.getD n.toNat (-1)) x)
    (fun n => if Gen.ntByteToId.getD n.toNat (-1) == 1 then x else 0) ids (fun st n _ => by rw [addAt_eq]) f
  have hg := foldl_addM Freq.pg (fun (f : Freq ℝ) (n : Code) => f.addAt (Gen.ntByteToId.getD n.toNat (-1)) x)
    (fun n => if Gen.ntByteToId.getD n.toNat (-1) == 2 then x else 0) ids (fun st n _ => by rw [addAt_eq]) f
  have ht := foldl_addM Freq.pt (fun (f : Freq ℝ) (n : Code) => f.addAt (Gen.ntByteToId.getD n.toNat (-1)) x)
    (fun n => if Gen.ntByteToId.getD n.toNat (-1) == 3 then x else 0) ids (fun st n _ => by rw [addAt_eq]) f
  rw [sum_ite_const] at ha hc hg ht
  cases hr : ids.foldl (fun f n => f.addAt (Gen.ntByteToId.getD n.toNat (-1)) x) f with
  | mk a b c d =>
    rw [hr] at ha hc hg ht
    change a = _ at ha
    change b = _ at hc
    change c = _ at hg
    change d = _ at ht
    rw [ha, hc, hg, ht]
    rfl

theorem freqCell_toV (ov : Bool) (w : ℝ) (st : Freq ℝ × ℝ) (c : Code) :
    toV (freqCell ov w st c) = toV st + w • cellV ov c := by
  unfold freqCell cellV
  by_cases hn : isNuc c = true
  · rw [if_pos hn, if_pos hn]
    dsimp only
    rw [addFold]
    simp only [RealLike.real_ofNat']
    simp only [toV, Prod.smul_mk, smul_eq_mul, Prod.mk_add_mk, mul_one]
    refine Prod.ext ?_ (Prod.ext ?_ (Prod.ext ?_ (Prod.ext ?_ rfl))) <;> simp only <;> ring
  · rw [if_neg hn, if_neg hn]
    cases ov <;> simp [toV]

/-- one column of `probaNt` (the inner loop over the rows) -/
theorem column_toV (ov : Bool) (w : ℝ) (cells : List Code) (st : Freq ℝ × ℝ) :
    toV (cells.foldl (fun st c => freqCell ov w st c) st) = toV st + w • (cells.map (cellV ov)).sum := by
  rw [foldl_addM toV (fun st c => freqCell ov w st c) (fun c => w • cellV ov c) cells
    (fun st c _ => freqCell_toV ov w st c) st]
  congr 1
  induction cells with
  | nil => simp
  | cons c t ih => simp only [List.map, List.sum_cons, ih, smul_add]

private theorem zero_real : (@OfNat.ofNat ℝ 0 (instOfNatOfRealLike 0)) = (0 : ℝ) := by
  real_like

private theorem one_real : (@OfNat.ofNat ℝ 1 (instOfNatOfRealLike 1)) = (1 : ℝ) := by
  real_like

theorem normV_toV (r : Freq ℝ × ℝ) :
    (⟨@HDiv.hDiv ℝ ℝ ℝ (@instHDiv ℝ (RealLike.toDiv)) r.1.pa r.2, @HDiv.hDiv ℝ ℝ ℝ (@instHDiv ℝ (RealLike.toDiv)) r.1.pc r.2,
      @HDiv.hDiv ℝ ℝ ℝ (@instHDiv ℝ (RealLike.toDiv)) r.1.pg r.2, @HDiv.hDiv ℝ ℝ ℝ (@instHDiv ℝ (RealLike.toDiv)) r.1.pt r.2⟩ : Freq ℝ)
      = normV (toV r) := rfl

/-- **`probaNt` is a normalised weighted sum over the columns** -/
theorem probaNt_eq_cols (ov rm : Bool) (rows : List Seq) (ws : Option (List ℝ)) :
    probaNt ov (rows.map fun r => r.map codeOf) (selectedSites rows rm) ws
      = normV (tot (colF ov rm) (colsOf rows ws)) := by
  unfold probaNt
  have hl : ((rows.map fun r => r.map codeOf).headD []).length = alnLen rows := by
    unfold alnLen
    cases rows <;> simp
  simp only [hl]
  have key := foldl_addM toV
    (fun (st : Freq ℝ × ℝ) (pos : Nat) =>
      if (selectedSites rows rm).getD pos false = true then
        (rows.map fun r => r.map codeOf).foldl
          (fun st row => freqCell ov (match ws with | none => (1 : ℝ) | some v => v.getD pos 1) st (row.getD pos 0)) st
      else st)
    (fun pos => weightAt ws pos • colF ov rm (rows.map (·.getD pos 0)))
    (List.range (alnLen rows))
    (by
      intro st pos hpos
      have hpos' : pos < alnLen rows := List.mem_range.mp hpos
      have hs : (selectedSites rows rm).getD pos false = selCol rm (rows.map (·.getD pos 0)) := by
        unfold selectedSites
        rw [getD_map_range _ _ _ _ (by simpa [alnLen] using hpos')]
        simp [selCol, List.any_map, Function.comp_def]
      rw [hs]
      unfold colF
      by_cases hsel : selCol rm (rows.map (·.getD pos 0)) = true
      · simp only [hsel, if_true]
        rw [List.foldl_map]
        have := column_toV ov (weightAt ws pos) (rows.map fun r => codeOf (r.getD pos 0)) st
        rw [List.foldl_map] at this
        simp only [getD_map_codeOf]
        rw [List.map_map] at this
        rw [List.map_map]
        exact this
      · simp only [hsel, Bool.false_eq_true, if_false, smul_zero, add_zero])
    ((⟨0, 0, 0, 0⟩ : Freq ℝ), (0 : ℝ))
  have htot : ((List.range (alnLen rows)).map fun pos => weightAt ws pos • colF ov rm (rows.map (·.getD pos 0))).sum
      = tot (colF ov rm) (colsOf rows ws) := by
    unfold tot colsOf
    rw [List.map_map]
    rfl
  rw [htot] at key
  have h0 : toV ((⟨0, 0, 0, 0⟩ : Freq ℝ), (0 : ℝ)) = 0 := rfl
  rw [h0, zero_add] at key
  simp only [zero_real, one_real]
  rw [← key]
  convert normV_toV _ using 8
  funext st row
  cases ws <;> rfl

end Gv.Proofs.DistCols
