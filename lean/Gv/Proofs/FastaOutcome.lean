import Gv.Model.Fmt.Fasta
import Gv.Proofs.FmtBagInv
/-!
The FASTA parser loop keeps the container invariant (helper development for `Props/C03.lean`).
-/
namespace Gv.Proofs.FastaOutcome
open Gv Gv.Model Gv.Model.Fmt Gv.Model.Fmt.Fasta Gv.Proofs.FmtBagInv

/-- what the loop preserves -/
def Good (b : Bag) : Prop := Inv b ∧ Pos b

theorem good_empty (i : Nat) : Good { ignore := i } := ⟨inv_empty i, fun h => absurd rfl h⟩

theorem add_good (b : Bag) (hb : Good b) (n : Name) (s : Seq) (hs : s ≠ []) (b' : Bag)
    (h : b.add n s = some b') : Good b' :=
  ⟨add_inv b hb.1 n s b' h, add_pos b hb.2 n s hs b' h⟩

/-- both loop functions, by strong induction on the number of remaining tokens -/
theorem loop_body_good : ∀ (n : Nat) (ts : List Tok), ts.length ≤ n → ∀ (st : PS) (b : Bag), Good st.bag →
    (loop st ts = some b → Good b) ∧ (body st ts = some b → Good b) := by
  intro n
  induction n with
  | zero =>
    intro ts hl st b hg
    have : ts = [] := List.length_eq_zero_iff.mp (by omega)
    subst this
    have hb : body st [] = some b → Good b := by
      intro h; rw [body] at h; simp at h; subst h; exact hg
    refine ⟨?_, hb⟩
    intro h
    rw [loop] at h
    · exact hb h
    · intro ts e; cases e
  | succ n ih =>
    intro ts hl st b hg
    have hbody : body st ts = some b → Good b := by
      intro h
      match ts, hl with
      | [], _ => rw [body] at h; simp at h; subst h; exact hg
      | .start :: .ident nm :: rest, hl =>
        rw [body] at h
        have hrest : rest.length ≤ n := by simp at hl; omega
        split at h
        · rename_i hcs
          split at h
          · simp at h
          · rename_i b1 hadd
            refine (ih rest hrest _ b ?_).1 h
            exact add_good st.bag hg _ _ hcs b1 hadd
        · split at h
          · simp at h
          · refine (ih rest hrest _ b ?_).1 h
            exact hg
      | .start :: [], _ =>
        rw [body] at h
        · simp at h
        · intro nm rest e; cases e
      | .start :: .start :: _, _ =>
        rw [body] at h
        · simp at h
        · intro nm rest e; cases e
      | .start :: .eol :: _, _ =>
        rw [body] at h
        · simp at h
        · intro nm rest e; cases e
      | .start :: .eof :: _, _ =>
        rw [body] at h
        · simp at h
        · intro nm rest e; cases e
      | .ident s :: rest, hl =>
        rw [body] at h
        refine (ih rest (by simp at hl; omega) _ b ?_).1 h
        exact hg
      | .eof :: rest, _ =>
        rw [body] at h
        split at h
        · rename_i hcs
          exact add_good st.bag hg _ _ hcs b h
        · simp at h; subst h; exact hg
      | .eol :: rest, hl =>
        rw [body] at h
        exact (ih rest (by simp at hl; omega) st b hg).1 h
    refine ⟨?_, hbody⟩
    intro h
    match ts, hl with
    | .eol :: rest, hl =>
      rw [loop] at h
      exact (ih rest (by simp at hl; omega) st b hg).2 h
    | [], _ =>
      rw [loop] at h
      · exact hbody h
      · intro ts e; cases e
    | .start :: rest, _ =>
      rw [loop] at h
      · exact hbody h
      · intro ts e; cases e
    | .ident s :: rest, _ =>
      rw [loop] at h
      · exact hbody h
      · intro ts e; cases e
    | .eof :: rest, _ =>
      rw [loop] at h
      · exact hbody h
      · intro ts e; cases e

theorem parseBag_good (ignore : Nat) (s : Seq) (b : Bag) (h : parseBag ignore s = some b) : Good b := by
  unfold parseBag at h
  split at h
  · exact (loop_body_good _ _ (Nat.le_refl _) _ b (good_empty _)).1 h
  · simp at h

/-! ### the shape of inputs that succeed with zero rows -/

/-- identifier tokens in sequence position (not directly after `>`), up to the first EOF -/
def seqIdents : List Tok → List Seq
  | [] => []
  | .eof :: _ => []
  | .start :: .ident _ :: rest => seqIdents rest
  | .start :: rest => seqIdents rest
  | .ident s :: rest => s :: seqIdents rest
  | .eol :: rest => seqIdents rest

theorem eof_mem_lex : ∀ (n : Nat) (s : Seq), s.length ≤ n → Tok.eof ∈ lex s := by
  intro n
  induction n with
  | zero =>
    intro s h
    have : s = [] := List.length_eq_zero_iff.mp (by omega)
    subst this; simp [lex]
  | succ n ih =>
    intro s h
    cases s with
    | nil => simp [lex]
    | cons c cs =>
      rw [lex]
      have hlt := scan_shorter c cs
      have hrec := ih (scan (c :: cs)).2 (by simp at h hlt ⊢; omega)
      split
      · simp
      · simp [hrec]

/-- a run that ends with no row: nothing was pending, nothing was in the bag, and no later sequence
line holds a non-space byte -/
theorem zero_rows_shape : ∀ (n : Nat) (ts : List Tok), ts.length ≤ n → Tok.eof ∈ ts →
    ∀ (st : PS) (b : Bag), b.rows = [] →
    (loop st ts = some b → st.bag.rows = [] ∧ st.curseq = [] ∧ ∀ s ∈ seqIdents ts, noSpaces s = []) ∧
    (body st ts = some b → st.bag.rows = [] ∧ st.curseq = [] ∧ ∀ s ∈ seqIdents ts, noSpaces s = []) := by
  intro n
  induction n with
  | zero =>
    intro ts hl hmem
    have : ts = [] := List.length_eq_zero_iff.mp (by omega)
    subst this; cases hmem
  | succ n ih =>
    intro ts hl hmem st b hb
    have hbody : body st ts = some b →
        st.bag.rows = [] ∧ st.curseq = [] ∧ ∀ s ∈ seqIdents ts, noSpaces s = [] := by
      intro h
      match ts, hl, hmem with
      | [], _, hmem => cases hmem
      | .start :: .ident nm :: rest, hl, hmem =>
        have hrest : rest.length ≤ n := by simp at hl; omega
        have hm : Tok.eof ∈ rest := by simpa using hmem
        rw [body] at h
        split at h
        · split at h
          · simp at h
          · rename_i b1 hadd
            have := ((ih rest hrest hm _ b hb).1 h).1
            exact absurd this (add_rows_ne _ _ _ _ hadd)
        · rename_i hcs
          split at h
          · simp at h
          · have := (ih rest hrest hm _ b hb).1 h
            refine ⟨this.1, by simpa using hcs, ?_⟩
            simpa [seqIdents] using this.2.2
      | .start :: [], _, _ =>
        rw [body] at h
        · simp at h
        · intro nm rest e; cases e
      | .start :: .start :: _, _, _ =>
        rw [body] at h
        · simp at h
        · intro nm rest e; cases e
      | .start :: .eol :: _, _, _ =>
        rw [body] at h
        · simp at h
        · intro nm rest e; cases e
      | .start :: .eof :: _, _, _ =>
        rw [body] at h
        · simp at h
        · intro nm rest e; cases e
      | .ident s :: rest, hl, hmem =>
        have hm : Tok.eof ∈ rest := by simpa using hmem
        rw [body] at h
        have := (ih rest (by simp at hl; omega) hm _ b hb).1 h
        have hcat : st.curseq ++ noSpaces s = [] := this.2.1
        have h1 : st.curseq = [] := (List.append_eq_nil_iff.mp hcat).1
        have h2 : noSpaces s = [] := (List.append_eq_nil_iff.mp hcat).2
        refine ⟨this.1, h1, ?_⟩
        intro x hx
        simp only [seqIdents, List.mem_cons] at hx
        cases hx with
        | inl e => subst e; exact h2
        | inr e => exact this.2.2 x e
      | .eof :: rest, _, _ =>
        rw [body] at h
        split at h
        · exact absurd hb (add_rows_ne _ _ _ _ h)
        · rename_i hcs
          simp at h; subst h
          exact ⟨hb, by simpa using hcs, by simp [seqIdents]⟩
      | .eol :: rest, hl, hmem =>
        have hm : Tok.eof ∈ rest := by simpa using hmem
        rw [body] at h
        have := (ih rest (by simp at hl; omega) hm st b hb).1 h
        exact ⟨this.1, this.2.1, by simpa [seqIdents] using this.2.2⟩
    refine ⟨?_, hbody⟩
    intro h
    match ts, hl, hmem with
    | .eol :: rest, hl, hmem =>
      have hm : Tok.eof ∈ rest := by simpa using hmem
      rw [loop] at h
      have := (ih rest (by simp at hl; omega) hm st b hb).2 h
      exact ⟨this.1, this.2.1, by simpa [seqIdents] using this.2.2⟩
    | [], _, hmem => cases hmem
    | .start :: rest, _, _ =>
      rw [loop] at h
      · exact hbody h
      · intro ts e; cases e
    | .ident s :: rest, _, _ =>
      rw [loop] at h
      · exact hbody h
      · intro ts e; cases e
    | .eof :: rest, _, _ =>
      rw [loop] at h
      · exact hbody h
      · intro ts e; cases e

/-- "the known empty-record shape": no sequence line of the file holds a non-space byte -/
def EmptyRecords (bs : Seq) : Prop := ∀ s ∈ seqIdents (lex bs), noSpaces s = []

theorem parseBag_zero_rows (ignore : Nat) (bs : Seq) (b : Bag) (h : parseBag ignore bs = some b)
    (hb : b.rows = []) : EmptyRecords bs := by
  unfold parseBag at h
  split at h
  · exact ((zero_rows_shape _ _ (Nat.le_refl _) (eof_mem_lex _ bs (Nat.le_refl _)) _ b hb).1 h).2.2
  · simp at h

end Gv.Proofs.FastaOutcome
