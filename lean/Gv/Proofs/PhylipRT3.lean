import Gv.Proofs.PhylipRT2
/-!
Phylip round trip, helper development, part 3: `Parse` on the writer's output, for every line width, group
width and name-column mode.
-/
namespace Gv.Proofs.PhylipRT
open Gv Gv.Model Gv.Model.Fmt Gv.Model.Fmt.Phylip

set_option maxRecDepth 100000

/-- the writer with explicit line / group widths and alignment length -/
def writeLB (strict : Bool) (line block L : Nat) (rows : List XRow) : Seq :=
  SP :: SP :: SP :: (natDec rows.length ++ SP :: SP :: SP :: (natDec L ++ NL ::
    blocksW strict line block L rows (L + 1) 0))

theorem write_eq (strict oneline noblock : Bool) (rows : List XRow) (L : Nat) (hne : rows ≠ [])
    (hlen : ∀ r ∈ rows, r.2.length = L) :
    write strict oneline noblock rows =
      writeLB strict (if oneline then L else Gen.c_PHYLIP_LINE.toNat)
        (if noblock then (if oneline then L else Gen.c_PHYLIP_LINE.toNat) else Gen.c_PHYLIP_BLOCK.toNat) L rows := by
  cases rows with
  | nil => exact absurd rfl hne
  | cons r rs =>
    have h0 : r.2.length = L := hlen r (by simp)
    simp [write, writeLB, h0, intDec, SP, NL]

theorem flatMap_rowLine_length (strict hdr : Bool) (line block cur : Nat) : ∀ (rows : List XRow),
    rows.length ≤ (rows.flatMap (rowLine strict hdr line block cur)).length
  | [] => by simp
  | r :: rs => by
    have ih := flatMap_rowLine_length strict hdr line block cur rs
    have : 1 ≤ (rowLine strict hdr line block cur r).length := by
      simp only [rowLine, List.length_append, List.length_cons, List.length_nil]; omega
    simp only [List.flatMap_cons, List.length_append, List.length_cons]
    omega

/-- the parser state in front of the text `T` that follows an alignment of a stream: nothing read yet, or
the three blanks of the next header line already taken (and pushed back or not), or the end of the input
seen and pushed back -/
inductive At (T : Seq) : St → Prop
  | fresh (l : Tok) : At T ⟨T, l, false⟩
  | wsPushed (R : Seq) (h : T = SP :: SP :: SP :: R) : At T ⟨R, .ws, true⟩
  | wsDone (R : Seq) (h : T = SP :: SP :: SP :: R) : At T ⟨R, .ws, false⟩
  | eofPushed (h : T = []) : At T ⟨[], .eof, true⟩

theorem at_endSt (T : Seq) (hT : Tail T) : At T (endSt T).2 ∧ At T (endSt T).2.unscan := by
  cases hT with
  | inl h => subst h; exact ⟨At.fresh .eof, At.eofPushed rfl⟩
  | inr h =>
    obtain ⟨d, R, rfl, _, _⟩ := h
    exact ⟨At.wsDone (d :: R) rfl, At.wsPushed (d :: R) rfl⟩

/-- the blocks after the header line, followed by `T` -/
theorem body_written (strict : Bool) (o : POpts) (hs : o.strict = strict) (ho : normAlphabet o.alphabet = 2)
    (line block L : Nat) (hl : 0 < line) (hb : 0 < block) (hL : 1 ≤ L) (r0 : XRow) (rs : List XRow)
    (hok : ∀ r ∈ r0 :: rs, RowOk strict L r) (hd : Spec.Fmt.distinct ((r0 :: rs).map (·.1)) = true)
    (T : Seq) (hT : Tail T) :
    ∃ s', body o (((r0 :: rs).length : Nat) : Int) (L : Int)
        ⟨blocksW strict line block L (r0 :: rs) (L + 1) 0 ++ T, .eol, false⟩ =
      .ok (⟨autoAlphabet ((r0 :: rs).map (·.2)), L, r0 :: rs⟩, s') ∧ At T s' := by
  have h0 := hok r0 (by simp)
  have hlen : ∀ r ∈ r0 :: rs, r.2.length = L := fun r hr => (hok r hr).len
  have hfl : ∀ c : Nat, firstLen ((r0 :: rs).map (fun r => (r.1, r.2.take c))) = ((min c L : Nat) : Int) := by
    intro c; simp [firstLen, List.length_take, h0.len]
  have hbuild := build_written o ho L (r0 :: rs) (by simp) hlen hd
  have hfirst := first_rows strict line block L hl hb hL (r0 :: rs) hok
    (blocksW strict line block L (r0 :: rs) L line ++ T)
    (((r0 :: rs).flatMap (rowLine strict true line block 0) ++
      (blocksW strict line block L (r0 :: rs) L line ++ T)).length + 3)
    [] (by
      have := flatMap_rowLine_length strict true line block 0 (r0 :: rs)
      simp only [List.length_append]; omega)
  unfold body
  rw [blocksW_first strict line block L hL, hs, Int.toNat_natCast, List.append_assoc]
  simp only [hfirst, bind, Except.bind, List.nil_append]
  by_cases hend : L ≤ line
  · rw [blocksW_done strict line block L _ L line hend, List.nil_append]
    rw [afterBlock_tail _ _ (by rw [hfl, Nat.min_eq_right hend]) T hT]
    have e : ((L : Int) == firstLen ((r0 :: rs).map (fun r => (r.1, r.2.take line)))) = true := by
      rw [hfl, Nat.min_eq_right hend]; simp
    simp only [e, if_true]
    rw [blocks_stop _ _ (by rw [hfl, Nat.min_eq_right hend])]
    simp only [pure, Except.pure]
    rw [take_all L _ hlen line hend, hbuild]
    exact ⟨_, rfl, (at_endSt T hT).2⟩
  · have hlt : line < L := by omega
    obtain ⟨fw, rfl⟩ : ∃ f, L = f + 1 := ⟨L - 1, by omega⟩
    have e2 : blocksW strict line block (fw + 1) (r0 :: rs) (fw + 1) line ++ T =
        NL :: (List.replicate (preLen strict + 1) SP ++ lineText block (seg line line r0) ++
          (rs.flatMap (rowLine strict false line block line) ++
            (blocksW strict line block (fw + 1) (r0 :: rs) fw (line + line) ++ T))) := by
      rw [blocksW_step strict line block (fw + 1) r0 rs h0.len fw line hl hlt]
      simp [List.append_assoc]
    rw [e2]
    rw [afterBlock_more block hb _ _ (preLen strict) _ (seg_ne line _ hl r0 (by rw [h0.len]; exact hlt))
      (seg_res line _ r0 h0.res)]
    have e : (((fw + 1 : Nat) : Int) == firstLen ((r0 :: rs).map (fun r => (r.1, r.2.take line)))) = false := by
      rw [hfl]; simp; omega
    simp only [e, Bool.false_eq_true, if_false]
    have hloop := blocks_loop strict line block (fw + 1) hl hb r0 rs hok T hT
      ((inBlock strict line block (fw + 1) r0 rs fw line T).length + 3) line fw hl hlt (by omega) (by omega)
    unfold inBlock at hloop
    rw [hloop]
    simp only [hbuild]
    exact ⟨_, rfl, (at_endSt T hT).1⟩

/-! ### the header line from any of the states between two alignments -/

/-- the header after its first number has been found -/
theorem header_core (af : Bool) (n L : Nat) (hn1 : 1 ≤ n) (hn : n ≤ 9223372036854775807) (hL1 : 1 ≤ L)
    (hL : L ≤ 9223372036854775807) (halloc : af = false ∨ n < 134217728) (B : Seq) (s : St)
    (hsk : skipLeading (s.inp.length + 3) s =
      .ok (.num (natDec n), ⟨SP :: SP :: SP :: (natDec L ++ NL :: B), .num (natDec n), false⟩)) :
    header af s = .ok (.counts n L, ⟨B, .eol, false⟩) := by
  obtain ⟨d, ds, hd, hdw, hd0⟩ := natDec_head L
  have h1 : scan (SP :: SP :: SP :: (natDec L ++ NL :: B)) = some (Tok.ws, natDec L ++ NL :: B) := by
    have := scan_ws 2 d hdw hd0 (ds ++ NL :: B)
    simpa [hd, List.replicate] using this
  have h2 := scan_num L hL NL identChar_NL (by decide) B
  have hn0 : ¬ ((n : Int) = 0) := by omega
  have hnn : ¬ ((n : Int) < 0) := by omega
  have hL0 : ¬ ((L : Int) = 0) := by omega
  unfold header
  rw [hsk]
  simp only [bind, Except.bind, pure, Except.pure, reduceCtorEq, beq_iff_eq, if_false,
    Decimal.parseInt64_natDec n hn, Decimal.parseInt64_natDec L hL, hn0, hnn, hL0, alloc_fine af n halloc,
    st_scan _ _ _ _ h1, st_scan _ _ _ _ h2, st_scan _ _ _ _ (scan_nl B), bne_self_eq_false, Bool.false_eq_true]

/-- the text of a header line -/
def hdrLine (n L : Nat) (B : Seq) : Seq := SP :: SP :: SP :: (natDec n ++ SP :: SP :: SP :: (natDec L ++ NL :: B))

theorem header_at (af : Bool) (n L : Nat) (hn1 : 1 ≤ n) (hn : n ≤ 9223372036854775807) (hL1 : 1 ≤ L)
    (hL : L ≤ 9223372036854775807) (halloc : af = false ∨ n < 134217728) (B : Seq) (s : St)
    (hs : At (hdrLine n L B) s) : header af s = .ok (.counts n L, ⟨B, .eol, false⟩) := by
  have hnum := fun (l : Tok) => st_scan _ l _ _
    (scan_num n hn SP identChar_SP (by decide) (SP :: SP :: (natDec L ++ NL :: B)))
  apply header_core af n L hn1 hn hL1 hL halloc B
  cases hs with
  | fresh l =>
    simp only [hdrLine, List.length_cons]
    exact skipLeading_written n hn SP identChar_SP (by decide) _ _ l
  | wsPushed R h =>
    simp only [hdrLine, List.cons.injEq, true_and] at h
    subst h
    rw [skipLeading, scanWithEOL_of _ _ _ (st_scan_pushed _ _) (by decide)]
    simp only [bind, Except.bind, beq_self_eq_true, Bool.true_or, if_true]
    rw [skipLeading, scanWithEOL_of _ _ _ (hnum _) (by simp)]
    simp [bind, Except.bind, pure, Except.pure]
  | wsDone R h =>
    simp only [hdrLine, List.cons.injEq, true_and] at h
    subst h
    rw [skipLeading, scanWithEOL_of _ _ _ (hnum _) (by simp)]
    simp [bind, Except.bind, pure, Except.pure]
  | eofPushed h => simp [hdrLine] at h

/-- at the end of the input `Parse` returns the end-of-stream marker -/
theorem header_at_nil (af : Bool) (s : St) (hs : At [] s) : ∃ s', header af s = .ok (.eos, s') := by
  cases hs with
  | fresh l =>
    unfold header
    simp only [List.length_nil]
    rw [skipLeading, scanWithEOL_of _ _ _ (st_scan _ l _ _ scan_nil) (by decide)]
    simp [bind, Except.bind, pure, Except.pure]
  | wsPushed R h => cases h
  | wsDone R h => cases h
  | eofPushed h =>
    unfold header
    simp only [List.length_nil]
    rw [skipLeading, scanWithEOL_of _ _ _ (st_scan_pushed _ _) (by decide)]
    simp [bind, Except.bind, pure, Except.pure]

/-- **one `Parse` call on a written alignment followed by `T`** -/
theorem parseOne_written (af strict : Bool) (o : POpts) (hs : o.strict = strict) (ho : normAlphabet o.alphabet = 2)
    (line block L : Nat) (hl : 0 < line) (hb : 0 < block) (hL : 1 ≤ L) (hLmax : L ≤ 9223372036854775807)
    (rows : List XRow) (hne : rows ≠ []) (hnmax : rows.length ≤ 9223372036854775807)
    (halloc : af = false ∨ rows.length < 134217728)
    (hok : ∀ r ∈ rows, RowOk strict L r) (hd : Spec.Fmt.distinct (rows.map (·.1)) = true)
    (T : Seq) (hT : Tail T) (s : St) (hat : At (writeLB strict line block L rows ++ T) s) :
    ∃ s', parseOne af o s = .ok (.aln ⟨autoAlphabet (rows.map (·.2)), L, rows⟩, s') ∧ At T s' := by
  cases rows with
  | nil => exact absurd rfl hne
  | cons r0 rs =>
    obtain ⟨s', hbody, hat'⟩ := body_written strict o hs ho line block L hl hb hL r0 rs hok hd T hT
    have e : writeLB strict line block L (r0 :: rs) ++ T =
        hdrLine (r0 :: rs).length L (blocksW strict line block L (r0 :: rs) (L + 1) 0 ++ T) := by
      simp [writeLB, hdrLine, List.append_assoc]
    rw [e] at hat
    refine ⟨s', ?_, hat'⟩
    unfold parseOne
    rw [header_at af (r0 :: rs).length L (by simp) hnmax hL hLmax halloc _ s hat]
    simp only [bind, Except.bind, hbody, pure, Except.pure]

/-- **`Parse` on the writer's output**, any line / group width, strict or relaxed names -/
theorem parse_written (af strict : Bool) (o : POpts) (hs : o.strict = strict) (ho : normAlphabet o.alphabet = 2)
    (line block L : Nat) (hl : 0 < line) (hb : 0 < block) (hL : 1 ≤ L) (hLmax : L ≤ 9223372036854775807)
    (rows : List XRow) (hne : rows ≠ []) (hnmax : rows.length ≤ 9223372036854775807)
    (halloc : af = false ∨ rows.length < 134217728)
    (hok : ∀ r ∈ rows, RowOk strict L r) (hd : Spec.Fmt.distinct (rows.map (·.1)) = true) :
    Phylip.parse af o (writeLB strict line block L rows) =
      .ok (some ⟨autoAlphabet (rows.map (·.2)), L, rows⟩) := by
  obtain ⟨s', hp, _⟩ := parseOne_written af strict o hs ho line block L hl hb hL hLmax rows hne hnmax halloc hok hd
    [] (Or.inl rfl) ⟨writeLB strict line block L rows, .eof, false⟩ (by rw [List.append_nil]; exact At.fresh .eof)
  unfold Phylip.parse
  rw [hp]
  rfl

end Gv.Proofs.PhylipRT
