import Gv.Proofs.PhylipRT2
/-!
Phylip round trip, helper development, part 3: `Parse` on the writer's output, for every line width, group
width and name-column mode.
-/
namespace Gv.Proofs.PhylipRT
open Gv Gv.Model Gv.Model.Fmt Gv.Model.Fmt.Phylip

set_option maxRecDepth 100000

/-- the writer with explicit line / group widths and alignment length -/
def writeLB (strict : Bool) (line block L : Nat) (rows : List XRow) : Seq :=
  SP :: SP :: SP :: (natDec rows.length ++ SP :: SP :: SP :: (natDec L ++ NL ::
    blocksW strict line block L rows (L + 1) 0))

theorem write_eq (strict oneline noblock : Bool) (rows : List XRow) (L : Nat) (hne : rows ≠ [])
    (hlen : ∀ r ∈ rows, r.2.length = L) :
    write strict oneline noblock rows =
      writeLB strict (if oneline then L else Gen.c_PHYLIP_LINE.toNat)
        (if noblock then (if oneline then L else Gen.c_PHYLIP_LINE.toNat) else Gen.c_PHYLIP_BLOCK.toNat) L rows := by
  cases rows with
  | nil => exact absurd rfl hne
  | cons r rs =>
    have h0 : r.2.length = L := hlen r (by simp)
    simp [write, writeLB, h0, intDec, SP, NL]

theorem flatMap_rowLine_length (strict hdr : Bool) (line block cur : Nat) : ∀ (rows : List XRow),
    rows.length ≤ (rows.flatMap (rowLine strict hdr line block cur)).length
  | [] => by simp
  | r :: rs => by
    have ih := flatMap_rowLine_length strict hdr line block cur rs
    have : 1 ≤ (rowLine strict hdr line block cur r).length := by
      simp only [rowLine, List.length_append, List.length_cons, List.length_nil]; omega
    simp only [List.flatMap_cons, List.length_append, List.length_cons]
    omega

/-- the blocks after the header line -/
theorem body_written (strict : Bool) (o : POpts) (hs : o.strict = strict) (ho : normAlphabet o.alphabet = 2)
    (line block L : Nat) (hl : 0 < line) (hb : 0 < block) (hL : 1 ≤ L) (r0 : XRow) (rs : List XRow)
    (hok : ∀ r ∈ r0 :: rs, RowOk strict L r) (hd : Spec.Fmt.distinct ((r0 :: rs).map (·.1)) = true) :
    ∃ s', body o (((r0 :: rs).length : Nat) : Int) (L : Int)
        ⟨blocksW strict line block L (r0 :: rs) (L + 1) 0, .eol, false⟩ =
      .ok (⟨autoAlphabet ((r0 :: rs).map (·.2)), L, r0 :: rs⟩, s') := by
  have h0 := hok r0 (by simp)
  have hlen : ∀ r ∈ r0 :: rs, r.2.length = L := fun r hr => (hok r hr).len
  have hfl : ∀ c : Nat, firstLen ((r0 :: rs).map (fun r => (r.1, r.2.take c))) = ((min c L : Nat) : Int) := by
    intro c; simp [firstLen, List.length_take, h0.len]
  have hbuild := build_written o ho L (r0 :: rs) (by simp) hlen hd
  have hfirst := first_rows strict line block L hl hb hL (r0 :: rs) hok
    (blocksW strict line block L (r0 :: rs) L line)
    (((r0 :: rs).flatMap (rowLine strict true line block 0) ++ blocksW strict line block L (r0 :: rs) L line).length + 3)
    [] (by
      have := flatMap_rowLine_length strict true line block 0 (r0 :: rs)
      simp only [List.length_append]; omega)
  unfold body
  rw [blocksW_first strict line block L hL, hs, Int.toNat_natCast]
  simp only [hfirst, bind, Except.bind, List.nil_append]
  by_cases hend : L ≤ line
  · rw [blocksW_done strict line block L _ L line hend]
    rw [afterBlock_eof _ _ (by rw [hfl, Nat.min_eq_right hend])]
    have e : ((L : Int) == firstLen ((r0 :: rs).map (fun r => (r.1, r.2.take line)))) = true := by
      rw [hfl, Nat.min_eq_right hend]; simp
    simp only [e, if_true, St.unscan, List.length_nil]
    rw [blocks]
    simp only [bne_self_eq_false, Bool.false_and, Bool.false_eq_true, if_false, pure, Except.pure]
    rw [take_all L _ hlen line hend, hbuild]
    exact ⟨_, rfl⟩
  · have hlt : line < L := by omega
    obtain ⟨fw, rfl⟩ : ∃ f, L = f + 1 := ⟨L - 1, by omega⟩
    rw [blocksW_step strict line block (fw + 1) r0 rs h0.len fw line hl hlt]
    rw [afterBlock_more block hb _ _ (preLen strict) _ (seg_ne line _ hl r0 (by rw [h0.len]; exact hlt))
      (seg_res line _ r0 h0.res)]
    have e : (((fw + 1 : Nat) : Int) == firstLen ((r0 :: rs).map (fun r => (r.1, r.2.take line)))) = false := by
      rw [hfl]; simp; omega
    simp only [e, Bool.false_eq_true, if_false]
    have hloop := blocks_loop strict line block (fw + 1) hl hb r0 rs hok
      ((inBlock strict line block (fw + 1) r0 rs fw line).length + 3) line fw hl hlt (by omega) (by omega)
    unfold inBlock at hloop
    rw [hloop]
    simp only [hbuild]
    exact ⟨_, rfl⟩

/-- **`Parse` on the writer's output**, any line / group width, strict or relaxed names -/
theorem parse_written (af strict : Bool) (o : POpts) (hs : o.strict = strict) (ho : normAlphabet o.alphabet = 2)
    (line block L : Nat) (hl : 0 < line) (hb : 0 < block) (hL : 1 ≤ L) (hLmax : L ≤ 9223372036854775807)
    (rows : List XRow) (hne : rows ≠ []) (hnmax : rows.length ≤ 9223372036854775807)
    (halloc : af = false ∨ rows.length < 134217728)
    (hok : ∀ r ∈ rows, RowOk strict L r) (hd : Spec.Fmt.distinct (rows.map (·.1)) = true) :
    Phylip.parse af o (writeLB strict line block L rows) =
      .ok (some ⟨autoAlphabet (rows.map (·.2)), L, rows⟩) := by
  cases rows with
  | nil => exact absurd rfl hne
  | cons r0 rs =>
    obtain ⟨s', hbody⟩ := body_written strict o hs ho line block L hl hb hL r0 rs hok hd
    unfold Phylip.parse parseOne writeLB
    rw [header_written af (r0 :: rs).length L (by simp) hnmax hL hLmax halloc]
    simp only [bind, Except.bind, hbody, pure, Except.pure, toOutcome]

end Gv.Proofs.PhylipRT
