import Gv.Model.Fmt.Phylip
import Gv.Proofs.PhylipOutcome
import Gv.Proofs.Utf8Norm
/-!
Phylip parser: the fuel of every loop of the model is sufficient — the parser never reports `hang`
(helper development for `Props/C03.lean`).

Measure `ν s` = remaining bytes + 1 if a token other than EOF is pushed back.  Every token other than EOF
that is handed out strictly decreases `ν`; `unscan` gives back at most what the last scan took.
-/
namespace Gv.Proofs.PhylipNoHang
open Gv Gv.Model Gv.Model.Fmt Gv.Model.Fmt.Phylip

theorem length_dropWhile_le {α} (p : α → Bool) : ∀ l : List α, (l.dropWhile p).length ≤ l.length
  | [] => by simp
  | x :: xs => by
    simp only [List.dropWhile]
    split
    · exact Nat.le_succ_of_le (length_dropWhile_le p xs)
    · simp

theorem afterRun_le (l : Seq) : (Phylip.afterRun l).length ≤ l.length := by
  unfold Phylip.afterRun; split
  · split <;> simp
  · simp

/-- the lexer consumes at least one byte of a non-empty input -/
theorem lex_shorter (c : Byte) (cs : Seq) (t : Tok) (r : Seq) (h : Phylip.scan (c :: cs) = some (t, r)) :
    r.length < (c :: cs).length := by
  have h1 := Nat.le_trans (afterRun_le (cs.dropWhile Phylip.isWS)) (length_dropWhile_le Phylip.isWS cs)
  have h2 := Nat.le_trans (afterRun_le (cs.dropWhile Phylip.identChar)) (length_dropWhile_le Phylip.identChar cs)
  unfold Phylip.scan at h
  simp only at h
  repeat' (split at h)
  all_goals (try (simp only [Option.some.injEq, Prod.mk.injEq, reduceCtorEq] at h))
  all_goals (try (obtain ⟨_, rfl⟩ := h))
  all_goals (try (simp only [List.length_cons]))
  all_goals (try omega)
  all_goals (
    rename_i he
    simp only [List.cons.injEq] at he
    omega)

def ν (s : St) : Nat := s.inp.length + (if s.pushed && s.last != .eof then 1 else 0)

theorem ν_le (s : St) : ν s ≤ s.inp.length + 1 := by unfold ν; split <;> omega

/-- contract of `St.scan` -/
theorem scan_ok (s s' : St) (t : Tok) (h : s.scan = .ok (t, s')) :
    s'.last = t ∧ s'.pushed = false ∧ (t ≠ .eof → ν s' < ν s) ∧ ν s' ≤ ν s := by
  unfold St.scan at h
  split at h
  · rename_i hp
    simp only [Except.ok.injEq, Prod.mk.injEq] at h
    obtain ⟨rfl, rfl⟩ := h
    simp only [ν, hp, Bool.true_and, Bool.false_and, Bool.false_eq_true, if_false, Nat.add_zero]
    refine ⟨trivial, trivial, ?_, ?_⟩
    · intro hne; simp [hne]
    · split <;> omega
  · rename_i hp
    have hp' : s.pushed = false := by simpa using hp
    split at h
    · simp at h
    · rename_i t' r hs
      simp only [Except.ok.injEq, Prod.mk.injEq] at h
      obtain ⟨rfl, rfl⟩ := h
      simp only [ν, hp', Bool.false_and, Bool.false_eq_true, if_false, Nat.add_zero]
      refine ⟨trivial, trivial, ?_, ?_⟩
      · intro hne
        cases hi : s.inp with
        | nil => rw [hi] at hs; simp [Phylip.scan] at hs; exact absurd hs.1.symm hne
        | cons c cs => rw [hi] at hs; exact lex_shorter c cs _ r hs
      · cases hi : s.inp with
        | nil => rw [hi] at hs; simp [Phylip.scan] at hs; simp [hs.2]
        | cons c cs => rw [hi] at hs; exact Nat.le_of_lt (lex_shorter c cs _ r hs)

theorem scan_nh (s : St) : s.scan ≠ .error .hang := by
  unfold St.scan
  split
  · simp
  · split <;> simp

/-- what `unscan` gives back after a scan -/
theorem unscan_c (s : St) (hp : s.pushed = false) :
    ν s.unscan = s.inp.length + (if s.last != .eof then 1 else 0) := by
  simp [ν, St.unscan]

/-- `skipEols`: does not hang when fuel exceeds the measure; the result, with its last token pushed back,
is not above the start -/
theorem skipEols_c : ∀ (fuel : Nat) (s : St), ν s < fuel →
    (∀ s2, skipEols fuel s = .ok s2 → s2.pushed = false ∧ ν s2.unscan ≤ ν s) ∧ skipEols fuel s ≠ .error .hang := by
  intro fuel
  induction fuel with
  | zero => intro s h; omega
  | succ k ih =>
    intro s h
    have hnh := scan_nh s
    constructor
    · intro s2 h2
      unfold skipEols at h2
      simp only [bind, Except.bind, pure, Except.pure] at h2
      split at h2
      · simp at h2
      · rename_i v hv
        obtain ⟨t, s'⟩ := v
        obtain ⟨hl, hp, hst, hle⟩ := scan_ok s s' t hv
        simp only at h2
        split at h2
        · rename_i heol
          have ht : t = .eol := by simpa using heol
          have := (ih s' (by have := hst (by rw [ht]; simp); omega)).1 s2 h2
          exact ⟨this.1, by have := hst (by rw [ht]; simp); omega⟩
        · simp only [Except.ok.injEq] at h2
          subst h2
          refine ⟨hp, ?_⟩
          rw [unscan_c s' hp, hl]
          by_cases he : t = .eof
          · subst he; simp; have : ν s' = s'.inp.length := by simp [ν, hp]
            omega
          · have hlt := hst he
            have : ν s' = s'.inp.length := by simp [ν, hp]
            simp [he]; omega
    · intro h2
      unfold skipEols at h2
      simp only [bind, Except.bind, pure, Except.pure] at h2
      split at h2
      · rename_i e he
        simp only [Except.error.injEq] at h2
        subst h2
        exact hnh he
      · rename_i v hv
        obtain ⟨t, s'⟩ := v
        obtain ⟨hl, hp, hst, hle⟩ := scan_ok s s' t hv
        simp only at h2
        split at h2
        · rename_i heol
          have ht : t = .eol := by simpa using heol
          exact (ih s' (by have := hst (by rw [ht]; simp); omega)).2 h2
        · simp at h2

/-- contract of `scanWithEOL`: the same as `scan` -/
theorem scanWithEOL_c (s : St) :
    (∀ t s', scanWithEOL s = .ok (t, s') → (t ≠ .eof → ν s' < ν s) ∧ ν s' ≤ ν s) ∧
    scanWithEOL s ≠ .error .hang := by
  have hnh := scan_nh s
  constructor
  · intro t s' h
    unfold scanWithEOL at h
    simp only [bind, Except.bind, pure, Except.pure] at h
    split at h
    · simp at h
    · rename_i v hv
      obtain ⟨t1, s1⟩ := v
      obtain ⟨hl, hp, hst, hle⟩ := scan_ok s s1 t1 hv
      simp only at h
      split at h
      · simp only [Except.ok.injEq, Prod.mk.injEq] at h
        obtain ⟨rfl, rfl⟩ := h
        exact ⟨hst, hle⟩
      · rename_i hne
        have ht : t1 = .eol := by simpa using hne
        have hlt := hst (by rw [ht]; simp)
        split at h
        · simp at h
        · rename_i s2 hs2
          simp only [Except.ok.injEq, Prod.mk.injEq] at h
          obtain ⟨rfl, rfl⟩ := h
          have := (skipEols_c (s1.inp.length + 2) s1 (by have := ν_le s1; omega)).1 s2 hs2
          exact ⟨fun _ => by omega, by omega⟩
  · intro h
    unfold scanWithEOL at h
    simp only [bind, Except.bind, pure, Except.pure] at h
    split at h
    · rename_i e he
      simp only [Except.error.injEq] at h
      subst h
      exact hnh he
    · rename_i v hv
      obtain ⟨t1, s1⟩ := v
      simp only at h
      split at h
      · simp at h
      · split at h
        · rename_i e he
          simp only [Except.error.injEq] at h
          subst h
          exact (skipEols_c (s1.inp.length + 2) s1 (by have := ν_le s1; omega)).2 he
        · simp at h


@[grind →] theorem scan_mono (a : St) (v : Tok × St) (h : a.scan = .ok v) : ν v.2 ≤ ν a :=
  (scan_ok a v.2 v.1 h).2.2.2

@[grind →] theorem scan_strict (a : St) (v : Tok × St) (h : a.scan = .ok v) (hne : v.1 ≠ .eof) : ν v.2 < ν a :=
  (scan_ok a v.2 v.1 h).2.2.1 hne

@[grind →] theorem scanWithEOL_mono (a : St) (v : Tok × St) (h : scanWithEOL a = .ok v) : ν v.2 ≤ ν a :=
  ((scanWithEOL_c a).1 v.1 v.2 h).2

@[grind →] theorem scanWithEOL_strict (a : St) (v : Tok × St) (h : scanWithEOL a = .ok v) (hne : v.1 ≠ .eof) :
    ν v.2 < ν a :=
  ((scanWithEOL_c a).1 v.1 v.2 h).1 hne

theorem scanWithEOL_nh (a : St) : scanWithEOL a ≠ .error .hang := (scanWithEOL_c a).2

theorem ν_unscan_le (s : St) : ν s.unscan ≤ ν s + 1 := by
  simp only [ν, St.unscan, Bool.true_and]
  cases s.pushed <;> cases (s.last != Tok.eof) <;> simp

/-- after a scan, pushing the token back gives at most the measure before the scan -/
@[grind →] theorem scan_unscan (a : St) (v : Tok × St) (h : a.scan = .ok v) : ν v.2.unscan ≤ ν a := by
  obtain ⟨hl, hp, hst, hle⟩ := scan_ok a v.2 v.1 h
  rw [unscan_c v.2 hp, hl]
  have : ν v.2 = v.2.inp.length := by simp [ν, hp]
  by_cases he : v.1 = .eof
  · simp [he]; omega
  · have := hst he
    simp [he]; omega

theorem skipLeading_c : ∀ (fuel : Nat) (s : St), ν s < fuel →
    (∀ v, skipLeading fuel s = .ok v → ν v.2 ≤ ν s) ∧ skipLeading fuel s ≠ .error .hang := by
  intro fuel
  induction fuel with
  | zero => intro s h; omega
  | succ k ih =>
    intro s hf
    have a1 := scanWithEOL_nh
    constructor
    · intro v h
      unfold skipLeading at h
      simp only [bind, Except.bind, pure, Except.pure] at h
      repeat' (split at h <;> try (simp at h))
      · rename_i v1 hv1 hc
        have hne : v1.1 ≠ .eof := by
          intro e; rw [e] at hc; simp at hc
        have := (ih v1.2 (by have := scanWithEOL_strict s v1 hv1 hne; omega)).1 v h
        have := scanWithEOL_mono s v1 hv1
        omega
      · subst h
        exact scanWithEOL_mono s _ (by assumption)
    · intro h
      unfold skipLeading at h
      simp only [bind, Except.bind, pure, Except.pure] at h
      repeat' (split at h <;> try (simp at h))
      · simp_all
      · rename_i v1 hv1 hc
        have hne : v1.1 ≠ .eof := by
          intro e; rw [e] at hc; simp at hc
        exact (ih v1.2 (by have := scanWithEOL_strict s v1 hv1 hne; omega)).2 h

theorem seqLine_c : ∀ (fuel : Nat) (tok : Tok) (s : St) (acc : Seq), (ν s + 1 < fuel ∨ (tok = .eof ∧ 1 ≤ fuel)) →
    (∀ v, seqLine fuel tok s acc = .ok v → ν v.2 ≤ ν s) ∧ seqLine fuel tok s acc ≠ .error .hang := by
  intro fuel
  induction fuel with
  | zero => intro tok s acc h; omega
  | succ k ih =>
    intro tok s acc hf
    have a1 := scan_nh
    have next : ∀ (v1 : Tok × St), s.scan = .ok v1 → (tok ≠ .eof) → (ν v1.2 + 1 < k ∨ (v1.1 = .eof ∧ 1 ≤ k)) := by
      intro v1 hv1 hne
      have hk : ν s + 1 < k + 1 := by
        cases hf with
        | inl h => exact h
        | inr h => exact absurd h.1 hne
      by_cases he : v1.1 = .eof
      · right; exact ⟨he, by omega⟩
      · left; have := scan_strict s v1 hv1 he; omega
    constructor
    · intro v h
      unfold seqLine at h
      split at h
      · simp [pure, Except.pure] at h; subst h; exact Nat.le_refl _
      · simp only [bind, Except.bind] at h
        split at h
        · simp at h
        · rename_i v1 hv1
          have := (ih v1.1 v1.2 _ (next v1 hv1 (by simp))).1 v h
          have := scan_mono s v1 hv1
          omega
      · simp only [bind, Except.bind] at h
        split at h
        · simp at h
        · rename_i v1 hv1
          have := (ih v1.1 v1.2 _ (next v1 hv1 (by simp))).1 v h
          have := scan_mono s v1 hv1
          omega
      · simp at h
    · intro h
      unfold seqLine at h
      split at h
      · simp [pure, Except.pure] at h
      · simp only [bind, Except.bind] at h
        split at h
        · simp_all
        · rename_i v1 hv1
          exact (ih v1.1 v1.2 _ (next v1 hv1 (by simp))).2 h
      · simp only [bind, Except.bind] at h
        split at h
        · simp_all
        · rename_i v1 hv1
          exact (ih v1.1 v1.2 _ (next v1 hv1 (by simp))).2 h
      · simp at h

@[grind →] theorem seqLine_mono (fuel : Nat) (tok : Tok) (s : St) (acc : Seq) (v : Seq × St)
    (hf : ν s + 1 < fuel) (h : seqLine fuel tok s acc = .ok v) : ν v.2 ≤ ν s :=
  (seqLine_c fuel tok s acc (Or.inl hf)).1 v h

theorem seqLine_nh' (tok : Tok) (s : St) (acc : Seq) : seqLine (s.inp.length + 3) tok s acc ≠ .error .hang :=
  (seqLine_c _ tok s acc (Or.inl (by have := ν_le s; omega))).2

@[grind →] theorem seqLine_mono' (tok : Tok) (s : St) (acc : Seq) (v : Seq × St)
    (h : seqLine (s.inp.length + 3) tok s acc = .ok v) : ν v.2 ≤ ν s :=
  seqLine_mono _ tok s acc v (by have := ν_le s; omega) h

@[grind →] theorem readName10_strict (s : St) (v : Seq × St) (h : readName10 s = .ok v) : ν v.2 < ν s := by
  unfold readName10 at h
  have hlen := Gv.Proofs.Utf8Norm.takeRunes_length 10 s.inp
  simp only at h
  split at h
  · simp at h
  · rename_i hl
    split at h
    · simp at h
    · simp only [pure, Except.pure, Except.ok.injEq] at h
      subst h
      simp only [ν]
      split <;> omega

theorem readName10_nh (s : St) : readName10 s ≠ .error .hang := by
  intro h
  unfold readName10 at h
  simp only at h
  repeat' (split at h <;> try (simp [pure, Except.pure] at h))

theorem firstBlock_c (strict : Bool) : ∀ (fuel n : Nat) (s : St) (acc : List XRow), ν s < fuel →
    (∀ v, firstBlock strict fuel n s acc = .ok v → ν v.2 ≤ ν s) ∧ firstBlock strict fuel n s acc ≠ .error .hang := by
  intro fuel
  induction fuel with
  | zero => intro n s acc h; omega
  | succ k ih =>
    intro n s acc hf
    cases n with
    | zero =>
      constructor
      · intro v h; simp [firstBlock, pure, Except.pure] at h; subst h; exact Nat.le_refl _
      · simp [firstBlock, pure, Except.pure]
    | succ n =>
      have a1 := scan_nh
      have a2 := readName10_nh
      have a3 := seqLine_nh'
      constructor
      · intro v h
        unfold firstBlock at h
        simp only [bind, Except.bind, pure, Except.pure] at h
        repeat' (split at h <;> try (simp at h))
        all_goals (
          have hlt : ν ‹Seq × St›.2 < ν s := by grind
          have := (ih _ _ _ (by omega)).1 v h
          omega)
      · intro h
        unfold firstBlock at h
        simp only [bind, Except.bind, pure, Except.pure] at h
        repeat' (split at h <;> try (simp at h))
        all_goals first
          | (have hlt : ν ‹Seq × St›.2 < ν s := by grind
             exact (ih _ _ _ (by omega)).2 h)
          | simp_all

/-- `nextBlock`: monotone; strictly decreasing when there is at least one row -/
theorem nextBlock_c : ∀ (rows : List XRow) (s : St) (acc : List XRow),
    (∀ v, nextBlock rows s acc = .ok v → ν v.2 ≤ ν s ∧ (rows ≠ [] → ν v.2 < ν s)) ∧
    nextBlock rows s acc ≠ .error .hang
  | [], s, acc => by
    constructor
    · intro v h; simp [nextBlock, pure, Except.pure] at h; subst h; exact ⟨Nat.le_refl _, fun h => absurd rfl h⟩
    · simp [nextBlock, pure, Except.pure]
  | (nm, q) :: rest, s, acc => by
    have a1 := scan_nh
    have a3 := seqLine_nh'
    constructor
    · intro v h
      unfold nextBlock at h
      simp only [bind, Except.bind, pure, Except.pure] at h
      repeat' (split at h <;> try (simp at h))
      all_goals (
        have hrec := ((nextBlock_c rest _ _).1 v h).1
        have hlt : ν ‹Seq × St›.2 < ν s := by grind
        exact ⟨by omega, fun _ => by omega⟩)
    · intro h
      unfold nextBlock at h
      simp only [bind, Except.bind, pure, Except.pure] at h
      repeat' (split at h <;> try (simp at h))
      all_goals first
        | exact (nextBlock_c rest _ _).2 h
        | simp_all

theorem afterBlock_c (l : Int) (rows : List XRow) (s : St) :
    (∀ v, afterBlock l rows s = .ok v → ν v.2 ≤ ν s) ∧ afterBlock l rows s ≠ .error .hang := by
  have a1 := scan_nh
  have a2 := scanWithEOL_nh
  constructor
  · intro v h
    unfold afterBlock at h
    simp only [bind, Except.bind, pure, Except.pure] at h
    repeat' (split at h <;> try (simp at h))
    all_goals (subst h; grind)
  · intro h
    unfold afterBlock at h
    simp only [bind, Except.bind, pure, Except.pure] at h
    repeat' (split at h <;> try (simp at h))
    all_goals simp_all

open Gv.Proofs.PhylipOutcome (nextBlock_length firstBlock_length) in
/-- the block loop: with at least one row every iteration strictly decreases the measure -/
theorem blocks_c (l : Int) : ∀ (fuel : Nat) (tok : Tok) (s : St) (rows : List XRow), rows ≠ [] → ν s < fuel →
    blocks l fuel tok s rows ≠ .error .hang := by
  intro fuel
  induction fuel with
  | zero => intro tok s rows _ h; omega
  | succ k ih =>
    intro tok s rows hne hf h
    unfold blocks at h
    split at h
    · simp only [bind, Except.bind, pure, Except.pure] at h
      split at h
      · rename_i e he
        simp only [Except.error.injEq] at h; subst h
        exact (nextBlock_c rows s []).2 he
      · rename_i v1 hv1
        split at h
        · rename_i e he
          simp only [Except.error.injEq] at h; subst h
          exact (afterBlock_c l v1.1 v1.2).2 he
        · rename_i v2 hv2
          have h1 := ((nextBlock_c rows s []).1 v1 hv1).2 hne
          have h2 := (afterBlock_c l v1.1 v1.2).1 v2 hv2
          have hl := nextBlock_length rows s v1.2 [] v1.1 hv1
          have hne' : v1.1 ≠ [] := by
            intro e; rw [e] at hl; simp at hl
            exact hne (List.length_eq_zero_iff.mp hl.symm)
          exact ih _ _ _ hne' (by omega) h
    · simp [pure, Except.pure] at h

theorem header_nh (af : Bool) (s : St) : header af s ≠ .error .hang := by
  intro h
  unfold header at h
  simp only [bind, Except.bind, pure, Except.pure] at h
  have a1 := scan_nh
  have a2 : ∀ s : St, skipLeading (s.inp.length + 3) s ≠ .error .hang :=
    fun s => (skipLeading_c _ s (by have := ν_le s; omega)).2
  repeat' (split at h <;> try (simp at h))
  all_goals simp_all

open Gv.Proofs.PhylipOutcome (firstBlock_length build_np) in
theorem body_nh (o : POpts) (n l : Int) (hn : 1 ≤ n) (s : St) : body o n l s ≠ .error .hang := by
  intro h
  unfold body at h
  simp only [bind, Except.bind, pure, Except.pure] at h
  have hb : ∀ rows, build o l rows ≠ .error .hang := by
    intro rows e
    unfold build at e
    repeat' (split at e <;> try (simp [pure, Except.pure] at e))
  split at h
  · rename_i e he
    simp only [Except.error.injEq] at h; subst h
    exact (firstBlock_c o.strict _ _ s [] (by have := ν_le s; omega)).2 he
  · rename_i v1 hv1
    have hlen := firstBlock_length _ _ _ _ _ _ _ hv1
    have hne : v1.1 ≠ [] := by
      intro e; rw [e] at hlen; simp at hlen; omega
    split at h
    · rename_i e he
      simp only [Except.error.injEq] at h; subst h
      exact (afterBlock_c l v1.1 v1.2).2 he
    · rename_i v2 hv2
      split at h
      · rename_i e he
        simp only [Except.error.injEq] at h; subst h
        refine blocks_c l _ _ _ _ hne ?_ he
        exact Nat.lt_of_le_of_lt (ν_le _) (by omega)
      · split at h
        · rename_i e he
          simp only [Except.error.injEq] at h; subst h
          exact hb _ he
        · simp at h

theorem parseOne_nh (af : Bool) (o : POpts) (s : St) : parseOne af o s ≠ .error .hang := by
  intro h
  unfold parseOne at h
  simp only [bind, Except.bind, pure, Except.pure] at h
  split at h
  · rename_i e he
    simp only [Except.error.injEq] at h; subst h
    exact header_nh af s he
  · rename_i v hv
    split at h
    · simp at h
    · simp at h
    · rename_i nb ls hfst
      have hh : header af s = .ok (.counts nb ls, v.2) := by
        rw [hv]; cases v; simp at hfst; simp [hfst]
      have hn := (Gv.Proofs.PhylipOutcome.header_counts _ _ _ _ _ hh).1
      split at h
      · rename_i e he
        simp only [Except.error.injEq] at h; subst h
        exact body_nh o nb ls hn v.2 he
      · simp at h

/-- without the allocation from the header count the machine-dependent `slow` band is never entered -/
theorem parseOne_not_slow (o : POpts) (s s' : St) : parseOne false o s ≠ .ok (.slow, s') := by
  intro h
  unfold parseOne at h
  simp only [bind, Except.bind, pure, Except.pure] at h
  split at h
  · simp at h
  · rename_i v hv
    split at h
    · simp at h
    · rename_i hfst
      -- the header returned `slow`: impossible with `alloc false`
      have hh : header false s = .ok (.slow, v.2) := by
        rw [hv]; cases v; simp at hfst; simp [hfst]
      unfold header at hh
      simp only [bind, Except.bind, pure, Except.pure, alloc] at hh
      repeat' (split at hh <;> try (simp at hh))
    · split at h <;> simp at h

end Gv.Proofs.PhylipNoHang
