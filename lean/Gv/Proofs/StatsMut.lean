import Gv.Proofs.StatsIupac
/-!
C14: counts and lists of differences with a reference sequence equal their naive definitions; the bit
test of `EqualOrCompatible` on the codes of `iupacToInt` is "same base set or a base in common".
-/
namespace Gv.Proofs.StatsMut
open Gv Gv.Model Gv.Proofs.StatsIupac
set_option linter.unusedSimpArgs false
set_option maxRecDepth 100000

/-! ### `mapM` over `Option` -/

theorem mapM_option {α β : Type} (f : α → Option β) (d : β) (l : List α) :
    l.mapM f = if l.all (fun x => (f x).isSome) then some (l.map fun x => (f x).getD d) else none := by
  induction l with
  | nil => rfl
  | cons a t ih =>
    rw [List.mapM_cons, ih]
    cases h : f a with
    | none => simp [h]
    | some b =>
      by_cases ht : t.all (fun x => (f x).isSome) = true
      · simp [h, ht]
      · have ht' : t.all (fun x => (f x).isSome) = false := Bool.eq_false_iff.mpr ht
        simp [h, ht']

theorem all_isSome_iff (l : List Byte) :
    l.all (fun c => (nt2IndexIUPAC c).isSome) = l.all (fun c => (Spec.ntBases c).isSome) := by
  apply List.all_congr rfl
  intro c
  exact ((fold_upper c).2.2.1).symm

/-! ### NumMutationsComparedToReferenceSequence -/

theorem zip_codes (s ref : Seq) :
    s.zip ((s.map codeOf).zip (ref.map codeOf)) = (s.zip ref).map fun p => (p.1, codeOf p.1, codeOf p.2) := by
  induction s generalizing ref with
  | nil => rfl
  | cons c t ih =>
    cases ref with
    | nil => rfl
    | cons r u => simp [ih]

theorem mem_zip_all {s ref : Seq} {P : Byte → Bool} (h : (ref ++ s).all P = true) :
    ∀ p ∈ s.zip ref, P p.1 = true ∧ P p.2 = true := by
  intro p hp
  rw [List.all_eq_true] at h
  obtain ⟨c, r⟩ := p
  have := List.of_mem_zip hp
  exact ⟨h c (by simp [this.1]), h r (by simp [this.2])⟩

theorem numMutationsVsRef_eq (alphabet : Nat) (s ref : Seq) :
    numMutationsVsRef alphabet s ref = Spec.numMutations alphabet s ref := by
  unfold numMutationsVsRef Spec.numMutations
  by_cases hl : s.length = ref.length
  · have hl' : (s.length != ref.length) = false := by simp [hl]
    have hl2 : ¬ (s.length ≠ ref.length) := by simp [hl]
    simp only [hl', Bool.false_eq_true, if_false]
    rw [if_neg hl2]
    by_cases ha : alphabet = 1
    · subst ha
      have hn : ((1 : Nat) == NUCLEOTIDS) = true := rfl
      simp only [hn, if_true]
      rw [mapM_option nt2IndexIUPAC 0 ref, mapM_option nt2IndexIUPAC 0 s, all_isSome_iff, all_isSome_iff, List.all_append]
      by_cases h1 : ref.all (fun c => (Spec.ntBases c).isSome) = true
      · by_cases h2 : s.all (fun c => (Spec.ntBases c).isSome) = true
        · simp only [h1, h2, if_true, Bool.and_self]
          have hall : (ref ++ s).all (fun c => (Spec.ntBases c).isSome) = true := by
            rw [List.all_append, h1, h2]; rfl
          have hz := zip_codes s ref
          unfold codeOf at hz
          rw [hz, List.filter_map, List.length_map, List.countP_eq_length_filter]
          congr 2
          apply List.filter_congr
          intro p hp
          have hm := mem_zip_all hall p hp
          have := compat_eq p.1 p.2 hm.1 hm.2
          unfold codeOf at this
          simp only [Function.comp, this, Option.getD_some]
          rfl
        · have h2' : s.all (fun c => (Spec.ntBases c).isSome) = false := Bool.eq_false_iff.mpr h2
          simp [h1, h2']
      · have h1' : ref.all (fun c => (Spec.ntBases c).isSome) = false := Bool.eq_false_iff.mpr h1
        simp [h1']
    · have hn : (alphabet == NUCLEOTIDS) = false := by
        simp only [beq_eq_false_iff_ne, ne_eq]; exact ha
      simp only [hn, Bool.false_eq_true, if_false, ha, Option.some.injEq]
      rw [List.countP_eq_length_filter]
      rfl
  · have hl' : (s.length != ref.length) = true := by simp [hl]
    have hl2 : s.length ≠ ref.length := hl
    simp only [hl', if_true]
    rw [if_pos hl2]

/-! ### ListMutationsComparedToReferenceSequence -/

/-- put the pending insertion buffer in front of the first block -/
def addIns (cur : List Byte) : List (List Byte × Option Spec.Facing) → List (List Byte × Option Spec.Facing)
  | (ins, o) :: bs => (cur ++ ins, o) :: bs
  | [] => []

theorem addIns_nil (bs : List (List Byte × Option Spec.Facing)) : addIns [] bs = bs := by
  cases bs with
  | nil => rfl
  | cons b t => obtain ⟨ins, o⟩ := b; rfl

/-- the scan with its insertion buffer and reference counter is the rendering of the blocks -/
theorem listMutLoop_eq (all : Byte) (l : List Spec.Facing) (refi : Nat) (cur : List Byte) :
    listMutLoop all l refi cur = ((addIns cur (Spec.blocks l)).zipIdx refi).flatMap (Spec.renderBlock all) := by
  induction l generalizing refi cur with
  | nil =>
    simp only [listMutLoop, Spec.blocks, addIns, List.append_nil, List.zipIdx_cons, List.zipIdx_nil,
      List.flatMap_cons, List.flatMap_nil, Spec.renderBlock]
  | cons x t ih =>
    obtain ⟨c, r, eq⟩ := x
    by_cases hr : (r == GAP) = true
    · have hr' : (r == 45) = true := hr
      simp only [listMutLoop, hr, if_true, Spec.blocks, hr']
      rw [ih]
      cases hb : Spec.blocks t with
      | nil => simp [addIns]
      | cons b bs =>
        obtain ⟨ins, o⟩ := b
        have hc : (c != GAP) = (c != 45) := rfl
        rw [hc]
        by_cases hcg : (c != 45) = true
        · simp [hcg, addIns]
        · have hcg' : (c != 45) = false := Bool.eq_false_iff.mpr hcg
          simp [hcg', addIns]
    · have hr1 : (r == GAP) = false := Bool.eq_false_iff.mpr hr
      have hr' : (r == 45) = false := hr1
      simp only [listMutLoop, hr1, Bool.false_eq_true, if_false, Spec.blocks, hr', addIns, List.append_nil,
        List.zipIdx_cons, List.flatMap_cons]
      rw [ih, addIns_nil]
      simp only [Spec.renderBlock, List.append_assoc]

theorem listMutLoop_spec (all : Byte) (l : List Spec.Facing) : listMutLoop all l 0 [] = Spec.mutationList all l := by
  rw [listMutLoop_eq, addIns_nil]
  rfl

theorem zip_codes4 (s ref : Seq) :
    s.zip (ref.zip ((s.map codeOf).zip (ref.map codeOf))) = (s.zip ref).map fun p => (p.1, p.2, codeOf p.1, codeOf p.2) := by
  induction s generalizing ref with
  | nil => rfl
  | cons c t ih =>
    cases ref with
    | nil => rfl
    | cons r u => simp [ih]

theorem listMutationsVsRef_eq (alphabet : Nat) (s ref : Seq) :
    listMutationsVsRef alphabet s ref = Spec.mutationListVsRef alphabet s ref := by
  unfold listMutationsVsRef Spec.mutationListVsRef
  by_cases hl : s.length = ref.length
  · have hl' : (s.length != ref.length) = false := by simp [hl]
    have hl2 : ¬ (s.length ≠ ref.length) := by simp [hl]
    simp only [hl', Bool.false_eq_true, if_false]
    rw [if_neg hl2]
    by_cases ha : alphabet = 1
    · subst ha
      have hn : ((1 : Nat) == NUCLEOTIDS) = true := rfl
      simp only [hn, if_true]
      rw [mapM_option nt2IndexIUPAC 0 ref, mapM_option nt2IndexIUPAC 0 s, all_isSome_iff, all_isSome_iff, List.all_append]
      by_cases h1 : ref.all (fun c => (Spec.ntBases c).isSome) = true
      · by_cases h2 : s.all (fun c => (Spec.ntBases c).isSome) = true
        · simp only [h1, h2, if_true, Bool.and_self, Option.some.injEq]
          have hall : (ref ++ s).all (fun c => (Spec.ntBases c).isSome) = true := by
            rw [List.all_append, h1, h2]; rfl
          have hz := zip_codes4 s ref
          unfold codeOf at hz
          rw [hz, List.map_map, listMutLoop_spec]
          congr 1
          apply List.map_congr_left
          intro p hp
          have hm := mem_zip_all hall p hp
          have := compat_eq p.1 p.2 hm.1 hm.2
          unfold codeOf at this
          simp only [Function.comp, this, Option.getD_some]
        · have h2' : s.all (fun c => (Spec.ntBases c).isSome) = false := Bool.eq_false_iff.mpr h2
          simp [h1, h2']
      · have h1' : ref.all (fun c => (Spec.ntBases c).isSome) = false := Bool.eq_false_iff.mpr h1
        simp [h1']
    · have hn : (alphabet == NUCLEOTIDS) = false := by
        simp only [beq_eq_false_iff_ne, ne_eq]; exact ha
      simp only [hn, Bool.false_eq_true, if_false, ha, Option.some.injEq]
      rw [listMutLoop_spec]
  · have hl' : (s.length != ref.length) = true := by simp [hl]
    have hl2 : s.length ≠ ref.length := hl
    simp only [hl', if_true]
    rw [if_pos hl2]

end Gv.Proofs.StatsMut
