import Gv.Model.Stats
import Gv.Spec.Stats
/-!
C14: the bit test of `EqualOrCompatible` on the codes of `iupacToInt` (regenerated from `align/const.go`)
is "same base set or a base in common" on the IUPAC base sets of `Gv.Spec.Stats` — finite checks by kernel
evaluation (all 256 bytes; all pairs of the 19 characters known to the table).
-/
namespace Gv.Proofs.StatsIupac
open Gv Gv.Model
set_option maxRecDepth 100000

/-- the upper-case characters known to `iupacToInt` -/
def valid : List Byte := [65, 67, 71, 84, 82, 89, 83, 87, 75, 77, 66, 68, 72, 86, 78, 45, 42, 88, 46]

def codeOf (c : Byte) : Byte := (nt2IndexIUPAC c).getD 0

theorem fold_upper : ∀ c : Byte,
    Spec.ntBases c = Spec.ntBases (Spec.upperCase c) ∧ nt2IndexIUPAC c = nt2IndexIUPAC (Spec.upperCase c) ∧
    ((Spec.ntBases c).isSome = (nt2IndexIUPAC c).isSome) ∧
    ((Spec.ntBases c).isSome = true → Spec.upperCase c ∈ valid) := by
  decide +kernel

theorem compat_valid : ∀ u ∈ valid, ∀ v ∈ valid,
    equalOrCompatible (codeOf u) (codeOf v) = some (Spec.compatible (Spec.basesOf u) (Spec.basesOf v)) := by
  decide +kernel

/-- **IUPAC compatibility**: on two nucleotide characters the code test of the implementation is the
base-set test of the definition -/
theorem compat_eq (c r : Byte) (hc : (Spec.ntBases c).isSome = true) (hr : (Spec.ntBases r).isSome = true) :
    equalOrCompatible (codeOf c) (codeOf r) = some (Spec.compatible (Spec.basesOf c) (Spec.basesOf r)) := by
  have h1 := fold_upper c
  have h2 := fold_upper r
  have := compat_valid _ (h1.2.2.2 hc) _ (h2.2.2.2 hr)
  unfold codeOf Spec.basesOf at this ⊢
  rw [h1.1, h1.2.1, h2.1, h2.2.1]
  exact this

end Gv.Proofs.StatsIupac
