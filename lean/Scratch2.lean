import Gv.Model.PhaseAlign
open Gv Gv.Model Gv.Model.SW Gv.Model.Phase Gv.Model.PhaseAlign
def b (s : String) : Seq := s.toUTF8.toList
#eval alignATG (({} : NTCfg).aligner (b "ATGAAATAA") (b "CCATGAAATAACC")) true (b "ATGAAATAA") (b "CCATGAAATAACC")
#eval alignATG (({} : NTCfg).aligner (b "ATGAAATAA") (b "CCATGCAATAACC")) true (b "ATGAAATAA") (b "CCATGCAATAACC")
#eval phaseNT {} Gen.standardcode [b "ATGAAATAA"] (b "CCCCCCCCCC")
#eval phaseNT {gapopen := -2} Gen.standardcode [b "ATGAAATAA"] (b "T")
#eval phaseNT {} Gen.standardcode [b "ATGAAATAA"] (b "CCATGAAATAACC")
#eval phaseNT {reverse := true, cutend := true} Gen.standardcode [b "ATGAAATAA"] (b "GGTTATTTCATGG")
