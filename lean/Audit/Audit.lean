import Lean
/-!
Axiom audit: `lake env lean --run Audit/Audit.lean Gv.Props.C06 …` loads the compiled modules and
prints, for every theorem declared in each named module, its name and the axioms it depends on.
-/
open Lean

def allowed : List Name := [``propext, ``Classical.choice, ``Quot.sound]

partial def collect (env : Environment) (n : Name) (seen : NameSet) (axs : NameSet) : NameSet × NameSet :=
  if seen.contains n then (seen, axs) else
  let seen := seen.insert n
  match env.find? n with
  | none => (seen, axs)
  | some ci =>
    match ci with
    | .axiomInfo _ => (seen, axs.insert n)
    | _ =>
      let consts := (ci.type.getUsedConstants ++ (match ci.value? (allowOpaque := true) with | some v => v.getUsedConstants | none => #[]))
      let extra := match ci with
        | .inductInfo v => v.ctors.toArray
        | .opaqueInfo v => v.value.getUsedConstants
        | _ => #[]
      (consts ++ extra).foldl (fun (s, a) c => collect env c s a) (seen, axs)

unsafe def main (args : List String) : IO UInt32 := do
  initSearchPath (← findSysroot)
  let mods := args.map (·.toName)
  let env ← importModules (mods.toArray.map fun m => { module := m }) {} (loadExts := false)
  let mut bad := 0
  for m in mods do
    let some idx := env.getModuleIdx? m | throw <| IO.userError s!"module {m} not found"
    let names := env.header.moduleData[idx.toNat]!.constNames
    for n in names do
      if n.isInternal || !(m.isPrefixOf n) then continue
      match env.find? n with
      | some (.thmInfo _) =>
        let (_, axs) := collect env n {} {}
        let l := axs.toList
        let ok := l.all (allowed.contains ·)
        if !ok then bad := bad + 1
        IO.println s!"THEOREM {m} {n} axioms={l} {if ok then "OK" else "FORBIDDEN"}"
      | _ => pure ()
  return (if bad == 0 then 0 else 1)
