import Lean
/-!
Axiom audit, memoising variant of `Audit/Audit.lean` (same command line, same output format):
`lake env lean --run Audit/AuditMemo.lean Gv.Props.C18 …`.  The set of axioms reachable from each
constant is computed once and shared between theorems, which matters for Mathlib-importing modules
(`Audit.lean` re-traverses the whole dependency cone per theorem).

Cycles (an inductive type, its constructors and recursor refer to each other) are handled with
low-links: the result of a constant is cached only if its traversal did not cut an edge to a constant
that is still in progress strictly above it; so every cached set is complete, and the set reported for a
theorem is the union over everything reachable from it.
-/
open Lean

def allowed : List Name := [``propext, ``Classical.choice, ``Quot.sound]

structure St where
  memo : Std.HashMap Name NameSet := {}
  /-- constants in progress ↦ depth -/
  inprog : Std.HashMap Name Nat := {}

def usedBy (ci : ConstantInfo) : Array Name :=
  let consts := ci.type.getUsedConstants ++
    (match ci.value? (allowOpaque := true) with | some v => v.getUsedConstants | none => #[])
  let extra := match ci with
    | .inductInfo v => v.ctors.toArray ++ v.all.toArray
    | .opaqueInfo v => v.value.getUsedConstants
    | _ => #[]
  consts ++ extra

/-- returns the axioms reachable from `n` and the smallest depth of an in-progress constant that was hit -/
partial def axiomsOf (env : Environment) (n : Name) (depth : Nat) : StateM St (NameSet × Nat) := do
  let st ← get
  if let some r := st.memo[n]? then return (r, depth + 1)
  if let some d := st.inprog[n]? then return ({}, d)
  match env.find? n with
  | none => return ({}, depth + 1)
  | some (.axiomInfo _) =>
    let r : NameSet := NameSet.empty.insert n
    modify fun s => { s with memo := s.memo.insert n r }
    return (r, depth + 1)
  | some ci =>
    modify fun s => { s with inprog := s.inprog.insert n depth }
    let mut acc : NameSet := {}
    let mut low := depth + 1
    for c in usedBy ci do
      let (a, l) ← axiomsOf env c (depth + 1)
      acc := a.foldl (fun s x => s.insert x) acc
      if l < low then low := l
    modify fun s => { s with inprog := s.inprog.erase n }
    -- complete (cacheable) iff nothing strictly above `n` was cut
    if low ≥ depth then
      modify fun s => { s with memo := s.memo.insert n acc }
    return (acc, low)

unsafe def main (args : List String) : IO UInt32 := do
  initSearchPath (← findSysroot)
  let mods := args.map (·.toName)
  let env ← importModules (mods.toArray.map fun m => { module := m }) {} (loadExts := false)
  let mut bad := 0
  let mut st : St := {}
  for m in mods do
    let some idx := env.getModuleIdx? m | throw <| IO.userError s!"module {m} not found"
    let names := env.header.moduleData[idx.toNat]!.constNames
    for n in names do
      if n.isInternal || !(m.isPrefixOf n) then continue
      match env.find? n with
      | some (.thmInfo _) =>
        let ((axs, _), st') := (axiomsOf env n 0).run st
        st := st'
        let l := axs.toList
        let ok := l.all (allowed.contains ·)
        if !ok then bad := bad + 1
        IO.println s!"THEOREM {m} {n} axioms={l} {if ok then "OK" else "FORBIDDEN"}"
      | _ => pure ()
  return (if bad == 0 then 0 else 1)
