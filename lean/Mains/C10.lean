import Gv.Oracle.Rand
import Gv.Oracle.Loop
/-! oracle of property C10: only the handlers it needs -/
open Gv Gv.Oracle

def main : IO Unit := runOracle [RandOps.handle]
