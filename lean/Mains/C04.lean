import Gv.Oracle.Cli
import Gv.Oracle.CliSplit
import Gv.Oracle.CliExtract
import Gv.Oracle.Det
import Gv.Oracle.Sites
import Gv.Oracle.Loop
/-! oracle of property C04: only the handlers it needs -/
open Gv Gv.Oracle

def main : IO Unit := runOracle [SitesOps.handle, DetOps.handle, CliSplitOps.handle, CliExtractOps.handle, CliOps.handle]
