import Gv.Oracle.Det
import Gv.Oracle.Fmt
import Gv.Oracle.Loop
/-! oracle of property C02: only the handlers it needs -/
open Gv Gv.Oracle

def main : IO Unit := runOracle [FmtOps.handle, DetOps.handle]
