import Gv.Oracle.Det
import Gv.Oracle.Dist
import Gv.Oracle.Loop
/-! oracle of property C07: only the handlers it needs -/
open Gv Gv.Oracle

def main : IO Unit := runOracle [DistOps.handle, DetOps.handle]
