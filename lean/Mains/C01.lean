import Gv.Oracle.Cli
import Gv.Oracle.Det
import Gv.Oracle.Bag
import Gv.Oracle.Regex
import Gv.Oracle.Loop
/-! oracle of property C01: only the handlers it needs -/
open Gv Gv.Oracle

def main : IO Unit := runOracle [RegexOps.handle, BagOps.handle, DetOps.handle, CliOps.handle]
