import Gv.Oracle.Pool
import Gv.Oracle.CliPhase
import Gv.Oracle.Loop
/-! oracle of property C16: only the handlers it needs -/
open Gv Gv.Oracle

def main : IO Unit := runOracle [CliPhaseOps.handle, PoolOps.handle]
