import Gv.Oracle.Pool
import Gv.Oracle.Loop
/-! oracle of property C08: only the handlers it needs -/
open Gv Gv.Oracle

def main : IO Unit := runOracle [PoolOps.handle]
