import Gv.Oracle.Cli
import Gv.Oracle.Det
import Gv.Oracle.Dedup
import Gv.Oracle.Loop
/-! oracle of property C13: only the handlers it needs -/
open Gv Gv.Oracle

def main : IO Unit := runOracle [DedupOps.handle, DetOps.handle, CliOps.handle]
