import Gv.Oracle.Det
import Gv.Oracle.CliDivide
import Gv.Oracle.Loop
/-! oracle of property C11: only the handlers it needs -/
open Gv Gv.Oracle

def main : IO Unit := runOracle [CliDivideOps.handle, DetOps.handle]
