import Gv.Oracle.Cli
import Gv.Oracle.Det
import Gv.Oracle.Mask
import Gv.Oracle.Loop
/-! oracle of property C15: only the handlers it needs -/
open Gv Gv.Oracle

def main : IO Unit := runOracle [MaskOps.handle, DetOps.handle, CliOps.handle]
