import Gv.Oracle.Pure
import Gv.Oracle.Loop
/-! oracle of property C19: only the handlers it needs -/
open Gv Gv.Oracle

def main : IO Unit := runOracle [PureOps.handle]
