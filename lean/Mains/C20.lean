import Gv.Oracle.Weights
import Gv.Oracle.Loop
/-! oracle of property C20: only the handlers it needs -/
open Gv Gv.Oracle

def main : IO Unit := runOracle [WeightsOps.handle]
