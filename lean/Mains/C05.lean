import Gv.Oracle.Cli
import Gv.Oracle.Det
import Gv.Oracle.Seq
import Gv.Oracle.Loop
/-! oracle of property C05: only the handlers it needs -/
open Gv Gv.Oracle

def main : IO Unit := runOracle [SeqOps.handle, DetOps.handle, CliOps.handle]
