import Gv.Oracle.ProtDist
import Gv.Oracle.Det
import Gv.Oracle.Loop
/-! oracle of property C17: only the handlers it needs -/
open Gv Gv.Oracle

def main : IO Unit := runOracle [ProtDistOps.handle, DetOps.handle]
