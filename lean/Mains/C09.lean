import Gv.Oracle.SW
import Gv.Oracle.CliSW
import Gv.Oracle.Loop
/-! oracle of property C09: only the handlers it needs -/
open Gv Gv.Oracle

def main : IO Unit := runOracle [CliSWOps.handle, SWOps.handle]
