import Gv.Oracle.Cli
import Gv.Oracle.CliPssm
import Gv.Oracle.CliStatsSeq
import Gv.Oracle.Det
import Gv.Oracle.Clean
import Gv.Oracle.Stats
import Gv.Oracle.FrameStats
import Gv.Oracle.Loop
/-! oracle of property C14: only the handlers it needs -/
open Gv Gv.Oracle

def main : IO Unit := runOracle [CleanOps.handle, StatsOps.handle, FrameStatsOps.handle, DetOps.handle, CliPssmOps.handle, CliStatsSeqOps.handle, CliOps.handle]
