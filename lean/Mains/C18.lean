import Gv.Oracle.Models
import Gv.Oracle.Loop
/-! oracle of property C18: only the handlers it needs -/
open Gv Gv.Oracle

def main : IO Unit := runOracle [Models.handle]
