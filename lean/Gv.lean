import Gv.Basic
import Gv.Gen.Tables
import Gv.Model.Seq
import Gv.Spec.Genetic
import Gv.Props.C05
import Gv.Props.C06
import Gv.Props.C02
import Gv.Props.C03
