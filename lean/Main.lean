import Gv.Oracle.Seq
import Gv.Oracle.Bag
import Gv.Oracle.Rand
import Gv.Oracle.Sites
import Gv.Oracle.Clean
import Gv.Oracle.Stats
import Gv.Oracle.FrameStats
import Gv.Oracle.Dedup
import Gv.Oracle.Mask
import Gv.Oracle.Pure
import Gv.Oracle.SW
import Gv.Oracle.Models
import Gv.Oracle.Pool
import Gv.Oracle.Dist
import Gv.Oracle.Fmt
import Gv.Oracle.Weights
import Gv.Oracle.Det
import Gv.Oracle.ProtDist
import Gv.Oracle.Cli
import Gv.Oracle.CliPhase
import Gv.Oracle.CliSW
import Gv.Oracle.CliSplit
import Gv.Oracle.CliExtract
import Gv.Oracle.CliPssm
import Gv.Oracle.CliStatsSeq
import Gv.Oracle.CliDivide
import Gv.Oracle.Regex
import Gv.Oracle.Loop
/-! oracle with every handler (see `Gv/Oracle/Loop.lean`) -/
open Gv Gv.Oracle

def main : IO Unit := runOracle [RegexOps.handle, CliPhaseOps.handle, CliSWOps.handle, CliSplitOps.handle, CliExtractOps.handle, CliPssmOps.handle, CliStatsSeqOps.handle, CliDivideOps.handle, SeqOps.handle, BagOps.handle, RandOps.handle, SitesOps.handle, CleanOps.handle, StatsOps.handle, FrameStatsOps.handle, DedupOps.handle, MaskOps.handle, SWOps.handle, Models.handle, PoolOps.handle, DistOps.handle, PureOps.handle, FmtOps.handle, WeightsOps.handle, DetOps.handle, ProtDistOps.handle, CliOps.handle]
