import Gv.Oracle.Seq
import Gv.Oracle.Bag
import Gv.Oracle.Rand
import Gv.Oracle.Sites
import Gv.Oracle.Clean
import Gv.Oracle.Stats
import Gv.Oracle.Dedup
import Gv.Oracle.Mask
import Gv.Oracle.Pure
import Gv.Oracle.SW
import Gv.Oracle.Models
import Gv.Oracle.Pool
import Gv.Oracle.Dist
import Gv.Oracle.ProtDist
/-!
oracle: reads lines `<id> \t <impl result> \t <op> \t <arg>...` and prints
`<id> \t <model result> \t <verdict>`.
-/
open Gv Gv.Oracle

def handlers : List Handler := [SeqOps.handle, BagOps.handle, RandOps.handle, SitesOps.handle, CleanOps.handle, StatsOps.handle, DedupOps.handle, MaskOps.handle, SWOps.handle, Models.handle, PoolOps.handle, DistOps.handle, PureOps.handle, ProtDistOps.handle]

def answer (op : String) (args : List String) (impl : String) : Ans :=
  match handlers.findSome? (fun h => h op args impl) with
  | some a => a
  | none => ⟨"bad-op", "na"⟩

partial def loop (h out : IO.FS.Stream) : IO Unit := do
  let line ← h.getLine
  if line.isEmpty then return ()
  let line := if line.back == '\n' then (line.dropEnd 1).toString else line
  match line.splitOn "\t" with
  | id :: impl :: op :: args =>
    let a := answer op args impl
    out.putStrLn (id ++ "\t" ++ a.model ++ "\t" ++ a.verdict)
  | _ => out.putStrLn "?\tbad-line\tna"
  loop h out

def main : IO Unit := do
  loop (← IO.getStdin) (← IO.getStdout)
