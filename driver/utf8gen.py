"""Inputs with bytes >= 128 for the format parsers (C03, shared with C02's models).

The lexers read RUNES (`bufio.Reader.ReadRune`): a well-formed UTF-8 sequence is one rune of 2..4 bytes, every other byte
>= 128 is U+FFFD of width 1 and is WRITTEN BACK as EF BF BD (3 bytes).  The strata below put
  valid 2/3/4-byte sequences, truncated sequences, over-long forms, surrogates, values above U+10FFFF, lone
  continuation bytes, FE / FF, the two runes whose upper case is an ASCII letter (U+0131, U+017F), Unicode white space
into names, residues, header lines, keywords and at the end of the input, in files that are otherwise valid (so that
a good part of the cases SUCCEEDS: the cells of one alignment column are chosen with the same written length), and into
the seed files of c03.py at token boundaries.
"""
import re
from driver.common import Case
from driver import fmtgen as G

VALID2 = [b"\xc3\xa9", b"\xc2\x80", b"\xdf\xbf", b"\xc2\xa0", b"\xc2\x85", b"\xc4\xb1", b"\xc5\xbf"]
VALID3 = [b"\xe2\x82\xac", b"\xe0\xa0\x80", b"\xef\xbf\xbd", b"\xed\x9f\xbf", b"\xee\x80\x80", b"\xe2\x80\xa8",
          b"\xe3\x80\x80", b"\xef\xbb\xbf", b"\xe2\x84\xaa", b"\xef\xbf\xbf"]
VALID4 = [b"\xf0\x9f\x98\x80", b"\xf0\x90\x80\x80", b"\xf4\x8f\xbf\xbf", b"\xf1\x80\x80\x80"]
TRUNCATED = [b"\xc3", b"\xe2", b"\xe2\x82", b"\xf0", b"\xf0\x9f", b"\xf0\x9f\x98", b"\xdf", b"\xef\xbf"]
OVERLONG = [b"\xc0\x80", b"\xc0\xaf", b"\xc1\xbf", b"\xe0\x80\x80", b"\xe0\x9f\xbf", b"\xf0\x80\x80\x80", b"\xf0\x8f\xbf\xbf",
            b"\xc0\x8a", b"\xc0\xa0", b"\xe0\x80\x8a"]
SURROGATE = [b"\xed\xa0\x80", b"\xed\xbf\xbf", b"\xed\xa0\x80\xed\xb0\x80"]
TOOBIG = [b"\xf4\x90\x80\x80", b"\xf5\x80\x80\x80", b"\xf8\x88\x80\x80\x80", b"\xfc\x84\x80\x80\x80\x80"]
LONE = [b"\x80", b"\xbf", b"\x80\x80", b"\xa0", b"\x85"]
FF = [b"\xff", b"\xfe", b"\xff\xff", b"\xfe\xff"]
STRATA = [("valid2", VALID2), ("valid3", VALID3), ("valid4", VALID4), ("truncated", TRUNCATED), ("overlong", OVERLONG),
          ("surrogate", SURROGATE), ("toobig", TOOBIG), ("lone-continuation", LONE), ("ff", FF)]
ALL_CHUNKS = [(t, c) for t, cs in STRATA for c in cs]


def decode_rune(b, i):
    """(rune, width) of utf8.DecodeRune(b[i:]) — Go's rules: any ill-formed sequence is U+FFFD of width 1"""
    b0 = b[i]
    n = len(b) - i
    if b0 < 0x80:
        return b0, 1
    if b0 < 0xC2 or b0 > 0xF4:
        return 0xFFFD, 1
    if b0 < 0xE0:
        if n >= 2 and 0x80 <= b[i + 1] <= 0xBF:
            return ((b0 & 0x1F) << 6) | (b[i + 1] & 0x3F), 2
        return 0xFFFD, 1
    if b0 < 0xF0:
        lo = 0xA0 if b0 == 0xE0 else 0x80
        hi = 0x9F if b0 == 0xED else 0xBF
        if n >= 3 and lo <= b[i + 1] <= hi and 0x80 <= b[i + 2] <= 0xBF:
            return ((b0 & 0x0F) << 12) | ((b[i + 1] & 0x3F) << 6) | (b[i + 2] & 0x3F), 3
        return 0xFFFD, 1
    lo = 0x90 if b0 == 0xF0 else 0x80
    hi = 0x8F if b0 == 0xF4 else 0xBF
    if n >= 4 and lo <= b[i + 1] <= hi and 0x80 <= b[i + 2] <= 0xBF and 0x80 <= b[i + 3] <= 0xBF:
        return ((b0 & 7) << 18) | ((b[i + 1] & 0x3F) << 12) | ((b[i + 2] & 0x3F) << 6) | (b[i + 3] & 0x3F), 4
    return 0xFFFD, 1


def written(b):
    """what the lexer holds after ReadRune + WriteRune of every rune"""
    out, i = bytearray(), 0
    while i < len(b):
        r, w = decode_rune(b, i)
        out += chr(r).encode("utf-8")
        i += w
    return bytes(out)


def nrunes(b):
    k, i = 0, 0
    while i < len(b):
        i += decode_rune(b, i)[1]
        k += 1
    return k


# cells by WRITTEN length (a column of an alignment takes cells of one length)
CELLS = {}
for _t, _c in ALL_CHUNKS:
    CELLS.setdefault(len(written(_c)), []).append((_t, _c))


def rand_rows(rng, nrow, ncol, p_chunk=0.3, name_chunks=True):
    """rows (name bytes, residue bytes) whose residues have the same written length; tags of the strata used"""
    tags = set()
    names = []
    for i in range(nrow):
        nm = b"t%d" % i
        if name_chunks and rng.random() < 0.5:
            t, c = rng.choice(ALL_CHUNKS)
            tags.add(t)
            k = rng.randint(0, len(nm))
            nm = nm[:k] + c + nm[k:]
        names.append(nm)
    seqs = [b"" for _ in range(nrow)]
    for _ in range(ncol):
        if rng.random() < p_chunk:
            wl = rng.choice([l for l in CELLS if len(CELLS[l]) > 1])
            for i in range(nrow):
                t, c = rng.choice(CELLS[wl])
                tags.add(t)
                seqs[i] += c
        else:
            for i in range(nrow):
                seqs[i] += rng.choice(b"ACGT-").to_bytes(1, "big")
    return list(zip(names, seqs)), tags


def files(rng, fmt, rows):
    """files of one format for the rows; header counts: written length / raw byte length / rune count.  Yields
    (strict, bytes, tag)"""
    n = len(rows)
    wl, bl, rl = len(written(rows[0][1])), len(rows[0][1]), nrunes(rows[0][1])
    nl = rng.choice([b"\n", b"\n", b"\r\n"])
    if fmt == "fasta":
        yield 0, b"".join(b">" + nm + nl + q + nl for nm, q in rows), "rows"
    elif fmt == "phylip":
        for L, tg in ((wl, "written-length"), (bl, "byte-length"), (rl, "rune-count")):
            if tg != "written-length" and L == wl:
                continue
            yield 0, b" %d %d" % (n, L) + nl + b"".join(nm + b"  " + q + nl for nm, q in rows), "rows-header-" + tg
            # strict: the name field is 10 RUNES
            body = b""
            for nm, q in rows:
                pad = rng.choice([10 - nrunes(nm), 10 - nrunes(nm), 10 - len(nm), 10 - len(written(nm))])
                body += nm + b" " * max(0, pad) + q + nl
            yield 1, b" %d %d" % (n, L) + nl + body, "rows-strict-header-" + tg
    elif fmt == "nexus":
        for L, tg in ((wl, "written-length"), (bl, "byte-length"), (rl, "rune-count")):
            if tg != "written-length" and L == wl:
                continue
            dims = rng.choice([b"dimensions ntax=%d nchar=%d;" % (n, L), b"dimensions nchar=%d;" % L, b""])
            yield 0, (b"#NEXUS" + nl + b"begin data;" + nl + dims + nl + b"format datatype=dna;" + nl + b"matrix" + nl +
                      b"".join(nm + b" " + q + nl for nm, q in rows) + b";" + nl + b"end;" + nl), "rows-header-" + tg
    elif fmt == "clustal":
        m = max(len(nm) for nm, _ in rows)
        yield 0, (b"CLUSTAL W (1.82) multiple sequence alignment" + nl + nl + b"".join(nm + b" " * (m + 3 - len(nm)) + q + nl for nm, q in rows) +
                  b" " * (m + 3) + b"*" * rl + nl + nl), "rows"
    elif fmt == "stockholm":
        yield 0, b"# STOCKHOLM 1.0" + nl + b"".join(nm + b" " + q + nl for nm, q in rows) + b"//" + nl, "rows"


KEYWORD_FILES = {
    # keyword tables go through strings.ToUpper: U+017F (c5 bf) upper-cases to S, U+0131 (c4 b1) to I, U+212A (Kelvin) does not
    "nexus": [b"#NEXU\xc5\xbf\nbegin data;\nmatrix\na AC\n;\nend;\n", b"#NEXUS\nbeg\xc4\xb1n data;\nmatr\xc4\xb1x\na AC\n;\nend;\n",
              b"#NEXUS\nbegin data;\ndimen\xc5\xbfion\xc5\xbf ntax=1 nchar=2;\nmatrix\na AC\n;\nend;\n",
              b"#NEXUS\nbegin data;\ndimensions ntax=2 nchar=2;\nmatrix\na AC\n;\nend;\n".replace(b"dimensions", b"d\xc4\xb1mens\xc4\xb1ons"),
              b"#NEXUS\nbegin data;\ndimensions ntax=1 nchar=2;\nmatrix\na AC\n;\nend;\n".replace(b"nchar", b"nchar\xc2\xa0"),
              b"#NEXUS\nbegin data;\nmatrix\na AC\n\xc5\xbf ta\xc2\xa0a\n;\nend;\n",
              b"#NEXUS\nbegin data;\nmatrix\na mi\xc5\xbf\xc5\xbfing\nb miss\xc4\xb1ng\n;\nend;\n",
              b"#NEXUS\nbegin data;\nformat datatype=dna gap=\xff;\nmatrix\na A\xff\n;\nend;\n",
              b"#NEXUS\nbegin data;\nformat datatype=dna missing=\xc3\xa9 gap=\xc2\x80;\nmatrix\na A\xc3\xa9\n;\nend;\n",
              b"#NEXUS\nbegin data;\nformat datatype=dna matchchar=\x80;\nmatrix\na AC\nb \x80\x80\n;\nend;\n",
              b"#NEXUS\nbegin data;\nmatrix\na AC\n;\nend;\n".replace(b"data", b"\xe2\x84\xaaATA"),
              b"#NEXUS\nbegin data;\nmatrix\na AC\n;\n\xc4\xb1nd;\n", b"#NEXUS\nbegin data;\nmatrix\na AC\n;\nEND\xc5\xbf;\n"],
    "clustal": [b"CLU\xc5\xbfTAL W\n\na AC\nb AC\n  **\n", b"clu\xc5\xbftal\n\na AC\n", b"CLUSTAL\xc2\xa0W\n\na AC\n",
                b"CLUSTAL W\n\na AC\nCLU\xc5\xbfTAL AC\n  **\n", b"\xef\xbb\xbfCLUSTAL W\n\na AC\n"],
    "stockholm": [b"# \xc5\xbfTOCKHOLM 1.0\na AC\n//\n", b"# stockholm 1.0\na AC\n\xc5\xbftockholm AC\n//\n",
                  b"# STOCKHOLM 1.0\na AC\n#=GF \xff\xc3\n//\n", b"\xef\xbb\xbf# STOCKHOLM 1.0\na AC\n//\n",
                  b"# STOCKHOLM\xc2\xa01.0\na AC\n//\n"],
    "fasta": [b"\xef\xbb\xbf>a\nAC\n", b">a\nAC\n\xc2\x85>b\nGT\n", b">\xc2\xa0a\nAC\n", b">a\xe2\x80\xa8AC\n", b">a\nA\xc3",
              b">a\nA\xe2\x82", b">a\xf0\x9f\x98", b">a\nAC\n>a\xff\nAC\n>a\xef\xbf\xbd\nAC\n", b">a\n\xff\n>b\n\xe2\x82\xac\n>c\nA\xc3\xa9\n"],
    "phylip": [b" 1 2\n\xffbcdefghij AC\n", b" 1 2\nabcdefghi\xc3\xa9AC\n", b" 1 2\nabcdefghi\xc3\xa9 AC\n", b" 1 2\nabcdefgh\xc3\xa9AC\n",
               b" 1 2\n\xc3\xa9\xc3\xa9\xc3\xa9\xc3\xa9\xc3\xa9\xc3\xa9\xc3\xa9\xc3\xa9\xc3\xa9\xc3\xa9AC\n",
               b" 1 2\n\xff\xff\xff\xff\xff\xff\xff\xff\xff\xffAC\n", b" 1 2\nabcdefghi\xc3", b" 1 2\nabcdefghij\xc3", b" 1 2\nabcdefghi\xe2\x82",
               b" 1 3\na A\xc3\xa9\n", b" 1 2\na A\xc3\xa9\n", b" 1 4\na A\xff\n", b" 1 2\na A\xff\n", b" 1\xc2\xa02\na AC\n", b" \xef\xbc\x91 2\na AC\n",
               b" 1 \xd9\xa2\na AC\n", b"\xef\xbb\xbf 1 2\na AC\n", b" 1 2\xc2\x85a AC\n", b" 2 3\na A\xc3\xa9\n\nb A\xff\n", b" 1 6\na A\xc3\n\n\xa9CG\n"],
}


FOLD_KW = re.compile(rb"#nexus|begin|data|characters|taxlabels|taxa|trees|tree|dimensions|ntax|nchar|format|datatype|missing|"
                     rb"matchchar|gap|matrix|endblock|end|clustalw|clustal|stockholm", re.I)
FOLD = {ord("s"): b"\xc5\xbf", ord("S"): b"\xc5\xbf", ord("i"): b"\xc4\xb1", ord("I"): b"\xc4\xb1"}


def fold_spell(data, spans):
    """`data` with every s / S / i / I inside the byte spans written as U+017F / U+0131 (strings.ToUpper maps them back to S / I,
    so a keyword spelled this way still is the keyword)"""
    out, pos = [], 0
    for a, b in spans:
        out.append(data[pos:a])
        out.append(b"".join(FOLD.get(c, bytes([c])) for c in data[a:b]))
        pos = b
    out.append(data[pos:])
    return b"".join(out)


def fold_keyword_variants(rng, data, thorough):
    """(tag, bytes): keywords of a Clustal / Stockholm / Nexus file spelled with the fold runes - all of them, one at a time,
    one letter at a time; and the fold runes everywhere (names and residues too: there they are ordinary bytes >= 128)"""
    spans = [m.span() for m in FOLD_KW.finditer(data) if any(c in FOLD for c in m.group())]
    if not spans:
        return
    yield "all-keywords", fold_spell(data, spans)
    one = spans if thorough else rng.sample(spans, min(3, len(spans)))
    for a, b in one:
        yield "one-keyword", fold_spell(data, [(a, b)])
        letters = [k for k in range(a, b) if data[k] in FOLD]
        for k in (letters if thorough else letters[:1]):
            yield "one-letter", fold_spell(data, [(k, k + 1)])
    yield "everywhere", fold_spell(data, [(0, len(data))])


def cases(rng, tier, seedfiles, popts_all, popts_default, boundaries):
    """`seedfiles`: (fmt, strict, bytes, header_len, tag) of c03.py"""
    thorough = tier != "quick"
    # 1. alignments whose columns hold cells of one written length (a good part succeeds), sometimes made ragged
    n = 60 if not thorough else 600
    for fmt in G.FORMATS:
        for _ in range(n):
            rows, tags = rand_rows(rng, rng.randint(1, 3), rng.randint(1, 5), rng.choice([0.2, 0.5, 1.0]))
            if rng.random() < 0.15 and len(rows) > 1:
                t, c = rng.choice(ALL_CHUNKS)
                k = rng.randrange(len(rows))
                rows[k] = (rows[k][0], rows[k][1] + c)
                tags.add("ragged")
            if rng.random() < 0.1 and len(rows) > 1:
                rows[1] = (rows[0][0], rows[1][1])          # duplicate (non-ASCII) name: the renaming path
                tags.add("dupname")
            for strict, data, tg in files(rng, fmt, rows):
                opts = [popts_default(fmt, strict)] + ([rng.choice(popts_all(fmt))] if rng.random() < 0.5 else [])
                for o in dict.fromkeys(opts):
                    if fmt == "phylip":
                        o = "%d%s" % (strict, o[1:])
                    yield Case("parse", [fmt, o, G.hx(data)], True, "%s:utf8-%s" % (fmt, tg))
    # 2. hand-written files: keywords through ToUpper, header lines, name fields, end of input
    for fmt, fs in KEYWORD_FILES.items():
        for data in fs:
            for o in popts_all(fmt):
                yield Case("parse", [fmt, o, G.hx(data)], True, "%s:utf8-handwritten" % fmt)
            for k in range(max(0, len(data) - 8), len(data)):
                yield Case("parse", [fmt, popts_default(fmt, 0), G.hx(data[:k])], True, "%s:utf8-handwritten-truncated" % fmt)
    # 2b. seed files of the three formats with a keyword table: keywords spelled with U+017F / U+0131
    for fmt, strict, data, hdr, tag in seedfiles:
        if fmt in ("clustal", "stockholm", "nexus"):
            for t, d in dict.fromkeys(fold_keyword_variants(rng, data, thorough)):
                yield Case("parse", [fmt, popts_default(fmt, strict), G.hx(d)], True, "%s:utf8-fold-%s" % (fmt, t))
                if t == "all-keywords":
                    yield Case("auto", [0, G.hx(d)], True, "auto:utf8-fold-%s" % t)
                    for k in sorted(rng.sample(range(len(d)), min(len(d), 12 if not thorough else 60))):
                        yield Case("parse", [fmt, popts_default(fmt, strict), G.hx(d[:k])], True, "%s:utf8-fold-truncated" % fmt)
    # 3. seed files: a chunk inserted at / substituted for the byte at a token boundary, appended at the end
    for fmt, strict, data, hdr, tag in seedfiles:
        tb = boundaries(data)
        offs = tb if thorough else rng.sample(tb, min(len(tb), 10))
        for i in offs:
            picks = ALL_CHUNKS if thorough and i % 3 == 0 else rng.sample(ALL_CHUNKS, 3)
            for t, c in picks:
                yield Case("parse", [fmt, popts_default(fmt, strict), G.hx(data[:i] + c + data[i:])], i >= hdr, "%s:utf8-insert-%s" % (fmt, t))
                yield Case("parse", [fmt, popts_default(fmt, strict), G.hx(data[:i] + c + data[i + 1:])], i >= hdr, "%s:utf8-subst-%s" % (fmt, t))
        for t, c in ALL_CHUNKS if thorough else rng.sample(ALL_CHUNKS, 12):
            yield Case("parse", [fmt, popts_default(fmt, strict), G.hx(data + c)], True, "%s:utf8-at-eof-%s" % (fmt, t))
            yield Case("parse", [fmt, popts_default(fmt, strict), G.hx(data.rstrip(b"\n") + c)], True, "%s:utf8-at-eof-%s" % (fmt, t))
        # the same chunk in the same column of every row (keeps the alignment rectangular)
        if fmt == "fasta" and b"\r" not in data:
            lines = data.split(b"\n")
            for t, c in rng.sample(ALL_CHUNKS, 6 if not thorough else 30):
                out = [ln if (ln.startswith(b">") or not ln) else ln[:1] + c + ln[1:] for ln in lines]
                yield Case("parse", [fmt, popts_default(fmt, strict), G.hx(b"\n".join(out))], True, "%s:utf8-column-%s" % (fmt, t))
    # 3b. multi-Phylip streams and the auto-detecting entry point
    ph = [d for f, st, d, h, t in seedfiles if f == "phylip" and st == 0 and "wide" not in t]
    for _ in range(30 if not thorough else 300):
        parts = []
        for _ in range(rng.randint(1, 3)):
            if rng.random() < 0.5:
                rows, _tags = rand_rows(rng, rng.randint(1, 3), rng.randint(1, 4), 0.5)
                parts.append(next(iter(files(rng, "phylip", rows)))[1])
            else:
                d = rng.choice(ph)
                t, c = rng.choice(ALL_CHUNKS)
                k = rng.randrange(len(d) + 1)
                parts.append(d[:k] + c + d[k:] if rng.random() < 0.5 else d)
        data = rng.choice([b"", b"\n", b" \n"]).join(parts)
        yield Case("parsemulti", ["0,%d,2" % rng.randint(0, 2), G.hx(data)], True, "multi:utf8")
    for fmt, fs in KEYWORD_FILES.items():
        for data in fs:
            yield Case("auto", [0, G.hx(data)], True, "auto:utf8-handwritten")
            yield Case("auto", [1, G.hx(data)], True, "auto:utf8-handwritten")
    # 3b. Nexus FORMAT symbols (GAP / MISSING / MATCHCHAR) that are not one ASCII byte, used equally often in every row, with
    # NCHAR declared as the byte length of the rows as the lexer holds them (also as the raw byte length and as the rune
    # count): a symbol validated by rune count and replaced after the length test would shorten every row
    for _ in range(40 if not thorough else 600):
        t, c = rng.choice(ALL_CHUNKS)
        key = rng.choice([b"gap", b"missing", b"matchchar", b"GAP", b"MiSsInG"])
        n = rng.randint(1, 3)
        k = rng.randint(1, 3)
        rows = []
        for i in range(n):
            cells = [rng.choice([b"A", b"C", b"G", b"T"]) for _ in range(rng.randint(2, 5) if i == 0 else len(rows[0][1]) - k)] if i == 0 else \
                    [rng.choice([b"A", b"C", b"G", b"T"]) for _ in range(len(rows[0][1]) - k)]
            for _ in range(k):
                cells.insert(rng.randrange(len(cells) + 1) if not (key.lower() == b"matchchar" and i == 0) else len(cells), c)
            rows.append((b"s%d" % i, cells))
        wl = len(written(b"".join(rows[0][1])))
        nchar = rng.choice([wl, wl, wl, len(b"".join(rows[0][1])), len(rows[0][1])])
        data = (b"#NEXUS\nbegin data;\ndimensions ntax=%d nchar=%d;\nformat datatype=dna " % (n, nchar) + key + b"=" + c + b";\nmatrix\n" +
                b"".join(nm + b" " + b"".join(cells) + b"\n" for nm, cells in rows) + b";\nend;\n")
        yield Case("parse", ["nexus", popts_default("nexus", 0), G.hx(data)], True, "nexus:utf8-format-symbol-%s" % t)
    # 4. partition strings
    for s in [b"M,p\xc3\xa9=1-3", b"M\xff,p=1-3", b"M,p=1-\xc3\xa9", b"M,p=1\xc2\xa0-3", b"M,p=1-3\xc2\x85N,q=4-5", b"\xef\xbb\xbfM,p=1-3", b"M,p=1-3/\xff",
              b"M,p=\xd9\xa1-3", b"M,p=1-3\xc3", b"M,p=1-3\n\xe2\x82", b"M,p\xc3\xa9=1-3\nM,p\xc3\xa9=4-5\n", b"M,p\xff=1-3\nM,p\xef\xbf\xbd=4-5\n"]:
        for L in (10, 3):
            yield Case("parse", ["partition", L, G.hx(s)], True, "partition:utf8-handwritten")
    toks = [b"M", b"p", b",", b"=", b"-", b"/", b" ", b"\n", b"1", b"3", b"10"] + [c for _, c in ALL_CHUNKS]
    for _ in range(150 if not thorough else 2000):
        if rng.random() < 0.6:
            t1, c1 = rng.choice(ALL_CHUNKS)
            t2, c2 = rng.choice(ALL_CHUNKS)
            s = (b"M" + rng.choice([b"", c1]) + b",p" + rng.choice([b"", c2, c1]) + b"=1-" + rng.choice([b"3", b"3" + c1, c2]) +
                 rng.choice([b"", b"\n", b"\nN,q" + rng.choice([b"", c1, c2]) + b"=4-6\n", c1]))
        else:
            s = b"".join(rng.choice(toks) for _ in range(rng.randint(1, 10)))
        yield Case("parse", ["partition", rng.choice([10, 10, 3]), G.hx(s)], True, "partition:utf8-random")
