"""python3 -m driver.snapshot_gen — copies the tables regenerated from the (unchanged) /repo into lean/GenGood, the
last known good copy used only to keep SEARCHING for a failing input when a translator stage fails on a modified source
(driver/common.py restore_good_gen).  Run it on the unchanged tree, then commit."""
import os
import shutil
import sys

from driver import common


def main():
    ok, out, _ = common.regenerate()
    if not ok or "EXTRACT-FAIL" in out:
        print("regeneration failed on this tree; snapshot not taken:\n" + out[-500:])
        return 1
    good = os.path.join(common.LEAN, "GenGood")
    os.makedirs(good, exist_ok=True)
    gen = os.path.join(common.LEAN, "Gv/Gen")
    for f in sorted(os.listdir(gen)):
        if f.endswith(".lean"):
            shutil.copy(os.path.join(gen, f), os.path.join(good, f))
    print("snapshot of", len(os.listdir(good)), "files in", good)
    return 0


if __name__ == "__main__":
    sys.exit(main())
