"""Cases for the `detmulti` op (driver/common.py): commands that process the alignments of a multi-alignment Phylip
input one after the other.  Each property module picks the commands it owns."""
from driver.common import Case

NT = "ACGT"


def phylip(rows):
    return " %d %d\n" % (len(rows), len(rows[0][1])) + "".join("%s  %s\n" % r for r in rows)


def esc(s):
    return s.replace("\n", "|").replace("\t", "~")


def alignments(rng, k=None, names=None, alphabet=NT, gaps=True, lmin=4, lmax=14):
    """k alignments with the SAME row names (like bootstrap replicates) and different lengths / gap patterns"""
    k = k or rng.randint(2, 4)
    n = rng.randint(2, 5)
    names = names or ["ref"] + ["s%d" % i for i in range(1, n)]
    out = []
    for _ in range(k):
        L = rng.randint(lmin, lmax)
        rows = []
        for nm in names:
            s = "".join(rng.choice(alphabet + ("-" * rng.choice([0, 2, 4]) if gaps else "")) for _ in range(L))
            if s.replace("-", "") == "":
                s = "A" + s[1:]
            rows.append((nm, s))
        out.append(rows)
    return out


def multi_case(als, argv, tag, files=None):
    fs = "_" if not files else ";;".join("%s=%s" % (k, esc(v)) for k, v in files.items())
    return Case("detmulti", [";;".join(esc(phylip(a)) for a in als), fs] + [str(a) for a in argv] + ["-p"], True, tag)


def _parse(block):
    lines = [l for l in block.split("|") if l.strip()]
    rows = []
    for l in lines[1:]:
        f = l.split()
        if len(f) == 2:
            rows.append((f[0], f[1]))
    return rows


def shrink(c):
    """fewer alignments (at least two), fewer rows, fewer columns"""
    als = [_parse(b) for b in c.args[0].split(";;") if b]
    rest = list(c.args[1:])

    def mk(a2):
        return Case("detmulti", [";;".join(esc(phylip(a)) for a in a2)] + rest)
    if len(als) > 2:
        for i in range(len(als)):
            yield mk(als[:i] + als[i + 1:])
    n = min(len(a) for a in als)
    for i in range(n - 1, 0, -1):            # keep the first row (often the reference)
        yield mk([a[:i] + a[i + 1:] for a in als])
    for k, a in enumerate(als):
        L = len(a[0][1])
        if L > 1:
            for lo, hi in ((0, L // 2), (L // 2, L)):
                if hi - lo < L:
                    yield mk(als[:k] + [[(nm, s[:lo] + s[hi:]) for nm, s in a]] + als[k + 1:])
            for j in range(L):
                yield mk(als[:k] + [[(nm, s[:j] + s[j + 1:]) for nm, s in a]] + als[k + 1:])
