"""Cases for the `detmulti` op (driver/common.py): commands that process the alignments of a multi-alignment Phylip
input one after the other.  Each property module picks the commands it owns."""
from driver.common import Case

NT = "ACGT"


def phylip(rows):
    return " %d %d\n" % (len(rows), len(rows[0][1])) + "".join("%s  %s\n" % r for r in rows)


def esc(s):
    return s.replace("\n", "|").replace("\t", "~")


def alignments(rng, k=None, names=None, alphabet=NT, gaps=True, lmin=4, lmax=14):
    """k alignments with the SAME row names (like bootstrap replicates) and different lengths / gap patterns"""
    k = k or rng.randint(2, 4)
    n = rng.randint(2, 5)
    names = names or ["ref"] + ["s%d" % i for i in range(1, n)]
    out = []
    for _ in range(k):
        L = rng.randint(lmin, lmax)
        rows = []
        for nm in names:
            s = "".join(rng.choice(alphabet + ("-" * rng.choice([0, 2, 4]) if gaps else "")) for _ in range(L))
            if s.replace("-", "") == "":
                s = "A" + s[1:]
            rows.append((nm, s))
        out.append(rows)
    return out


def multi_case(als, argv, tag, files=None):
    fs = "_" if not files else ";;".join("%s=%s" % (k, esc(v)) for k, v in files.items())
    return Case("detmulti", [";;".join(esc(phylip(a)) for a in als), fs] + [str(a) for a in argv] + ["-p"], True, tag)
