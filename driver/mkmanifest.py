"""Regenerates /verif/MANIFEST.json from the property modules (run: python3 -m driver.mkmanifest)."""
import importlib
import json
import os

VERIF = os.path.dirname(os.path.dirname(os.path.abspath(__file__)))
ALL = ["C%02d" % i for i in range(1, 21)]

NOT_BUILT_REASON = "check not built yet in this round (work in progress; the property has a logical core a Lean model can express, see DESIGN.md §5)"


def main():
    checks, na = [], []
    for pid in ALL:
        try:
            mod = importlib.import_module("driver.props." + pid.lower())
        except ImportError:
            na.append({"property_id": pid, "reason": NOT_BUILT_REASON})
            continue
        checks.append({
            "property_id": pid,
            "quick_cmd": "./check %s quick" % pid,
            "thorough_cmd": "./check %s thorough" % pid,
            "evidence_file": "/verif/evidence/%s.json" % pid,
            "replay_cmd_template": "./check %s --replay {path}" % pid,
            "engine": "lean4-proof+correspondence",
            "level_claimed": {"category": "proof", "text": mod.LEVEL_TEXT, "design_ref": "DESIGN.md §5 " + pid},
            "level_note": mod.LEVEL_NOTE,
            "technique": mod.TECHNIQUE,
        })
    m = {
        "version": 1,
        "setup_cmd": "./setup.sh",
        "hooks": {
            "guard": "verif",
            "enable": "go build -tags verif (the harness is built with the tag; no hook commits exist in /repo, all observables are public API)",
            "baseline_off_cmd": "cd /repo && go build ./... && go test -vet=off -count=1 ./...",
            "source_commits": [],
            "add_only": True,
        },
        "engines": [{
            "name": "lean4-proof+correspondence",
            "path": "/verif/lean",
            "serves_properties": [c["property_id"] for c in checks],
            "kind_free_text": "Lean 4 theorems about hand-written executable models (lean/Gv/Model) and regenerated tables/facts "
                              "(lean/Gv/Gen, tools/extract), tied to /repo by regeneration on every run and by a differential "
                              "correspondence check (tools/harness in Go calling the real code, compiled Lean oracle, driver/)",
        }],
        "checks": checks,
        "not_applicable": na,
        "notes": "See DESIGN.md. Each check: regenerate Gen/*.lean from /repo -> lake build theorems -> axiom audit -> build Go harness "
                 "against /repo -> run generated cases on implementation and Lean oracle -> compare + evaluate the property predicate "
                 "on the implementation's output. known_findings.jsonl lists recorded defects.",
    }
    json.dump(m, open(os.path.join(VERIF, "MANIFEST.json"), "w"), indent=1)
    print("claimed:", [c["property_id"] for c in checks])


if __name__ == "__main__":
    main()
