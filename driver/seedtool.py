"""Seeded-defect bookkeeping.

  python3 -m driver.seedtool collect <worktree> <Cxx> <slug> "<demo command>" "<needs>"
      -> /verif/seeded/<Cxx>-<slug>/{patch.diff, demo files, meta.json}; confirms in the worktree that the project
         builds, the existing tests pass with the change, the demo fails with it and passes without it.
  python3 -m driver.seedtool detect <Cxx>-<slug> [tier] [checks...]
      -> applies the patch to /repo, runs the named checks (default: the property's own), reverts /repo,
         records the outcome in meta.json.
  python3 -m driver.seedtool pdetect <tier> <jobs> <Cxx>-<slug>... [-- <check>...]
      -> the same for several changes in parallel, each in a private copy of this directory (under /tmp/vdet,
         removed afterwards) and a private patched worktree of /repo.
"""
import json
import os
import shutil
import subprocess
import sys
import time

VERIF = os.path.dirname(os.path.dirname(os.path.abspath(__file__)))
SEEDED = os.path.join(VERIF, "seeded")
ENV = dict(os.environ, GOFLAGS="-mod=mod", GOPROXY="off", GOSUMDB="off", GOTOOLCHAIN="local")


def sh(cmd, cwd=None, timeout=3600):
    p = subprocess.run(cmd, shell=True, cwd=cwd, env=ENV, stdout=subprocess.PIPE, stderr=subprocess.STDOUT, text=True, timeout=timeout)
    return p.returncode, p.stdout


def collect(wt, pid, slug, demo, needs):
    d = os.path.join(SEEDED, "%s-%s" % (pid, slug))
    os.makedirs(d, exist_ok=True)
    rc, diff = sh("git diff", cwd=wt)
    open(os.path.join(d, "patch.diff"), "w").write(diff)
    rc, unt = sh("git ls-files --others --exclude-standard", cwd=wt)
    demos = [u for u in unt.split("\n") if u.strip()]
    for u in demos:
        dst = os.path.join(d, "demo", u)
        os.makedirs(os.path.dirname(dst), exist_ok=True)
        shutil.copy(os.path.join(wt, u), dst)
    res = {}
    res["build_with_change"], _ = sh("go build ./...", cwd=wt)
    rc, out = sh("go test -vet=off -count=1 -skip 'Seed' ./... 2>&1 | grep -v 'no test files'", cwd=wt)
    res["existing_tests_with_change_fail_lines"] = [l for l in out.split("\n") if l.startswith(("FAIL", "--- FAIL", "panic"))]
    rc1, out1 = sh(demo, cwd=wt)
    res["demo_with_change_rc"] = rc1
    res["demo_with_change_tail"] = out1[-600:]
    # never `git stash` here: the stash is shared by all worktrees of a repository
    pf = os.path.join(d, "patch.diff")
    sh("git apply -R %s" % pf, cwd=wt)
    rc2, out2 = sh(demo, cwd=wt)
    sh("git apply %s" % pf, cwd=wt)
    res["demo_without_change_rc"] = rc2
    res["demo_without_change_tail"] = out2[-300:]
    ok = res["build_with_change"] == 0 and not res["existing_tests_with_change_fail_lines"] and rc1 != 0 and rc2 == 0
    meta = {"property": pid, "slug": slug, "needs_to_manifest": needs, "demo_cmd": demo, "demo_files": demos,
            "confirmed": ok, "confirmation": res, "detection": {}}
    json.dump(meta, open(os.path.join(d, "meta.json"), "w"), indent=1)
    print(json.dumps({"dir": d, "confirmed": ok, "demo_with": rc1, "demo_without": rc2,
                      "test_failures": res["existing_tests_with_change_fail_lines"]}, indent=1))


def detect(name, tier="quick", checks=None):
    """runs the checks against a scratch worktree of /repo with the patch applied (VERIF_REPO), so /repo itself is
    never touched; the worktree is removed afterwards"""
    d = os.path.join(SEEDED, name)
    meta = json.load(open(os.path.join(d, "meta.json")))
    checks = checks or [meta["property"]]
    wt = "/tmp/repo-detect-%d" % os.getpid()
    sh("git -C /repo worktree remove --force %s" % wt)
    rc, out = sh("git -C /repo worktree add --detach %s HEAD" % wt)
    if rc != 0:
        print("cannot create scratch worktree:\n" + out)
        return 2
    try:
        rc, out = sh("git apply %s" % os.path.join(d, "patch.diff"), cwd=wt)
        if rc != 0:
            print("patch does not apply:\n" + out)
            return 2
        env = dict(ENV, VERIF_REPO=wt)
        for c in checks:
            t0 = time.time()
            p = subprocess.run("./check %s %s" % (c, tier), shell=True, cwd=VERIF, env=env, stdout=subprocess.PIPE,
                               stderr=subprocess.STDOUT, text=True, timeout=7200)
            viol = [l[:400] for l in p.stdout.split("\n") if l.startswith("VIOLATION")]
            meta["detection"]["%s/%s" % (c, tier)] = {"rc": p.returncode, "violations": viol, "wall_s": round(time.time() - t0, 1)}
            print(c, tier, "rc=%d" % p.returncode, *viol[:3], sep="\n  ")
    finally:
        sh("git -C /repo worktree remove --force %s" % wt)
        sh("git -C /repo worktree prune")
    json.dump(meta, open(os.path.join(d, "meta.json"), "w"), indent=1)
    return 0


def detectall(tier="quick"):
    """every seeded change against the check of its own property; prints one line per change"""
    import glob
    missed = []
    for mp in sorted(glob.glob(os.path.join(SEEDED, "*", "meta.json"))):
        name = os.path.basename(os.path.dirname(mp))
        detect(name, tier)
        m = json.load(open(mp))
        r = m["detection"].get("%s/%s" % (m["property"], tier), {})
        viol = r.get("violations", [])
        kind = "MISSED" if r.get("rc") != 1 or not viol else (
            "failing-input" if any("no-failing-input-found" not in v for v in viol) else "broken-tie-only")
        if kind != "failing-input":
            missed.append((name, kind))
        print("SEED %s %s" % (name, kind), flush=True)
    print("SUMMARY not caught with a failing input:", missed)


def _pdetect_one(arg):
    """one seeded change against its checks in a private copy of this directory (build output included, so nothing
    is rebuilt that the patch does not touch) and a private patched worktree of /repo"""
    name, tier, checks = arg
    d = os.path.join(SEEDED, name)
    meta = json.load(open(os.path.join(d, "meta.json")))
    checks = checks or [meta["property"]]
    tag = "%s-%d" % (name, os.getpid())
    vc = "/tmp/vdet/v-" + tag
    wt = "/tmp/vdet/r-" + tag
    os.makedirs("/tmp/vdet", exist_ok=True)
    out = {}
    try:
        sh("rsync -a --exclude .git --exclude seeded --exclude evidence/replay --exclude build/det-tmp %s/ %s/" % (VERIF, vc))
        rc, o = sh("git -C /repo worktree add --detach %s HEAD" % wt)
        if rc != 0:
            return name, {"error": "worktree: " + o[-300:]}
        rc, o = sh("git apply %s" % os.path.join(d, "patch.diff"), cwd=wt)
        if rc != 0:
            return name, {"error": "patch does not apply: " + o[-300:]}
        env = dict(ENV, VERIF_REPO=wt)
        for c in checks:
            t0 = time.time()
            p = subprocess.run("./check %s %s" % (c, tier), shell=True, cwd=vc, env=env, stdout=subprocess.PIPE,
                               stderr=subprocess.STDOUT, text=True, timeout=7200)
            viol = [l[:400].replace(vc, VERIF) for l in p.stdout.split("\n") if l.startswith("VIOLATION")]
            out["%s/%s" % (c, tier)] = {"rc": p.returncode, "violations": viol, "wall_s": round(time.time() - t0, 1)}
    finally:
        sh("git -C /repo worktree remove --force %s" % wt)
        shutil.rmtree(vc, ignore_errors=True)
    return name, out


def pdetect(names, tier="quick", jobs=4, checks=None):
    """several seeded changes at once; /verif itself and /repo are not touched"""
    from concurrent.futures import ThreadPoolExecutor
    with ThreadPoolExecutor(jobs) as ex:
        for name, out in ex.map(_pdetect_one, [(n, tier, checks) for n in names]):
            mp = os.path.join(SEEDED, name, "meta.json")
            meta = json.load(open(mp))
            if "error" in out:
                print("SEED %s ERROR %s" % (name, out["error"]), flush=True)
                continue
            meta["detection"].update(out)
            json.dump(meta, open(mp, "w"), indent=1)
            for k, r in out.items():
                viol = r["violations"]
                kind = "MISSED" if r["rc"] != 1 or not viol else (
                    "failing-input" if any("no-failing-input-found" not in v for v in viol) else "broken-tie-only")
                print("SEED %s %s %s %ss\n   %s" % (name, k, kind, r["wall_s"], "\n   ".join(v[:230] for v in viol[:3])), flush=True)
    sh("git -C /repo worktree prune")


if __name__ == "__main__":
    a = sys.argv[1:]
    if a[0] == "detectall":
        detectall(a[1] if len(a) > 1 else "quick")
        sys.exit(0)
    if a[0] == "pdetect":
        # pdetect <tier> <jobs> <name>... [-- <check>...]
        rest = a[3:]
        cks = None
        if "--" in rest:
            cks = rest[rest.index("--") + 1:]
            rest = rest[:rest.index("--")]
        pdetect(rest, a[1], int(a[2]), cks)
        sys.exit(0)
    if a[0] == "collect":
        collect(*a[1:6])
    elif a[0] == "detect":
        sys.exit(detect(a[1], a[2] if len(a) > 2 else "quick", a[3:] or None))
