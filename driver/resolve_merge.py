"""resolve the routine merge conflicts of a property branch: union for known_findings.jsonl / Gv.lean /
Main.lean imports+handlers, regenerate MANIFEST.json"""
import re, subprocess, sys, os
V = os.path.dirname(os.path.dirname(os.path.abspath(__file__)))

def union(path):
    s = open(path).read()
    out, seen = [], set()
    for ln in s.split("\n"):
        if ln.startswith(("<<<<<<<", "=======", ">>>>>>>")):
            continue
        if ln.strip() and ln in seen and not ln.startswith(("#",)):
            continue
        seen.add(ln)
        out.append(ln)
    open(path, "w").write("\n".join(out))

def main_lean(path):
    s = open(path).read()
    # collect both sides
    m = re.search(r"<<<<<<< [^\n]*\n(.*?)=======\n(.*?)>>>>>>> [^\n]*\n", s, re.S)
    while m:
        a, b = m.group(1), m.group(2)
        if "def handlers" in a or "def handlers" in b:
            ha = re.search(r"\[(.*?)\]", a, re.S).group(1)
            hb = re.search(r"\[(.*?)\]", b, re.S).group(1)
            hs = []
            for h in [x.strip() for x in (ha + "," + hb).split(",")]:
                if h and h not in hs:
                    hs.append(h)
            rep = "def handlers : List Handler := [" + ", ".join(hs) + "]\n"
        else:
            lines = []
            for ln in (a + b).split("\n"):
                if ln and ln not in lines:
                    lines.append(ln)
            rep = "\n".join(lines) + "\n"
        s = s[:m.start()] + rep + s[m.end():]
        m = re.search(r"<<<<<<< [^\n]*\n(.*?)=======\n(.*?)>>>>>>> [^\n]*\n", s, re.S)
    open(path, "w").write(s)

if __name__ == "__main__":
    os.chdir(V)
    st = subprocess.run(["git", "diff", "--name-only", "--diff-filter=U"], capture_output=True, text=True).stdout.split()
    for f in st:
        if f == "MANIFEST.json":
            subprocess.run(["git", "checkout", "--ours", f])
        elif f.endswith("Main.lean"):
            main_lean(f)
        elif f in ("known_findings.jsonl", "lean/Gv.lean", "HOWTO.md"):
            union(f)
        else:
            print("UNRESOLVED", f)
            continue
        subprocess.run(["git", "add", f])
    print("resolved", st)
