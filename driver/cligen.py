"""Cases for the `cli_lib` op (lean/Gv/Oracle/Cli.lean): the built binary against the library models, through the
command line (flag parsing, defaults, conversions, reader, writer)."""
from driver.common import Case

SYM = "ACGTacgtNRY-"


def esc(s):
    return s.replace("\n", "|")


def alignment(rng, nmax=6, lmax=30):
    n = rng.randint(1, nmax)
    L = rng.randint(1, lmax)
    return [("s%d" % i, "".join(rng.choice(SYM) for _ in range(L))) for i in range(n)]


def fasta(rows):
    return "".join(">%s\n%s\n" % r for r in rows)


# ---- the regular-expression subset of lean/Gv/Model/Regex.lean -----------------------------------------------------
# literal characters, `.`, `\d`, escaped punctuation, classes with members and ranges (also negated), the greedy
# quantifiers `*` `+` `?`, `^` in front, `$` at the end, at most one capture group (not nested, not quantified)
RE_CLASSES = ["[-N]", "[^ACGT-]", "[N-]", "[0-9]", "[a-z]", "[A-Z]", "[ACGT]", "[^-]", "[^0-9]", "[a-zA-Z]", "[s_]", "[0-3]", "[^ACGT]", "[NRY-Z]", "[acgt]", "\\d", "."]
RE_TEMPLATES = ["", "X", "_", "$1", "${1}", "$0", "x$1y", "${1}y", "$1$1", "$1-", "<$0>", "$$", "$", "a$", "${1", "$2", "$01", "$1_", "N", "--", "n$0", "$name", "${0}${1}"]
# patterns that Go refuses to compile (the four ways the model recognises) and a few outside the subset (answered `unmodelled`)
RE_BAD = ["(", "[a", "*a", "a)", "(a", "+", "?x", "[0-9", "s(", "x[^"]
RE_OUTSIDE = ["a|b", "(a)(b)", "(a)+", "a{2}", "a*?", "(?i)s", "\\w+", "[a--]", "^*", "a$b", "((a))", "[]a]", "\\"]


def rand_regex(rng, lits, maxatoms=4):
    """a pattern of the subset over the literal characters `lits`"""
    def atom():
        k = rng.random()
        if k < 0.55:
            c = rng.choice(lits)
            return ("\\" + c) if c in ".[]()*+?^$|\\" else c
        return rng.choice(RE_CLASSES)

    def item():
        return atom() + rng.choice(["", "", "", "+", "*", "?"])
    n = rng.randint(0 if rng.random() < 0.1 else 1, maxatoms)
    items = [item() for _ in range(n)]
    if rng.random() < 0.45:
        a = rng.randint(0, n)
        b = rng.randint(a, n)
        items = items[:a] + ["("] + items[a:b] + [")"] + items[b:]
    return ("^" if rng.random() < 0.3 else "") + "".join(items) + ("$" if rng.random() < 0.3 else "")


def hexz(s):
    return s.encode().hex() or "-"


def regex_cases(rng, count):
    """`regexsub`: Go's regexp against the model of the subset, on names and on sequences"""
    for _ in range(count):
        if rng.random() < 0.5:
            lits = "s0123456789_ex."
            inp = rng.choice(["s%d" % rng.randint(0, 12), "name_s%d" % rng.randint(0, 9), "Seq%04d" % rng.randint(0, 20), "x.y_s1", "", "s", "e_e_", "s10s1", "a b", "s1\ns2"])
        else:
            lits = "ACGTN-acgt"
            inp = "".join(rng.choice("ACGTN-acgtRY") for _ in range(rng.randint(0, 14)))
        k = rng.random()
        pat = rng.choice(RE_BAD) if k < 0.06 else rng.choice(RE_OUTSIDE) if k < 0.1 else rand_regex(rng, lits)
        yield Case("regexsub", [hexz(pat), hexz(rng.choice(RE_TEMPLATES)), hexz(inp)], True, "regexsub" + ("-bad" if k < 0.06 else "-outside" if k < 0.1 else ""))


def cases(rng, which, count):
    for _ in range(count):
        rows = alignment(rng)
        n, L = len(rows), len(rows[0][1])
        st = esc(fasta(rows))
        for w in which:
            if w == "strand":
                for argv in (["revcomp"], ["toupper"], ["tolower"], ["unalign"]):
                    yield Case("cli_lib", [st] + argv, True, "cli-" + argv[0])
            elif w == "revcomp-names":
                names = [r[0] for r in rows]
                pick = [rng.choice(names + ["nope"]) for _ in range(rng.randint(1, 3))]
                un = ["--unaligned"] if rng.random() < 0.5 else []
                yield Case("cli_lib", [st, "revcomp"] + pick + un, True, "cli-revcomp-names")
                if un:
                    yield Case("cli_lib", [st, "revcomp", "--unaligned"], True, "cli-revcomp-unaligned")
            elif w == "addid":
                fl = []
                if rng.random() < 0.8:
                    fl += ["-n", rng.choice(["x_", "none", "None", "_s", "a.b"])]
                if rng.random() < 0.4:
                    fl.append("-r")
                yield Case("cli_lib", [st, "addid"] + fl, True, "cli-addid")
            elif w == "translate-ref":
                nt = [(nm, "".join(rng.choice("ACGTacgtN-" + "-" * rng.choice([0, 3])) for _ in range(L))) for nm, _ in rows]
                fl = []
                if rng.random() < 0.6:
                    fl += ["--phase", str(rng.randint(0, 2))]
                if rng.random() < 0.6:
                    fl += ["--genetic-code", rng.choice(["standard", "mitov", "mitoi"])]
                yield Case("cli_lib", [esc(fasta(nt)), "translate", "--ref-seq", rng.choice(nt)[0]] + fl, True, "cli-translate-refseq")
            elif w == "entropy":
                cols = ["".join(rng.choice(c) for _ in range(n)) for c in (rng.choice(["A", "AC", "ACGT-", "-", "*", "AC-", "N.", "ac"]) for _ in range(L))]
                er = [("s%d" % i, "".join(c[i] for c in cols)) for i in range(n)]
                fl = [f for f in ("-a", "-g") if rng.random() < 0.5]
                yield Case("cli_lib", [esc(fasta(er)), "compute", "entropy"] + fl, True, "cli-entropy")
            elif w == "stats":
                er = [(nm, "".join(rng.choice("ACGTacN-") for _ in range(L))) for nm, _ in rows]
                se = esc(fasta(er))
                fl = [f for f in ("--ignore-gaps", "--ignore-n") if rng.random() < 0.4]
                yield Case("cli_lib", [se, "stats", "maxchar"] + fl, True, "cli-stats-maxchar")
                for sub in ("nseq", "length", "taxa", "gaps", "nalign"):
                    yield Case("cli_lib", [se, "stats", sub], True, "cli-stats-" + sub)
                yield Case("cli_lib", [se, "diff"], True, "cli-diff")
            elif w == "diff":
                # `diff` with its flags: rows derived from the first one (so that pairs repeat), `.` among the characters
                # (restored by `--reverse`), gaps on either side (`--no-gaps`), one row only, flags in any order
                base = "".join(rng.choice("ACGT-") for _ in range(L))
                dr = [(nm, "".join((rng.choice("ACGTacN-.") if rng.random() < 0.3 else b) for b in base)) for nm, _ in rows]
                if rng.random() < 0.1:
                    dr = dr[:1]
                if rng.random() < 0.5:
                    dr[0] = (dr[0][0], "".join(rng.choice("ACGT.-") if rng.random() < 0.2 else b for b in dr[0][1]))
                if rng.random() < 0.08:
                    dr = [dr[0]] + [(nm, dr[0][1]) for nm, _ in dr[1:]]            # nothing differs
                k = rng.random()
                fl = ["--counts"] if k < 0.3 else ["--counts", "--no-gaps"] if k < 0.55 else ["--reverse"] if k < 0.8 else ["--no-gaps"] if k < 0.85 else ["--counts", "--reverse"] if k < 0.92 else []
                rng.shuffle(fl)
                yield Case("cli_lib", [esc(fasta(dr)), "diff"] + fl, True, "cli-diff" + "".join(sorted(fl)))
            elif w == "sites":
                ss = [str(rng.randint(-1, L)) for _ in range(rng.randint(1, 4))]
                yield Case("cli_lib", [st, "subsites"] + ss, True, "cli-subsites")
                yield Case("cli_lib", [st, "subseq", "-s", str(rng.randint(-1, L)), "-l", str(rng.randint(-1, L + 1))], True, "cli-subseq")
                yield Case("cli_lib", [st, "transpose"], True, "cli-transpose")
                # every flag of subseq: defaults, reference coordinates, complement, sliding windows
                fl = []
                if rng.random() < 0.8:
                    fl += ["-s", str(rng.randint(0, L))]
                if rng.random() < 0.8:
                    fl += ["-l", str(rng.randint(1, L + 1))]
                k = rng.random()
                if k < 0.3:
                    fl += ["--ref-seq", rng.choice([r[0] for r in rows] + ["nope"])]
                elif k < 0.6:
                    fl += ["--step", str(rng.randint(1, 4))]
                if rng.random() < 0.4:
                    fl.append(rng.choice(["-r", "--reverse"]))
                yield Case("cli_lib", [st, "subseq"] + fl, True, "cli-subseq-general")
            elif w == "subsites":
                # `subsites` with every flag: sites on the command line or in a file (one per line; a malformed line, an absent
                # file, no site at all), on the alignment or on an ungapped reference row, the complement, the informative sites
                gr = [(nm, "".join(rng.choice("ACGT-" + "-" * rng.choice([0, 3])) for _ in range(L))) for nm, _ in rows]
                if rng.random() < 0.4:
                    cols = [rng.choice(["A" * n, "".join(rng.choice("AC") for _ in range(n)), "".join(rng.choice("ACGT-N") for _ in range(n))]) for _ in range(L)]
                    gr = [(rows[i][0], "".join(c[i] for c in cols)) for i in range(n)]
                sg = esc(fasta(gr))
                sites = [str(rng.randint(0, L - 1) if rng.random() < 0.93 else rng.choice([L, L + 3])) for _ in range(rng.randint(1, 5))]
                fl = []
                if rng.random() < 0.45:
                    fl += ["--ref-seq", rng.choice([r[0] for r in gr] + (["nope"] if rng.random() < 0.2 else []))]
                if rng.random() < 0.45:
                    fl.append(rng.choice(["-r", "--reverse"]))
                k = rng.random()
                if k < 0.2:
                    fl.append("--informative")
                    if rng.random() < 0.5:
                        fl = fl + sites
                    yield Case("cli_lib", [sg, "subsites"] + fl, True, "cli-subsites-informative")
                elif k < 0.6:
                    a = rng.randint(0, len(sites))
                    argv = sites[:a] + fl + sites[a:]
                    if rng.random() < 0.04:
                        argv = fl
                    yield Case("cli_lib", [sg, "subsites"] + argv, True, "cli-subsites-flags")
                else:
                    txt = "|".join(sites) + rng.choice(["|", "|", ""])
                    q = rng.random()
                    if q < 0.05:
                        txt = rng.choice(["", "x|", "1||2|", "1 |"])
                    fl += ["--sitefile", "sites.txt" if rng.random() < 0.95 else "absent.txt"]
                    if rng.random() < 0.3:
                        fl = [str(rng.randint(0, L - 1))] + fl                      # ignored
                    yield Case("cli_libf", [sg, "sites.txt=" + txt, "subsites"] + fl, True, "cli-subsites-file")
            elif w == "split":
                # `split --partition`: a partition file (RAxML style) covering the sites with 1-4 partitions given as
                # runs, single sites and strided ranges; sometimes a site is left out, given twice or beyond the end
                k = rng.choice([1, 2, 2, 2, 3, 3, 4])
                pnames = rng.sample(["p1", "p2", "geneA", "x_2", "cds", "third", "P.b"], k)
                items = []        # (partition, interval text)
                if rng.random() < 0.3 and L >= 3:
                    k = 3
                    pnames = rng.sample(["pos1", "pos2", "pos3", "c1", "c2", "c3"], 3)
                    items = [(pnames[i], "%d-%d/3" % (i + 1, L)) for i in range(3)]
                else:
                    j = 0
                    while j < L:
                        e = min(L, j + rng.randint(1, max(1, L // 3)))
                        pn = pnames[len(items)] if len(items) < k else rng.choice(pnames)
                        if e - j == 1:
                            items.append((pn, str(j + 1)))
                        elif e - j >= 4 and rng.random() < 0.3:
                            other = rng.choice(pnames)
                            items.append((pn, "%d-%d/2" % (j + 1, e)))
                            items.append((other, "%d-%d/2" % (j + 2, e)))
                        else:
                            items.append((pn, "%d-%d" % (j + 1, e)))
                        j = e
                q = rng.random()
                if q < 0.1 and len(items) > 1:
                    items.pop(rng.randrange(len(items)))                       # a site in no partition
                elif q < 0.2:
                    items.append((rng.choice(pnames), rng.choice(items)[1]))   # a site in two partitions
                elif q < 0.25:
                    items.append((rng.choice(pnames), "%d-%d" % (L, L + 1)))    # beyond the alignment
                if rng.random() < 0.5:
                    rng.shuffle(items)
                lines = []      # one line per partition, or one per interval
                if rng.random() < 0.7:
                    seen = []
                    for pn, _ in items:
                        if pn not in seen:
                            seen.append(pn)
                    for pn in seen:
                        lines.append((pn, [t for q2, t in items if q2 == pn]))
                else:
                    lines = [(pn, [t]) for pn, t in items]
                sp = rng.choice(["", " "])
                txt = "".join("%s,%s%s%s=%s%s|" % (rng.choice(["DNA", "GTR", "M1"]), sp, pn, sp, sp, ("," + sp).join(ts)) for pn, ts in lines)
                fl = ["--partition", "part.txt"]
                if rng.random() < 0.6:
                    fl = rng.choice([fl + ["-o", rng.choice(["out_", "x."])], ["-o", "o"] + fl])
                yield Case("cli_libf", [st, "part.txt=" + txt, "split"] + fl, True, "cli-split")
            elif w == "extract":
                # `extract --coordinates <file>`: genes of 1-3 blocks (any order, overlapping), on the alignment or on
                # an ungapped reference row, either strand, translated or not; tab-separated or GFF annotation;
                # boundary blocks (touching / beyond the end, empty, reversed) and malformed files now and then
                k = rng.random()
                if k < 0.15:
                    pool = "ARNDCQEGHILKMFPSTWYV-"       # a protein alignment: never translated, no reverse strand
                elif k < 0.55:
                    pool = "ACGT" + "-" * rng.choice([0, 2, 6])
                else:
                    pool = "ACGTacgtNRY-"
                er = [(nm, "".join(rng.choice(pool) for _ in range(L))) for nm, _ in rows]
                if k < 0.15:
                    er[0] = (er[0][0], er[0][1][:-1] + rng.choice("EFILPQ"))
                names = [r[0] for r in er]
                fl = []
                ref = None
                if rng.random() < 0.45:
                    ref = rng.choice(names) if rng.random() < 0.88 else rng.choice(["nope", "none"])
                    fl += ["--ref-seq", ref]
                refrow = dict(er).get(ref)
                top = L if refrow is None else max(1, sum(1 for c in refrow if c != "-"))

                def block():
                    q = rng.random()
                    if q < 0.03:
                        return rng.choice([(-1, 1), (0, L + 1), (top, top), (top - 1, top + 1), (2, 1), (L, L), (0, 0)])
                    if q < 0.2:
                        return rng.choice([(0, top), (0, 1), (max(0, top - 1), top), (0, min(3, top))])
                    s = rng.randint(0, max(0, top - 1))
                    if rng.random() < 0.7:
                        e = min(top, s + 3 * rng.randint(1, 3))
                        if e <= s:
                            e = s + 1
                    else:
                        e = rng.randint(s + 1, max(s + 1, top))
                    return (s, e)
                genes = []
                for gi in range(rng.choice([0, 1, 1, 2, 2, 3, 4])):
                    bl = [block() for _ in range(rng.choice([1, 1, 1, 2, 2, 3]))]
                    genes.append((rng.choice(["orf1", "orf2", "g.3", "N_4", "S", "pol"]), bl, rng.choice([None, "+", "+", "-", "-", "."])))
                if rng.random() < 0.6:
                    fl += ["--translate", str(rng.choice([-1, 0, 0, 0, 1, 1, 2, 2, 3] if rng.random() < 0.5 else [0, 1, 2]))]
                if rng.random() < 0.3:
                    fl += ["--prefix", rng.choice(["p_", "x.", "a"])]
                if rng.random() < 0.3:
                    fl += ["--suffix", rng.choice(["_s", ".cds", "1"])]
                if rng.random() < 0.12:
                    fl += rng.choice([["-o", "."], ["--output", "."], ["-o", "."], ["-o", "sub"]])
                if rng.random() < 0.3:
                    # GFF: gene lines give the names of the ids, CDS lines the blocks (1-based, inclusive)
                    lines = []
                    ids = {}
                    for gi, (gname, bl, strand) in enumerate(genes):
                        gid = "gene%d" % gi if rng.random() < 0.8 else "gene0"
                        ids[gid] = gname
                        st = strand or "+"
                        lines.append("chr~src~gene~%d~%d~.~%s~.~ID=%s;Name=%s" % (min(b[0] for b in bl) + 1, max(b[1] for b in bl), st, gid, gname))
                        if rng.random() < 0.3:
                            lines.append("chr~src~mRNA~%d~%d~.~%s~.~ID=rna%d;Parent=%s" % (bl[0][0] + 1, bl[0][1], st, gi, gid))
                        cds = ["chr~src~CDS~%d~%d~.~%s~0~ID=cds%d;Parent=%s" % (s + 1, e, rng.choice([st, st, "+", "-"]), gi, gid) for s, e in bl]
                        if rng.random() < 0.2:
                            later = list(cds)
                            cds = []
                        else:
                            later = []
                        lines += cds
                        genes[gi] = (gname, bl, strand, later)
                    for g in genes:
                        lines += g[3]
                    q = rng.random()
                    if q < 0.05 and lines:
                        lines[rng.randrange(len(lines))] = "chr~src~CDS~1~2~.~+~0"                    # 8 columns
                    elif q < 0.1 and lines:
                        lines.append("chr~src~CDS~1~%s~.~+~0~Parent=%s" % (rng.choice(["x", "", "2"]), rng.choice(["nogene", "", "gene0"])))
                    elif q < 0.15 and lines:
                        lines.append("chr~src~%s~1~2~.~+~0~ID=a=b;Parent" % rng.choice(["CDS", "gene", "exon"]))
                    txt = "".join(l + "|" for l in lines)
                    fl.append("--gff")
                else:
                    lines = []
                    for gname, bl, strand in genes:
                        rngd = list(bl)
                        ln = "%s~%s~%s" % (",".join(str(b[0]) for b in rngd), ",".join(str(b[1]) for b in rngd), gname)
                        if strand:
                            ln += "~" + strand
                        lines.append(ln)
                    q = rng.random()
                    if q < 0.04 and lines:
                        lines[rng.randrange(len(lines))] = rng.choice(["0~1", "0,1~2~g", "a~2~g", "0~~g", "0~1~g~+~x", ""])
                    elif q < 0.08:
                        lines.append(rng.choice(["0~1", "0,1~2~g", "0~b~g", "~1~g"]))
                    txt = "".join(l + "|" for l in lines)
                    if lines and rng.random() < 0.15:
                        txt = txt[:-1]                       # last line without a newline
                cfile = "ann.txt"
                argv = ["extract", "--coordinates", cfile] + fl
                q = rng.random()
                if q < 0.03:
                    argv = ["extract"] + fl                                     # no annotation file: refused
                elif q < 0.06:
                    argv = ["extract", "--coordinates", "missing.txt"] + fl
                elif q < 0.4:
                    argv = ["extract"] + fl + ["--coordinates", cfile]
                yield Case("cli_libf", [esc(fasta(er)), cfile + "=" + txt, "extract"] + argv[1:], True,
                           "cli-extract" + ("-gff" if "--gff" in fl else "") + ("-ref" if ref else "") + ("-translate" if "--translate" in fl else ""))
            elif w == "pssm":
                # `compute pssm`: counts, the four normalisations and the logo, pseudo-counts (values a float64 holds
                # exactly), log2; 1-16 rows (sixteenths are ties of the three-decimal rounding), both alphabets,
                # characters outside the alphabet (gaps, N, lower case), columns of one character
                nr = rng.choice([1, 2, 3, 4, 5, 7, 8, 16, 16, 32])
                k = rng.random()
                if k < 0.25:
                    pools = ["ARNDCQEGHILKMFPSTWYV", "ARNDCQEGHILKMFPSTWYV-X", "AR", "L", "arndEFILPQ*"]
                else:
                    pools = ["ACGT", "ACGT", "ACGT-", "ACGTacgtN-", "A", "AC", "-", "ACGTRY", "AAAC", "GGGGGGGT"]
                cols = ["".join(rng.choice(c) for _ in range(nr)) for c in (rng.choice(pools) for _ in range(rng.randint(1, 12)))]
                if k < 0.25:
                    cols[0] = rng.choice("EFILPQ") + cols[0][1:]            # not a nucleotide alignment for the reader
                pr = [("s%d" % i, "".join(c[i] for c in cols)) for i in range(nr)]
                groups = []
                if rng.random() < 0.4:
                    groups.append([rng.choice(["-l", "--log"])])
                if rng.random() < 0.5:
                    groups.append([rng.choice(["-c", "--pseudo-counts"]), rng.choice(["0", "0.0", "1", "0.5", "0.25", "2", "1.5", "0.125", "3"])])
                if rng.random() < 0.85:
                    groups.append([rng.choice(["-n", "--normalization"]), str(rng.choice([0, 1, 1, 2, 2, 3, 3, 4, 4, 4] if rng.random() < 0.93 else [5, -1]))])
                rng.shuffle(groups)
                fl = [x for g in groups for x in g]
                yield Case("cli_lib", [esc(fasta(pr)), "compute", "pssm"] + fl, True, "cli-pssm")
            elif w == "summary":
                # `stats` without sub-command: length, rows, alleles per site (4 decimals), variable sites, character
                # table (6 decimals), alphabet; columns of gaps / specials only, mixed case, 1-16 rows, both alphabets
                nr = rng.choice([1, 2, 3, 4, 5, 7, 16])
                if rng.random() < 0.25:
                    pools = ["ARNDCQEGHILKMFPSTWYV", "ARNDCQEGHILKMFPSTWYV-X*", "AR", "-", "arndEFILPQ*", "EO", "J1"]
                else:
                    pools = ["ACGT", "ACGT-", "ACGTacgtN-", "A", "AC", "-", "-.*", "ACGTRY", "Aa", "*", "."]
                cols = ["".join(rng.choice(c) for _ in range(nr)) for c in (rng.choice(pools) for _ in range(rng.randint(1, 14)))]
                sr = [("s%d" % i, "".join(c[i] for c in cols)) for i in range(nr)]
                yield Case("cli_lib", [esc(fasta(sr)), "stats"], True, "cli-stats-summary")
            elif w == "divide":
                # `divide`: one file per alignment of a multi-alignment Phylip input (or of the single FASTA one), groups
                # of n rows numbered over all alignments, FASTA output forced, prefix; plain sequences with --unaligned
                from driver import multigen
                fl = []
                if rng.random() < 0.6:
                    fl += [rng.choice(["-o", "--output"]), rng.choice(["div", "out", "x.y", "a_b"])]
                if rng.random() < 0.5:
                    fl += ["--nb-sequences", str(rng.choice([0, 1, 2, 2, 3, 4, 7]))]
                if rng.random() < 0.35:
                    fl.append(rng.choice(["-f", "--out-fasta"]))
                k = rng.random()
                if k < 0.55:
                    names = ["n%d" % i for i in range(rng.randint(1, 6))]
                    als = multigen.alignments(rng, k=rng.randint(1, 4), names=names, alphabet=rng.choice(["ACGT", "ACGTacgtNRY", "ARNDCQEGHILKMFPSTWYV"]), lmin=1, lmax=70)
                    txt = "".join(multigen.phylip(a) for a in als)
                    q = rng.random()
                    if q < 0.08:
                        txt += " 2 3\nx  ACG\n"                     # a last alignment that ends too early
                    elif q < 0.12:
                        txt = ""
                    fl.append(rng.choice(["-p", "--phylip"]))
                    yield Case("cli_libf", [esc(txt), "_", "divide"] + fl, True, "cli-divide-phylip")
                elif k < 0.8:
                    yield Case("cli_libf", [st, "_", "divide"] + fl, True, "cli-divide-fasta")
                else:
                    sq = [("q%d" % i, "".join(rng.choice("ACGTN") for _ in range(rng.randint(1, 40)))) for i in range(rng.randint(1, 7))]
                    yield Case("cli_libf", [esc(fasta(sq)), "_", "divide", "--unaligned"] + fl, True, "cli-divide-unaligned")
            elif w == "reformat-paml":
                # `reformat paml` (write-only format): lengths around the line (60) and group (10) widths, 1-7 rows
                Lp = rng.choice([1, 9, 10, 11, 59, 60, 61, 119, 120, 121, 130, rng.randint(1, 200), rng.randint(1, 200)])
                pr = [("t%d" % i, "".join(rng.choice("ACGTacgtN-?*") for _ in range(Lp))) for i in range(rng.randint(1, 7))]
                if rng.random() < 0.08:
                    pr.append(("short", pr[0][1][:-1]))        # not an alignment: failing status
                yield Case("cli_lib", [esc(fasta(pr)), "reformat", "paml"], True, "cli-reformat-paml")
            elif w == "nalign-phylip":
                # `stats nalign -p`: the number of alignments of a Phylip input (1-5 alignments of their own dimensions and
                # row names, blank lines between them, a last one that ends too early)
                from driver import multigen
                als = []
                for _k in range(rng.randint(1, 5)):
                    names = ["n%d" % i for i in range(rng.randint(1, 6))]
                    als += multigen.alignments(rng, k=1, names=names, alphabet=rng.choice(["ACGT", "ACGTacgtNRY", "ARNDCQEGHILKMFPSTWYV"]), lmin=1, lmax=70)
                sep = rng.choice(["", "", "\n", "\n\n"])
                txt = sep.join(multigen.phylip(a) for a in als)
                if rng.random() < 0.12:
                    txt += rng.choice([" 2 3\nx  ACG\n", " 2 3\nx  ACG\ny  AC\n", " 1\n"])
                yield Case("cli_lib", [esc(txt), "stats", "nalign", rng.choice(["-p", "-p", "--phylip"])], True, "cli-stats-nalign-phylip")
            elif w == "identical":
                # `identical -c file`: the same rows in another order, a changed residue / case / name, a row more or less
                comp = list(rows)
                k = rng.random()
                if k < 0.35:
                    rng.shuffle(comp)
                elif k < 0.5:
                    i = rng.randrange(n)
                    j = rng.randrange(L)
                    c = comp[i][1][j]
                    comp[i] = (comp[i][0], comp[i][1][:j] + rng.choice([c.swapcase(), "A" if c != "A" else "C", "-" if c != "-" else "N"]) + comp[i][1][j + 1:])
                elif k < 0.6:
                    i = rng.randrange(n)
                    comp[i] = (comp[i][0] + rng.choice(["x", "_"]), comp[i][1])
                elif k < 0.7:
                    comp.append(("more", comp[0][1]))
                elif k < 0.8 and n > 1:
                    comp.pop(rng.randrange(n))
                elif k < 0.85:
                    comp = [(nm, sq + "A") for nm, sq in comp]
                elif k < 0.9:
                    comp[0] = (comp[0][0], comp[0][1] + "A")            # not an alignment (when there is another row)
                elif k < 0.93:
                    i, j = rng.randrange(n), rng.randrange(n)
                    comp[i] = (comp[j][0], comp[i][1])                  # a name twice (when i != j)
                cfile = rng.choice(["c.fa", "other.fasta", "none.fa"])
                argv = ["identical", rng.choice(["-c", "--compared"]), cfile if rng.random() < 0.95 else "missing.fa"]
                yield Case("cli_libf", [st, cfile + "=" + esc(fasta(comp))] + argv, True, "cli-identical")
            elif w == "consensus":
                fl = [f for f in ("--ignore-gaps", "--ignore-n") if rng.random() < 0.4]
                yield Case("cli_lib", [st, "consensus"] + fl, True, "cli-consensus")
            elif w == "mask":
                fl = []
                rep = rng.choice([None, "AMBIG", "GAP", "MAJ", "X", "n"])
                if rep:
                    fl += ["--replace", rep]
                if rng.random() < 0.3:
                    fl.append("--no-gaps")
                yield Case("cli_lib", [st, "mask", "-s", str(rng.randint(0, L)), "-l", str(rng.randint(0, L + 1))] + fl, True, "cli-mask")
                fl = []
                if rng.random() < 0.5:
                    fl += ["--at-most", str(rng.randint(0, 3))]
                if rep:
                    fl += ["--replace", rep]
                yield Case("cli_lib", [st, "mask", "--unique"] + fl, True, "cli-mask-unique")
                # every other way of addressing the sites: positions, windows on a reference sequence, protection flags
                names = [r[0] for r in rows]
                fl = []
                if rep:
                    fl += ["--replace", rep]
                ref = rng.choice(names + ["nope"]) if rng.random() < 0.6 else None
                if ref:
                    fl += ["--ref-seq", ref]
                    if rng.random() < 0.6:
                        fl.append("--no-ref")
                if rng.random() < 0.4:
                    fl.append("--no-gaps")
                k = rng.random()
                if k < 0.4:
                    fl += ["--pos", ",".join(str(rng.randint(0, L)) for _ in range(rng.randint(1, 4)))]
                elif k < 0.8:
                    fl += ["-s", str(rng.randint(0, L)), "-l", str(rng.randint(1, L + 1))]
                elif k < 0.9:
                    fl += ["-l", str(rng.randint(1, 12))]
                yield Case("cli_lib", [st, "mask"] + fl, True, "cli-mask-general")
                if ref and ref != "nope":
                    yield Case("cli_lib", [st, "mask", "--unique", "--ref-seq", ref] + (["--at-most", str(rng.randint(0, 3))] if rng.random() < 0.5 else []), True, "cli-mask-unique-ref")
                # positions on a reference that has gap columns between its residues: runs of consecutive positions, the same
                # position twice, descending lists - only the columns carrying the listed reference residues may change
                if L >= 4:
                    gl = list(rows[0][1].replace("-", "A"))
                    for j in rng.sample(range(1, L - 1), rng.randint(1, max(1, (L - 2) // 2))):
                        gl[j] = "-"
                    rows2 = [(rows[0][0], "".join(gl))] + rows[1:]
                    nres = sum(1 for ch in gl if ch != "-")
                    p0 = rng.randint(0, max(0, nres - 2))
                    lists = [[p0, p0 + 1], [p0, p0 + 1, p0 + 2], [p0 + 1, p0], [p0, p0], [0, nres - 1], [rng.randint(0, nres) for _ in range(3)]]
                    fl2 = ["--ref-seq", rows[0][0], "--pos", ",".join(map(str, rng.choice(lists)))]
                    if rng.random() < 0.3:
                        fl2.append("--no-ref")
                    if rng.random() < 0.3:
                        fl2.append("--no-gaps")
                    yield Case("cli_lib", [esc(fasta(rows2)), "mask"] + fl2 + (["--replace", rep] if rep else []), True, "cli-mask-pos-gapped-ref")
            elif w == "dedup":
                rr = rows + [("d%d" % i, rng.choice(rows)[1]) for i in range(rng.randint(0, 3))]
                if rng.random() < 0.5 and rr:
                    k = rng.randrange(len(rr))
                    rr.append(("g", rr[k][1].replace("N", "-")))
                rng.shuffle(rr)
                yield Case("cli_lib", [esc(fasta(rr)), "dedup"] + (["--n-as-gap"] if rng.random() < 0.5 else []), True, "cli-dedup")
                cols = [rng.choice(["A" * n, "C" * n, "".join(rng.choice("ACGT-") for _ in range(n))]) for _ in range(L)]
                cr = [("s%d" % i, "".join(c[i] for c in cols)) for i in range(n)]
                yield Case("cli_lib", [esc(fasta(cr)), "compress"], True, "cli-compress")
            elif w == "dedup-files":
                # the files next to the alignment: groups of identical rows (`dedup -l`), pattern weights (`compress --weight-out`)
                rr = rows + [("d%d" % i, rng.choice(rows)[1]) for i in range(rng.randint(0, 4))]
                if rng.random() < 0.5:
                    k = rng.randrange(len(rr))
                    rr.append(("g", rr[k][1].replace("N", "-")))
                rng.shuffle(rr)
                nag = ["--n-as-gap"] if rng.random() < 0.5 else []
                if rng.random() < 0.5:
                    argv = ["dedup", "-l", "log.txt"] + nag
                else:
                    argv = ["dedup"] + nag + ["-l", "log.txt"]
                yield Case("cli_libf", [esc(fasta(rr)), "_"] + argv, True, "cli-dedup-log")
                cols = [rng.choice(["A" * n, "C" * n, "".join(rng.choice("ACGT-") for _ in range(n))]) for _ in range(L)]
                cols += [rng.choice(cols) for _ in range(rng.randint(0, 6))]
                cr = [("s%d" % i, "".join(c[i] for c in cols)) for i in range(n)]
                yield Case("cli_libf", [esc(fasta(cr)), "_", "compress", "--weight-out", "w.txt"], True, "cli-compress-weights")
            elif w == "sort":
                rr = list(rows)
                rng.shuffle(rr)
                yield Case("cli_lib", [esc(fasta([("%s%s" % (rng.choice("bAaZ_"), nm), s) for nm, s in rr])), "sort"], True, "cli-sort")
            elif w == "translate":
                fl = []
                if rng.random() < 0.6:
                    fl += ["--phase", str(rng.randint(0, 2))]
                if rng.random() < 0.5:
                    fl += ["--genetic-code", rng.choice(["standard", "mitov", "mitoi"])]
                nt = [(nm, "".join(rng.choice("ACGTacgtN-") for _ in range(L))) for nm, _ in rows]
                yield Case("cli_lib", [esc(fasta(nt)), "translate"] + fl, True, "cli-translate")
            elif w == "codonalign":
                # protein rows that the reader cannot take for nucleotides (E, F, I, L, P, Q are not IUPAC codes),
                # and for each one its coding sequence: complete, with 1-2 more nucleotides, too short, too long, absent
                aa = "ARNDCQEGHILKMFPSTWYV"
                pr = []
                for nm, _ in rows:
                    sq = [rng.choice(aa + "---") for _ in range(L)]
                    sq[rng.randrange(L)] = rng.choice("EFILPQ")
                    pr.append((nm, "".join(sq)))
                k = rng.random()
                nts = []
                for nm, sq in pr:
                    need = 3 * sum(1 for c in sq if c != "-")
                    extra = rng.choice([0, 0, 1, 2])
                    if k < 0.1:
                        extra = rng.choice([-3, -1, 3, 4])
                    nts.append((nm, "".join(rng.choice("ACGTacgtN") for _ in range(max(0, need + extra)))))
                if 0.1 <= k < 0.2 and len(nts) > 1:
                    nts.pop(rng.randrange(len(nts)))
                elif 0.2 <= k < 0.25:
                    nts[0] = (nts[0][0], "".join(rng.choice("EFILPQ") for _ in nts[0][1]) or "E")    # not nucleotides
                elif 0.25 <= k < 0.3:
                    pr = [(nm, "".join(rng.choice("ACGT-") for _ in sq)) for nm, sq in pr]               # not a protein alignment
                nts.append(("other", "ACGTAC"))
                rng.shuffle(nts)
                nts = [(nm, sq) for nm, sq in nts if sq]
                yield Case("cli_libf", [esc(fasta(pr)), "nt.fa=" + esc(fasta(nts)), "codonalign", "-f", "nt.fa"], True, "cli-codonalign")
            elif w == "trim":
                yield Case("cli_lib", [st, "trim", "seq", "-n", str(rng.choice([-1, 0, 1, 2, L - 1, L, L + 1]))] + (["-s"] if rng.random() < 0.5 else []), True, "cli-trim-seq")
                if rng.random() < 0.3:
                    yield Case("cli_lib", [st, "trim", "seq"], True, "cli-trim-seq-default")
                long_rows = [("%s%s" % (rng.choice(["name_", "x:y_", "Seq", "abcdefgh"]), nm), sq) for nm, sq in rows]
                sl = esc(fasta(long_rows))
                nn = str(rng.choice([1, 2, 3, 4, 5, 6, 10]))
                yield Case("cli_lib", [sl, "trim", "name", "-n", nn], True, "cli-trim-name")
                yield Case("cli_lib", [sl, "trim", "name", "-a"], True, "cli-trim-name-auto")
                # --unaligned: plain sequences of their own lengths, read into a sequence bag
                ur = [(nm, sq[:rng.randint(1, len(sq))]) for nm, sq in long_rows]
                su = esc(fasta(ur))
                ufl = rng.choice([["-n", nn], ["-a"], ["-a", "-n", nn], []])
                ufl = rng.choice([["--unaligned"] + ufl, ufl + ["--unaligned"]])
                yield Case("cli_lib", [su, "trim", "name"] + ufl, True, "cli-trim-name-unaligned")
                yield Case("cli_libf", [su, "_", "trim", "name", "-m", "map.txt"] + ufl, True, "cli-trim-name-unaligned-map")
                yield Case("cli_libf", [sl, "_", "trim", "name", "-m", "map.txt", "-n", nn], True, "cli-trim-name-map")
                yield Case("cli_libf", [sl, "_", "trim", "name", "-m", "map.txt", "-a"], True, "cli-trim-name-auto-map")
            elif w == "subset":
                big = rows + [("x%d" % i, rows[0][1]) for i in range(rng.choice([0, 0, 8, 12]))]
                sb = esc(fasta(big))
                names = [r[0] for r in big]
                pick = rng.sample(names, rng.randint(1, min(4, len(names)))) + (["nope"] if rng.random() < 0.3 else [])
                rv = ["-r"] if rng.random() < 0.4 else []
                yield Case("cli_lib", [sb, "subset"] + pick + rv, True, "cli-subset-names")
                idx = [str(i) for i in rng.sample(range(len(big) + 2), rng.randint(1, min(4, len(big))))]
                yield Case("cli_lib", [sb, "subset", "--indices"] + idx + rv, True, "cli-subset-indices")
                # `subset -e`: the arguments are regular expressions (modelled subset), a row is kept when one matches;
                # together with `--indices` (integers are converted first); an expression that does not compile
                pats = []
                for _ in range(rng.randint(1, 3)):
                    k = rng.random()
                    pats.append(rng.choice(RE_BAD) if k < 0.05 else rng.choice(["^s[0-2]$", "x", "^x1", "1$", "[3-5]", "s1.*", "^s", "x[0-9][0-9]", "(s|x)", "^.1$", "0", "12"]) if k < 0.6
                                else rand_regex(rng, "sx0123456789", 3))
                pats = [q for q in pats if q and not q.startswith("-")]
                if pats:
                    fl = [rng.choice(["-e", "--regexp"])] + pats + rv
                    if rng.random() < 0.15:
                        fl.append("--indices")
                    if rng.random() < 0.3:
                        rng.shuffle(fl)
                    yield Case("cli_lib", [sb, "subset"] + fl, True, "cli-subset-regexp")
                # `subset -f <file>`: names / indices / expressions read from a file, one per line and / or comma separated
                # (the names on the command line are then ignored); an absent file; an empty line with `--indices`
                k = rng.random()
                if k < 0.5:
                    items, fl = rng.sample(names, rng.randint(1, min(4, len(names)))) + (["nope"] if rng.random() < 0.3 else []), []
                elif k < 0.75:
                    items, fl = [str(i) for i in rng.sample(range(len(big) + 2), rng.randint(1, min(4, len(big))))] + (["-1"] if rng.random() < 0.1 else []), ["--indices"]
                else:
                    items, fl = [rng.choice(["^s[0-2]$", "x", "^x1", "1$", "[3-5]", "s1.*", "^s", "0", "(", "x[0-9][0-9]"]) for _ in range(rng.randint(1, 2))], [rng.choice(["-e", "--regexp"])]
                txt = ""
                for j, it in enumerate(items):
                    txt += it + (rng.choice([",", "|"]) if j + 1 < len(items) else rng.choice(["", "|", "|"]))
                if rng.random() < 0.06:
                    txt += "|"
                fl = fl + rv + [rng.choice(["-f", "--name-file"]), "names.txt" if rng.random() < 0.95 else "absent.txt"]
                if rng.random() < 0.3:
                    rng.shuffle(fl)
                    fl = [x for x in fl if x not in ("names.txt", "absent.txt")]
                    i = max(fl.index(x) for x in fl if x in ("-f", "--name-file"))
                    fl.insert(i + 1, "names.txt")
                if rng.random() < 0.3:
                    fl = [rng.choice(names)] + fl
                yield Case("cli_libf", [sb, "names.txt=" + txt, "subset"] + fl, True, "cli-subset-file" + ("".join(x for x in fl if x in ("--indices",)) or ""))
            elif w == "rename":
                odd = [("%s%s" % (rng.choice(["a b", "x(1)", "t;u", "p:q", "n,m", "[k]", "ok"]), nm), sq) for nm, sq in rows]
                yield Case("cli_lib", [esc(fasta(odd)), "rename", "--clean-names"], True, "cli-rename-clean")
                names = [r[0] for r in rows]
                keys = rng.sample(names + ["nope"], rng.randint(1, len(names)))
                tg = ["N%d" % i for i in range(len(keys))]
                if rng.random() < 0.3 and len(names) > 1:
                    tg[0] = rng.choice(names)      # renamed onto an existing name
                rev = rng.random() < 0.4
                mp = "|".join(("%s~%s" % (b, a)) if rev else ("%s~%s" % (a, b)) for a, b in zip(keys, tg)) + "|"
                yield Case("cli_libf", [st, "m.txt=" + mp, "rename", "-m", "m.txt"] + (["-r"] if rev else []), True, "cli-rename-map")
                # `rename -e <regexp> -b <replacement> [-m <map file>]`: expressions of the modelled subset of Go's regexp,
                # every template form; an expression that does not compile; `-e` without `-b`; names made equal
                k = rng.random()
                pat = rng.choice(RE_BAD) if k < 0.06 else rng.choice(["s", "^s", "[0-9]+$", "s([0-9]+)", "^(.)", "(s)", ".", "[0-9]", "\\d+", "^s[0-3]$"]) if k < 0.4 else rand_regex(rng, "s0123456789")
                tm = rng.choice(RE_TEMPLATES) if rng.random() < 0.7 else rng.choice(["X", "n_$1", "${1}_x", "t$0"])
                e = rng.choice(["-e", "--regexp"])
                b = rng.choice(["-b", "--replace"])
                groups = [[e, pat], [b, tm]]
                q = rng.random()
                if q < 0.06:
                    groups = [[e, pat]]
                withmap = rng.random() < 0.5
                if withmap:
                    groups.append([rng.choice(["-m", "--map-file"]), rng.choice(["map.txt", "m.tsv"])])
                rng.shuffle(groups)
                fl = [x for g in groups for x in g]
                if not any(x.startswith("-") and x not in ("-e", "-b", "-m", "--regexp", "--replace", "--map-file") for x in fl) and "" not in fl:
                    if withmap:
                        yield Case("cli_libf", [st, "_", "rename"] + fl, True, "cli-rename-regexp-map")
                    else:
                        yield Case("cli_lib", [st, "rename"] + fl, True, "cli-rename-regexp")
            elif w == "replace":
                o = rng.choice(["A", "AC", "-", "N", "a", "GT", "--"])
                nw = rng.choice(["T", "GG", "-", "N", "tt", "--"])
                if len(o) != len(nw) and rng.random() < 0.7:
                    nw = (nw * 2)[:len(o)]
                yield Case("cli_lib", [st, "replace", "-s", o, "-n", nw], True, "cli-replace")
                # `replace -e`: `--old` a regular expression of the modelled subset, `--new` a template; replacements that keep
                # the length (a class for a character, `$0`, `$1` of a whole-match group) and ones that do not (refused);
                # flags short or long, in any order; `--old` or `--new` left out (refused)
                k = rng.random()
                if k < 0.45:
                    pat, tm = rng.choice([("[acgt]", "N"), ("[^ACGT-]", "N"), ("N", "-"), ("^-", "N"), ("-$", "N"), (".", "X"), ("(.)", "$1"), ("([ACGT])", "${1}"), ("[RY]", "$0"),
                                          ("A[CG]", "NN"), ("^(..)", "$1"), ("-+", "-"), ("^-+", "N"), ("[a-z]", "$0"), ("\\.", "-"), ("A+", "A")])
                elif k < 0.5:
                    pat, tm = rng.choice(RE_BAD), "N"
                else:
                    pat, tm = rand_regex(rng, "ACGTN-acgt", 3), rng.choice(["N", "-", "$0", "$1", "NN", "", "${1}", "x$1y", "$"])
                groups = [[rng.choice(["-e", "--regexp"])], [rng.choice(["-s", "--old"]), pat], [rng.choice(["-n", "--new"]), tm]]
                q = rng.random()
                if q < 0.08:
                    groups.pop(rng.choice([1, 2]))
                elif q < 0.2:
                    groups.pop(0)                               # the same strings taken literally
                rng.shuffle(groups)
                fl = [x for g in groups for x in g]
                if "" not in fl and not tm.startswith("-") and not pat.startswith("-"):
                    yield Case("cli_lib", [st, "replace"] + fl, True, "cli-replace-regexp" if q >= 0.2 or q < 0.08 else "cli-replace-flags")
            elif w == "replace-file":
                # `replace -f <file>`: name, site, character per line; comments; further columns; malformed lines, sites outside,
                # absent names, an absent file
                names = [r[0] for r in rows]
                lines = []
                for _ in range(rng.randint(0, 5)):
                    nm = rng.choice(names) if rng.random() < 0.95 else "nope"
                    site = str(rng.randint(0, L - 1)) if rng.random() < 0.93 else rng.choice(["-1", str(L), "x", ""])
                    ch = rng.choice(["A", "N", "-", "t", "XY", "*"])
                    ln = "%s~%s~%s" % (nm, site, ch)
                    if rng.random() < 0.1:
                        ln += "~comment"
                    if rng.random() < 0.04:
                        ln = rng.choice(["%s~%s" % (nm, site), nm, ""])
                    lines.append(ln)
                    if rng.random() < 0.15:
                        lines.append("#" + rng.choice(["", " a comment", "s0~0~A"]))
                txt = "".join(l + "|" for l in lines)
                if lines and rng.random() < 0.15:
                    txt = txt[:-1]
                yield Case("cli_libf", [st, "pos.txt=" + txt, "replace", rng.choice(["-f", "--posfile"]), "pos.txt" if rng.random() < 0.95 else "absent.txt"], True, "cli-replace-posfile")
            elif w == "concat":
                names = [r[0] for r in rows]
                L2 = rng.randint(1, 8)
                on = rng.sample(names, rng.randint(0, len(names))) + (["extra"] if rng.random() < 0.5 else [])
                rng.shuffle(on)
                if on:
                    other = [(nm, "".join(rng.choice(SYM) for _ in range(L2))) for nm in on]
                    fl = ["-l", "log.txt"] if rng.random() < 0.5 else []
                    yield Case("cli_libf", [st, "o.fa=" + esc(fasta(other)), "concat", "o.fa"] + fl, True, "cli-concat")
                ap = [(rng.choice(names + ["n1", "n2", "n3"]), "".join(rng.choice(SYM) for _ in range(rng.choice([L, L, L, L + 1])))) for _ in range(rng.randint(1, 3))]
                yield Case("cli_libf", [st, "o.fa=" + esc(fasta(ap)), "append", "o.fa"], True, "cli-append")
                # several files: `concat a.fa b.fa c.fa [-l log]` (also without stdin: `-i none`), `append a.fa b.fa`
                k = rng.randint(2, 3)
                fns = ["a.fa", "b.fasta", "c_3.fa"][:k]
                parts = []
                for fn in fns:
                    Lk = rng.randint(1, 6)
                    on = rng.sample(names, rng.randint(1, len(names))) + (["extra"] if rng.random() < 0.4 else []) + (["e2"] if rng.random() < 0.2 else [])
                    rng.shuffle(on)
                    parts.append((fn, [(nm, "".join(rng.choice(SYM) for _ in range(Lk))) for nm in on]))
                if rng.random() < 0.07:
                    fn, pr = parts[-1]
                    parts[-1] = (fn, pr + [("ragged", pr[0][1] + "A")])                  # not an alignment
                spec = ";;".join("%s=%s" % (fn, esc(fasta(pr))) for fn, pr in parts)
                order = list(fns)
                if rng.random() < 0.3:
                    rng.shuffle(order)
                if rng.random() < 0.1:
                    order.append(order[0])                                              # a file twice
                fl = list(order)
                if rng.random() < 0.6:
                    lg = [rng.choice(["-l", "--log"]), "log.txt"]
                    fl = rng.choice([lg + fl, fl + lg, fl[:1] + lg + fl[1:]])
                if rng.random() < 0.3:
                    fl = ["-i", "none"] + fl
                if rng.random() < 0.05:
                    fl.append("absent.fa")
                yield Case("cli_libf", [st, spec, "concat"] + fl, True, "cli-concat-multi" + ("-nostdin" if "-i" in fl else ""))
                aparts = []
                for fn in fns:
                    aparts.append((fn, [(rng.choice(names + ["n1", "n2", "n3", "n4", "n5"]), "".join(rng.choice(SYM) for _ in range(rng.choice([L, L, L, L, L, L + 1])))) for _ in range(rng.randint(1, 3))]))
                aspec = ";;".join("%s=%s" % (fn, esc(fasta(pr))) for fn, pr in aparts)
                yield Case("cli_libf", [st, aspec, "append"] + order + (["absent.fa"] if rng.random() < 0.04 else []), True, "cli-append-multi")
            elif w == "sort-more":
                rr = list(rows)
                rng.shuffle(rr)
                rr = [("%s%s" % (rng.choice("bAaZ_"), nm), s) for nm, s in rr]
                yield Case("cli_libf", [esc(fasta(rr)), "_", "sort", "-o", rng.choice(["sorted.fa", "out.txt"])], True, "cli-sort-output")
                sq = [(nm, s[:rng.randint(1, len(s))]) for nm, s in rr]
                yield Case("cli_lib", [esc(fasta(sq)), "sort", "--unaligned"], True, "cli-sort-unaligned")
            elif w == "cleanseqs":
                cut = rng.choice(["0", "0.25", "0.5", "0.75", "1", "0.1", "0.3"])
                fl = []
                ch = rng.choice(["GAP", "GAP", "N", "A", "-", "n", "R"])
                if ch != "GAP":
                    fl += ["--char", ch]
                if ch not in ("GAP", "-") and rng.random() < 0.3:
                    fl.append("--ignore-gaps")
                if ch not in ("N", "n") and rng.random() < 0.3:
                    fl.append("--ignore-n")
                if ch not in ("GAP", "-") and rng.random() < 0.3:
                    fl.append("--ignore-case")
                yield Case("cli_lib", [st, "clean", "seqs", "-c", cut] + fl, True, "cli-clean-seqs")
            elif w == "gapstats":
                gr = [(nm, "".join(rng.choice("ACGT-" + "-" * rng.choice([0, 4])) for _ in range(L))) for nm, _ in rows]
                sg = esc(fasta(gr))
                for f in ("--from-start", "--from-end", "--openning", "--unique"):
                    yield Case("cli_lib", [sg, "stats", "gaps", f], True, "cli-stats-gaps" + f)
            elif w == "charstats":
                # `stats char`: the table of all characters, per sequence, per site; `--only` one character
                pool = rng.choice(["ACGT", "ACGTacgt-", "ACGTNn-", "AC-", "ACGTRYKM*.?", "ARNDCQEGHILKMFPSTWYV-", "ARNDarndXx*"])
                cr = [(nm, "".join(rng.choice(pool) for _ in range(L))) for nm, _ in rows]
                sc = esc(fasta(cr))
                present = sorted(set("".join(sq for _, sq in cr)))
                for mode in ([], ["--per-sequences"], ["--per-sites"], ["--per-sites", "--per-sequences"]):
                    fl = list(mode)
                    k = rng.random()
                    if k < 0.4:
                        fl += ["--only", rng.choice(present)]
                    elif k < 0.6:
                        # a character that does not occur (as it is written): a line / column of zeros (with --per-sites
                        # the binary printed `site000|100|…` - no header line, no separator - until /repo f166558)
                        fl += ["--only", rng.choice([c for c in "ACGTNXacgtnx-*Z" if c not in present])]
                    elif k < 0.65:
                        fl += ["--only", "*"]
                    yield Case("cli_lib", [sc, "stats", "char"] + fl, True, "cli-stats-char" + "".join(mode))
            elif w == "alleles":
                cols = ["".join(rng.choice(c) for _ in range(n)) for c in (rng.choice(["A", "AC", "ACGT-", "-", "*", "AC-", "N.", "ac", "-.*", "ACGTacgtRY"]) for _ in range(L))]
                er = [("s%d" % i, "".join(c[i] for c in cols)) for i in range(n)]
                yield Case("cli_lib", [esc(fasta(er)), "stats", "alleles"], True, "cli-stats-alleles")
            elif w == "alphabet":
                pool = rng.choice(["ACGT-", "ACGTacgtNRYKMSWBDHV-", "ARNDCQEGHILKMFPSTWYV-", "arndcqeghilkmfpstwyvX*-", "ACGT1", "ARNDJ-", "ACGU", "EFILPQ", "-", "ACGTO", "N-", "X-", "ACGTE"])
                ar = [(nm, "".join(rng.choice(pool) for _ in range(L))) for nm, _ in rows]
                yield Case("cli_lib", [esc(fasta(ar)), "stats", "alphabet"], True, "cli-stats-alphabet")
            elif w == "mutstats":
                base = "".join(rng.choice("ACGT") for _ in range(L))
                mr = [(nm, "".join(rng.choice("ACGTNRY-") if rng.random() < 0.25 else b for b in base)) for nm, _ in rows]
                sm = esc(fasta(mr))
                yield Case("cli_lib", [sm, "stats", "mutations", "--unique"], True, "cli-stats-mutations-unique")
                yield Case("cli_lib", [sm, "stats", "mutations", "--ref-sequence", rng.choice(mr)[0]], True, "cli-stats-mutations-ref")
            elif w == "mutlist":
                # `stats mutations list [--aa]`: rows derived from a base sequence (substitutions, IUPAC codes, residues facing
                # reference gaps, deleted stretches); the reference given by the name of a row (any row, not only the first),
                # by the name of a FASTA file of the working directory (its first sequence), by a name that is neither, or
                # not at all (the default `none`: refused); `--ref-sequence` in front of or behind the sub-command; a
                # protein alignment (no `--aa` there); a Phylip input with several alignments (the first one is read)
                def derived(base, names, sym):
                    out = []
                    for nm in names:
                        sq = [(rng.choice(sym) if rng.random() < 0.25 else b) for b in base]
                        if rng.random() < 0.5:
                            a = rng.randrange(len(sq))
                            for j in range(a, min(len(sq), a + rng.choice([1, 2, 3, 3, 6]))):
                                sq[j] = "-"
                        out.append((nm, "".join(sq)))
                    return out
                names = [r[0] for r in rows]
                prot = rng.random() < 0.15
                if prot:
                    base = "".join(rng.choice("ARNDEFILPQ") for _ in range(L))
                    mr = [(nm, sq[:-1] + rng.choice("EFILPQ")) for nm, sq in derived(base, names, "ARNDEQX-")]
                else:
                    base = "".join(rng.choice("ACGT") for _ in range(L))
                    mr = derived(base, names, "ACGTNRYacgt-")
                sm = esc(fasta(mr))
                aa = ["--aa"] if rng.random() < (0.1 if prot else 0.6) else []
                k = rng.random()
                if k < 0.55:
                    rf = ["--ref-sequence", rng.choice(names)]
                    argv = rng.choice([["stats", "mutations", "list"] + aa + rf, ["stats", "mutations"] + rf + ["list"] + aa,
                                       ["stats", "mutations", "list"] + rf + aa])
                    yield Case("cli_lib", [sm] + argv, True, "cli-mutlist-name" + "".join(aa))
                elif k < 0.65:
                    yield Case("cli_lib", [sm, "stats", "mutations", "list"] + aa, True, "cli-mutlist-noref")
                elif k < 0.75:
                    yield Case("cli_libf", [sm, "_", "stats", "mutations", "list"] + aa + ["--ref-sequence", "nope"], True, "cli-mutlist-absent")
                elif k < 0.9:
                    Lr = L if rng.random() < 0.85 else L + rng.choice([-1, 1])
                    fr = [("r%d" % i, "".join(rng.choice(base[j % L] + "ACGT-") if not prot else rng.choice(base[j % L] + "AR-") for j in range(max(1, Lr)))) for i in range(rng.randint(1, 2))]
                    fr = [] if rng.random() < 0.07 else fr
                    argv = rng.choice([["stats", "mutations", "list"] + aa + ["--ref-sequence", "ref.fa"], ["stats", "mutations", "--ref-sequence", "ref.fa", "list"] + aa])
                    yield Case("cli_libf", [sm, "ref.fa=" + esc(fasta(fr))] + argv, True, "cli-mutlist-file" + "".join(aa))
                else:
                    als = [mr] + [derived("".join(rng.choice("ACGT") for _ in range(rng.randint(3, 12))), names, "ACGT-") for _ in range(rng.randint(1, 2))]
                    txt = "".join(" %d %d\n" % (len(a), len(a[0][1])) + "".join("%s  %s\n" % r for r in a) for a in als)
                    if not prot and all(set(sq) != {"-"} for sq in [r[1] for a in als for r in a]):
                        yield Case("cli_lib", [esc(txt), "stats", "mutations", "list"] + aa + ["--ref-sequence", rng.choice(names), "-p"], True, "cli-mutlist-multi" + "".join(aa))
            elif w == "mutcount":
                # `stats mutations`: both flags together (the reference has priority), neither (refused), a reference read
                # from a FASTA file (its first sequence; every row is counted), a name that is neither a row nor a file,
                # a reference of another length, a protein alignment
                names = [r[0] for r in rows]
                prot = rng.random() < 0.2
                sym, amb = ("ARNDEFILPQ", "ARNDEQX-") if prot else ("ACGT", "ACGTNRYacgt-")
                base = "".join(rng.choice(sym) for _ in range(L))
                mr = [(nm, "".join(rng.choice(amb) if rng.random() < 0.25 else b for b in base)) for nm in names]
                if prot:
                    mr = [(nm, sq[:-1] + rng.choice("EFILPQ")) for nm, sq in mr]
                sm = esc(fasta(mr))
                k = rng.random()
                if k < 0.25:
                    nm = rng.choice(names)
                    fl = rng.choice([["--unique", "--ref-sequence", nm], ["--ref-sequence", nm, "--unique"]])
                    yield Case("cli_lib", [sm, "stats", "mutations"] + fl, True, "cli-mutcount-both")
                elif k < 0.35:
                    yield Case("cli_lib", [sm, "stats", "mutations"], True, "cli-mutcount-noflag")
                elif k < 0.5:
                    yield Case("cli_lib", [sm, "stats", "mutations", "--unique"], True, "cli-mutcount-unique")
                elif k < 0.6:
                    yield Case("cli_libf", [sm, "_", "stats", "mutations", "--ref-sequence", "nope"], True, "cli-mutcount-absent")
                else:
                    Lr = L if rng.random() < 0.85 else L + rng.choice([-1, 1])
                    fr = [("r%d" % i, "".join(rng.choice(base[j % L] + (amb if not prot else "AR-")) for j in range(max(1, Lr)))) for i in range(rng.randint(1, 2))]
                    fr = [] if rng.random() < 0.07 else fr
                    yield Case("cli_libf", [sm, "ref.fa=" + esc(fasta(fr)), "stats", "mutations", "--ref-sequence", "ref.fa"] + (["--unique"] if rng.random() < 0.3 else []), True, "cli-mutcount-file")
            elif w in ("perseq", "gapsprof", "mutsprof"):
                # `stats --per-sequences [--ref-sequence <row or file>] [--count-profile <file>]` (the per-sequence table),
                # `stats gaps … --count-profile`, `stats mutations … --count-profile`.  Rows derived from a base sequence
                # (substitutions, IUPAC codes, mixed case, gap stretches incl. at both ends); the profile file holds the
                # per-site counts of another alignment derived from the same base - of the same length, one site longer
                # or shorter, with a line that misses a count / has one too many, a field that is no integer, signed
                # counts, a character name of two bytes, no character at all, no final newline, empty, absent
                names = [r[0] for r in rows]
                prot = rng.random() < 0.2
                sym, amb = ("ARNDEFILPQ", "ARNDEQXx-") if prot else ("ACGT", "ACGTNRYacgtn-")
                base = "".join(rng.choice(sym) for _ in range(L))

                def derive(bs, nms):
                    out = []
                    for nm in nms:
                        sq = [(rng.choice(amb) if rng.random() < 0.25 else b) for b in bs]
                        for _ in range(rng.choice([0, 0, 1, 2])):
                            a = rng.choice([0, 0, rng.randrange(len(sq)), len(sq) - 1])
                            ln = rng.choice([1, 2, 3])
                            lo = max(0, a - ln + 1) if a == len(sq) - 1 else a
                            for j in range(lo, min(len(sq), lo + ln)):
                                sq[j] = "-"
                        out.append((nm, "".join(sq)))
                    if prot:
                        out = [(nm, q[:-1] + rng.choice("EFILPQ")) for nm, q in out]
                    return out
                mr = derive(base, names)
                sm = esc(fasta(mr))
                kind = rng.choice(["ok"] * 8 + ["len", "len", "short-row", "extra", "nan", "signed", "name2", "nochar", "nonl", "empty", "absent", "none", "none", "none"])
                files = {}
                pfl = []
                if kind != "none":
                    Lp = L + rng.choice([-1, 1]) if kind == "len" else L
                    pbase = (base + rng.choice(sym))[:Lp] if Lp > 0 else ""
                    pr = [q for _, q in derive(pbase, ["p%d" % i for i in range(rng.randint(1, 5))])] if Lp > 0 else []
                    chars = []
                    for q in pr:
                        for ch in q:
                            if ch not in chars:
                                chars.append(ch)
                    if kind == "nochar":
                        chars = []
                    lines = ["\t".join(["site"] + chars)]
                    for j in range(Lp):
                        lines.append("\t".join([str(j)] + [str(sum(1 for q in pr if q[j] == ch)) for ch in chars]))
                    if len(lines) > 1 and chars:
                        k = rng.randrange(1, len(lines))
                        f = lines[k].split("\t")
                        if kind == "short-row":
                            lines[k] = "\t".join(f[:-1])
                        elif kind == "extra":
                            lines[k] = "\t".join(f + [rng.choice(["0", "7"])])
                        elif kind == "nan":
                            f[rng.randrange(1, len(f))] = rng.choice(["x", "", "1.5", " 1", "1 ", "--1", "0x1"])
                            lines[k] = "\t".join(f)
                        elif kind == "signed":
                            i = rng.randrange(1, len(f))
                            f[i] = rng.choice(["+", "-", "+0", "00"]) + f[i]
                            lines[k] = "\t".join(f)
                        elif kind == "name2":
                            h = lines[0].split("\t")
                            h[rng.randrange(1, len(h))] = rng.choice(["AC", "", "A "])
                            lines[0] = "\t".join(h)
                    txt = "\n".join(lines) + ("" if kind == "nonl" else "\n")
                    if kind == "empty":
                        txt = ""
                    if kind != "absent":
                        files["prof.tsv"] = txt.replace("\n", "|").replace("\t", "~")
                    pfl = ["--count-profile", "prof.tsv"]
                rfl = []
                k = rng.random()
                if k < 0.3:
                    rfl = ["--ref-sequence", rng.choice(names)]
                elif k < 0.45:
                    Lr = L if rng.random() < 0.8 else L + rng.choice([-1, 1])
                    fr = [("r%d" % i, "".join(rng.choice(base[j % L] + amb) for j in range(max(1, Lr)))) for i in range(rng.randint(1, 2))]
                    fr = [] if rng.random() < 0.1 else fr
                    files["ref.fa"] = esc(fasta(fr))
                    rfl = ["--ref-sequence", "ref.fa"]
                elif k < 0.5:
                    rfl = ["--ref-sequence", "nope"]
                fspec = ";;".join("%s=%s" % kv for kv in sorted(files.items())) or "_"
                if w == "perseq":
                    groups = [["--per-sequences"], pfl, rfl]
                    rng.shuffle(groups)
                    yield Case("cli_libf", [sm, fspec, "stats"] + [x for g in groups for x in g], True,
                               "cli-stats-perseq" + ("-prof-" + kind if pfl else "") + ("-ref" if rfl else ""))
                elif w == "gapsprof":
                    if not pfl:
                        continue
                    other = rng.choice([["--unique"]] * 6 + [[], ["--from-start"], ["--from-end", "--unique"], ["--openning"], ["--unique", "--openning"]])
                    groups = [pfl] + [[o] for o in other]
                    rng.shuffle(groups)
                    yield Case("cli_libf", [sm, fspec, "stats", "gaps"] + [x for g in groups for x in g], True,
                               "cli-stats-gaps-prof-" + kind + "".join(sorted(other)))
                else:
                    if not pfl:
                        continue
                    un = [["--unique"]] if rng.random() < 0.85 else []
                    groups = [pfl] + un + ([rfl] if rng.random() < 0.4 else [])
                    rng.shuffle(groups)
                    yield Case("cli_libf", [sm, fspec, "stats", "mutations"] + [x for g in groups for x in g], True,
                               "cli-stats-mutations-prof-" + kind + ("-unique" if un else ""))
            elif w == "clean":
                cut = rng.choice(["0", "0.25", "0.5", "0.75", "1", "0.1", "0.3"])
                fl = []
                ch = rng.choice(["GAP", "GAP", "N", "A", "MAJ", "-N", "N-", "-A", "AC", "Nn"])
                if ch != "GAP":
                    fl += ["--char", ch]
                if rng.random() < 0.3:
                    fl.append("--ends")
                if ch != "GAP" and "-" not in ch and rng.random() < 0.3:
                    fl.append("--ignore-gaps")
                if "N" not in ch and "n" not in ch and rng.random() < 0.3:
                    fl.append("--ignore-n")
                if ch not in ("GAP", "MAJ") and rng.random() < 0.3:
                    fl.append("--ignore-case")
                if ch not in ("GAP", "MAJ") and rng.random() < 0.3:
                    fl.append("--reverse")
                yield Case("cli_lib", [st, "clean", "sites", "-c", cut] + fl, True, "cli-clean-sites")
            elif w == "clean-files":
                # the position files of `clean sites`: remaining sites, removed sites, or both
                cut = rng.choice(["0", "0.25", "0.5", "0.75", "1", "0.1", "0.3"])
                fl = []
                ch = rng.choice(["GAP", "GAP", "-", "N", "A", "MAJ", "-N", "AC", "Nn"])
                if ch != "GAP":
                    fl += ["--char", ch]
                if rng.random() < 0.3:
                    fl.append("--ends")
                if rng.random() < (0.3 if ch != "GAP" and "-" not in ch else 0.05):
                    fl.append("--ignore-gaps")         # refused together with gaps among the characters
                if rng.random() < (0.3 if "N" not in ch and "n" not in ch else 0.05):
                    fl.append("--ignore-n")
                if ch not in ("GAP", "MAJ", "-") and rng.random() < 0.3:
                    fl.append("--ignore-case")
                if ch not in ("GAP", "MAJ", "-") and rng.random() < 0.3:
                    fl.append("--reverse")
                k = rng.random()
                if k < 0.5:
                    fl += ["--positions", "kept.txt", "--positions-rm", "rm.txt"]
                elif k < 0.7:
                    fl += ["--positions-rm", "a.txt", "--positions", "b.txt"]
                elif k < 0.85:
                    fl += ["--positions", "kept.txt"]
                else:
                    fl += ["--positions-rm", "rm.txt"]
                gr = [(nm, "".join(rng.choice(SYM + "-" * rng.choice([0, 6])) for _ in range(L))) for nm, _ in rows]
                yield Case("cli_libf", [esc(fasta(gr)), "_", "clean", "sites", "-c", cut] + fl, True, "cli-clean-sites-positions")


def shrink(c):
    if c.op == "cli_libf":
        # shrink the alignment on stdin only; the files and the arguments stay
        inner = Case("cli_lib", [c.args[0]] + list(c.args[2:]))
        for k in shrink(inner):
            if k.args[:1] != c.args[:1] and list(k.args[1:]) == list(c.args[2:]):
                yield Case("cli_libf", [k.args[0], c.args[1]] + list(c.args[2:]))
        return
    recs = [r for r in c.args[0].split(">") if r]
    rows = []
    for r in recs:
        p = r.split("|")
        rows.append((p[0], "".join(p[1:])))
    rest = list(c.args[1:])
    for i in range(len(rows)):
        r2 = rows[:i] + rows[i + 1:]
        if r2:
            yield Case(c.op, [esc(fasta(r2))] + rest)
    L = len(rows[0][1]) if rows else 0
    if L > 1 and rest and rest[0] not in ("subsites", "subseq"):
        for j in range(L):
            yield Case(c.op, [esc(fasta([(n, s[:j] + s[j + 1:]) for n, s in rows]))] + rest)
