"""debug helper: python3 -m driver.dbg <replay.json | op args...>  — prints impl / model / spec-verdict step by step"""
import json, sys
from driver import common
from driver.common import Case

def main():
    a = sys.argv[1:]
    if len(a) == 1 and a[0].endswith(".json"):
        d = json.load(open(a[0]))["case"]
        c = Case(d["op"], d["args"])
    else:
        c = Case(a[0], a[1:])
    common.lake_build(["oracle"])       # the full oracle (every handler), current
    common.evaluate(common.BUILD + "/harness", [c])
    print("verdict:", c.verdict)
    if c.op == "hist":
        i, m = c.impl.split(";"), c.model.split(";")
        ops = ["<init>"] + c.args[3].split(";")
        for k in range(max(len(i), len(m))):
            x = i[k] if k < len(i) else "<none>"
            y = m[k] if k < len(m) else "<none>"
            print("--- step %d %s %s" % (k, ops[k] if k < len(ops) else "", "" if x == y else "  <<<< MODEL != IMPL"))
            print(" impl :", x)
            if x != y:
                print(" model:", y)
    else:
        print("impl :", c.impl); print("model:", c.model)
main()
