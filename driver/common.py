"""Shared machinery of the goalign checks (DESIGN.md §3): regenerate + build + audit the Lean side,
build the Go harness against /repo's working tree, run cases through implementation and oracle,
classify, shrink, write evidence, print VIOLATION / KNOWN-FINDING lines.

Python 3 standard library only."""
import fcntl
import hashlib
import json
import os
import random
import re
import select
import shutil
import subprocess
import sys
import threading
import time
import uuid
from concurrent.futures import ThreadPoolExecutor

VERIF = os.path.dirname(os.path.dirname(os.path.abspath(__file__)))
REPO = os.environ.get("VERIF_REPO", "/repo")
LEAN = os.path.join(VERIF, "lean")
BUILD = os.path.join(VERIF, "build")
EVID = os.path.join(VERIF, "evidence")
REPLAY = os.path.join(EVID, "replay")
ALLOWED_AXIOMS = {"propext", "Classical.choice", "Quot.sound"}
FORBIDDEN_TOKENS = ["sorry", "admit", "native_decide", "bv_decide", "implemented_by", "unsafe ",
                    "maxHeartbeats 0"]
NCPU = os.cpu_count() or 4


ORACLE = "oracle"


def set_oracle(pid):
    """use the property's own oracle executable (lean/Mains/<pid>.lean: only the handlers, hence only the regenerated
    tables, that the property needs) when there is one"""
    global ORACLE
    ORACLE = "oracle_" + pid if os.path.exists(os.path.join(LEAN, "Mains", pid + ".lean")) else "oracle"


def oracle_path():
    return os.path.join(LEAN, ".lake/build/bin", ORACLE)


def goenv():
    e = dict(os.environ)
    e.update(GOFLAGS="-mod=mod", GOPROXY="off", GOSUMDB="off", GOTOOLCHAIN="local",
             GOMEMLIMIT="4GiB")
    return e


def run(cmd, cwd=None, env=None, timeout=None, inp=None):
    p = subprocess.run(cmd, cwd=cwd, env=env, timeout=timeout, input=inp,
                       stdout=subprocess.PIPE, stderr=subprocess.STDOUT, text=True)
    return p.returncode, p.stdout


class Lock:
    """serialises extractor / lake / go builds between concurrently running checks"""

    def __enter__(self):
        os.makedirs(BUILD, exist_ok=True)
        self.f = open(os.path.join(BUILD, ".lock"), "w")
        fcntl.flock(self.f, fcntl.LOCK_EX)
        return self

    def __exit__(self, *a):
        fcntl.flock(self.f, fcntl.LOCK_UN)
        self.f.close()


# --------------------------------------------------------------------------------------------
# Lean side
# --------------------------------------------------------------------------------------------

def strip_comments(src):
    # remove block comments (nested) and line comments
    out, i, depth = [], 0, 0
    while i < len(src):
        if src.startswith("/-", i):
            depth += 1
            i += 2
        elif depth and src.startswith("-/", i):
            depth -= 1
            i += 2
        elif depth:
            i += 1
        elif src.startswith("--", i):
            j = src.find("\n", i)
            i = len(src) if j < 0 else j
        else:
            out.append(src[i])
            i += 1
    return "".join(out)


def forbidden_token_scan():
    hits = []
    for root, _, files in os.walk(os.path.join(LEAN, "Gv")):
        for fn in files:
            if not fn.endswith(".lean"):
                continue
            p = os.path.join(root, fn)
            src = strip_comments(open(p).read())
            for tok in FORBIDDEN_TOKENS:
                if re.search(r"(?<![A-Za-z_.])" + re.escape(tok), src):
                    hits.append("%s: %s" % (os.path.relpath(p, LEAN), tok.strip()))
            if re.search(r"^\s*axiom\s", src, re.M):
                hits.append("%s: axiom" % os.path.relpath(p, LEAN))
    return hits


def theorem_at(path, line):
    """name of the theorem enclosing `line` of Lean file `path` (for mapping build errors)"""
    try:
        lines = open(path).read().split("\n")
    except OSError:
        return None
    for k in range(min(line, len(lines)) - 1, -1, -1):
        m = re.match(r"\s*(?:private\s+|protected\s+)?(?:theorem|lemma|def|instance|example)\s+([^\s:({\[]+)?", lines[k])
        if m:
            return m.group(1) or "example@%d" % (k + 1)
    return None


def regenerate():
    """T1/T2/T3: rebuild the extractor, re-run it on /repo's working tree"""
    t0 = time.time()
    ex = os.path.join(BUILD, "extract")
    rc, out = run(["go", "build", "-o", ex, "."], cwd=os.path.join(VERIF, "tools/extract"), env=goenv())
    if rc != 0:
        return False, "extractor build failed:\n" + out, time.time() - t0
    rc, out = run([ex, REPO, os.path.join(LEAN, "Gv/Gen")])
    if rc != 0:
        return False, "extractor crashed on the working tree:\n" + out, time.time() - t0
    # a stage that no longer understands the source prints EXTRACT-FAIL and leaves a stub that does not compile in place
    # of its tables: the Lean modules (and property checks) that need them break, the others keep running
    # type-checked determinism facts (tools/detscan, go/packages): ~10 s, so re-run only when the Go sources changed
    h = hashlib.sha1()
    for root, dirs, fs in os.walk(REPO):
        dirs[:] = sorted(d for d in dirs if not d.startswith("."))
        for f in sorted(fs):
            if f.endswith(".go") or f in ("go.mod", "go.sum"):
                with open(os.path.join(root, f), "rb") as fh:
                    h.update(f.encode() + b"\0" + fh.read() + b"\0")
    with open(os.path.join(VERIF, "tools/detscan/main.go"), "rb") as fh:
        h.update(fh.read())
    stamp = os.path.join(BUILD, "detscan.stamp")
    target = os.path.join(LEAN, "Gv/Gen/DetFacts.lean")
    old = open(stamp).read() if os.path.exists(stamp) else ""
    if old != h.hexdigest() or not os.path.exists(target):
        ds = os.path.join(BUILD, "detscan")
        rc, out2 = run(["go", "build", "-o", ds, "."], cwd=os.path.join(VERIF, "tools/detscan"), env=goenv())
        if rc != 0:
            return False, "detscan build failed:\n" + out2, time.time() - t0
        rc, out2 = run([ds, REPO, os.path.join(LEAN, "Gv/Gen")], env=goenv())
        if rc != 0:
            # only the modules that need the determinism facts (C11) break
            if os.path.exists(stamp):
                os.remove(stamp)
            msg = out2[-400:].replace('"', "'").replace("\n", " ")
            with open(target, "w") as fh:
                fh.write("-- GENERATED by tools/detscan: SCAN FAILED on the repository working tree.\n"
                         "example : \"tools/detscan failed: %s\" = \"\" := by decide\n" % msg)
            out += "\nEXTRACT-FAIL stage=detscan files=DetFacts.lean reason=" + msg
        else:
            with open(stamp, "w") as fh:
                fh.write(h.hexdigest())
    # type-checked mutation facts (tools/mutscan, go/packages; C19): ~2 s, re-run when the Go sources or the tool changed
    with open(os.path.join(VERIF, "tools/mutscan/main.go"), "rb") as fh:
        h.update(fh.read())
    stamp = os.path.join(BUILD, "mutscan.stamp")
    target = os.path.join(LEAN, "Gv/Gen/MutFactsT.lean")
    old = open(stamp).read() if os.path.exists(stamp) else ""
    if old != h.hexdigest() or not os.path.exists(target):
        ms = os.path.join(BUILD, "mutscan")
        rc, out2 = run(["go", "build", "-o", ms, "."], cwd=os.path.join(VERIF, "tools/mutscan"), env=goenv())
        if rc != 0:
            return False, "mutscan build failed:\n" + out2, time.time() - t0
        rc, out2 = run([ms, REPO, os.path.join(LEAN, "Gv/Gen")], env=goenv())
        if rc != 0:
            # only the modules that need the type-checked mutation facts (C19) break
            if os.path.exists(stamp):
                os.remove(stamp)
            msg = out2[-400:].replace('"', "'").replace("\n", " ")
            with open(target, "w") as fh:
                fh.write("-- GENERATED by tools/mutscan: SCAN FAILED on the repository working tree.\n"
                         "example : \"tools/mutscan failed: %s\" = \"\" := by decide\n" % msg)
            out += "\nEXTRACT-FAIL stage=mutscan files=MutFactsT.lean reason=" + msg
        else:
            with open(stamp, "w") as fh:
                fh.write(h.hexdigest())
    return True, out, time.time() - t0


def restore_good_gen():
    """replace every generated table that is a failure stub by its last known good copy (lean/GenGood); returns the
    names replaced"""
    good = os.path.join(LEAN, "GenGood")
    gen = os.path.join(LEAN, "Gv/Gen")
    done = []
    if not os.path.isdir(good):
        return done
    for f in sorted(os.listdir(gen)):
        p = os.path.join(gen, f)
        g = os.path.join(good, f)
        try:
            with open(p) as fh:
                head = fh.read(300)
        except OSError:
            continue
        if "FAILED" in head and os.path.exists(g):
            shutil.copy(g, p)
            done.append(f)
    return done


def lake_build(targets):
    t0 = time.time()
    rc, out = run(["lake", "build"] + targets, cwd=LEAN, timeout=3600)
    broken = []
    if rc != 0:
        for m in re.finditer(r"error: (\S+\.lean):(\d+):(\d+): (.*)", out):
            f, ln, _, msg = m.group(1), int(m.group(2)), m.group(3), m.group(4)
            th = theorem_at(os.path.join(LEAN, f), ln)
            if f.startswith("Gv/Gen/"):
                try:
                    with open(os.path.join(LEAN, f)) as fh:
                        src = fh.read()
                    if "FAILED" in src[:200]:
                        th = "T1/T2/T3 regeneration of " + f
                        m2 = re.search(r'example : "([^"]*)"', src)
                        msg = m2.group(1) if m2 else msg
                except OSError:
                    pass
            broken.append({"file": f, "line": ln, "theorem": th, "msg": msg[:300]})
        if not broken:
            broken.append({"file": "?", "line": 0, "theorem": None, "msg": out[-2000:]})
    return rc == 0, broken, out, time.time() - t0


def audit(modules):
    """#print-axioms style audit of every public theorem in the given compiled modules"""
    rc, out = run(["lake", "env", "lean", "--run", "Audit/Audit.lean"] + modules, cwd=LEAN, timeout=1200)
    ths = []
    for m in re.finditer(r"THEOREM (\S+) (\S+) axioms=\[(.*?)\] (OK|FORBIDDEN)", out):
        axs = [a.strip() for a in m.group(3).split(",") if a.strip()]
        ths.append({"module": m.group(1), "name": m.group(2), "axioms": axs, "ok": m.group(4) == "OK"})
    return rc, ths, out


def leancheck(modules):
    """the toolchain's independent re-checker on the compiled property modules (and everything they import)"""
    rc, out = run(["lake", "env", "leanchecker"] + modules, cwd=LEAN, timeout=3600)
    return rc == 0, out


def build_harness(race=False):
    """go build of tools/harness against REPO's working tree (module `replace`).  The sources are
    staged into build/harness-src so that go.mod / go.sum can point at REPO without touching the
    tracked files."""
    t0 = time.time()
    hd = os.path.join(VERIF, "tools/harness")
    st = os.path.join(BUILD, "harness-src")
    os.makedirs(st, exist_ok=True)
    keep = set()
    for fn in os.listdir(hd):
        if fn.endswith(".go"):
            keep.add(fn)
            src = open(os.path.join(hd, fn)).read()
            dst = os.path.join(st, fn)
            if not os.path.exists(dst) or open(dst).read() != src:
                open(dst, "w").write(src)
    for fn in os.listdir(st):
        if fn.endswith(".go") and fn not in keep:
            os.remove(os.path.join(st, fn))
    gm = open(os.path.join(hd, "go.mod")).read().replace("=> /repo", "=> " + REPO)
    open(os.path.join(st, "go.mod"), "w").write(gm)
    try:
        open(os.path.join(st, "go.sum"), "w").write(open(os.path.join(REPO, "go.sum")).read())
    except OSError:
        pass
    out_bin = os.path.join(BUILD, "harness-race" if race else "harness")
    cmd = ["go", "build", "-tags", "verif"] + (["-race"] if race else []) + ["-o", out_bin, "."]
    rc, out = run(cmd, cwd=st, env=goenv(), timeout=1200)
    return rc == 0, out, time.time() - t0, out_bin


# --------------------------------------------------------------------------------------------
# running cases
# --------------------------------------------------------------------------------------------

class Case:
    __slots__ = ("op", "args", "nontrivial", "tag", "impl", "model", "verdict", "id")

    def __init__(self, op, args, nontrivial=False, tag=""):
        self.op = op
        self.args = [str(a) for a in args]
        self.nontrivial = nontrivial
        self.tag = tag
        self.impl = self.model = self.verdict = None
        self.id = None

    def key(self):
        return (self.op, tuple(self.args))

    def line(self):
        return "\t".join([self.op] + self.args)

    def to_json(self):
        return {"op": self.op, "args": self.args, "tag": self.tag, "impl": self.impl,
                "model": self.model, "verdict": self.verdict}


def _worker_run(binpath, lines, timeout_s, env=None):
    """Feed `lines` (list of (id, text)) to one harness process; returns {id: result}.  A hang or a
    process exit is attributed to the first unanswered id and the remainder is re-run."""
    results = {}
    pending = list(lines)
    while pending:
        p = subprocess.Popen([binpath], stdin=subprocess.PIPE, stdout=subprocess.PIPE,
                             stderr=subprocess.DEVNULL, env=env)
        data = "".join("%s\t%s\n" % (i, t) for i, t in pending).encode()

        def feed(proc=p, d=data):
            try:
                proc.stdin.write(d)
                proc.stdin.close()
            except (BrokenPipeError, OSError):
                pass
        th = threading.Thread(target=feed, daemon=True)
        th.start()
        idx = 0
        buf = b""
        fd = p.stdout.fileno()
        dead = None
        while idx < len(pending):
            r, _, _ = select.select([fd], [], [], timeout_s)
            if not r:
                dead = "hang"
                break
            chunk = os.read(fd, 1 << 16)
            if not chunk:
                dead = "exit"
                break
            buf += chunk
            while True:
                k = buf.find(b"\n")
                if k < 0:
                    break
                ln = buf[:k].decode("utf-8", "replace")
                buf = buf[k + 1:]
                f = ln.split("\t", 1)
                if len(f) == 2 and idx < len(pending) and f[0] == str(pending[idx][0]):
                    results[pending[idx][0]] = f[1]
                    idx += 1
        if dead == "hang":
            p.kill()
            p.wait()
            results[pending[idx][0]] = "hang"
            pending = pending[idx + 1:]
        elif dead == "exit":
            p.wait()
            results[pending[idx][0]] = "exit:%d" % p.returncode
            pending = pending[idx + 1:]
        else:
            p.wait()
            pending = []
    return results


def build_binary():
    """go build of the goalign CLI from REPO's working tree"""
    t0 = time.time()
    out_bin = os.path.join(BUILD, "goalign")
    rc, out = run(["go", "build", "-o", out_bin, "."], cwd=REPO, env=goenv(), timeout=1200)
    return rc == 0, out, time.time() - t0, out_bin


def run_cli_case(c, timeout_s=20.0):
    """ops named `cli*`: args[0] = stdin text with `|` for newline, args[1:] = argv of the goalign binary.
    Result: `rc=<n> out=<stdout, newline as |>` (stderr is not part of the result)."""
    binp = os.path.join(BUILD, "goalign")
    stdin = c.args[0].replace("|", "\n")
    if stdin == "_":
        stdin = ""
    if c.op == "cli_libf":
        # cli_libf <stdin> <files: name=content;;name=content (| newline, ~ tab)> <argv…>: the command runs in a
        # private directory holding the files; the result also lists every file it wrote
        rc, out, _err, produced = exec_goalign(c.args[2:], stdin.encode(), _files(c.args[1]), timeout_s=timeout_s)
        if rc == "hang":
            c.impl = "hang"
            return

        def enc(b):
            return b.decode("utf-8", "replace").replace("\t", " ").replace("\n", "|")
        if rc != 0:
            c.impl = "rc=%d out= files=" % rc
        else:
            c.impl = "rc=0 out=%s files=%s" % (enc(out), ";;".join("%s=%s" % (k, enc(produced[k])) for k in sorted(produced)))
        return
    try:
        p = subprocess.run([binp] + c.args[1:], input=stdin.encode(), stdout=subprocess.PIPE,
                           stderr=subprocess.PIPE, timeout=timeout_s)
        out = p.stdout.decode("utf-8", "replace").replace("\t", " ").replace("\n", "|")
        if p.returncode != 0:
            out = ""      # error text is never compared, only the failing status
        c.impl = "rc=%d out=%s" % (p.returncode, out)
    except subprocess.TimeoutExpired:
        c.impl = "hang"


_LOGSTAMP = re.compile(rb"(?m)^\d{4}/\d\d/\d\d \d\d:\d\d:\d\d ")


def exec_goalign(argv, stdin, files, timeout_s=60.0, env=None):
    """one execution of the freshly built binary in a private directory holding `files` (name -> bytes).
    Returns (rc, stdout, stderr, {produced file -> bytes}); the time stamp that Go's standard logger puts in front
    of warnings on stderr is removed (it is the wall clock, not output of the command)."""
    binp = os.path.join(BUILD, "goalign")
    wd = os.path.join(BUILD, "det-tmp", uuid.uuid4().hex)
    os.makedirs(wd)
    try:
        for k, v in files.items():
            with open(os.path.join(wd, k), "wb") as f:
                f.write(v)
        try:
            p = subprocess.run([binp] + argv, input=stdin, cwd=wd, stdout=subprocess.PIPE, stderr=subprocess.PIPE,
                               timeout=timeout_s, env=env)
        except subprocess.TimeoutExpired:
            return "hang", b"", b"", {}
        produced = {}
        for root, _, fs in os.walk(wd):
            for f in fs:
                rel = os.path.relpath(os.path.join(root, f), wd)
                if rel not in files:
                    with open(os.path.join(root, f), "rb") as fh:
                        produced[rel] = fh.read()
        return p.returncode, p.stdout, _LOGSTAMP.sub(b"", p.stderr), produced
    finally:
        shutil.rmtree(wd, ignore_errors=True)


def _unesc(s):
    return s.replace("|", "\n").replace("~", "\t").encode()


def _files(spec):
    if spec == "_":
        return {}
    out = {}
    for part in spec.split(";;"):
        k, v = part.split("=", 1)
        out[k] = _unesc(v)
    return out


def _digest(r):
    h = hashlib.sha1()
    h.update(repr(r[0]).encode() + b"\0" + r[1] + b"\0" + r[2])
    for k in sorted(r[3]):
        h.update(b"\0" + k.encode() + b"\0" + r[3][k])
    return h.hexdigest()[:12]


def _where(a, b):
    if a[0] != b[0]:
        return "exit-status:%s/%s" % (a[0], b[0])
    if a[1] != b[1]:
        return "stdout"
    if a[2] != b[2]:
        return "stderr"
    for k in sorted(set(a[3]) | set(b[3])):
        if a[3].get(k) != b[3].get(k):
            return "file:" + k
    return "?"


FMT_IN = {"fasta": [], "phylip": ["-p"], "nexus": ["-x"], "clustal": ["-u"], "stockholm": ["-k"]}

# names routed to the protein branch of `compute distance` / `build distboot` (models/protein ModelStringToInt knows the first
# seven; a name it does not know - "dayhoff", upper case - makes the harness answer `err nomodel` and the command must fail too)
PROT_MODEL_NAMES = ("dayoff", "jtt", "mtrev", "lg", "wag", "hivb", "ab", "dayhoff", "JTT", "LG")


_DEC12 = re.compile(r"^-?\d+\.\d{12}$")


def _dist_entry_ok(txt, x):
    """one printed entry of a distance matrix against the library's float: `%.12f` of it (NaN / +Inf / -Inf spelled as Go does;
    a finite value has exactly 12 decimals and is within the rounding of that format)"""
    if x != x:
        return txt == "NaN"
    if x in (float("inf"), float("-inf")):
        return txt in ("+Inf", "-Inf", "Inf") and (txt.startswith("-") == (x < 0))
    try:
        return bool(_DEC12.match(txt)) and abs(float(txt) - x) <= 5.1e-13 * max(1.0, abs(x))
    except ValueError:
        return False


def _dist_lib_line(model, rmgaps, gapmode, rmamb, gamma, alpha, rng4, rows):
    """the harness line of the LIBRARY call behind `goalign compute distance -m <model>` on one alignment: dna.DistMatrix
    (`distmatrix`) or, for a protein model, NewProtDistModel / InitModel(nil, nil) / MLDist on a fresh model object
    (`protdistmatrix`; --gap-mut, --rm-ambiguous and the ranges do not reach the protein code)"""
    if model in PROT_MODEL_NAMES:
        return "\t".join(["protdistmatrix", model, rmgaps, gamma, alpha if alpha != "0" else "0", rows])
    return "\t".join(["distmatrix", model, rmgaps, gapmode, rmamb, gamma, alpha if alpha != "0" else "1", "_", rng4, rows])


def run_det_case(c, timeout_s=120.0):
    """ops `det*` (property C11), run on the goalign binary built from the working tree.
      det      <stdin> <threads,threads,...> <files> <argv...>   every run (`-t n` appended) gives the same bytes
      detslow  the same with 1.1 s between the runs (outputs that embed a time stamp of 1 s resolution: gzip headers, archives)
      detchain <stdin> <fmt,fmt,...,fmt>                          reformat chain back to the first format
      detchainsto <stdin> <k> <fmt,...,fmt>                       Stockholm file through k `-k` commands, then a reformat chain = reformat directly
      detboot  <stdin> <model> <n> <frac num/den> <seed> <threads> seqboot + compute distance = distboot
      detmulti <aln;;aln;;...> <files> <argv...>                  multi-alignment input = the alignments one by one
      detannot <stdin> <annotation> <argv with @ANN@...>          annotation file plain = .gz = on the standard input
    Result: `same rc=<rc> out=<bytes> files=<k>` or `differ <where> ...`."""
    try:
        stdin = b"" if c.args[0] == "_" else _unesc(c.args[0])
        if c.op in ("det", "detslow"):
            threads = [int(x) for x in str(c.args[1]).split(",")]
            files = _files(c.args[2])
            runs = []
            for k, t in enumerate(threads):
                if k and c.op == "detslow":
                    time.sleep(1.1)      # the next run starts in another wall-clock second (time stamps have 1 s resolution)
                runs.append(exec_goalign([str(a) for a in c.args[3:]] + ["-t", str(t)], stdin, files, timeout_s))
            for t, r in zip(threads[1:], runs[1:]):
                if r != runs[0]:
                    c.impl = "differ %s threads=%d:%s threads=%d:%s" % (_where(runs[0], r), threads[0], _digest(runs[0]), t, _digest(r))
                    return
            r = runs[0]
            c.impl = "same rc=%s out=%d files=%d" % (r[0], len(r[1]), len(r[3]))
        elif c.op == "detmulti":
            # detmulti <alignment;;alignment;;...> <files> <argv...>: a command that treats the alignments of a multi-alignment
            # Phylip input one after the other must print (and write to each output file) the concatenation of what it
            # prints for each alignment alone
            parts = [p for p in c.args[0].split(";;") if p]
            files = _files(c.args[1])
            argv = [str(a) for a in c.args[2:]]
            whole = exec_goalign(argv, b"".join(_unesc(p) for p in parts), files, timeout_s)
            each = [exec_goalign(argv, _unesc(p), files, timeout_s) for p in parts]
            if any(r[0] != 0 for r in each) or whole[0] != 0:
                # an error on one alignment stops the command: only the exit status is compared
                bad = next((r[0] for r in each if r[0] != 0), 0)
                c.impl = "same rc=%s out=0 files=0" % whole[0] if (whole[0] != 0) == (bad != 0) else \
                    "differ exit-status whole=%s alone=%s" % (whole[0], [r[0] for r in each])
                return
            exp_out = b"".join(r[1] for r in each)
            if whole[1] != exp_out:
                c.impl = "differ stdout whole=%s concatenated=%s" % (hashlib.sha1(whole[1]).hexdigest()[:12], hashlib.sha1(exp_out).hexdigest()[:12])
                return
            names = set(whole[3])
            for r in each:
                names |= set(r[3])
            for nm in sorted(names):
                if whole[3].get(nm, b"") != b"".join(r[3].get(nm, b"") for r in each):
                    c.impl = "differ file:%s" % nm
                    return
            c.impl = "same rc=0 out=%d files=%d" % (len(whole[1]), len(whole[3]))
        elif c.op == "detdistmulti":
            # detdistmulti <rows;;rows;;…> <model> <rmgaps> <alpha num/den|0> <threads>: `goalign compute distance -p` on
            # an input holding several alignments (one model object serves them all in the command) against the LIBRARY
            # call on each alignment alone with a fresh model: the matrices printed one after the other must be those
            groups, model, rmgaps, alpha, threads = [str(x) for x in c.args[:5]]
            gamma = "0" if alpha == "0" else "1"
            libs = []
            for rows in groups.split(";;"):
                line = _dist_lib_line(model, rmgaps, "0", "0", gamma, alpha, "-1,-1,-1,-1", rows)
                libs.append((rows, _worker_run(os.path.join(BUILD, "harness"), [(0, line)], 20.0).get(0, "?")))
            argv = ["compute", "distance", "-m", model, "-p", "-t", threads]
            if rmgaps == "1":
                argv.append("-r")
            if alpha != "0":
                num, den = (alpha.split("/") + ["1"])[:2]
                argv += ["--alpha", repr(float(num) / float(den))]
            phy = ""
            for rows in groups.split(";;"):
                rr = [r.split(":", 1) for r in rows.split(",")]
                phy += " %d %d\n" % (len(rr), len(rr[0][1])) + "".join("%s  %s\n" % (a, b) for a, b in rr)
            cli = exec_goalign(argv, phy.encode(), {}, timeout_s)
            if any(not l.startswith("ok ") for _, l in libs):
                c.impl = ("same rc=%s out=0 files=0" % cli[0]) if cli[0] != 0 else "differ library=err command-line=rc0"
                return
            if cli[0] != 0:
                c.impl = "differ library=ok command-line=rc%s" % cli[0]
                return
            import struct as _st
            lines = [l for l in cli[1].decode("utf-8", "replace").split("\n") if l != ""]
            pos = 0
            for k, (rows, lib) in enumerate(libs):
                mat = [[_st.unpack(">d", bytes.fromhex(x))[0] for x in r.split(",")] for r in lib[3:].split(";")]
                names = [r.split(":", 1)[0] for r in rows.split(",")]
                blk = lines[pos:pos + len(mat) + 1]
                pos += len(mat) + 1
                if len(blk) != len(mat) + 1 or blk[0].strip() != str(len(mat)):
                    c.impl = "differ shape of matrix %d" % k
                    return
                for i, l in enumerate(blk[1:]):
                    f = l.split("\t")
                    if f[0] != names[i] or len(f) != len(mat) + 1:
                        c.impl = "differ matrix %d row %d" % (k, i)
                        return
                    for j, txt in enumerate(f[1:]):
                        x = mat[i][j]
                        ok = _dist_entry_ok(txt, x)
                        if not ok:
                            c.impl = "differ matrix %d entry %d,%d library=%r command-line=%s" % (k, i, j, x, txt)
                            return
            if pos != len(lines):
                c.impl = "differ trailing output"
                return
            c.impl = "same rc=0 out=%d files=0" % len(cli[1])
        elif c.op == "detdist":
            # detdist <rows name:seq,...> <model> <rmgaps> <gapmode> <rmamb> <alpha num/den|0> <r1|_> <r2|_>:
            # `goalign compute distance` against the LIBRARY call with the same options (dna.DistMatrix through the
            # harness): every printed entry is the library's float rounded to 12 decimals
            rows, model, rmgaps, gapmode, rmamb, alpha, r1, r2 = [str(x) for x in c.args[:8]]
            gamma = "0" if alpha == "0" else "1"
            rng4 = "-1,-1,-1,-1" if r1 == "_" else "%s,%s" % (r1.replace(":", ","), r2.replace(":", ","))
            average = len(c.args) > 8 and str(c.args[8]) == "avg"
            line = _dist_lib_line(model, rmgaps, gapmode, rmamb, gamma, alpha, rng4, rows)
            lib = _worker_run(os.path.join(BUILD, "harness"), [(0, line)], 20.0).get(0, "?")
            argv = ["compute", "distance", "-m", model]
            if rmgaps == "1":
                argv.append("-r")
            if gapmode != "0":
                argv += ["--gap-mut", gapmode]
            if rmamb == "1":
                argv.append("--rm-ambiguous")
            if alpha != "0":
                num, den = (alpha.split("/") + ["1"])[:2]
                argv += ["--alpha", repr(float(num) / float(den))]
            if r1 != "_":
                argv += ["--range1", r1, "--range2", r2]
            if average:
                argv.append("-a")
            fa = "".join(">%s\n%s\n" % tuple(r.split(":", 1)) for r in rows.split(","))
            cli = exec_goalign(argv, fa.encode(), {}, timeout_s)
            if not lib.startswith("ok "):
                c.impl = ("same rc=%s out=0 files=0" % cli[0]) if cli[0] != 0 else "differ library=%s command-line=rc0" % lib[:20]
                return
            if cli[0] != 0:
                c.impl = "differ library=ok command-line=rc%s" % cli[0]
                return
            import struct as _st
            mat = [[_st.unpack(">d", bytes.fromhex(x))[0] for x in r.split(",")] for r in lib[3:].split(";")]
            lines = [l for l in cli[1].decode("utf-8", "replace").split("\n") if l != ""]
            names = [r.split(":", 1)[0] for r in rows.split(",")]
            if average:
                # -a: writeDistAverage's mean of the entries above the diagonal that are not NaN, 12 decimals
                tot, cnt = 0.0, 0
                for i in range(len(mat)):
                    for j in range(i + 1, len(mat)):
                        if mat[i][j] == mat[i][j]:
                            tot += mat[i][j]
                            cnt += 1
                if cnt == 0:
                    ok = lines == ["NaN"]
                else:
                    x = tot / cnt
                    ok = len(lines) == 1 and _dist_entry_ok(lines[0], x)
                c.impl = ("same rc=0 out=%d files=0" % len(cli[1])) if ok else "differ average library=%r command-line=%r" % (tot / cnt if cnt else "NaN", lines[:2])
                return
            if len(lines) != len(mat) + 1 or lines[0].strip() != str(len(mat)):
                c.impl = "differ shape"
                return
            for i, l in enumerate(lines[1:]):
                f = l.split("\t")
                if f[0] != names[i] or len(f) != len(mat) + 1:
                    c.impl = "differ row %d" % i
                    return
                for j, txt in enumerate(f[1:]):
                    x = mat[i][j]
                    ok = _dist_entry_ok(txt, x)
                    if not ok:
                        c.impl = "differ entry %d,%d library=%r command-line=%s" % (i, j, x, txt)
                        return
            c.impl = "same rc=0 out=%d files=0" % len(cli[1])
        elif c.op == "detgz":
            # detgz <stdin> <file flag> <argv...>: what a command writes to a file must not depend on the file being
            # written compressed (.gz) or not, nor on where the other outputs go
            flagname = c.args[1]
            argv = [str(a) for a in c.args[2:]]
            plain = exec_goalign(argv + [flagname, "out.txt"], stdin, {}, timeout_s)
            gz = exec_goalign(argv + [flagname, "out.txt.gz"], stdin, {}, timeout_s)
            if plain[0] != gz[0]:
                c.impl = "differ exit-status plain=%s gz=%s" % (plain[0], gz[0])
                return
            if plain[0] != 0:
                c.impl = "same rc=%s out=0 files=0" % plain[0]
                return
            import gzip as _gz
            try:
                unz = _gz.decompress(gz[3].get("out.txt.gz", b"")) if gz[3].get("out.txt.gz") else b""
            except Exception:       # noqa
                c.impl = "differ file:out.txt.gz is not a complete gzip stream (%d bytes)" % len(gz[3].get("out.txt.gz", b""))
                return
            if unz != plain[3].get("out.txt", b""):
                c.impl = "differ file:out.txt (%d bytes) vs gunzip of out.txt.gz (%d bytes)" % (len(plain[3].get("out.txt", b"")), len(unz))
                return
            if plain[1] != gz[1]:
                c.impl = "differ stdout"
                return
            c.impl = "same rc=0 out=%d files=1" % len(plain[3].get("out.txt", b""))
        elif c.op == "detunion":
            # detunion <stdin FASTA> <pattern;;pattern;;…> <revert 0|1> <argv prefix…>: `subset -e p1 p2 …` keeps a row when its
            # name matches at least one expression - so the rows kept with all the expressions are, in input order, the union of the
            # rows kept with each expression alone (with -r: the rows dropped are that union). Expressions are arbitrary Go regexps
            # (inline flags, anchors, alternations): nothing is modelled, the binary is compared with itself
            pats = [p for p in str(c.args[1]).split(";;") if p != ""]
            rev = str(c.args[2]) == "1"
            argv = [str(a) for a in c.args[3:]]

            def recs(out):
                rs, cur = [], None
                for ln in out.decode("latin-1").split("\n"):
                    if ln.startswith(">"):
                        cur = [ln[1:], ""]
                        rs.append(cur)
                    elif cur is not None:
                        cur[1] += ln.strip()
                return [tuple(r) for r in rs]
            allin = recs(stdin)
            whole = exec_goalign(argv + (["-r"] if rev else []) + ["-e"] + pats, stdin, {}, timeout_s)
            each = [exec_goalign(argv + ["-e", p], stdin, {}, timeout_s) for p in pats]
            if whole[0] != 0 or any(r[0] != 0 for r in each):
                ok = (whole[0] != 0) == any(r[0] != 0 for r in each)
                c.impl = "same rc=%s out=0 files=0" % whole[0] if ok else "differ exit-status whole=%s alone=%s" % (whole[0], [r[0] for r in each])
                return
            kept = set()
            for r in each:
                kept |= set(recs(r[1]))
            exp = [x for x in allin if (x in kept) != rev]
            got = recs(whole[1])
            c.impl = "same rc=0 out=%d files=0" % len(whole[1]) if got == exp else \
                "differ rows kept=%s expected=%s" % ([g[0] for g in got], [e[0] for e in exp])
        elif c.op == "detannot":
            # detannot <alignment> <annotation text> <argv… with @ANN@ where the annotation file is named>: a command that reads
            # a second input file must give the same bytes (exit status, stdout, files written) whether that file is plain,
            # gzip-compressed (`.gz`), or given on the standard input (then the alignment comes from `-i aln.fa`)
            import gzip as _gz
            ann = b"" if c.args[1] == "_" else _unesc(c.args[1])
            argv = [str(a) for a in c.args[2:]]
            sub = lambda nm: [nm if a == "@ANN@" else a for a in argv]      # noqa: E731
            runs = [("plain", exec_goalign(sub("ann.txt"), stdin, {"ann.txt": ann}, timeout_s)),
                    ("gz", exec_goalign(sub("ann.txt.gz"), stdin, {"ann.txt.gz": _gz.compress(ann, mtime=0)}, timeout_s)),
                    ("stdin", exec_goalign(sub("stdin") + ["-i", "aln.fa"], ann, {"aln.fa": stdin}, timeout_s))]
            base = runs[0][1]
            for nm, r in runs[1:]:
                if r[0] != base[0]:
                    c.impl = "differ exit-status plain=%s %s=%s" % (base[0], nm, r[0])
                    return
                if base[0] == 0 and (r[1] != base[1] or r[3] != base[3]):
                    c.impl = "differ %s plain vs %s" % (_where((base[0], base[1], b"", base[3]), (r[0], r[1], b"", r[3])), nm)
                    return
            c.impl = "same rc=%s out=%d files=%d" % (base[0], len(base[1]) if base[0] == 0 else 0, len(base[3]) if base[0] == 0 else 0)
        elif c.op == "detchain":
            chain = c.args[1].split(",")
            r0 = exec_goalign(["reformat", chain[0]], stdin, {}, timeout_s)
            if r0[0] != 0:
                c.impl = "same rc=%s out=0 files=0" % r0[0]      # not an alignment goalign writes: nothing to chain
                return
            cur = r0[1]
            for prev, nxt in zip(chain, chain[1:] + [chain[0]]):
                r = exec_goalign(["reformat", nxt] + FMT_IN[prev], cur, {}, timeout_s)
                if r[0] != 0:
                    c.impl = "differ exit-status:%s at %s->%s" % (r[0], prev, nxt)
                    return
                cur = r[1]
            c.impl = ("same rc=0 out=%d files=0" % len(cur)) if cur == r0[1] else "differ stdout after %s" % ">".join(chain + [chain[0]])
        elif c.op == "detchainsto":
            # detchainsto <stdin FASTA> <k> <fmt,...,fmt>: the command line reads Stockholm with -k and writes it only from a
            # Stockholm input (no `reformat stockholm`).  A Stockholm file WRITTEN BY GOALIGN (a hand-written one passed through
            # a -k command that prints its alignment) must (a) come back byte for byte from k further such commands, and
            # (b) after any reformat chain f1 > ... > fn give the bytes of `reformat fn -k` on the file itself.
            rows, name = [], None
            for ln in stdin.decode().split("\n"):
                if ln.startswith(">"):
                    name = ln[1:]
                    rows.append([name, ""])
                elif ln and rows:
                    rows[-1][1] += ln
            L = len(rows[0][1]) if rows else 0
            passes = [["addid", "-n", ""], ["subseq", "-s", "0", "-l", str(L)], ["replace", "-s", "Z", "-n", "Z"], ["trim", "seq", "-n", "0"]]
            hand = ("# STOCKHOLM 1.0\n" + "".join("%s\t%s\n" % (n_, s_) for n_, s_ in rows) + "//\n").encode()
            k = int(c.args[1])
            chain = [f for f in c.args[2].split(",") if f and f != "_"]
            r0 = exec_goalign(passes[k % len(passes)] + ["-k"], hand, {}, timeout_s)
            if r0[0] != 0:
                c.impl = "same rc=%s out=0 files=0" % r0[0]      # not an alignment goalign writes: nothing to chain
                return
            s0 = r0[1]
            cur = s0
            for i in range(k):
                r = exec_goalign(passes[i % len(passes)] + ["-k"], cur, {}, timeout_s)
                if r[0] != 0 or r[1] != s0:
                    c.impl = "differ %s at stockholm->stockholm step %d (%s)" % ("exit-status:%s" % r[0] if r[0] else "stdout", i, " ".join(passes[i % len(passes)]))
                    return
                cur = r[1]
            prev = "stockholm"
            for nxt in chain:
                r = exec_goalign(["reformat", nxt] + FMT_IN[prev], cur, {}, timeout_s)
                if r[0] != 0:
                    c.impl = "differ exit-status:%s at %s->%s" % (r[0], prev, nxt)
                    return
                cur, prev = r[1], nxt
            if chain:
                d = exec_goalign(["reformat", chain[-1], "-k"], s0, {}, timeout_s)
                if d[0] != 0 or d[1] != cur:
                    c.impl = "differ %s: stockholm>%s against stockholm>%s" % ("exit-status:%s" % d[0] if d[0] else "stdout", ">".join(chain), chain[-1])
                    return
            c.impl = "same rc=0 out=%d files=0 sto=%s" % (len(cur), s0.decode("latin-1").replace("\n", "|").replace("\t", "~"))
        elif c.op == "detboot":
            model, n, frac, seed, t = c.args[1].split(" "), int(c.args[2]), c.args[3], str(c.args[4]), str(c.args[5])
            num, den = frac.split("/")
            f = repr(float(num) / float(den))
            a = exec_goalign(["build", "seqboot", "-n", str(n), "-f", f, "--seed", seed, "-o", "boot", "-t", t], stdin, {}, timeout_s)
            if a[0] != 0:
                c.impl = "same rc=%s out=0 files=0" % a[0]
                return
            mats = b""
            for i in range(n):
                d = exec_goalign(["compute", "distance", "-m"] + model + ["-t", t], a[3].get("boot%d.fa" % i, b""), {}, timeout_s)
                if d[0] != 0:
                    c.impl = "differ exit-status:%s in compute distance on replicate %d" % (d[0], i)
                    return
                mats += d[1]
            b = exec_goalign(["build", "distboot", "-n", str(n), "-f", f, "--seed", seed, "-m"] + model + ["-t", t], stdin, {}, timeout_s)
            c.impl = ("same rc=0 out=%d files=%d" % (len(mats), n)) if (b[0] == 0 and b[1] == mats) else \
                "differ stdout seqboot+distance=%s distboot=%s(rc=%s)" % (hashlib.sha1(mats).hexdigest()[:12], hashlib.sha1(b[1]).hexdigest()[:12], b[0])
        else:
            c.impl = "bad-op"
    except Exception as e:       # noqa
        c.impl = "harness-error %r" % (e,)


def run_impl(binpath, cases, timeout_s=5.0, nproc=None, env=None, isolate=False):
    for i, c in enumerate(cases):
        c.id = i
    cli = [c for c in cases if c.op.startswith("cli")]
    if cli:
        with ThreadPoolExecutor(min(NCPU, len(cli))) as ex:
            list(ex.map(run_cli_case, cli))
    det = [c for c in cases if c.op.startswith("det")]
    if det:
        with ThreadPoolExecutor(min(NCPU, len(det))) as ex:
            list(ex.map(run_det_case, det))
    allcases = cases
    cases = [c for c in cases if not c.op.startswith(("cli", "det"))]
    if not cases:
        return
    if isolate:
        # one harness process per case: what a case shows must not depend on what ran before it in the same process
        # (package-level state in the code under test) — used while shrinking and when replaying
        chunks = [[(c.id, c.line())] for c in cases]
        nproc = min(NCPU, len(chunks))
    else:
        nproc = nproc or min(NCPU, max(1, len(cases) // 50))
        chunks = [[] for _ in range(nproc)]
        for i, c in enumerate(cases):
            chunks[i % nproc].append((c.id, c.line()))
    byid = {c.id: c for c in cases}
    with ThreadPoolExecutor(nproc) as ex:
        for res in ex.map(lambda ch: _worker_run(binpath, ch, timeout_s, env), chunks):
            for i, r in res.items():
                byid[i].impl = r


def run_oracle(cases, nproc=None):
    orc = oracle_path()
    nproc = nproc or min(NCPU, max(1, len(cases) // 200))
    chunks = [[] for _ in range(nproc)]
    for i, c in enumerate(cases):
        chunks[i % nproc].append(c)

    def one(ch):
        if not ch:
            return
        inp = "".join("%d\t%s\t%s\n" % (c.id, c.impl, c.line()) for c in ch)
        p = subprocess.run([orc], input=inp.encode(), stdout=subprocess.PIPE, stderr=subprocess.PIPE)
        byid = {}
        for ln in p.stdout.decode("utf-8", "replace").split("\n"):
            f = ln.split("\t")
            if len(f) == 3:
                byid[f[0]] = (f[1], f[2])
        for c in ch:
            m = byid.get(str(c.id))
            if m is None:
                c.model, c.verdict = "oracle-crash", "na"
            else:
                c.model, c.verdict = m
    with ThreadPoolExecutor(nproc) as ex:
        list(ex.map(one, chunks))


def evaluate(binpath, cases, timeout_s=5.0, env=None, isolate=False):
    run_impl(binpath, cases, timeout_s, env=env, isolate=isolate)
    run_oracle(cases)
    return cases


# --------------------------------------------------------------------------------------------
# known findings
# --------------------------------------------------------------------------------------------

def load_known():
    kf = {}
    p = os.path.join(VERIF, "known_findings.jsonl")
    if os.path.exists(p):
        for ln in open(p):
            ln = ln.strip()
            if not ln or ln.startswith("#"):
                continue
            if ln.startswith("fixed:"):
                continue
            try:
                e = json.loads(ln)
            except ValueError:
                continue
            if e.get("status") == "known":
                kf[(e["property"], e["id"])] = e
    return kf


# --------------------------------------------------------------------------------------------
# the generic check
# --------------------------------------------------------------------------------------------

class Result:
    def __init__(self, pid, tier, seed):
        self.pid, self.tier, self.seed = pid, tier, seed
        self.violations = []      # (kind, detail, replay_path, no_input_found)
        self.known = {}           # finding id -> (what, count)
        self.obligations = []     # dicts name/ok/kind
        self.coverage = {}
        self.assumptions = []
        self.t0 = time.time()

    def add_obligation(self, name, ok, kind, detail=""):
        self.obligations.append({"name": name, "ok": bool(ok), "kind": kind, "detail": detail})


def clear_replays(pid):
    if os.path.isdir(REPLAY):
        for fn in os.listdir(REPLAY):
            if fn.startswith(pid + "-"):
                os.remove(os.path.join(REPLAY, fn))


def write_replay(pid, n, payload):
    os.makedirs(REPLAY, exist_ok=True)
    p = os.path.join(REPLAY, "%s-%s.json" % (pid, n))
    json.dump(payload, open(p, "w"), indent=1)
    return p


def dd_chunks(n):
    """(start, end) removal windows, large to small (delta-debugging order)"""
    size = n // 2
    while size >= 1:
        for st in range(0, n, size):
            yield st, min(n, st + size)
        size //= 2


def shrink_case(mod, binpath, case, still_bad, max_rounds=60, budget_s=45.0):
    """greedy shrinking using the property module's `shrink(case)` candidates (ordered from the most
    aggressive to the least); bounded by a wall-clock budget"""
    if case.op == "detmulti":
        from driver import multigen
        shrinker = multigen.shrink
    elif case.op in ("cli_lib", "cli_libf", "detgz"):
        from driver import cligen
        shrinker = cligen.shrink
    elif hasattr(mod, "shrink"):
        shrinker = mod.shrink
    else:
        return case
    cur = case
    t0 = time.time()
    for _ in range(max_rounds):
        if time.time() - t0 > budget_s:
            break
        try:
            cands = list(shrinker(cur))[:300]
        except Exception:       # noqa: a shrinker that does not know the op must not take the check down
            cands = []
        if not cands:
            break
        nxt = None
        # evaluate in small batches so that an early (aggressive) candidate is taken quickly
        for k in range(0, len(cands), 32):
            batch = cands[k:k + 32]
            evaluate(binpath, batch, timeout_s=getattr(mod, "TIMEOUT", 5.0), isolate=True)
            for c in batch:
                if still_bad(c):
                    nxt = c
                    break
            if nxt is not None or time.time() - t0 > budget_s:
                break
        if nxt is None:
            break
        cur = nxt
    return cur


def finish(res, mod, samples, evaluations, nontrivial, rule, extra_cov=None):
    ob = len(res.obligations)
    dis = sum(1 for o in res.obligations if o["ok"])
    cov = {
        "obligations": ob,
        "discharged": dis,
        "checker_cmd": "cd /verif/lean && lake build %s && lake env lean --run Audit/Audit.lean %s" % (
            " ".join(mod.LEAN_MODULES), " ".join(mod.LEAN_MODULES)),
        "trusted_base": TRUSTED_BASE + getattr(mod, "TRUSTED", []),
        "evaluations": max(1, evaluations),
        "distinct_nontrivial": nontrivial,
        "rule": rule,
        "samples": samples[:8] if samples else ["(none)"],
        "obligation_list": res.obligations,
        "partial": getattr(mod, "PARTIAL", []),
        "known_findings_hit": {k: v[1] for k, v in res.known.items()},
    }
    if extra_cov:
        cov.update(extra_cov)
    ev = {
        "property_id": res.pid,
        "tier": res.tier,
        "seed": res.seed,
        "level": "proof",
        "coverage": cov,
        "assumptions": ASSUMPTIONS + getattr(mod, "ASSUMPTIONS", []),
        "wall_s": round(time.time() - res.t0, 2),
        "violations": len(res.violations),
    }
    os.makedirs(EVID, exist_ok=True)
    json.dump(ev, open(os.path.join(EVID, "%s.json" % res.pid), "w"), indent=1)
    for fid, (what, cnt) in sorted(res.known.items()):
        print("KNOWN-FINDING: property=%s %s [%s, %d case(s) this run]" % (res.pid, what, fid, cnt))
    for kind, detail, path, noinput in res.violations:
        print("VIOLATION property=%s replay=%s %s%s" % (
            res.pid, path, kind, " no-failing-input-found" if noinput else ""))
    sys.stdout.flush()
    return 1 if res.violations else 0


TRUSTED_BASE = [
    "Lean 4.33.0 kernel (leanchecker re-checks the compiled property modules in the thorough tier)",
    "axioms allowed: propext, Classical.choice, Quot.sound (audited per theorem on every run; no native_decide, no bv_decide)",
    "tools/extract (Go, go/ast): transcription of tables/constants/switch classes from /repo's working tree into lean/Gv/Gen",
    "tools/harness (Go) + driver (python): correspondence check model vs implementation, generators, canonicalisation",
    "hand-written models in lean/Gv/Model are validated against the implementation only on the generated cases",
]
ASSUMPTIONS = [
    "ASCII residues (< 128): unicode.ToUpper on bytes >= 128 is outside every property's quantifier",
    "Go compiler/runtime, math/rand, regexp, fmt are trusted",
]


def generic_check(mod, tier, seed):
    """The standard flow for properties decided by theorems + T1 regeneration + T4 correspondence."""
    res = Result(mod.ID, tier, seed)
    known = load_known()
    rng = random.Random(seed * 1000003 + hash_id(mod.ID))
    clear_replays(mod.ID)

    with Lock():
        ok, out, _ = regenerate()
        res.add_obligation("T1:regenerate-from-source", ok, "tie", "" if ok else out[-500:])
        gen_ok = ok
        set_oracle(mod.ID)
        bok, broken, bout, bt = lake_build(mod.LEAN_MODULES + [ORACLE])
        oracle_ok = bok
        if not bok:
            # is the oracle itself current even though a Props module failed?
            ook, obroken, _, _ = lake_build([ORACLE])
            oracle_ok = ook and os.path.exists(oracle_path())
        ths = []
        audit_fail = None
        if bok:
            rc, ths, aout = audit(mod.LEAN_MODULES)
            if rc not in (0, 1) or not ths:
                # one retry (a cold first start of the interpreter can be slow)
                rc, ths, aout = audit(mod.LEAN_MODULES)
            if rc not in (0, 1) or not ths:
                audit_fail = "axiom audit did not run (rc=%s): %s" % (rc, aout[-1500:])
                res.add_obligation("axiom-audit-ran", False, "audit", aout[-1500:])
        toks = forbidden_token_scan()
        res.add_obligation("no-forbidden-tokens(sorry/admit/axiom/native_decide/bv_decide/...)", not toks, "audit", "; ".join(toks))
        lc_fail = None
        if bok and tier == "thorough":
            lok, lout = leancheck(mod.LEAN_MODULES)
            res.add_obligation("leanchecker re-checks the compiled property modules", lok, "audit", "" if lok else lout[-800:])
            if not lok:
                lc_fail = "leanchecker rejected a compiled module: " + lout[-300:]
        hok, hout, _, binpath = build_harness()
        res.add_obligation("harness-builds-against-working-tree", hok, "tie", "" if hok else hout[-800:])
        if getattr(mod, "NEEDS_BINARY", False):
            cok, cout, _, _ = build_binary()
            res.add_obligation("goalign-binary-builds-from-working-tree", cok, "tie", "" if cok else cout[-800:])
            hok = hok and cok
            hout = hout + cout

    names = {t["name"] for t in ths}
    for t in ths:
        res.add_obligation("theorem:" + t["name"], t["ok"], "theorem", "axioms=" + ",".join(t["axioms"]))
    missing = [n for n in getattr(mod, "REQUIRED_THEOREMS", []) if n not in names]
    broken_names = []
    if not bok:
        for b in broken:
            nm = b["theorem"] or b["file"]
            broken_names.append("%s (%s:%d: %s)" % (nm, b["file"], b["line"], b["msg"]))
            res.add_obligation("theorem:" + str(nm), False, "theorem", "%s:%d %s" % (b["file"], b["line"], b["msg"]))
    elif missing:
        for n in missing:
            broken_names.append(n + " (required theorem is missing from the compiled module)")
            res.add_obligation("theorem:" + n, False, "theorem", "missing")
    bad_ax = [t for t in ths if not t["ok"]]
    for t in bad_ax:
        broken_names.append("%s (forbidden axioms %s)" % (t["name"], t["axioms"]))
    if toks:
        broken_names.append("forbidden tokens: " + "; ".join(toks))
    if not gen_ok:
        broken_names.append("T1 regeneration: " + out[-300:])
    if audit_fail:
        broken_names.append(audit_fail)
    if lc_fail:
        broken_names.append(lc_fail)

    if not hok:
        p = write_replay(mod.ID, "harness-build", {"obligation": "harness-builds-against-working-tree", "output": hout[-3000:]})
        res.violations.append(("harness does not build against the working tree", hout[-200:], p, True))
        return finish(res, mod, [], 0, 0, "harness build failed")
    stale_model = []
    if not oracle_ok:
        # The regenerated tables no longer compile (a translator stage could not follow the source).  To still SEARCH
        # for a failing input, fall back to the last known good copy of exactly those tables (lean/GenGood, a snapshot
        # of lean/Gv/Gen taken on the unchanged tree): the property predicate of the oracle does not depend on them,
        # only the model side does (which is then stale, and reported as such).
        with Lock():
            stale_model = restore_good_gen()
            if stale_model:
                ook, _, _, _ = lake_build([ORACLE])
                oracle_ok = ook and os.path.exists(oracle_path())
    if not oracle_ok:
        p = write_replay(mod.ID, "model-build", {"obligation": "model/oracle build", "broken": broken, "output": bout[-3000:]})
        res.violations.append(("model or regenerated tables no longer compile: " + "; ".join(broken_names)[:300], "", p, True))
        return finish(res, mod, [], 0, 0, "oracle build failed")
    if stale_model:
        res.add_obligation("oracle rebuilt on the last known good copy of " + ",".join(stale_model) +
                           " to search for a failing input (model side stale)", False, "tie", "")

    # ---- correspondence + property predicate on the implementation's results ----------------
    search_tier = tier
    cases = corpus_cases(mod) + list(mod.gen(rng, tier))
    seen, uniq = set(), []
    for c in cases:
        k = c.key()
        if k not in seen:
            seen.add(k)
            uniq.append(c)
    cases = uniq
    evaluate(binpath, cases, timeout_s=getattr(mod, "TIMEOUT", 5.0))
    if hasattr(mod, "recheck"):
        # optional module hook: re-run suspicious cases (e.g. watchdog hits under machine load) on their own
        mod.recheck(binpath, cases)
    failing, mismatching = classify_cases(mod, cases, known, res)
    st_fail, st_mis, st_info = state_pass(mod, binpath, cases, random.Random(seed * 31337 + 5), tier, known)

    if (broken_names or mismatching) and not failing and tier == "quick":
        # something broke but no failing input yet: widen the search (DESIGN §3 step 4)
        rng2 = random.Random(seed * 7919 + 17)
        extra = [c for c in mod.gen(rng2, "thorough") if c.key() not in seen]
        evaluate(binpath, extra, timeout_s=getattr(mod, "TIMEOUT", 5.0))
        f2, m2 = classify_cases(mod, extra, known, res)
        failing += f2
        mismatching += m2
        cases += extra
        search_tier = "thorough(search)"

    n = 0
    reported = set()
    for c in failing:
        if (c.op, c.verdict) in reported:
            continue
        reported.add((c.op, c.verdict))
        small = shrink_case(mod, binpath, c, lambda x, v=c.verdict: (x.verdict == v or (getattr(mod, "SHRINK_ANY_FAIL", False) and (x.verdict or "").startswith("fail"))) and
                            classify_known(mod, x, known) is None)
        n += 1
        p = write_replay(mod.ID, n, {"property": mod.ID, "seed": seed, "case": small.to_json(),
                                     "original": c.to_json(),
                                     "replay": "./check %s --replay <this file>" % mod.ID})
        res.violations.append(("%s on `%s`" % (small.verdict, small.line()[:160].replace("\t", " ")), "", p, False))
        if n >= 4:
            break

    for c, pre in st_fail[:3]:
        n += 1
        p = write_replay(mod.ID, n, {"property": mod.ID, "seed": seed, "case": c.to_json(),
                                     "calls_made_before_in_the_same_process": [x.line() for x in pre],
                                     "note": "the case passes when it is the first call of a process; the listed calls, made before "
                                             "it in the same process, make it fail",
                                     "replay": "./check %s --replay <this file>" % mod.ID})
        res.violations.append(("%s on `%s` after %d earlier call(s) in the same process (first: `%s`)" % (
            c.verdict, c.line()[:120].replace("\t", " "), len(pre),
            pre[0].line()[:80].replace("\t", " ") if pre else ""), "", p, False))
    res.add_obligation("T4:results do not depend on earlier calls in the same process (%d cases x %d orders, single process each)" % (
        st_info["cases_per_order"], st_info["orders"]), not st_fail and not st_mis, "tie",
        "" if not (st_fail or st_mis) else "%d failing, %d leaving the model" % (len(st_fail), len(st_mis)))
    if st_mis and not st_fail and not failing:
        c, pre = st_mis[0]
        p = write_replay(mod.ID, "state", {"property": mod.ID, "obligation": "T4 correspondence, same process",
                                           "case": c.to_json(), "calls_made_before_in_the_same_process": [x.line() for x in pre],
                                           "note": "model = implementation when the case is the first call of a process, not after the listed calls; "
                                                   "the property predicate held on every explored input"})
        res.violations.append(("correspondence broken on `%s` after %d earlier call(s) in the same process: impl=%s model=%s" % (
            c.line()[:100].replace("\t", " "), len(pre), str(c.impl)[:60], str(c.model)[:60]), "", p, True))

    corr_ok = not mismatching
    res.add_obligation("T4:correspondence model=implementation on %d cases" % len(cases), corr_ok, "tie",
                       "" if corr_ok else "%d mismatches, e.g. %s" % (len(mismatching), mismatching[0].to_json()))
    if not failing:
        if mismatching:
            c = shrink_case(mod, binpath, mismatching[0], lambda x: not model_matches(mod, x))
            p = write_replay(mod.ID, "correspondence", {
                "property": mod.ID, "obligation": "T4 correspondence (model = implementation)",
                "note": "model and implementation disagree; the property predicate held on every explored input",
                "case": c.to_json(), "mismatches": len(mismatching), "searched": search_tier})
            res.violations.append(("correspondence broken on `%s`: impl=%s model=%s" % (
                c.line()[:120], str(c.impl)[:80], str(c.model)[:80]), "", p, True))
        if broken_names:
            p = write_replay(mod.ID, "proof", {
                "property": mod.ID, "obligation": "proof obligations no longer check",
                "broken": broken_names, "lake_output": bout[-4000:], "searched": search_tier,
                "note": "no failing input found on %d cases" % len(cases)})
            res.violations.append(("proof obligation broken: " + "; ".join(broken_names)[:300], "", p, True))

    nontriv = len({c.key() for c in cases if c.nontrivial})
    samples = [c.to_json() for c in cases[:: max(1, len(cases) // 6)]][:6]
    dist = {}
    for c in cases:
        dist[c.tag or c.op] = dist.get(c.tag or c.op, 0) + 1
    outcomes = {}
    for c in cases:
        k = (c.impl or "").split(" ")[0].split(":")[0]
        outcomes[k] = outcomes.get(k, 0) + 1
    return finish(res, mod, samples, len(cases), nontriv, mod.RULE,
                  {"generator_distribution": dist, "impl_outcome_kinds": outcomes,
                   "unmodelled_cases": sum(1 for c in cases if c.model == getattr(mod, "UNMODELLED", None)
                                           or (c.op.startswith("cli") and c.model in ("unmodelled", "bad-args"))),
                   "search_tier": search_tier,
                   "theorems": [{"name": t["name"], "axioms": t["axioms"]} for t in ths]})


def _seq_run(binpath, seq, timeout_s):
    """run the cases of `seq` one after the other in ONE harness process (state left by a call is seen by the next)"""
    for i, c in enumerate(seq):
        c.id = i
    r = _worker_run(binpath, [(c.id, c.line()) for c in seq], timeout_s)
    for c in seq:
        c.impl = r.get(c.id)
    run_oracle(seq, nproc=1)
    return seq


def _clone(c):
    return Case(c.op, c.args, c.nontrivial, c.tag)


def state_pass(mod, binpath, cases, rng, tier, known):
    """Same process, several orders.  The correspondence run spreads the cases over many harness processes, so a result
    that depends on what was called BEFORE in the same process (a package-level cache, a model object that keeps a
    value from its previous initialisation, a buffer shared with an earlier result) is easily missed.  A stratified
    sample of the cases that passed is therefore run again in single processes, in several random orders (and each
    order reversed); the oracle judges every result again.  A case that now fails or leaves the model, and is fine
    when run alone, is reported with the (shrunk) sequence of earlier calls that it needs.
    Returns (failing, mismatching, info): lists of (case, sequence-of-cases-before-it)."""
    skip = set(getattr(mod, "STATE_PASS_SKIP", []))
    pool = [c for c in cases if not c.op.startswith(("cli", "det")) and c.op not in skip
            and (c.verdict or "na").startswith(("pass", "na")) and model_matches(mod, c)
            and not (c.impl or "").startswith(("hang", "exit"))]
    by = {}
    for c in pool:
        by.setdefault((c.op, c.tag), []).append(c)
    H = getattr(mod, "STATE_PASS_N", 480 if tier == "quick" else 3000)
    per = max(4, H // max(1, len(by)))
    sample = []
    for k in sorted(by):
        sample += rng.sample(by[k], min(per, len(by[k])))
    norders = 3 if tier == "quick" else 8
    orders = []
    for _ in range(norders):
        o = list(sample)
        rng.shuffle(o)
        orders.append([_clone(c) for c in o])
        orders.append([_clone(c) for c in reversed(o)])
    tmo = getattr(mod, "TIMEOUT", 5.0)
    with ThreadPoolExecutor(min(NCPU, len(orders))) as ex:
        list(ex.map(lambda sq: _seq_run(binpath, sq, tmo), orders))
    failing, mismatching = [], []
    seen = set()
    for sq in orders:
        for i, c in enumerate(sq):
            bad_v = (c.verdict or "na").startswith("fail") and classify_known(mod, c, known) is None
            bad_m = not bad_v and not (c.verdict or "na").startswith("fail") and not model_matches(mod, c)
            if not (bad_v or bad_m) or c.key() in seen:
                continue
            seen.add(c.key())
            alone = _clone(c)
            evaluate(binpath, [alone], timeout_s=tmo, isolate=True)
            alone_bad = (alone.verdict or "na").startswith("fail") or not model_matches(mod, alone)
            if alone_bad:
                # not state: the case itself is bad now (flaky or nondeterministic) - judged like any case
                (failing if (alone.verdict or "").startswith("fail") else mismatching).append((alone, []))
                continue
            pre = _shrink_prefix(mod, binpath, sq[:i], c, tmo, bad_v)
            last = _seq_run(binpath, [_clone(x) for x in pre] + [_clone(c)], tmo)[-1]
            (failing if bad_v else mismatching).append((last, pre))
            if len(failing) + len(mismatching) >= 6:
                break
    info = {"cases_per_order": len(sample), "orders": len(orders), "strata": len(by)}
    return failing, mismatching, info


def _shrink_prefix(mod, binpath, prefix, case, tmo, want_fail, budget_s=40.0):
    """delta debugging over the calls made before `case` in the same process"""
    def bad(pre):
        last = _seq_run(binpath, [_clone(x) for x in pre] + [_clone(case)], tmo)[-1]
        if want_fail:
            return (last.verdict or "na").startswith("fail")
        return not (last.verdict or "na").startswith("fail") and not model_matches(mod, last)
    cur = list(prefix)
    t0 = time.time()
    if not bad(cur):
        return cur          # order-dependent beyond the prefix (should not happen); keep everything
    changed = True
    while changed and time.time() - t0 < budget_s:
        changed = False
        for st, en in dd_chunks(len(cur)):
            if time.time() - t0 > budget_s:
                break
            cand = cur[:st] + cur[en:]
            if len(cand) < len(cur) and bad(cand):
                cur = cand
                changed = True
                break
    return cur


def model_matches(mod, c):
    """model = implementation?  A property module may refine this (e.g. compare a history only up to
    the step where the property is already violated)."""
    if c.op.startswith("det"):
        return (c.impl or "").startswith("same")      # the model of a det* op is always `same`
    if c.op.startswith("cli") and c.model in ("unmodelled", "bad-args"):
        # a command line the expectations do not cover (e.g. a flag whose registration is no longer found in cmd/*.go):
        # nothing is claimed about it, so nothing is reported; the evidence counts these cases
        return True
    if hasattr(mod, "matches"):
        return mod.matches(c)
    if c.model == "panic" and (c.impl or "").startswith("panic"):
        return True       # the Go panic message is never compared
    return c.model == c.impl


def classify_known(mod, c, known):
    if hasattr(mod, "classify"):
        fid = mod.classify(c)
        if fid and (mod.ID, fid) in known:
            return fid
    return None


def classify_cases(mod, cases, known, res):
    failing, mismatching = [], []
    for c in cases:
        v = c.verdict or "na"
        if v.startswith("fail"):
            fid = classify_known(mod, c, known)
            if fid:
                e = known[(mod.ID, fid)]
                cnt = res.known.get(fid, (e["what"], 0))[1] + 1
                res.known[fid] = (e["what"], cnt)
                # a known finding must still be modelled faithfully
                if not model_matches(mod, c):
                    mismatching.append(c)
            else:
                failing.append(c)
        elif not model_matches(mod, c):
            mismatching.append(c)
    return failing, mismatching


def corpus_cases(mod):
    d = os.path.join(VERIF, "corpus", mod.ID)
    out = []
    if os.path.isdir(d):
        for fn in sorted(os.listdir(d)):
            for ln in open(os.path.join(d, fn)):
                ln = ln.rstrip("\n")
                if ln and not ln.startswith("#"):
                    f = ln.split("\t")
                    out.append(Case(f[0], f[1:], True, "corpus"))
    return out


def hash_id(s):
    h = 0
    for ch in s:
        h = (h * 131 + ord(ch)) % 1000003
    return h


def replay(mod, path):
    if hasattr(mod, "replay"):
        return mod.replay(path)
    d = json.load(open(path))
    if "case" not in d:
        print(json.dumps(d, indent=1))
        return 0
    with Lock():
        regenerate()
        set_oracle(mod.ID)
        lake_build([ORACLE])
        ok, out, _, binpath = build_harness()
    c = Case(d["case"]["op"], d["case"]["args"])
    pre = d.get("calls_made_before_in_the_same_process")
    if pre:
        sq = [Case(l.split("\t")[0], l.split("\t")[1:]) for l in pre] + [c]
        _seq_run(binpath, sq, getattr(mod, "TIMEOUT", 5.0))
        print("after %d earlier call(s) in the same process:" % len(pre))
        for l in pre[:10]:
            print("  before :", l[:200])
    else:
        evaluate(binpath, [c], timeout_s=getattr(mod, "TIMEOUT", 5.0))
    print("op      :", c.line())
    print("impl    :", c.impl)
    print("model   :", c.model)
    print("verdict :", c.verdict)
    bad = (c.verdict or "").startswith("fail") or c.model != c.impl
    return 1 if bad else 0
