"""C07 — nucleotide distances equal the published estimators and form sane matrices."""
import json
import os
import struct
import sys

from driver import common
from driver.common import Case, dd_chunks

ID = "C07"
LEVEL_TEXT = (
    "Lean theorems. (a) For all alignments, by induction over sites: the pair counters (differences, with gaps, internal gaps, "
    "transitions/transversions) are symmetric and vanish on equal rows, unit weights = no weights, site selection = 'every row "
    "holds A/C/G/T', the assembled matrix (whole or range mode) is symmetric with a zero diagonal. (b) Over the reals, about the "
    "estimator code REGENERATED from distance/dna/*.go on every run: JC69, K2P, F81, F84, TN93 and their gamma variants equal "
    "the published formulas on their domain, are >= the observed proportion of differences there, and are 0 without "
    "differences. (c) Over IEEE-like special values (NaN, +-Inf): for each of the five estimators, either the source guards its "
    "logarithm arguments and then an undefined estimator (no comparable site, argument <= 0) is never a finite value - for all "
    "inputs - or the source is exactly the unchanged one, for which the theorem exhibits the finite value returned on a "
    "saturated witness; the matrix assembly turns such values into NaN or the 2*max substitute. Tied to /repo by regeneration "
    "of the formulas (T2) and tables (T1) and by a differential run of dna.DistMatrix against the model and, independently, "
    "against the published formulas evaluated on each pair's comparable sites. (d) Link to C18 (Props/C07Inv.lean), over the "
    "reals: for JC69, K80, F81, F84 and TN93 the published estimator - and the regenerated Go estimator, for t >= 0 - applied to "
    "the expected proportions of differences / transitions / transversions / A<->G / C<->T of two stationary sequences "
    "separated by time t under the model's P(t) returns exactly t; P(t) is the closed form proved in C18 to be exp(tQ) for the "
    "textbook rate matrix (JC, K2P, F84), and for F81 / TN93 a symbolic eigen-system proved here to diagonalise the rate matrix "
    "regenerated from models/dna/{f81,tn93}.go; the Jin-Nei gamma forms invert the gamma mixture of P(rt) (moment generating "
    "function of the gamma distribution proved from Mathlib's Gamma integral). Float rounding is trusted: see 'partial'.")
LEVEL_NOTE = (
    "Trusted: Lean kernel; tools/extract (go/ast translation of the Distance/InitModel bodies - cross-checked because the "
    "generated text is executed against the Go code on every run); harness + oracle; float64 rounding, math.Log/math.Pow "
    "(compared with relative tolerance 1e-9 and exact NaN/Inf/finite class; raw and p-distances, i.e. the counters, bit-exact); "
    "the transcription of the published formulas in Spec/Published.lean; the hand-written counters / probaNt / matrix assembly "
    "are validated on generated alignments (2-8 rows x 1-60 columns) only. One worker thread (threads are C08). The unchanged "
    "tree violates C07 in six recorded ways (known_findings.jsonl, proposed_fixes/c07-*.diff); the check passes without them "
    "on the patched tree.")
TECHNIQUE = "Lean 4 proof (induction over sites; Mathlib real analysis on regenerated code; IEEE special-value interpretation) + differential correspondence"
NEEDS_BINARY = True
LEAN_MODULES = ["Gv.Props.C07", "Gv.Props.C07Inv", "Gv.Props.C07InvGamma"]
REQUIRED_THEOREMS = ["Gv.Props.C07." + n for n in [
    "countDiffs_symmetric", "countDiffsWithGaps_symmetric", "countMutations_symmetric",
    "countDiffsWithInternalGaps_symmetric_of_max_comm", "countDiffsWithInternalGaps_symmetric",
    "counters_zero_on_equal_rows", "countMutations_zero_on_equal_rows", "internalGaps_zero_on_equal_rows",
    "selectedSites_spec", "weights_nil_eq_unit", "matrix_symmetric", "matrix_diag_zero",
    "jc_eq_published", "jc_gamma_eq_published", "k2p_eq_published", "k2p_gamma_eq_published",
    "f81_eq_published", "f81_gamma_eq_published", "f84_eq_published", "f84_gamma_eq_published",
    "tn93_eq_published", "tn93_gamma_eq_published",
    "jc_ge_pdist", "k2p_ge_pdist", "f81_ge_pdist", "f84_ge_pdist", "tn93_ge_pdist",
    "estimator_zero_of_no_difference",
    "safe_pinf", "not_safe_zero",
    "jc_undefined_never_small_or_witness", "k2p_undefined_never_small_or_witness",
    "f81_undefined_never_small_or_witness", "f84_undefined_never_small_or_witness",
    "tn93_undefined_never_small_or_witness",
    "undefined_never_small_matrix", "substitute_repaired_pos_or_nan", "substitute_asIs_zero_witness",
]] + ["Gv.Props.C07Inv." + n for n in [
    # expected observables of a stationary pair (site pattern (i,j) has probability pi_i P_ij(t))
    "expDiff_eq_ts_add_tv",
    # JC69 / K80: against the closed forms jcP, k2pP of C18 (= exp(tQ) there)
    "jc_expected_p", "jc_inverts_expected_p", "jc_inverts_textbook_model", "jc_code_inverts_expected_p",
    "k2p_expected_PQ", "k2p_inverts_expected_PQ", "k2p_inverts_textbook_model", "k2p_code_inverts_expected_PQ",
    # Tamura-Nei family: closed-form observables for the F84 eigenvectors and any three eigenvalues
    "tnP_expected", "f84P_eq_tnP",
    "f84_expected_PQ", "f84_log_args", "f84_inverts_expected_PQ", "f84_inverts_textbook_model",
    "f84_code_inverts_expected_PQ",
    "f81Q_eq_f84Q_zero", "f81_P_closed_form", "f81_expected_p", "f81_inverts_expected_p",
    "f81_inverts_textbook_model", "f81_code_inverts_expected_p",
    "tn93_eigen_RDL", "tn93P_eq_exp", "tn93_closed_form_laws", "tn93_log_args", "tn93_inverts_expected",
    "tn93_inverts_textbook_model", "tn93_code_inverts_expected",
]] + ["Gv.Props.C07InvGamma." + n for n in [
    # rate heterogeneity: spectral weights e^y (one rate) / (1 - y/alpha)^(-alpha) (gamma rates), uniformly in g
    "nl_wt", "gamma_mgf", "tnW_false_eq_tnP", "tnW_true_eq_integral",
    "tnA_expected", "tnA_tn93_args", "tnA_f84_args", "tnA_f81_arg",
    "jc_rates_invert", "k2p_rates_invert", "f81_rates_invert", "f84_rates_invert", "tn93_rates_invert",
    "jcP_eq_tnW", "k2pP_eq_tnW",
]]
PARTIAL = [
    "float64 rounding, overflow and the last-ulp behaviour of math.Log / math.Pow are not modelled: the real-valued theorems are about the regenerated formulas over R, the run compares Go and Lean Float with relative tolerance 1e-9 (raw and p-distance bit-exact); pairs whose logarithm argument is within 1e-9 of 0 without being 0 are not judged",
    "signed zeros and the NaN/Inf special cases of math.Max are not modelled (weights are finite and positive); FVal has no signed zero and no overflow",
    "the special-value theorems have the form 'guarded for all inputs OR the recorded witness of the unchanged source'; which disjunct holds is reported per run (SOURCE-VERSION line, evidence.coverage.source_version_seen)",
    "f84/tn93 theorems assume positive base frequencies (tn93 gamma and f84 also that they sum to 1); degenerate frequencies are exercised by the run only",
    "inversion theorems (Props/C07Inv.lean, Props/C07InvGamma.lean): JC69, K80, F81, F84, TN93 applied to the expected "
    "observables pi_i*P_ij(t) of their model return t - published formula, regenerated Go formula for t >= 0 (one rate), and "
    "against exp(tQ) of the textbook rate matrix; the gamma variants (published formulas only, not the regenerated Go code) "
    "against the gamma mixture E_r[P(r t)], r ~ Gamma(shape alpha, mean 1), identified entry by entry with the eigen-assembly "
    "whose weights are the gamma moment generating function (gamma_mgf, tnW_true_eq_integral). Base frequencies are assumed "
    "positive with sum 1 and kappa > 0 (K80, TN93) / kappa >= 0 (F84): the parameter domain of the models",
    "K2P / F84 / TN93 count a difference between ambiguity codes that is neither a definite transition nor a definite transversion (e.g. M vs G) in neither class; their observed proportion of differences is P + Q (= p for unambiguous residues); a defined value above NT_DIST_OVER = 100000 is accepted as saturated (substitute, NaN or the value)",
    "countMutations is not observable alone through the public API: it is compared through K2P/F84/TN93 values (tolerance 1e-9), the three difference counters bit-exactly through rawdist/pdist",
]
TRUSTED = ["Spec/Published.lean: transcription of JC69, K80, Tajima-Nei/F81, F84, TN93 and the Jin-Nei gamma forms from the literature"]
ASSUMPTIONS = ["site weights are finite and positive, alpha > 0, residues are IUPAC nucleotide codes (either case) or '-'"]
RULE = ("alignments of 2-8 rows x 1-60 columns over A,C,G,T (+ IUPAC ambiguity codes, lower case, leading/trailing/internal gap "
        "runs), built as random / mutated-from-a-parent (identical, few differences, near the saturation boundary, saturated, "
        "transition- or transversion-only) families; 7 models x gamma x alpha in {1/10,1/2,1,2,10} x rm-gaps x gap-mut mode "
        "{0,1,2} x rm-ambiguous x weights {nil, ones, random positive ratios} x ranges {none, valid, clamped, overlapping, "
        "min>max}; non-trivial = some pair differs and the alignment holds a gap or an ambiguity code")
TIMEOUT = 10.0

MODELS = ["rawdist", "pdist", "jc", "k2p", "f81", "f84", "tn93"]
ALPHAS = ["1/10", "1/2", "1", "2", "10"]
AMBIG = "RYSWKMBDHVN"
TS = {"A": "G", "G": "A", "C": "T", "T": "C"}

KNOWN_BY_CLAUSE = {
    "fail:undefined-as-zero-by-clamp": "c07-nan-clamp",
    "fail:undefined-as-finite-by-gamma-pow": "c07-gamma-negative-base",
    "fail:undefined-as-zero-substitute": "c07-substitute-zero",
    "fail:formula-internal-gaps-ignore-selection": "c07-internal-gaps-ignore-selection",
    "fail:formula-freq-over-all-cells": "c07-freq-over-all-cells",
    "fail:rounding-negative-substituted": "c07-rounding-negative-substituted",
}


def classify(case):
    """a failing verdict is attributed to a recorded finding only by the oracle's clause, and only when the
    model (which mirrors the recorded behaviour) reproduces the implementation's matrix: the attribution
    uses the model's estimator value, so it is meaningless when the two disagree"""
    if case.model != case.impl:
        return None
    return KNOWN_BY_CLAUSE.get(case.verdict or "")


def rows_str(rows):
    return ",".join("s%d:%s" % (i, r) for i, r in enumerate(rows))


def mk(op, model, rmgaps, gapmode, rmamb, gamma, alpha, weights, ranges, rows, tag):
    w = "_" if weights is None else ",".join(weights)
    nontriv = len(set(r.upper() for r in rows)) > 1 and any(ch in AMBIG + AMBIG.lower() + "-" for r in rows for ch in r)
    return Case(op, [model, int(rmgaps), gapmode, int(rmamb), int(gamma), alpha, w,
                     ",".join(str(x) for x in ranges), rows_str(rows)], nontriv, tag)


def rand_ratio(rng):
    k = rng.random()
    if k < 0.4:
        return str(rng.randint(1, 4))
    d = rng.choice([2, 3, 4, 5, 7, 8, 10])
    return "%d/%d" % (rng.randint(1, 3 * d), d)


def mutate(rng, parent, kind):
    """a row derived from `parent`"""
    L = len(parent)
    s = list(parent)
    if kind == "identical":
        return parent
    if kind == "few":
        for _ in range(rng.randint(1, max(1, L // 6))):
            j = rng.randrange(L)
            s[j] = rng.choice("ACGT")
    elif kind == "transitions":
        for j in range(L):
            if s[j] in TS and rng.random() < rng.choice([0.2, 0.5, 1.0]):
                s[j] = TS[s[j]]
    elif kind == "transversions":
        for j in range(L):
            if s[j] in TS and rng.random() < rng.choice([0.2, 0.5, 1.0]):
                s[j] = rng.choice([c for c in "ACGT" if c != s[j] and c != TS[s[j]]])
    elif kind == "nearsat":
        # differing proportion around 3/4 (the JC69 boundary): L*3/4 rounded down / up, +-1
        k = max(0, min(L, (3 * L) // 4 + rng.choice([-1, 0, 0, 1])))
        for j in rng.sample(range(L), k):
            if s[j] in TS:
                s[j] = rng.choice([c for c in "ACGT" if c != s[j]])
    elif kind == "saturated":
        for j in range(L):
            if s[j] in TS:
                s[j] = rng.choice([c for c in "ACGT" if c != s[j]])
    return "".join(s)


def add_gaps(rng, s):
    L = len(s)
    t = list(s)
    kind = rng.choice(["lead", "trail", "internal", "both", "scatter", "none", "none"])
    if kind in ("lead", "both"):
        for j in range(rng.randint(1, max(1, L // 4))):
            t[j] = "-"
    if kind in ("trail", "both"):
        for j in range(rng.randint(1, max(1, L // 4))):
            t[L - 1 - j] = "-"
    if kind == "internal" and L >= 3:
        a = rng.randrange(1, L - 1)
        for j in range(a, min(L - 1, a + rng.randint(1, 4))):
            t[j] = "-"
    if kind == "scatter":
        for j in range(L):
            if rng.random() < 0.15:
                t[j] = "-"
    return "".join(t)


def add_ambig(rng, s, rate):
    return "".join(rng.choice(AMBIG) if ch != "-" and rng.random() < rate else ch for ch in s)


def rand_alignment(rng, small=False):
    n = rng.choice([2, 2, 3, 3, 4, 5, 8]) if not small else rng.choice([2, 3])
    L = rng.choice([1, 2, 3, 4, 5, 8, 12, 20, 37, 60]) if not small else rng.randint(1, 6)
    comp = rng.choice(["ACGT", "ACGT", "ACGT", "AG", "ACG", "AAAC", "CT"])
    parent = "".join(rng.choice(comp) for _ in range(L))
    fam = rng.choice(["random", "mutated", "mutated", "mutated"])
    rows = []
    for i in range(n):
        if fam == "random" or i == 0:
            r = parent if i == 0 else "".join(rng.choice(comp) for _ in range(L))
        else:
            r = mutate(rng, rng.choice(rows[:1] + [parent]), rng.choice(
                ["identical", "few", "few", "transitions", "transversions", "nearsat", "nearsat", "saturated"]))
        rows.append(r)
    style = rng.choice(["plain", "plain", "gaps", "gaps", "ambig", "both", "both", "lower"])
    if style in ("gaps", "both"):
        rows = [add_gaps(rng, r) for r in rows]
    if style in ("ambig", "both"):
        rate = rng.choice([0.03, 0.1, 0.3])
        rows = [add_ambig(rng, r, rate) for r in rows]
    if style == "lower":
        rows = ["".join(ch.lower() if rng.random() < 0.3 else ch for ch in r) for r in rows]
    return rows


def rand_options(rng, rows, model=None):
    n, L = len(rows), len(rows[0])
    model = model or rng.choice(MODELS)
    gamma = rng.random() < 0.45 and model not in ("rawdist", "pdist")
    alpha = rng.choice(ALPHAS)
    rmgaps = rng.random() < 0.3
    gapmode = rng.choice([0, 1, 2]) if model in ("rawdist", "pdist") else 0
    rmamb = model == "pdist" and rng.random() < 0.5
    k = rng.random()
    weights = None if k < 0.55 else (["1"] * L if k < 0.65 else [rand_ratio(rng) for _ in range(L)])
    k = rng.random()
    if k < 0.7:
        ranges = [-1, -1, -1, -1]
    elif k < 0.95:
        a = rng.randrange(n)
        b = rng.randrange(a, n + 2)          # may exceed n-1: clamped
        c = rng.randrange(n)
        d = rng.randrange(c, n + 2)
        ranges = [a, b, c, d]
    elif k < 0.98:
        ranges = [rng.randrange(n), rng.randrange(n), rng.randrange(n), rng.randrange(n)]   # possibly min > max
    else:
        ranges = [0, n - 1, -1, n - 1]       # one bound negative: the whole matrix is computed
    return model, rmgaps, gapmode, rmamb, gamma, alpha, weights, ranges


# minimal witnesses of the departures recorded in known_findings.jsonl, and of their repaired behaviour;
# also used to tell which version of the source the run saw (row names p0.. keep them distinct from the corpus)
PROBES = [
    ("nan-clamp", ["jc", 0, 0, 0, 0, "1", "_", "-1,-1,-1,-1", "p0:AAAA,p1:AAAC,p2:CCCC"], (0, 2)),
    ("gamma-negative-base", ["k2p", 0, 0, 0, 1, "1/2", "_", "-1,-1,-1,-1", "p0:AAAA,p1:AAAG,p2:GGGG"], (0, 2)),
    ("substitute-zero", ["k2p", 0, 0, 0, 0, "1", "_", "-1,-1,-1,-1", "p0:AAGG,p1:GGGG"], (0, 1)),
    ("internal-gaps-ignore-selection", ["rawdist", 1, 1, 0, 0, "1", "_", "-1,-1,-1,-1", "p0:AC-GT,p1:ACAGT,p2:ACAGT"], (0, 1)),
    ("freq-over-all-cells", ["f81", 0, 0, 0, 0, "1", "_", "-1,-1,-1,-1", "p0:ACGTACGT-,p1:ACGTTCGA-"], (0, 1)),
]
_probe_cases = []


def _gen_core(rng, tier):
    del _probe_cases[:]
    for name, args, _ in PROBES:
        c = Case("distmatrix", args, True, "probe-" + name)
        _probe_cases.append(c)
        yield c
    N = 2600 if tier == "quick" else 40000
    # every model x gamma x alpha x rm-gaps on small alignments: option coverage is exhaustive, data random
    for model in MODELS:
        for gamma in ([False, True] if model not in ("rawdist", "pdist") else [False]):
            for alpha in (ALPHAS if gamma else ["1"]):
                for rmgaps in (False, True):
                    for gapmode in ([0, 1, 2] if model in ("rawdist", "pdist") else [0]):
                        for rmamb in ([False, True] if model == "pdist" else [False]):
                            for _ in range(2 if tier == "quick" else 12):
                                rows = rand_alignment(rng, small=rng.random() < 0.5)
                                _, _, _, _, _, _, weights, ranges = rand_options(rng, rows, model)
                                yield mk("distmatrix", model, rmgaps, gapmode, rmamb, gamma, alpha, weights, ranges,
                                         rows, "grid-%s%s" % (model, "-gamma" if gamma else ""))
    for _ in range(N):
        rows = rand_alignment(rng)
        o = rand_options(rng, rows)
        yield mk("distmatrix", *o, rows, "random-" + o[0])
    # one model object, two alignments (as `compute distance` on a file with several alignments, `distboot` on its
    # replicates): the second answer must not depend on the first alignment - same shape, other composition / gap pattern
    for _ in range(N // 4):
        rows = rand_alignment(rng, small=rng.random() < 0.5)
        o = rand_options(rng, rows, rng.choice(["f81", "f84", "tn93", "k2p", "jc", "pdist"]))
        c = mk("distmatrix", *o, rows, "reuse-" + o[0])
        L = len(rows[0])
        comp = rng.choice(["AAAC", "ACGT", "GGGC", "TTTA", "AC"])
        warm = ["".join(rng.choice(comp + ("-" if rng.random() < 0.3 else "")) for _ in range(L)) for _ in rows]
        c.args.append(rows_str(warm))
        yield c
    # tiny alignments: every pair of columns matters (minimal witnesses live here)
    for _ in range(N // 3):
        rows = rand_alignment(rng, small=True)
        o = rand_options(rng, rows)
        yield mk("distmatrix", *o, rows, "tiny-" + o[0])


def parse_rows(s):
    return [r.split(":", 1)[1] for r in s.split(",")]


def shrink(c):
    if c.op not in ("distmatrix", "distvariant", "distexplain"):
        return
    a = list(c.args)
    rows = parse_rows(a[8])
    n, L = len(rows), len(rows[0])
    w = None if a[6] == "_" else a[6].split(",")

    def case(**kw):
        b = list(a)
        r2 = kw.get("rows", rows)
        w2 = kw.get("w", w)
        b[8] = rows_str(r2)
        b[6] = "_" if w2 is None else ",".join(w2)
        for k, i in (("ranges", 7), ("gamma", 4), ("alpha", 5), ("rmgaps", 1), ("gapmode", 2), ("rmamb", 3)):
            if k in kw:
                b[i] = str(kw[k])
        return Case(c.op, b)

    if a[7] != "-1,-1,-1,-1":
        yield case(ranges="-1,-1,-1,-1")
    if w is not None:
        yield case(w=None)
    # rows
    if n > 2:
        for i in range(n):
            r2 = rows[:i] + rows[i + 1:]
            yield case(rows=r2, ranges="-1,-1,-1,-1") if a[7] != "-1,-1,-1,-1" else case(rows=r2)
    # columns (windows, then single)
    if L > 1:
        for st, en in dd_chunks(L):
            if en - st < L:
                yield case(rows=[r[:st] + r[en:] for r in rows], w=None if w is None else w[:st] + w[en:])
    if a[4] == "1":
        yield case(gamma=0)
    if a[5] != "1":
        yield case(alpha="1")
    if a[1] == "1":
        yield case(rmgaps=0)
    if a[3] == "1":
        yield case(rmamb=0)
    # residues towards A
    if L <= 12:
        for i in range(n):
            for j in range(L):
                if rows[i][j] != "A":
                    r2 = list(rows)
                    r2[i] = rows[i][:j] + "A" + rows[i][j + 1:]
                    yield case(rows=r2)


def decode(impl):
    """matrix of a `distmatrix` result as floats (for messages)"""
    if not (impl or "").startswith("ok "):
        return None
    return [[struct.unpack(">d", bytes.fromhex(x))[0] for x in r.split(",")] for r in impl[3:].split(";")]


def source_version():
    """which of the recorded departures the source under test shows on the minimal witnesses"""
    out = {}
    for (name, _, (i, j)), c in zip(PROBES, _probe_cases):
        m = decode(c.impl)
        v = None if m is None else m[i][j]
        expected = [k for k, fid in KNOWN_BY_CLAUSE.items() if fid == "c07-" + name]
        state = "present (as in the unchanged tree)" if c.verdict in expected else (
            "absent (repaired)" if c.verdict == "pass" else "unknown: %s" % c.verdict)
        out[name] = {"entry": repr(v), "verdict": c.verdict, "state": state}
    return out


def _audit_memo(modules):
    """the memoising axiom audit (Audit/AuditMemo.lean: same output as Audit/Audit.lean, several times faster on
    Mathlib-importing modules; see driver/props/c18.py)"""
    import re
    rc, out = common.run(["lake", "env", "lean", "--run", "Audit/AuditMemo.lean"] + modules, cwd=common.LEAN, timeout=1200)
    ths = []
    for m in re.finditer(r"THEOREM (\S+) (\S+) axioms=\[(.*?)\] (OK|FORBIDDEN)", out):
        axs = [a.strip() for a in m.group(3).split(",") if a.strip()]
        ths.append({"module": m.group(1), "name": m.group(2), "axioms": axs, "ok": m.group(4) == "OK"})
    return rc, ths, out


def check(tier, seed):
    common.audit = _audit_memo
    rc = common.generic_check(sys.modules[__name__], tier, seed)
    sv = source_version()
    print("SOURCE-VERSION property=C07 " + " ".join("%s=%s" % (k, "as-is" if v["state"].startswith("present") else (
        "repaired" if v["state"].startswith("absent") else "unknown")) for k, v in sorted(sv.items())))
    p = os.path.join(common.EVID, "C07.json")
    try:
        ev = json.load(open(p))
        ev["coverage"]["source_version_seen"] = sv
        json.dump(ev, open(p, "w"), indent=1)
    except (OSError, ValueError, KeyError):
        pass
    return rc


# ---- command-line glue: `goalign compute distance` against the library call with the same options (`detdist`) ----
def gen(rng, tier):
    for c in _gen_core(rng, tier):
        yield c
    for _ in range(40 if tier == "quick" else 400):
        n = rng.randint(2, 6)
        L = rng.randint(3, 40)
        base = [rng.choice("ACGT") for _ in range(L)]
        rows = ",".join("s%d:%s" % (i, "".join(rng.choice("ACGT") if rng.random() < 0.2 else (rng.choice("-NRY") if rng.random() < 0.1 else b)
                                              for b in base)) for i in range(n))
        model = rng.choice(["pdist", "rawdist", "jc", "k2p", "f81", "f84", "tn93"])
        gm = rng.choice(["0", "1", "2"]) if model in ("pdist", "rawdist") else "0"
        ra = rng.choice(["0", "1"]) if model == "pdist" else "0"
        alpha = rng.choice(["0", "0", "1/2", "2"]) if model not in ("pdist", "rawdist") else "0"
        r = ("_", "_")
        if rng.random() < 0.2 and n >= 3:
            r = ("0:%d" % max(0, n // 2 - 1), "%d:%d" % (n // 2, n - 1))
        yield Case("detdist", [rows, model, rng.choice(["0", "1"]), gm, ra, alpha, r[0], r[1]], True, "cli-compute-distance")
    # several alignments in one input: the command keeps one model object for all of them
    for _ in range(15 if tier == "quick" else 150):
        n = rng.randint(2, 5)
        L = rng.randint(4, 24)
        groups = []
        for _k in range(rng.randint(2, 4)):
            comp = rng.choice(["ACGT", "AAAC", "GGCT", "ACGT", "TTTA"])
            base = [rng.choice(comp) for _ in range(L)]
            groups.append(",".join("s%d:%s" % (i, "".join(rng.choice(comp) if rng.random() < 0.25 else (rng.choice("-N") if rng.random() < 0.1 else b)
                                                         for b in base)) for i in range(n)))
        model = rng.choice(["jc", "k2p", "f81", "f84", "tn93", "pdist"])
        alpha = rng.choice(["0", "0", "1/2"]) if model != "pdist" else "0"
        yield Case("detdistmulti", [";;".join(groups), model, rng.choice(["0", "1"]), alpha, rng.choice(["1", "1", "2", "4"])], True, "cli-compute-distance-multi")

