"""C18 — substitution models yield valid, reversible Markov transition matrices."""
from driver.common import Case

ID = "C18"
LEVEL_TEXT = (
    "Lean/Mathlib theorems over the reals about the definitions REGENERATED from models/dna/*.go on every run (tie T2): "
    "JC and K2P closed-form Pij: rows sum to one, entries in [0,1] for t>=0, P(0)=I, semigroup P(s+t)=P(s)P(t), detailed balance, "
    "limit = stationary frequencies (Filter.Tendsto), and equality with the matrix exponential of the textbook rate matrix "
    "(mean rate one) through the regenerated closed-form eigen-systems (L*R=I, R*D*L=Q); F84: the same eigen identities "
    "symbolically in kappa and pi, hence P(t)=exp(tQ) with all laws; F81/TN93/GTR and the protein InitModel: the constructed "
    "rate matrix equals the textbook one, rows sum to zero, reversible, mean rate one; generic eigen_assembly theorem: any "
    "(L,R,D) with L*R=I and R*D*L=Q makes SetLength's P(t) equal exp(tQ) up to the positivity floor, and exp(tQ) is "
    "stochastic / semigroup / reversible for every reversible rate matrix Q. "
    "ONLY CHECKED NUMERICALLY (not proved): that gonum's eigen-decomposition and inverse used by F81/TN93/GTR/protein satisfy "
    "L*R=I and R*D*L=Q (residuals measured on every sampled parameter point, external call), float rounding, and the "
    "hand-written models of SetLength / ProtModel.InitModel (validated by correspondence)."
)
LEVEL_NOTE = (
    "Trusted: Lean kernel + Mathlib (axioms propext, Classical.choice, Quot.sound); tools/extract numeric translator (its output "
    "is also run at Float against the Go code, rel. tol. 1e-9); float64 rounding and math.Exp; gonum Eigen/Inverse (residuals "
    "measured per case); textbook rate matrices transcribed in lean/Gv/Spec/SubstModels.lean. Two genuine defects of the unchanged tree "
    "are recorded in known_findings.jsonl (repeated eigenvalue returned as a complex pair -> garbage P(t) for F81 and F81-like "
    "TN93/GTR points; protein frequency tables not normalised)."
)
TECHNIQUE = "Lean 4 + Mathlib proof over R of regenerated numeric code (T2) + differential correspondence at Float + numeric law checks"
LEAN_MODULES = ["Gv.Props.C18", "Gv.Props.C07Inv"]
REQUIRED_THEOREMS = ["Gv.Props.C18." + n for n in [
    # generic
    "eigen_assembly", "eigen_assembly_limit", "setLength_entry_within_floor",
    # JC (closed form + eigen-system)
    "jc_rows_sum_one", "jc_entries_in_unit_interval", "jc_P_zero_eq_id", "jc_semigroup", "jc_detailed_balance",
    "jc_limit_is_stationary", "jc_eigen_LR", "jc_eigen_RDL", "jc_analytic_eq_eigen", "jc_eq_exp_of_rate_matrix",
    # K2P
    "k2p_rows_sum_one", "k2p_entries_in_unit_interval", "k2p_P_zero_eq_id", "k2p_semigroup", "k2p_detailed_balance",
    "k2p_limit_is_stationary", "k2p_eigen_LR", "k2p_eigen_RDL", "k2p_analytic_eq_eigen", "k2p_eq_exp_of_rate_matrix",
    # F84 (closed-form eigen-system, symbolic)
    "f84_eigen_LR", "f84_eigen_RDL", "f84_laws", "f84_limit_is_stationary",
    # F81 / TN93 / GTR rate matrices
    "f81_Q_eq_textbook", "tn93_Q_eq_textbook", "gtr_Q_eq_textbook", "gtr_Q_rows_reversible_meanrate",
    "f81_is_gtr", "tn93_is_gtr", "f81_laws_of_eigen_system", "tn93_laws_of_eigen_system", "gtr_laws_of_eigen_system",
    # protein
    "prot_Q_rows_sum_zero", "prot_Q_reversible", "prot_mean_rate_one", "prot_Q_eq_textbook",
    "prot_laws_of_eigen_system", "protein_tables_ok", "prot_tables_rate_matrix"]] + [
    # link with C07 (Props/C07Inv.lean): a symbolic eigen-system for the regenerated F81 / TN93 rate matrices
    "Gv.Props.C07Inv." + n for n in [
        "tn93_eigen_RDL", "tn93P_eq_exp", "tn93_closed_form_laws", "f81Q_eq_f84Q_zero", "f81_P_closed_form"]]
TIMEOUT = 10.0
PARTIAL = [
    "f81_laws_of_eigen_system / tn93_laws_of_eigen_system / gtr_laws_of_eigen_system / prot_laws_of_eigen_system: every law of P(t) "
    "(= exp(tQ), stochastic, P(0)=I, semigroup, detailed balance) is proved for ANY eigen-system with L*R=I and R*D*L=Q; that gonum's "
    "Eigen+Inverse return such a system is not proved (external call) - residuals are measured on every checked case",
    "F81 / TN93: Props/C07Inv.lean gives a SYMBOLIC eigen-system (the eigenvectors of F84Model.Eigens with the three TN93 "
    "eigenvalues) that diagonalises the rate matrix regenerated from TN93Model.InitModel / F81Model.InitModel, hence closed "
    "forms of exp(tQ) with every law (tn93_closed_form_laws, f81_P_closed_form) - unconditionally; what stays unproved is "
    "that gonum's numeric decomposition, which the Go code actually uses, reproduces it (residuals measured per case)",
    "limit = stationary frequencies for F81/TN93/GTR/protein: only via eigen_assembly_limit, conditional on the numeric eigenvalues "
    "(one zero, others negative); checked numerically per case through a rigorous reversible-chain bound",
    "protein: theorems are about the hand-written Lean model of the InitModel loops (lean/Gv/Model/ProtModel.lean), validated against the "
    "real code by the correspondence run; the exchangeability/frequency tables themselves are regenerated (T1) and kernel-checked",
    "Pij.SetLength: hand-written model (lean/Gv/Model/Pij.lean), tied to exp(tQ) by setLength_entry_within_floor up to the DBL_MIN floor",
    "floating point: all theorems are over the reals; rounding, overflow and math.Exp are trusted (correspondence tolerance 1e-9)",
]
TRUSTED = [
    "float64 rounding, math.Exp and Lean's Float (libm) are not modelled: correspondence uses class equality + relative tolerance 1e-9 (+1e-13 absolute)",
    "gonum mat.Eigen / Dense.Inverse (F81, TN93, GTR, protein) are an external call: residuals |L*R-I|, |R*D*L-Q| measured per case, tolerance 1e-9",
    "lean/Gv/Spec/SubstModels.lean: transcription of the textbook JC69/K80/F81/F84/TN93/GTR/empirical-protein rate matrices",
]
ASSUMPTIONS = [
    "parameters: kappa, kappa1/kappa2 and the six GTR rates in [0.01, 100], base frequencies in the open simplex (each >= 0.001), branch lengths in {0} U [1e-8, 100]",
]
RULE = ("models jc, k2p, f81, f84, tn93, gtr and the 7 protein matrices (model and user frequencies) x parameter grids "
        "(kappa in {0.01..100}, fixed + random simplex points, random GTR rate 6-tuples) x pairs (s,t) of branch lengths from "
        "{0, 1e-8, 1e-6, 1e-4, 0.01, 0.1, 0.5, 1, 2, 10, 50, 100}; each case returns pi, the eigen-system and P(s), P(t), P(s+t) of the real code; re-initialisation cases (a model value and a live Pij that served another parameter point before); "
        "non-trivial = non-symmetric parameter point (non-uniform frequencies, kappa != 1, or unequal rates) with s > 0 and t > 0")

TS = [0.0, 1e-8, 1e-6, 1e-4, 0.01, 0.1, 0.5, 1.0, 2.0, 10.0, 50.0, 100.0]
KAPPAS = [0.01, 0.1, 0.5, 1.0, 2.0, 4.0, 10.0, 100.0]
PIS = [
    (0.25, 0.25, 0.25, 0.25), (0.1, 0.2, 0.3, 0.4), (0.4, 0.1, 0.1, 0.4), (0.3, 0.3, 0.2, 0.2),
    (0.01, 0.04, 0.25, 0.7), (0.7, 0.25, 0.04, 0.01), (0.001, 0.001, 0.001, 0.997), (0.05, 0.45, 0.45, 0.05),
]
RATES = [0.01, 0.1, 0.5, 1.0, 2.0, 5.0, 30.0, 100.0]
# scale-sensitive clauses of the oracle's verdict (see known_findings.jsonl: prot-table-frequencies-not-normalised)
SCALE_CLAUSES = {"rate-matrix-textbook", "expm-textbook", "limit-stationary"}


def f2s(x):
    return repr(float(x))


def csv(xs):
    return ",".join(f2s(x) for x in xs) if xs else "_"


def rand_pi(rng, n=4, lo=1, hi=97):
    w = [rng.randint(lo, hi) for _ in range(n)]
    tot = float(sum(w))
    return tuple(x / tot for x in w)


FIXED_PAIRS = [(0.0, 0.0), (0.0, 1.0), (1e-8, 1e-8), (1e-8, 100.0), (0.1, 0.5), (1.0, 2.0), (50.0, 50.0), (100.0, 100.0),
               (0.01, 10.0), (1e-4, 1e-6)]
_seen_models = set()


def pairs(rng, k, model=None):
    """k pairs (s, t).  The first parameter point of every model gets all boundary pairs; afterwards a
    mixture of boundary pairs and random grid pairs."""
    out = []
    if model is not None and model not in _seen_models:
        _seen_models.add(model)
        out = list(FIXED_PAIRS)
    while len(out) < k:
        if rng.random() < 0.25:
            out.append(rng.choice(FIXED_PAIRS))
        else:
            out.append((rng.choice(TS[1:]), rng.choice(TS[1:])))
    return out


def mk(model, params, s, t, nontrivial, tag):
    return Case("c18", [model, csv(params), f2s(s), f2s(t)], nontrivial and s > 0 and t > 0, tag)


def _gen_core(rng, tier):
    _seen_models.clear()
    quick = tier == "quick"
    npair = 6 if quick else 14
    nrand = 30 if quick else 600
    # JC: every pair of the grid (no parameters)
    for s in TS:
        for t in TS:
            yield mk("jc", [], s, t, False, "jc")
    # K2P
    kap = KAPPAS + [rng.choice([0.03, 0.3, 1.7, 3.14159, 25.0, 60.0]) for _ in range(2 if quick else 12)]
    for k in kap:
        for s, t in pairs(rng, npair + 4, "k2p"):
            yield mk("k2p", [k], s, t, k != 1.0, "k2p")
    pis = PIS + [rand_pi(rng) for _ in range(nrand)]
    # F81
    for pi in pis:
        for s, t in pairs(rng, npair, "f81"):
            yield mk("f81", pi, s, t, pi != PIS[0], "f81")
    # F84, TN93
    for pi in pis:
        for k in (KAPPAS if not quick else [rng.choice(KAPPAS) for _ in range(3)]):
            for s, t in pairs(rng, 3 if quick else 6, "f84"):
                yield mk("f84", [k] + list(pi), s, t, True, "f84")
        for _ in range(3 if quick else 10):
            k1, k2 = rng.choice(KAPPAS), rng.choice(KAPPAS)
            for s, t in pairs(rng, 3 if quick else 6, "tn93"):
                yield mk("tn93", [k1, k2] + list(pi), s, t, not (k1 == k2 == 1.0 and pi == PIS[0]), "tn93")
    # GTR
    for pi in pis:
        rsets = [[1.0] * 6, [0.5, 2.0, 0.1, 7.0, 1.0, 30.0]] + [[rng.choice(RATES) for _ in range(6)] for _ in range(2 if quick else 10)]
        for r in rsets:
            for s, t in pairs(rng, 3 if quick else 6, "gtr"):
                yield mk("gtr", r + list(pi), s, t, not (r == [1.0] * 6 and pi == PIS[0]), "gtr")
    # protein: 7 matrices x {model frequencies, uniform, random user frequencies}
    for idx in range(7):
        for s, t in pairs(rng, 5 if quick else 12, "prot%d" % idx):
            yield mk("prot", [idx], s, t, True, "prot-modelfreq")
        users = [tuple([0.05] * 20)] + [rand_pi(rng, 20, 1, 30) for _ in range(1 if quick else 6)]
        for u in users:
            for s, t in pairs(rng, 3 if quick else 8, "protu%d" % idx):
                yield mk("prot", [idx] + list(u), s, t, True, "prot-userfreq")


def gen(rng, tier):
    """every fresh-model case, plus re-initialisation cases (c18re): the model value and a live Pij first serve another
    parameter point of the same family, the model is initialised again and the same Pij answers"""
    last = {}
    for c in _gen_core(rng, tier):
        yield c
        model, params = c.args[0], c.args[1]
        fam = model if model != "prot" else "prot" + params.split(",")[0]
        prev = last.get(fam)
        if prev is not None and prev != params and rng.random() < 0.4:
            yield Case("c18re", [model, prev, params] + c.args[2:], c.nontrivial, c.tag + "-reinit")
        if rng.random() < 0.5 or prev is None:
            last[fam] = params
        # one Pij object set to a sequence of lengths with returns to earlier ones (A B A A, A A B A, 0 A 0, ...)
        if rng.random() < 0.15:
            a, b, d = sorted({round(rng.uniform(0.01, 3), 3) for _ in range(6)})[:3] if True else (0.1, 0.7, 0.3)
            pats = [[a, b, a, a], [a, a, b, a, b, b], [0.0, a, 0.0, a], [a, b, d, a, b, d], [b, a, b, a, a, d, d, a]]
            yield Case("c18seq", [model, params, ",".join(repr(x) for x in rng.choice(pats))], True, c.tag + "-length-sequence")


def check(tier, seed):
    """generic flow, with the memoising axiom audit (Audit/AuditMemo.lean: same output as Audit/Audit.lean,
    6 s instead of 60 s on this Mathlib-importing module)"""
    import sys
    from driver import common

    def audit_memo(modules):
        rc, out = common.run(["lake", "env", "lean", "--run", "Audit/AuditMemo.lean"] + modules, cwd=common.LEAN, timeout=1200)
        ths = []
        for m in common.re.finditer(r"THEOREM (\S+) (\S+) axioms=\[(.*?)\] (OK|FORBIDDEN)", out):
            axs = [a.strip() for a in m.group(3).split(",") if a.strip()]
            ths.append({"module": m.group(1), "name": m.group(2), "axioms": axs, "ok": m.group(4) == "OK"})
        return rc, ths, out
    common.audit = audit_memo
    return common.generic_check(sys.modules[__name__], tier, seed)


def _sections(impl):
    out = {}
    impl = impl or ""
    if impl.startswith("ok "):
        impl = impl[3:]
    for sec in impl.split(";"):
        k, _, v = sec.partition("=")
        out[k] = v.split(",")
    return out


def classify(c):
    """known findings (known_findings.jsonl), each identified by its root-cause signature"""
    if c.op != "c18":
        return None
    v = c.verdict or ""
    if not v.startswith("fail:"):
        return None
    clauses = set(v[5:].split("+"))
    # (1) gonum returned a repeated real eigenvalue as a complex-conjugate pair and computeEigens kept
    #     only the real parts of the eigenvectors: two identical columns in the right-eigenvector matrix
    if c.args[0] in ("f81", "tn93", "gtr", "prot") and "eigen-LR-identity" in clauses:
        sec = _sections(c.impl)
        try:
            n = int(sec["n"][0])
            r = sec["R"]
            cols = [tuple(r[i * n + j] for i in range(n)) for j in range(n)]
            if len(r) == n * n and len(set(cols)) < n:
                return "repeated-eigenvalue-complex-pair-real-part"
        except (KeyError, ValueError, IndexError):
            pass
        return None
    # (2) the frequency tables of models/protein/matrices.go are not normalised
    if c.args[0] == "prot" and "," not in c.args[1] and clauses <= SCALE_CLAUSES:
        return "prot-table-frequencies-not-normalised"
    return None


def shrink(c):
    """simpler branch lengths first, then simpler parameters"""
    if c.op != "c18":
        return
    model, params, s, t = c.args
    for s2, t2 in (("0.0", "1.0"), ("0.0", t), (s, "1.0"), ("0.1", "0.5")):
        if (s2, t2) != (s, t):
            yield Case("c18", [model, params, s2, t2])
    if params == "_":
        return
    p = params.split(",")
    if model != "prot":
        npi = 0 if model == "k2p" else 4
        head = p[:len(p) - npi]
        if npi and p[-4:] != ["0.25"] * 4:
            yield Case("c18", [model, ",".join(head + ["0.25"] * 4), s, t])
        for k in range(len(head)):
            if head[k] != "1.0":
                h2 = list(head)
                h2[k] = "1.0"
                yield Case("c18", [model, ",".join(h2 + p[len(head):]), s, t])
    elif len(p) == 21:
        yield Case("c18", [model, ",".join([p[0]] + ["0.05"] * 20), s, t])
