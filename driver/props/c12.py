"""C12 — cleaning removes exactly the sites and sequences that meet the cutoff."""
import itertools
from driver.common import Case

ID = "C12"
NEEDS_BINARY = True
LEAN_MODULES = ["Gv.Props.C12"]
REQUIRED_THEOREMS = ["Gv.Props.C12." + n for n in [
    "trackers_spec", "removed_iff", "site_removed_iff", "ends_mode_removes_maximal_prefix_suffix",
    "kept_removed_partition", "result_eq_select_kept", "removeCharacterSites_unfold", "removeMajoritySites_unfold", "wildcard_follows_alphabet",
    # per-sequence variant (RemoveCharacterSeqs / RemoveGapSeqs)
    "seqCounts_spec", "removeCharacterSeqs_never_panics", "seq_removed_iff", "seqs_result_wellformed",
    "gapSeq_removed_iff"]]
LEVEL_TEXT = ("Lean theorems about the model of RemoveCharacterSites / RemoveMajorityCharacterSites (counting with the "
              "alignment's own wildcard, ends-mode trackers, removal pass): the trackers compute the maximal qualifying prefix "
              "and suffix, kept and removed indices partition the columns, the result is the selection of the kept columns; and "
              "about the model of RemoveCharacterSeqs / RemoveGapSeqs on a well-formed alignment: never a panic, a row is removed "
              "iff its counts (the same counts as the site variant, wildcard of the alignment's own alphabet) meet the cutoff, the "
              "other rows are kept in order with names and sequences untouched, the returned count is the number of removed rows, "
              "and the result is again a well-formed alignment; tied to "
              "/repo by bounded-exhaustive + random correspondence over small alphabets containing gap and N/X in both cases, all "
              "cutoffs incl. exact ties, all 2^5 option combinations, and an independently stated predicate.")
LEVEL_NOTE = ("Trusted: Lean kernel; harness/oracle/driver; the float threshold `float64(nb) >= cutoff*float64(total)` is evaluated "
              "with IEEE doubles on both sides (Lean Float) and is a parameter of the theorems.")
TECHNIQUE = "Lean 4 proof (list induction over the tracker loop) + bounded-exhaustive differential correspondence"
RULE = ("exhaustive: all alignments of 2 rows x 3 columns over {A,a,N,X,-,n} with a rotating choice of cutoff/option sets; random: "
        "1..4 rows x 1..6 columns, nucleotide and protein, cutoffs {0,1,1/2,1/3,2/3,1/4,3/4,2,exact-tie fractions}, all 2^5 options, "
        "character sets of 1..2 characters; per-sequence variant (RemoveCharacterSeqs / RemoveGapSeqs) on the same random alignments "
        "with cutoffs incl. exact ties over the row length and all 2^3 option combinations, the empty alignment and the "
        "all-removed case (also through the C01 histories); non-trivial = some column / row at an exact-tie fraction, ends mode, "
        "or an ignore option set")
PARTIAL = ["the per-sequence theorems (model in Model/Bag.lean, shared with C01) assume a well-formed alignment (AlignWF: unique "
           "names, rows of the cached length) - with duplicate names re-adding the kept rows renames or drops them, which is "
           "outside the statement; the correspondence cases build the alignment row by row from distinct names",
           "majority variant: the qualification list comes from MaxCharStats (C14: order-independence theorem); the removal pass "
           "theorems apply to it unchanged",
           "cutoffs outside [0,1] are outside the quantifier (RemoveMajorityCharacterSites does not reset them, contrary to its comment)"]

SYM = "AaNX-n"
CUTS = ["0", "1", "1/2", "1/3", "2/3", "1/4", "3/4", "2", "1/5", "2/5"]


def rows_str(rows):
    return ",".join("%s:%s" % r for r in rows) if rows else "_"


def _gen_core(rng, tier):
    # bounded exhaustive: 2 rows x 3 columns
    k = 0
    for cols in itertools.product(SYM, repeat=6):
        rows = [("a", "".join(cols[:3])), ("b", "".join(cols[3:]))]
        k += 1
        if tier == "quick" and k % 9 != 0:
            continue
        alpha = rng.choice([0, 1])
        opts = [rng.randint(0, 1) for _ in range(5)]
        yield Case("rmsites", [alpha, rows_str(rows), rng.choice(["-", "N", "X", "a", "-N", "An"]), rng.choice(CUTS)] + opts,
                   bool(opts[0]), "rmsites-exhaustive-2x3")
    N = 1500 if tier == "quick" else 15000
    for _ in range(N):
        n = rng.randint(1, 4)
        L = rng.randint(1, 6)
        alpha = rng.choice([0, 1])
        sym = SYM + ("CGT" if alpha == 1 else "RKx")
        rows = [("s%d" % i, "".join(rng.choice(sym) for _ in range(L))) for i in range(n)]
        opts = [rng.randint(0, 1) for _ in range(5)]
        cut = rng.choice(CUTS + ["%d/%d" % (rng.randint(0, n), n)])
        yield Case("rmsites", [alpha, rows_str(rows), rng.choice(["-", "N", "X", "a", "-N", "An", "x"]), cut] + opts,
                   bool(opts[0]) or "/%d" % n in cut, "rmsites")
        yield Case("rmmajsites", [alpha, rows_str(rows), cut, opts[0], opts[2], opts[3]], True, "rmmajsites")
        # per-sequence variant: exact-tie fractions are over the row length (and over what the ignore options leave)
        cutL = rng.choice(CUTS + ["%d/%d" % (rng.randint(0, L), L), "%d/%d" % (rng.randint(0, L), max(1, L - 1))])
        yield Case("rmseqs", [alpha, rows_str(rows), rng.choice("-NXaAnx"), cutL, opts[1], opts[2], opts[3]],
                   "/%d" % L in cutL or bool(opts[2]) or bool(opts[3]), "rmseqs")
        if rng.random() < 0.5:
            yield Case("rmgapseqs", [alpha, rows_str(rows), cutL, opts[3]], "/%d" % L in cutL or bool(opts[3]), "rmgapseqs")
    # the empty alignment
    yield Case("rmsites", [1, "_", "-", "1/2", 0, 0, 0, 0, 0], False, "rmsites-empty")
    yield Case("rmmajsites", [1, "_", "1/2", 0, 0, 0], False, "rmmajsites-empty")
    yield Case("rmseqs", [1, "_", "-", "1/2", 0, 0, 0], False, "rmseqs-empty")
    yield Case("rmgapseqs", [0, "_", "0", 1], False, "rmgapseqs-empty")
    # every row removed: the alignment reports the empty length
    yield Case("rmgapseqs", [1, "a:--,b:-A", "1/2", 0], True, "rmgapseqs-all-removed")


def shrink(c):
    a = list(c.args)
    rows = [] if a[1] == "_" else [tuple(r.split(":", 1)) for r in a[1].split(",")]
    for i in range(len(rows)):
        r2 = rows[:i] + rows[i + 1:]
        if r2:
            yield Case(c.op, [a[0], rows_str(r2)] + a[2:])
    if rows and len(rows[0][1]) > 1:
        for j in range(len(rows[0][1])):
            yield Case(c.op, [a[0], rows_str([(n, s[:j] + s[j + 1:]) for n, s in rows])] + a[2:])


# ---- command-line glue: a multi-alignment Phylip input must be treated as its alignments one by one (`detmulti`) ----
MULTI_CMDS = [['clean', 'sites', '-c', '0.3'], ['clean', 'sites', '-c', '0.3', '--positions', 'kept.txt', '--positions-rm', 'rm.txt'], ['clean', 'sites', '--char', 'MAJ', '-c', '0.6'], ['clean', 'seqs', '-c', '0.3'], ['clean', 'sites', '--ends', '-c', '0.2'],
              ['clean', 'sites', '--char', 'A', '--reverse', '-c', '0.5'], ['clean', 'sites', '--char', 'MAJ', '--ignore-gaps', '-c', '0.5'], ['clean', 'sites', '--char', 'a', '--ignore-case', '-c', '0.4']]
MULTI_CMDS_N = [['clean', 'sites', '--char', 'N', '-c', '0.3'], ['clean', 'sites', '--ignore-n', '-c', '0.3'], ['clean', 'seqs', '--char', 'N', '-c', '0.2']]


def _gen_large(rng, tier):
    for _ in range(2 if tier == "quick" else 10):
        n, L = (rng.randint(2, 4), rng.choice([4097, 4200])) if rng.random() < 0.5 else (rng.choice([101, 150]), rng.randint(2, 8))
        rows = [("s%d" % i, "".join(rng.choice("ACGT" + "-" * rng.choice([1, 6]) + "N") for _ in range(L))) for i in range(n)]
        opts = [rng.randint(0, 1) for _ in range(5)]
        cut = rng.choice(["0", "1/2", "1/3", "1", "%d/%d" % (rng.randint(0, n), n)])
        yield Case("rmsites", [1, rows_str(rows), rng.choice(["-", "N", "-N"]), cut] + opts, True, "rmsites-large")
        yield Case("rmmajsites", [1, rows_str(rows), cut, opts[0], opts[2], opts[3]], True, "rmmajsites-large")
        yield Case("rmseqs", [1, rows_str(rows), rng.choice("-N"), rng.choice(["0", "1/2", "1/4"]), opts[1], opts[2], opts[3]], True, "rmseqs-large")


def gen(rng, tier):
    for c in _gen_large(rng, tier):
        yield c
    from driver import multigen
    for c in _gen_core(rng, tier):
        yield c
    from driver import cligen
    for c in cligen.cases(rng, ['clean', 'cleanseqs', 'clean-files'], 40 if tier == "quick" else 400):
        yield c
    for _ in range(3 if tier == "quick" else 30):
        for flagname, argv in [('--positions', ['clean', 'sites', '-c', '0.3']), ('--positions-rm', ['clean', 'sites', '-c', '0.3']), ('-o', ['clean', 'sites', '-c', '0.3'])]:
            rows = cligen.alignment(rng)
            yield Case("detgz", [cligen.esc(cligen.fasta(rows)), flagname] + argv, True, "cli-gz-" + argv[0] + flagname)
    for _ in range(2 if tier == "quick" else 20):
        for argv in MULTI_CMDS:
            yield multigen.multi_case(multigen.alignments(rng), argv, "cli-multi-" + "-".join(argv[:2]))
        for argv in MULTI_CMDS_N:      # the flags that concern N need alignments holding N
            yield multigen.multi_case(multigen.alignments(rng, alphabet="ACGTN"), argv, "cli-multi-" + "-".join(argv[:2]) + "-n")

