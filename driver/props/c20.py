"""C20 — random site weights and rate categories are correctly normalised."""
import json
import math
import os
import struct
import sys

from driver.common import Case

ID = "C20"
NEEDS_BINARY = True      # `goalign build weightboot` is run on the binary built from the working tree
LEAN_MODULES = ["Gv.Props.C20"]
REQUIRED_THEOREMS = ["Gv.Props.C20." + n for n in [
    # samplers: every tape
    "gammaCheng_pos", "gammaOne_pos", "gammaKG_pos", "gammaKG_nonneg", "gammaS_pos", "gammaS_every_seed",
    # Dirichlet
    "dirichlet_sums_to_factor", "dirichlet_sums_to_factor_every_tape", "dirichlet_entries_pos",
    "dirichlet_rejects_nonpositive_alpha", "dirichlet_error_iff", "dirichlet1_error_iff", "dirichlet1_sums_to_factor",
    # weight builders
    "weightsGamma_sum_eq_length", "weightsDirichlet_sum_eq_length", "weights_sum_eq_length",
    "weightsGamma_every_seed", "weightsDirichlet_every_seed",
    # discrete gamma / incomplete gamma
    "discreteGamma_mean_one", "discreteGamma_nonneg_of_monotone_primitive", "discreteGamma_nondecreasing_partial",
    "incompleteGamma_series_is_partial_sum", "incompleteGamma_series_terminates", "incompleteGamma_series_branch_value", "incompleteGamma_series_prefactor",
    "incompleteGamma_guards", "cfStep_dead_branch"]]
LEVEL_TEXT = (
    "Lean/Mathlib theorems over the reals about hand-written models (lean/Gv/Model/Weights.lean, generic in the numeric type) of "
    "stats.gamma (Cheng / alpha==1 / Kennedy-Gentle branches with their rejection loops), Dirichlet, Dirichlet1, BuildWeightsGamma, "
    "BuildWeightsDirichlet, IncompleteGamma and DiscreteGamma, written as programs over rand.Float64() draws: for EVERY answer tape "
    "(hence every seed) each accepted sampler value is > 0, weight vectors have one strictly positive entry per site and sum to the "
    "alignment length, Dirichlet samples sum to the factor, errors are returned iff len(alpha) <= 2 or some alpha <= 0; the discrete-gamma "
    "categories average to 1 for ANY incomplete-gamma primitive and any quantiles (telescoping) and are >= 0 for a monotone primitive; the "
    "series loop of IncompleteGamma returns exactly the series prefix up to the first term <= 1e-8 and terminates for every x >= 0, alpha > 0. "
    "Tied to /repo by EXACT replay: rand.Seed(s) + the real Go call vs the same program run at Float on a Lean replica of Go's math/rand "
    "(relative tolerance 1e-12, max deviation reported), and by the property predicate evaluated on the implementation's output. "
    "ONLY CHECKED NUMERICALLY: monotonicity / [0,1] range / accuracy (1e-6 against an independent series + Lentz continued fraction + "
    "Simpson quadrature) of the floating incomplete-gamma ratio, the continued-fraction branch, gonum's Quantile, non-decreasing categories."
)
LEVEL_NOTE = (
    "Trusted: Lean kernel + Mathlib (axioms propext, Classical.choice, Quot.sound); float64 rounding and math.Log/Exp/Pow/Sqrt/Gamma/Lgamma "
    "(theorems are over R; Go and Lean Float agree up to last-ulp differences of those functions); gonum distuv.Gamma.Quantile (external, passed "
    "to the model as input); the math/rand replica (validated by exact replays); harness/oracle/driver. Genuine defects of the unchanged tree are "
    "recorded in known_findings.jsonl (see proposed_fixes/c20-*.diff)."
)
TECHNIQUE = ("Lean 4 + Mathlib proof over R of generic hand-written models (free monad over random draws, all tapes) + exact-replay "
             "correspondence at Float through a math/rand replica + numeric law checks against an independent reference")
TIMEOUT = 4.0
PARTIAL = [
    "discreteGamma_nondecreasing_partial: categories are non-decreasing only under an explicit convexity-type hypothesis on the primitive's "
    "increments (a property of the exact gamma law, not provable for an arbitrary primitive); on the real code it is checked numerically",
    "incomplete gamma ratio: monotone in x, values in [0,1], agreement with the series definition are properties of the FLOATING computation "
    "(loop stops at term <= 1e-8, continued-fraction branch): checked on x grids against an independent evaluation (tolerance 1e-6), not proved; "
    "proved: the series loop computes the series prefix and terminates, the branch value is prefix * exp(p log x - x - g)/p, the guards",
    "continued-fraction branch (x > 1, x >= p): modelled with its goto structure and replayed, no theorem about its value or termination "
    "(it did not terminate for x >= ~1e103 before fix 509903c)",
    "gonum distuv.Gamma.Quantile and math.Gamma/Lgamma are external: passed into the model; their accuracy is measured per case (ext-quantile, ext-lgamma)",
    "weights / Dirichlet theorems are over the reals: float rounding, overflow, underflow (pow(p, 1/alpha) -> 0 for tiny alpha: known finding) are not modelled",
    "rejection loops carry a fuel bound in the model (10 000 rounds); theorems hold for every fuel and say nothing when the fuel runs out "
    "(probability < 0.5^10000 for valid parameters); the weight-normalisation code of distance.go is hand-modelled (loops are outside the T2 translator's subset)",
    "Dirichlet1 ties (two equal draws) give a zero entry: only sum and non-negativity are claimed for it",
]
TRUSTED = [
    "float64 rounding and Go's math.Log/Exp/Pow/Sqrt/Gamma/Lgamma vs the C library behind Lean's Float: correspondence uses class equality + relative "
    "tolerance 1e-12 for sampler replays, 1e-9 for incomplete-gamma based values; the maximal deviation seen is recorded in the evidence",
    "gonum distuv.Gamma.Quantile (external input of the DiscreteGamma model)",
    "the independent incomplete-gamma reference of the oracle (Stirling log-gamma, converged series, Lentz continued fraction, Simpson quadrature)",
]
ASSUMPTIONS = [
    "alignment lengths 3..200 (1, 2 exercised as out-of-quantifier cases), shapes in [0.01, 100], category counts 2..32, x >= 0 finite",
]
RULE = ("weight builders BuildWeightsGamma / BuildWeightsDirichlet for every length 3..200 (several seeds each); Dirichlet with all parameters equal to a "
        "shape in {0.01, 0.1, 0.5, 0.99, 1, 1.01, 2, 10, 100} and with mixed shapes, 3..40 parameters, factors 1 / n / 1000.5; invalid parameter vectors "
        "(<= 2 entries, zero, negative, NaN, +Inf entries); Dirichlet1; 40..200 successive stats.Gamma draws per shape (three sampler branches); "
        "DiscreteGamma for shapes on a grid of [0.01, 100] x category counts 2..32; IncompleteGamma on ascending x grids (0, subnormal, 1e-300 .. 1e100, "
        "fine grids around the branch switch x = max(1, alpha)) for alpha in [0.01, 101], plus single huge x; command line `goalign build weightboot [-n k] --seed s` "
        "on the built binary (lengths 1..300, 0..4 replicates from the one stream): every printed weight within the rounding of `%f` (5.1e-7) of the exact "
        "replay of BuildWeightsDirichlet from the seed, the layout (tabs, one line per replicate) exactly; non-trivial = valid parameters in the quantifier")

SHAPES = [0.01, 0.1, 0.5, 0.99, 1.0, 1.01, 2.0, 10.0, 100.0]
MAXDEV = {"sampler": 0.0, "numeric": 0.0}


def fb(x):
    return struct.pack(">d", float(x)).hex()


def fbl(xs):
    return ",".join(fb(x) for x in xs) if xs else "_"


def gen_weightboot(rng, count):
    """`goalign build weightboot [-n k] --seed s`: the printed weights (`%f`, tab separated, one line per replicate) against
    the exact replay of BuildWeightsDirichlet from the seed: lengths 1..300 (no vector for L <= 2: empty lines), 0..4
    replicates drawn from the one stream, default number of replicates, flags in any order"""
    for _ in range(count):
        L = rng.choice([1, 2, 3, 3, 4, 5, 8]) if rng.random() < 0.3 else rng.randint(3, 300 if rng.random() < 0.2 else 60)
        n = rng.randint(1, 4)
        rows = [("s%d" % i, "".join(rng.choice("ACGT-N") for _ in range(L))) for i in range(n)]
        st = "".join(">%s|%s|" % r for r in rows)
        groups = [["--seed", str(rng.randint(0, 2 ** 31 - 1) if rng.random() < 0.9 else rng.choice([0, 1, 2 ** 40 + 3]))]]
        if rng.random() < 0.75:
            groups.append([rng.choice(["-n", "--nboot"]), str(rng.choice([0, 1, 2, 2, 3, 4]))])
        rng.shuffle(groups)
        yield Case("cli_lib", [st, "build", "weightboot"] + [x for g in groups for x in g], L >= 3, "cli-weightboot")


def gen(rng, tier):
    quick = tier == "quick"
    yield Case("c20consts", [], True, "consts")
    for c in gen_weightboot(rng, 60 if quick else 600):
        yield c

    def seed():
        return rng.randint(0, 2 ** 31 - 1) if rng.random() < 0.9 else rng.choice([0, 1, -5, 2 ** 31 - 1, 2 ** 40 + 3])
    # weight builders: every length 3..200
    nseed = 2 if quick else 25
    for L in range(1, 201):
        for _ in range(nseed if L >= 3 else 1):
            if L >= 2:      # L = 1 makes BuildWeightsGamma call os.Exit (alpha = +Inf, beta = 0): one case below
                yield Case("c20wgamma", [seed(), L], L >= 3, "weights-gamma")
            yield Case("c20wdir", [seed(), L], L >= 3, "weights-dirichlet")
    for _ in range(20 if tier == "quick" else 200):
        L1, L2 = rng.randint(3, 80), rng.randint(3, 80)
        yield Case("c20wdir2", [seed(), L1, L2], True, "weights-dirichlet-two-alignments")
        yield Case("c20wgamma2", [seed(), L1, L2], True, "weights-gamma-two-alignments")
    yield Case("c20wgamma", [seed(), 1], False, "weights-gamma-L1-exit")
    for L in ([500, 2000] if quick else [500, 1000, 2000, 5000]):
        yield Case("c20wgamma", [seed(), L], True, "weights-gamma")
        yield Case("c20wdir", [seed(), L], True, "weights-dirichlet")
    # Dirichlet, equal shapes
    nd = 12 if quick else 150
    for a in SHAPES:
        for _ in range(nd):
            n = rng.choice([3, 4, 5, 8, 15, 40])
            factor = rng.choice([1.0, float(n), 1000.5])
            yield Case("c20dir", [seed(), fb(factor), fbl([a] * n)], True, "dirichlet-shape-%g" % a)
    # tiny equal shapes, three components, many seeds: most gamma variates underflow to 0 and the sum of the others can
    # be subnormal - the normalisation must still give finite values that sum to the total
    for _ in range(300 if quick else 3000):
        a = rng.choice([0.001, 0.0015, 0.002, 0.003])
        yield Case("c20dir", [seed(), fb(1.0), fbl([a] * 3)], True, "dirichlet-tiny-shape")
    # mixed shapes (sampler switches algorithm inside one call)
    for _ in range(40 if quick else 400):
        n = rng.randint(3, 12)
        al = [rng.choice(SHAPES + [rng.uniform(0.01, 100), 10 ** rng.uniform(-2, 2)]) for _ in range(n)]
        yield Case("c20dir", [seed(), fb(rng.choice([1.0, float(n)])), fbl(al)], True, "dirichlet-mixed")
    # invalid parameter vectors
    for al in ([], [1.0], [1.0, 1.0], [0.5, 2.0], [0.0, 1.0, 1.0], [1.0, 1.0, 0.0], [1.0, -1.0, 1.0], [2.0, 3.0, -0.0],
               [1.0, 2.0, 3.0, -1e-300], [0.0], [-1.0, 1.0], [1.0, 1.0, 1.0, 0.0, 1.0]):
        yield Case("c20dir", [seed(), fb(1.0), fbl(al)], False, "dirichlet-invalid")
    yield Case("c20dir", [seed(), fb(1.0), fbl([1.0, float("nan"), 1.0])], False, "dirichlet-invalid-nan")
    yield Case("c20dir", [seed(), fb(1.0), fbl([1.0, 1.0, float("inf")])], False, "dirichlet-invalid-inf")
    # Dirichlet1
    for n in [0, 1, 2, 3, 4, 5, 10, 50, 200] + [rng.randint(3, 200) for _ in range(10 if quick else 100)]:
        yield Case("c20dir1", [seed(), fb(rng.choice([1.0, float(max(n, 1)), 12.25])), n], n >= 3, "dirichlet1")
    # sampler branches: successive draws
    for a in SHAPES + [1.0000000000000002, 0.9999999999999999, 1.5, 50.0]:
        for _ in range(4 if quick else 60):
            beta = rng.choice([1.0, 0.5, 3.0, 1.0 - 1.0 / 17])
            yield Case("c20gamma", [seed(), fb(a), fb(beta), rng.choice([40, 200])], True, "gamma-shape-%g" % a)
    # discrete gamma
    agrid = sorted(set(SHAPES + [0.02, 0.03, 0.05, 0.07, 0.2, 0.3, 0.7, 1.5, 3.0, 5.0, 20.0, 30.0, 50.0, 70.0, 99.0]))
    agrid += [10 ** rng.uniform(-2, 2) for _ in range(6 if quick else 80)]
    for a in agrid:
        for k in range(2, 33):
            yield Case("c20dgamma", [fb(a), k], True, "discrete-gamma")
    # incomplete gamma ratio on ascending grids
    ialphas = sorted(set(SHAPES + [a + 1 for a in SHAPES] + [0.05, 0.3, 1.5, 3.0, 5.0, 20.0, 50.0]))
    ialphas += [10 ** rng.uniform(-2, 2) for _ in range(4 if quick else 60)]
    for a in ialphas:
        wide = [0.0, 5e-324, 1e-320, 2.2250738585072014e-308, 1e-300, 1e-200, 1e-100, 1e-30, 1e-10, 1e-5]
        x = 1e-3
        while x < 3000:
            wide.append(x)
            x *= 1.21
        wide += [1e4, 1e6, 1e10, 1e50, 1e100]
        for k in range(0, len(wide), 40):
            yield Case("c20incg", [fb(a), fbl(wide[k:k + 41])], True, "incgamma-wide")
        # fine grid around the branch switch (x > 1 && x >= alpha)
        c = max(1.0, a)
        fine = [c * (1 + (j - 20) * 1e-3) for j in range(41)]
        yield Case("c20incg", [fb(a), fbl(fine)], True, "incgamma-switch")
        ulp = [c * (1 + (j - 10) * 2.3e-16) for j in range(21)]
        yield Case("c20incg", [fb(a), fbl(sorted(set(ulp)))], True, "incgamma-switch")
        r = sorted(rng.uniform(0, 3 * a + 5) for _ in range(40))
        yield Case("c20incg", [fb(a), fbl(r)], True, "incgamma-random")
    # large shapes, x within a few standard deviations of the shape: the series / continued fraction need about
    # 6*sqrt(alpha) terms there (an iteration cap or a loosened stop test shows only here)
    import math
    for a in [150.0, 300.0, 1000.0, 5000.0, 20000.0] + [10 ** rng.uniform(2, 4.5) for _ in range(2 if quick else 30)]:
        sd = math.sqrt(a)
        grid = [a + (j - 20) * 0.25 * sd for j in range(41)]
        yield Case("c20incg", [fb(a), fbl([x for x in grid if x > 0])], True, "incgamma-large-shape")
    # huge x: one point per case (a hang blocks the whole case)
    for x in ([1e120, 1e150, 1e300] if quick else [1e103, 1e110, 1e120, 1e140, 1e150, 1e154, 1e155, 1e200, 1e300, 1.7976931348623157e308]):
        for a in ([1.0] if quick else [0.5, 1.0, 2.0, 101.0]):
            yield Case("c20incg", [fb(a), fb(x)], True, "incgamma-huge-x")


# ----------------------------------------------------------------------------------------------------
# model = implementation, with tolerances (last-ulp differences of log / exp / pow)
# ----------------------------------------------------------------------------------------------------

def _fl(tok):
    return struct.unpack(">d", bytes.fromhex(tok.split(":")[1]))[0]


def _dev(a, b):
    """relative deviation, inf on class mismatch"""
    if math.isnan(a) or math.isnan(b):
        return 0.0 if (math.isnan(a) and math.isnan(b)) else math.inf
    if math.isinf(a) or math.isinf(b):
        return 0.0 if a == b else math.inf
    if a == b:
        return 0.0
    return abs(a - b) / max(abs(a), abs(b))


def matches(c):
    if c.model == c.impl:
        return True
    if c.model == "panic" and (c.impl or "").startswith("panic"):
        return True
    x, y = (c.model or "").split(" "), (c.impl or "").split(" ")
    if len(x) != len(y):
        return False
    sampler = c.op in ("c20wgamma", "c20wdir", "c20wdir2", "c20wgamma2", "c20dir", "c20dir1", "c20gamma", "c20consts")
    tol = 1e-12 if sampler else 1e-9
    worst = 0.0
    for s, t in zip(x, y):
        if s.startswith("f:") and t.startswith("f:"):
            a, b = _fl(s), _fl(t)
            d = _dev(a, b)
            # differences of nearly equal incomplete-gamma values (DiscreteGamma) amplify the last-ulp
            # deviation of exp/log: absolute slack of 1e-13 on values that are O(1) sums of such differences
            if d > tol and not (not sampler and abs(a - b) <= 1e-13):
                return False
            if d <= tol:
                worst = max(worst, d)
        elif s != t:
            return False
    k = "sampler" if sampler else "numeric"
    MAXDEV[k] = max(MAXDEV[k], worst)
    return True


# ----------------------------------------------------------------------------------------------------
# known findings (known_findings.jsonl), each identified by its root-cause signature
# ----------------------------------------------------------------------------------------------------

def _floats(arg):
    return [] if arg in ("_", "") else [struct.unpack(">d", bytes.fromhex(h))[0] for h in arg.split(",")]


def classify(c):
    v = c.verdict or ""
    if not v.startswith("fail:"):
        return None
    cl = set(v[5:].split("+"))
    # (1) pow(p, 1/alpha) underflows to exactly 0 in the alpha < 1 branch of stats.gamma
    if c.op == "c20dir" and cl == {"zero-weight"} and min(_floats(c.args[2]) or [1.0]) < 0.05:
        return "gamma-sampler-underflows-to-zero-for-tiny-shape"
    # the same root cause when EVERY variate of the call underflows to 0: the sum is 0 and every weight is 0/0 = NaN (the
    # recorded entry names this case); recognised only when the exact replay also has all variates at 0, i.e. the model's
    # answer is all NaN too - an answer with an infinite entry, or NaN where the replay is finite, is NOT this finding
    if c.op == "c20dir" and min(_floats(c.args[2]) or [1.0]) < 0.05 and cl <= {"finite", "negative-weight", "zero-weight", "sum-eq-factor"}:
        def _all_nan(txt):
            toks = (txt or "").split()
            vals = [t.split(":")[1] for t in toks[2:] if t.startswith("f:")]
            return len(toks) > 2 and toks[0] == "ok" and vals and all(int(h, 16) & 0x7fffffffffffffff > 0x7ff0000000000000 for h in vals)
        if _all_nan(c.impl) and _all_nan(c.model):
            return "gamma-sampler-underflows-to-zero-for-tiny-shape"
    if c.op == "c20gamma" and cl == {"zero-weight"} and _floats(c.args[1])[0] < 0.05:
        return "gamma-sampler-underflows-to-zero-for-tiny-shape"
    # (2) NaN / +Inf parameter: `a <= 0.0` is false, the sampler loops forever
    if c.op == "c20dir" and cl == {"invalid-parameters-not-reported"} and c.impl == "hang":
        al = _floats(c.args[2])
        if len(al) > 2 and any(math.isnan(a) or math.isinf(a) for a in al) and not any(a <= 0 for a in al[:[math.isnan(a) or math.isinf(a) for a in al].index(True)]):
            return "dirichlet-nan-inf-alpha-loops-forever"
    # (3) continued-fraction branch of IncompleteGamma overflows to NaN and never leaves its loop
    if c.op == "c20incg" and cl == {"hang"} and c.impl == "hang":
        xs = _floats(c.args[1])
        if xs and max(xs) >= 1e103:
            return "incompletegamma-hangs-for-huge-x"
    # (4) `math.Abs(x) < DBL_MIN` returns 0 for subnormal x although x^alpha/Gamma(alpha+1) is not small when alpha is tiny
    if c.op == "c20incg" and cl == {"series-value"}:
        a = _floats(c.args[0])[0]
        xs = _floats(c.args[1])
        if a < 0.02 and any(0 < x < 2.2250738585072014e-308 for x in xs):
            return "incompletegamma-subnormal-x-returns-zero"
    # (6) the value drops by < 1e-7 where the code switches from the series (truncated at 1e-8) to the continued fraction
    if c.op == "c20incg" and cl == {"monotone"} and (c.impl or "").startswith("ok "):
        a = _floats(c.args[0])[0]
        xs = _floats(c.args[1])
        try:
            vs = [_fl(t) for t in c.impl.split(" ")[3:]]
        except (ValueError, IndexError, struct.error):
            return None
        if len(vs) != len(xs):
            return None

        def cf(x):
            return x > 1 and x >= a
        drops = [(xs[i], xs[i + 1], vs[i] - vs[i + 1]) for i in range(len(vs) - 1) if vs[i] - vs[i + 1] > 1e-12]
        if drops and all((not cf(x0)) and cf(x1) and d <= 1e-7 for x0, x1, d in drops):
            return "incompletegamma-not-monotone-across-branch-switch"
    # (5) gonum's Quantile is inaccurate / not monotone for tiny shapes: negative or non-monotone categories
    if c.op == "c20dgamma" and "ext-quantile" in cl and cl <= {"ext-quantile", "non-decreasing", "negative-rate"}:
        if _floats(c.args[0])[0] < 0.1:
            return "discretegamma-quantile-external-inaccurate-for-tiny-shape"
    return None


def shrink(c):
    a = list(c.args)
    if c.op in ("c20wdir2", "c20wgamma2"):
        for i in (1, 2):
            L = int(a[i])
            for l2 in (3, L // 2, L - 1):
                if 3 <= l2 < L:
                    b = list(a)
                    b[i] = l2
                    yield Case(c.op, b)
        return
    if c.op in ("c20wgamma", "c20wdir"):
        L = int(a[1])
        for l2 in (3, L // 2, L - 1):
            if 3 <= l2 < L:
                yield Case(c.op, [a[0], l2])
    elif c.op == "c20dir":
        al = a[2].split(",") if a[2] != "_" else []
        for i in range(len(al)):
            r = al[:i] + al[i + 1:]
            if len(r) >= 3:
                yield Case(c.op, [a[0], a[1], ",".join(r)])
    elif c.op == "c20gamma":
        n = int(a[3])
        for n2 in (1, n // 2, n - 1):
            if 1 <= n2 < n:
                yield Case(c.op, a[:3] + [n2])
    elif c.op == "c20incg":
        xs = a[1].split(",")
        if len(xs) > 1:
            for i in range(len(xs)):
                yield Case(c.op, [a[0], xs[i]])
            yield Case(c.op, [a[0], ",".join(xs[:len(xs) // 2])])
            yield Case(c.op, [a[0], ",".join(xs[len(xs) // 2:])])
            for i in range(len(xs) - 1):
                yield Case(c.op, [a[0], xs[i] + "," + xs[i + 1]])


def check(tier, seed):
    """generic flow with the memoising axiom audit (Mathlib-importing module), then the maximal deviation
    model vs implementation seen by `matches` is added to the evidence"""
    from driver import common

    def audit_memo(modules):
        rc, out = common.run(["lake", "env", "lean", "--run", "Audit/AuditMemo.lean"] + modules, cwd=common.LEAN, timeout=1200)
        ths = []
        for m in common.re.finditer(r"THEOREM (\S+) (\S+) axioms=\[(.*?)\] (OK|FORBIDDEN)", out):
            axs = [a.strip() for a in m.group(3).split(",") if a.strip()]
            ths.append({"module": m.group(1), "name": m.group(2), "axioms": axs, "ok": m.group(4) == "OK"})
        return rc, ths, out
    common.audit = audit_memo
    MAXDEV["sampler"] = MAXDEV["numeric"] = 0.0
    rc = common.generic_check(sys.modules[__name__], tier, seed)
    p = os.path.join(common.EVID, "%s.json" % ID)
    try:
        ev = json.load(open(p))
        ev["coverage"]["max_relative_deviation_model_vs_implementation"] = {
            "sampler_replays(tolerance 1e-12)": MAXDEV["sampler"],
            "incomplete_gamma_and_categories(tolerance 1e-9)": MAXDEV["numeric"]}
        json.dump(ev, open(p, "w"), indent=1)
    except (OSError, ValueError, KeyError):
        pass
    print("C20 max relative deviation model vs implementation: sampler replays %.3g, incomplete-gamma values %.3g" % (
        MAXDEV["sampler"], MAXDEV["numeric"]))
    return rc
