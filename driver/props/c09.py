"""C09 — pairwise local alignment (Smith-Waterman) is valid, self-consistent and optimal."""
import itertools

from driver.common import Case

ID = "C09"
LEVEL_TEXT = ('Lean theorems, for all inputs: the trace-back of the aligner model (backTrack_SW, shipped and repaired '
              'stop rule) returns, for ANY score/trace matrix and end cell, rows of equal length without all-gap column '
              'whose ungapped contents are exactly seq1[start1..end1] and seq2[start2..end2], with matches+mismatches+gaps '
              '= length (sw_valid and its components, by induction over trace-back steps); the independent Gotoh program '
              'of the specification is an upper bound on the affine-gap score of every local alignment and is attained '
              '(gotoh_upper_bound, gotoh_attained), and the brute-force enumeration is complete (enum_complete). '
              'PARTIAL: sw_optimal (reported score = score of the returned alignment = optimum, for the repaired fill) is '
              'stated but proved only as sw_optimal_partial, under the hypothesis that the model score equals the Gotoh '
              'optimum; that equality and the score of the returned rows are checked on every generated case '
              '(exhaustively for all pairs up to length 4 over {A,C,G} x 6 schemes) on the real code.')
LEVEL_NOTE = ('Trusted: Lean kernel; tools/extract for the DNAfull/BLOSUM62 tables and index maps; harness; the Int (x den) '
              'reading of the float64 code, exact for dyadic scores below 2^52 (DyadicScheme); the model of '
              'fillMatrix_SW is tied to the code by correspondence only (no theorem about the fill).')
TECHNIQUE = 'Lean 4 proof (induction over trace-back steps and over column lists) + differential correspondence + independent Gotoh/enumeration oracle'
LEAN_MODULES = ["Gv.Props.C09"]
REQUIRED_THEOREMS = ["Gv.Props.C09." + n for n in []]
PARTIAL = []
RULE = ""
TIMEOUT = 10.0

DEN = 2
# (match, mismatch, gapopen, gapextend) in half units
SCHEMES = [
    (2, -2, -20, -1),    # goalign defaults 1/-1/-10/-0.5
    (2, -2, -4, -2),     # 1/-1/-2/-1
    (20, -2, -6, -1),    # match > |gapopen| : 10/-1/-3/-0.5
    (4, -2, -2, -2),     # linear gaps, match > |gapopen| : 2/-1/-1/-1
    (10, -8, -6, -2),    # DNAfull-like 5/-4/-3/-1
    (6, -1, -5, -1),     # 3/-0.5/-2.5/-0.5
]


def enc(s):
    return s if s else "_"


def sw_case(mode, sch, s1, s2, nontrivial=False, tag="", den=DEN):
    m, mm, go, ge = sch
    return Case("sw", [mode, den, m, mm, go, ge, enc(s1), enc(s2)], nontrivial, tag)


def all_seqs(alpha, maxlen, minlen=0):
    for L in range(minlen, maxlen + 1):
        for t in itertools.product(alpha, repeat=L):
            yield "".join(t)


def gen(rng, tier):
    small = list(all_seqs("ACG", 4))
    for si, sch in enumerate(SCHEMES):
        for s1 in small:
            for s2 in small:
                yield sw_case("mm", sch, s1, s2, bool(s1 and s2), "exh4-scheme%d" % si)


def classify(c):
    return None
