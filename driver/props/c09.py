"""C09 — pairwise local alignment (Smith-Waterman) is valid, self-consistent and optimal."""
import itertools

from driver.common import Case

ID = "C09"
NEEDS_BINARY = True
LEVEL_TEXT = ('Lean theorems, for all inputs (induction, no bound on lengths or scores). VALIDITY: sw_valid — for ANY score matrix, '
              'ANY trace matrix, any end cell and both stop rules, what the model of backTrack_SW returns has rows of equal '
              'length (= the reported length), no all-gap column, ungapped rows exactly seq1[start1..end1] and '
              'seq2[start2..end2], and matches+mismatches+gaps = length; sw_align_valid — the same for the whole call '
              'NewPwAligner+setters+Alignment(), shipped and repaired code, any scores (with fill_best_in_range, gapLen_bounds and '
              'the regenerated-table facts gap_not_in_index_maps / index_maps_in_range); sw_rows_denote_local_alignment. '
              'REFERENCE OPTIMUM: gotoh_upper_bound / gotoh_attained / enum_complete / enum_optimal / gotoh_eq_enum — the suffix '
              'Gotoh program and the brute-force enumeration used by the oracle bound the affine-gap score of every local '
              'alignment and are attained. SCORE CLAUSES, for the aligner with proposed_fixes/c09-aligner.diff applied: '
              'sw_score_is_optimum (reported score = optimum over all local alignments), sw_score_of_returned_rows (the returned '
              'rows score exactly the reported score when it is positive), sw_optimal (C09\'s two score clauses at full '
              'strength, built-in matrices or any match/mismatch, any gapopen <= gapextend < 0), sw_score_attained, '
              'sw_never_panics. For the '
              'aligner AS SHIPPED these clauses are false: kernel-checked counter-examples in Props/C09.lean, reproduced on the '
              'real code by this check (known findings sw-border-max, sw-border-trace, sw-maxa-init, sw-empty-panic; plus sw-stop-codon-alphabet in '
              'NewPwAligner, outside the score clauses). Tie to /repo: '
              'T1 regenerated DNAfull/BLOSUM62 tables and index maps; T4 correspondence of the Int model (variant selected by '
              'probing the linked library) with the implementation on every generated case, on which the oracle also evaluates '
              'the whole C09 predicate with the independent Gotoh program (and enumeration for tiny inputs): all pairs up to '
              'length 5 over {A,C,G} x 3..6 match/mismatch schemes (incl. match > |gapopen|), small DNAfull/BLOSUM62 pairs, '
              'random longer pairs.')
LEVEL_NOTE = ('Trusted: Lean kernel; tools/extract for the DNAfull/BLOSUM62 tables and index maps; harness and driver; the Int '
              '(x den) reading of the float64 code, exact for dyadic scores below 2^52 (Model.SW.DyadicScheme, outside which the '
              'verdict is n/a); the hand-written model of fillMatrix_SW/backTrack_SW is tied to the Go code by correspondence '
              'only; the variant of the model (border logic shipped / repaired, alphabet choice shipped / repaired) is selected by '
              'probing the linked library with "A" vs "A" and "A*" vs "A*".')
TECHNIQUE = ('Lean 4 proof (induction over trace-back steps, column lists, suffix tables and reversed-prefix tables; Gotoh '
             'optimality via an exhaustive-search recursion and reversal symmetry) + differential correspondence with an '
             'integer model of the float code + independent Gotoh / enumeration oracle evaluated on the real output')
LEAN_MODULES = ["Gv.Props.C09"]
REQUIRED_THEOREMS = ["Gv.Props.C09." + n for n in [
    "blosum62_is_published", "dnafull_is_published", "published_matrices_symmetric",
    "sw_valid", "sw_align_valid", "gapLen_bounds", "fill_best_in_range", "gap_not_in_index_maps",
    "index_maps_in_range", "sw_rows_denote_local_alignment", "enum_complete", "enum_optimal",
    "gotoh_upper_bound", "gotoh_attained", "gotoh_eq_enum", "sw_score_is_optimum",
    "sw_score_of_returned_rows", "sw_optimal", "sw_score_attained", "sw_never_panics"]]
PARTIAL = ["sw_optimal, sw_score_is_optimum, sw_score_of_returned_rows and sw_never_panics are theorems about the aligner AS "
           "REPAIRED in /repo (fix: commits d8d81b3 borders, d914816 matrix choice; the harness reports which variant "
           "the working tree holds and the model follows it); for the aligner as first shipped they were false (counter-examples kept in Props/C09.lean)",
           "`the input sequences are left unmodified` is established by observation on every generated case (the harness "
           "compares the caller's Sequence objects before and after) and by the C19 mutation facts / purity runs, not by a "
           "theorem of this module",
           "the built-in matrices are proved equal to BLOSUM62 / DNAfull as published (blosum62_is_published, "
           "dnafull_is_published); the published tables in Spec/Matrices.lean are entered by hand"]
TRUSTED = ["float64 arithmetic of aligner.go is exact on dyadic scores (DyadicScheme); generators only produce such scores"]
ASSUMPTIONS = ["scores are integer multiples of 1/den, den a power of two, (|s1|+|s2|+2)*max|score| < 2^52",
               "residues are printable ASCII; a returned error (foreign residue, incompatible alphabets, empty sequence in the "
               "repaired code) puts the case outside the property's quantifier"]
RULE = ("op sw: mode mm (SetScore) or mat (DNAfull / BLOSUM62 by detected alphabet), scores as integer numerators over den. "
        "Exhaustive: all pairs of sequences of length 0..4 over {A,C,G} x 6 schemes (defaults 1/-1/-10/-0.5; 1/-1/-2/-1; "
        "10/-1/-3/-0.5 and 2/-1/-1/-1 with match > |gapopen|; 5/-4/-3/-1; 3/-0.5/-2.5/-0.5); all pairs up to length 5 (132 496 "
        "pairs) x 3 of the schemes and, modulo renaming of letters, x the other 3 (thorough: x all 6); DNAfull: all pairs up to length 3 over {A,C,G,T,N} x 3 gap settings; BLOSUM62/DNAfull "
        "choice: all pairs up to length 3 over {W,E,L,K} x 3 gap settings. Random: related pairs (substitutions + indels) of "
        "length 5..60 with random dyadic schemes (den 1, 2, 4), IUPAC DNA and protein incl. lower case, constructor defaults, "
        "proteins with stop codons made of IUPAC letters, foreign residues / incompatible alphabets (error path), schemes outside the quantifier (verdict n/a, correspondence "
        "only). non-trivial = the implementation's alignment contains a gap or touches a border of the matrix")
TIMEOUT = 10.0

DEN = 2
# (match, mismatch, gapopen, gapextend) in half units
SCHEMES = [
    (2, -2, -20, -1),    # goalign defaults 1/-1/-10/-0.5
    (2, -2, -4, -2),     # 1/-1/-2/-1
    (20, -2, -6, -1),    # match > |gapopen| : 10/-1/-3/-0.5
    (4, -2, -2, -2),     # linear gaps, match > |gapopen| : 2/-1/-1/-1
    (10, -8, -6, -2),    # DNAfull-like 5/-4/-3/-1
    (6, -1, -5, -1),     # 3/-0.5/-2.5/-0.5
]
GAPS = [("d", "d"), (-6, -2), (-4, -1)]      # matrix mode: defaults, -3/-1, -2/-0.5

IUPAC = "ACGTRYSWKMBDHVNUX"
AMINO = "ARNDCQEGHILKMFPSTWYVBZX*"


class SWCase(Case):
    """non-trivial is decided from the implementation's result: the alignment has a gap, or starts at
    offset 0 / ends at the last residue of a sequence"""
    __slots__ = ("_nt", "l1", "l2")

    @property
    def nontrivial(self):
        im = self.impl or ""
        if not im.startswith("ok "):
            return False
        f = dict(x.split("=", 1) for x in im.split(" ")[1:] if "=" in x)
        try:
            st = [int(x) for x in f["st"].split(",")]
            en = [int(x) for x in f["en"].split(",")]
            return (int(f["gap"]) > 0 or 0 in st or en[0] == self.l1 - 1 or en[1] == self.l2 - 1)
        except (KeyError, ValueError):
            return False

    @nontrivial.setter
    def nontrivial(self, v):
        self._nt = v


def enc(s):
    return s if s else "_"


def sw_case(mode, sch, s1, s2, tag="", den=DEN):
    m, mm, go, ge = sch
    c = SWCase("sw", [mode, den, m, mm, go, ge, enc(s1), enc(s2)], False, tag)
    c.l1, c.l2 = len(s1), len(s2)
    return c


def all_seqs(alpha, maxlen, minlen=0):
    for L in range(minlen, maxlen + 1):
        for t in itertools.product(alpha, repeat=L):
            yield "".join(t)


def canonical_pair(s1, s2):
    """letters renamed in order of first occurrence in s1+s2"""
    m = {}
    for ch in s1 + s2:
        if ch not in m:
            m[ch] = "ACG"[len(m)]
    return "".join(m[c] for c in s1), "".join(m[c] for c in s2)


def mutate(rng, s, alpha, rate):
    out = []
    for ch in s:
        r = rng.random()
        if r < rate:
            out.append(rng.choice(alpha))
        elif r < 1.5 * rate:
            continue                                     # deletion
        elif r < 2 * rate:
            out.append(ch)
            out.extend(rng.choice(alpha) for _ in range(rng.randint(1, 3)))   # insertion
        else:
            out.append(ch)
    return "".join(out)


def rand_pair(rng, alpha, lo, hi):
    core = "".join(rng.choice(alpha) for _ in range(rng.randint(lo, hi)))
    fl = lambda: "".join(rng.choice(alpha) for _ in range(rng.randint(0, 6)))
    a = fl() + mutate(rng, core, alpha, rng.choice([0.05, 0.15, 0.3])) + fl()
    b = fl() + mutate(rng, core, alpha, rng.choice([0.05, 0.15, 0.3])) + fl()
    if rng.random() < 0.15:
        b = "".join(rng.choice(alpha) for _ in range(rng.randint(1, hi)))      # unrelated
    return a or alpha[0], b or alpha[0]


def rand_scheme(rng, den):
    m = rng.randint(1, 12 * den)
    mm = -rng.randint(1, 8 * den)
    ge = -rng.randint(1, 3 * den)
    go = ge - rng.randint(0, 10 * den)
    return (m, mm, go, ge)


def gen(rng, tier):
    thorough = tier != "quick"
    # ---- exhaustive, match/mismatch ------------------------------------------------------
    small = list(all_seqs("ACG", 4))
    for si, sch in enumerate(SCHEMES):
        for s1 in small:
            for s2 in small:
                yield sw_case("mm", sch, s1, s2, "exh4-mm-scheme%d" % si)
    five = list(all_seqs("ACG", 5))
    full5 = range(len(SCHEMES)) if thorough else (0, 2, 5)
    for si in full5:
        for s1 in five:
            for s2 in five:
                if len(s1) == 5 or len(s2) == 5:
                    yield sw_case("mm", SCHEMES[si], s1, s2, "exh5-mm-scheme%d" % si)
    if not thorough:
        # the remaining schemes: every pair with a length-5 member, up to renaming of the letters (match/mismatch
        # scoring only looks at equality of residues)
        seen = set()
        for s1 in five:
            for s2 in five:
                if len(s1) == 5 or len(s2) == 5:
                    seen.add(canonical_pair(s1, s2))
        for si in (1, 3, 4):
            for (s1, s2) in sorted(seen):
                yield sw_case("mm", SCHEMES[si], s1, s2, "exh5-mod-renaming-scheme%d" % si)
    if thorough:
        six = list(all_seqs("ACG", 6, 6))
        upto6 = list(all_seqs("ACG", 6))
        seen6 = set()
        for s1 in six:
            for s2 in upto6:
                seen6.add(canonical_pair(s1, s2))
                seen6.add(canonical_pair(s2, s1))
        for si in (2, 5):
            for (s1, s2) in sorted(seen6):
                yield sw_case("mm", SCHEMES[si], s1, s2, "exh6-mod-renaming-scheme%d" % si)
    # ---- exhaustive, built-in matrices ---------------------------------------------------
    dna = list(all_seqs("ACGTN", 3))
    for gi, (go, ge) in enumerate(GAPS):
        for s1 in dna:
            for s2 in dna:
                yield sw_case("mat", ("d", "d", go, ge), s1, s2, "exh3-dnafull-gaps%d" % gi)
    prot = list(all_seqs("WELK", 3))
    for gi, (go, ge) in enumerate(GAPS):
        for s1 in prot:
            for s2 in prot:
                yield sw_case("mat", ("d", "d", go, ge), s1, s2, "exh3-blosum62-gaps%d" % gi)
    # ---- every ordered pair of symbols of the two built-in matrices, facing each other inside a conserved frame ----
    for a in AMINO:
        for b in AMINO:
            yield sw_case("mat", ("d", "d", "d", "d"), "MKC" + a + "CLV", "MKC" + b + "CLV", "allpairs-blosum62", 2)
    for a in IUPAC:
        for b in IUPAC:
            yield sw_case("mat", ("d", "d", "d", "d"), "ACGTG" + a + "CATGC", "ACGTG" + b + "CATGC", "allpairs-dnafull", 2)
    # ---- random longer pairs ---------------------------------------------------------------
    N = 15000 if thorough else 1500
    hi = 120 if thorough else 60
    for _ in range(N):
        den = rng.choice([1, 2, 2, 4])
        s1, s2 = rand_pair(rng, "ACGT", 5, hi)
        yield sw_case("mm", rand_scheme(rng, den), s1, s2, "rand-mm", den)
    for _ in range(N):
        den = rng.choice([2, 2, 4])
        alpha = rng.choice(["ACGT", "ACGT", IUPAC, "ACGTacgtNn"])
        s1, s2 = rand_pair(rng, alpha, 5, hi)
        go, ge = rng.choice([("d", "d"), ("d", "d"), (-3 * den, -den), (-2 * den, -den // 2), (-11 * den, -den)])
        yield sw_case("mat", ("d", "d", go, ge), s1, s2, "rand-dnafull", den)
    for _ in range(N):
        den = rng.choice([2, 2, 4])
        alpha = rng.choice([AMINO[:20], AMINO[:20], AMINO, AMINO[:20] + AMINO[:20].lower()])
        s1, s2 = rand_pair(rng, alpha, 5, hi)
        go, ge = rng.choice([("d", "d"), ("d", "d"), (-3 * den, -den), (-2 * den, -den // 2), (-11 * den, -den)])
        yield sw_case("mat", ("d", "d", go, ge), s1, s2, "rand-blosum62", den)
    for _ in range(N // 3):
        den = rng.choice([1, 2, 4])
        alpha = rng.choice([AMINO[:20], "ACGTacgt", "AaCc"])
        s1, s2 = rand_pair(rng, alpha, 3, 30)
        yield sw_case("mm", rand_scheme(rng, den), s1, s2, "rand-mm-protein-or-mixed-case", den)
    # ---- the command: goalign sw on the built binary against the aligner model (flags on their own and together,
    # alignment on stdout, positions / score / counts / picture in the log) ---------------------------------------------
    for _ in range(60 if not thorough else 600):
        alpha = rng.choice(["ACGT", "ACGT", "ACGTN", AMINO[:20]])
        s1, s2 = rand_pair(rng, alpha, 4, 40)
        if rng.random() < 0.5:
            # two long indels, one per sequence: gaps of length >= 2 in both rows
            core = "".join(rng.choice(alpha) for _ in range(36))
            ins = lambda: "".join(rng.choice(alpha) for _ in range(rng.randint(2, 9)))
            s1 = core[:12] + ins() + core[12:]
            s2 = core[:24] + ins() + core[24:]
        fl = []
        for f, vals in (("--gap-open", ["-10", "-12", "-3", "-5.5", "-20"]), ("--gap-extend", ["-0.5", "-1", "-3", "-2.5", "-6"]),
                        ("--match", ["1", "5", "2.5"]), ("--mismatch", ["-1", "-4", "-2.5"])):
            if rng.random() < 0.4:
                fl += [f, rng.choice(vals)]
        if rng.random() < 0.7:
            fl += ["-l", "sw.log"]
        yield Case("cli_libf", [">a|%s|>b|%s|" % (s1, s2), "_", "sw"] + fl, True, "cli-sw")
    # ---- error path, constructor choices, out-of-quantifier schemes (correspondence only) --------
    for _ in range(N // 5):
        alpha = rng.choice(["ACGT-", "ACGTJ", "ACGU" + "QE", "ACGT*", "WELK*O", "ACGT?.", "ACGT1"])
        s1, s2 = rand_pair(rng, alpha, 1, 12)
        mode = rng.choice(["mm", "mat"])
        yield sw_case(mode, SCHEMES[rng.randrange(len(SCHEMES))] if mode == "mm" else ("d", "d", "d", "d"),
                      s1, s2, "foreign-or-mixed-alphabet")
    for _ in range(N // 5):
        # protein sequences made of letters that are also IUPAC nucleotide codes, with stop codons
        s1, s2 = rand_pair(rng, "ACDGHKMNRSTVWY*", 1, 25)
        mode = rng.choice(["mm", "mat"])
        yield sw_case(mode, SCHEMES[rng.randrange(len(SCHEMES))] if mode == "mm" else ("d", "d", "d", "d"),
                      s1, s2, "protein-with-stop-codon")
    for _ in range(N // 5):
        s1, s2 = rand_pair(rng, "ACGT", 1, 15)
        sch = (rng.randint(-4, 6), rng.randint(-4, 4), rng.randint(-8, 2), rng.randint(-4, 2))
        yield sw_case("mm", sch, s1, s2, "scheme-outside-quantifier")
    for s1 in ["", "A", "ACGT", "WELK"]:
        for s2 in ["", "C", "ACGT", "QEIL"]:
            for mode, sch in (("mm", (2, -2, "d", "d")), ("mat", ("d", "d", "d", "d")), ("mm", (2, -2, "d", -1))):
                yield sw_case(mode, sch, s1, s2, "defaults-and-empty")


def _mk(c, s1, s2):
    n = SWCase("sw", c.args[:6] + [enc(s1), enc(s2)], False, c.tag)
    n.l1, n.l2 = len(s1), len(s2)
    return n


def shrink(c):
    """halves, then single residues, of either sequence"""
    s1 = "" if c.args[6] == "_" else c.args[6]
    s2 = "" if c.args[7] == "_" else c.args[7]
    for which in (0, 1):
        s = (s1, s2)[which]
        n = len(s)
        size = n // 2
        while size >= 1:
            for st in range(0, n, size):
                t = s[:st] + s[st + size:]
                if t != s:
                    yield _mk(c, t, s2) if which == 0 else _mk(c, s1, t)
            size //= 2


# oracle tag -> (finding id, variant bit that must be UNSET for the finding to be possible)
FINDINGS = {
    "empty-sequence": ("sw-empty-panic", 1),
    "border-max": ("sw-border-max", 1),
    "border-trace": ("sw-border-trace", 1),
    "maxa-init": ("sw-maxa-init", 1),
    "stop-codon-alphabet": ("sw-stop-codon-alphabet", 2),
}


def variant(c):
    for f in (c.impl or "").split(" "):
        if f.startswith("v="):
            try:
                return int(f[2:])
            except ValueError:
                return None
    return None


def classify(c):
    """The oracle tags a failure with the recorded finding whose decidable trigger holds on the input, whose
    logic (as modelled for the detected variant) reproduces the failing clause, and whose repair makes the
    whole predicate pass (Oracle/SW.lean `attributeFailure`).  Untagged failures are never classified, and a
    finding is impossible once the corresponding repair is detected in the linked library."""
    v = c.verdict or ""
    if not v.startswith("fail:") or "@" not in v:
        return None
    f = FINDINGS.get(v.split("@", 1)[1])
    var = variant(c)
    if f is None or var is None or (var & f[1]):
        return None
    return f[0]
