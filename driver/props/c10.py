"""C10 — randomised operations keep invariants, reach all outcomes, replay from seed."""
from driver.common import Case

ID = "C10"
LEAN_MODULES = ["Gv.Props.C10"]
REQUIRED_THEOREMS = ["Gv.Props.C10." + n for n in [
    "goGen_intn_lt", "runSeed_is_runTape", "shuffle_is_row_permutation", "perm_is_permutation", "sample_distinct_rows",
    "columns_distinct", "bootstrap_columns_original", "bootstrap_every_site_reachable", "window_is_contiguous",
    "window_every_offset_reachable", "mutate_frame", "permProg_wf", "shuffleSequences_wf", "bootstrap_wf",
    "sampleRows_wf", "randSubAlign_wf", "bootstrap_every_seed", "shuffle_every_seed", "rarefy_keeps_counted_rows_in_order",
    "addGaps_only_adds_gaps", "recombine_copies_within_columns", "swap_keeps_column_multisets",
    "rogue_permutes_chosen_rows_and_partitions_names", "addGaps_every_seed", "swap_every_seed", "recombine_every_seed",
    "addGaps_wf", "swapRows_wf", "recombine_wf", "simulateRogue_wf", "shuffleSites_permutes_within_columns"]]
LEVEL_TEXT = ("Lean theorems over programs-with-random-draws (RProg): each modelled randomised operation keeps its promise for "
              "EVERY admissible answer tape (hence every seed: runGen_is_runTape), and support theorems exhibit a tape for every "
              "admissible outcome (each site bootstrapped, each window offset incl. the last, each row sampled); tied to /repo by "
              "EXACT replay: rand.Seed(s) + the real operation vs the same program run on a Lean replica of Go's math/rand "
              "(rngCooked regenerated from $GOROOT), byte-equal results, plus the decidable promise checked on the implementation's output.")
LEVEL_NOTE = ("Trusted: Lean kernel; the math/rand replica (validated by the exact replays, not proved equal); float conversions "
              "int(rate*float64(n)) are computed with Lean Float (IEEE double) and passed to the programs as integers; harness/oracle/driver.")
TECHNIQUE = "Lean 4 proof (free monad over random draws, all tapes; support by witness tapes) + exact-replay correspondence"
RULE = ("alignments of 1..6 rows x 1..12 columns (nucleotide / protein, gaps and specials), each randomised operation with "
        "rates / proportions / lengths in and at the borders of their domains (0, 1, 1/2, out-of-range), seeds drawn from "
        "VERIF_SEED; non-trivial = at least 2 rows and 2 columns and a parameter strictly inside its domain")
PARTIAL = ["proved in Lean for all outcomes of the draws (hence every seed): ShuffleSequences, rand.Perm, Sample, RandSubAlign (both modes), "
           "BuildBootstrap (invariant + support), Mutate (frame), Rarefy (sub-list of counted rows), AddGaps (only adds gaps), Swap "
           "(column multisets, rectangular input), Recombine (copies within columns, rectangular input, len <= L), SimulateRogue "
           "(chosen rows permuted, others untouched, names partitioned), ShuffleSites (column multisets)",
           "support ('positive probability') is proved in the ideal-source reading: an admissible tape exists for every admissible "
           "outcome; the statistical run (`rnd support`: 3000 independent runs per case, a missing outcome has probability < 1e-30 on an "
           "ideal source) covers bootstrap sites, sampled rows, window offsets, sampled columns and row permutations only"]

NT = "ACGT"
AA = "ARNDCQEGHILKMFPSTWYV"
FR = ["0", "1", "1/2", "1/3", "2/3", "1/4", "3/4", "1/10", "9/10"]


def rows_str(rows):
    return ",".join("%s:%s" % r for r in rows) if rows else "_"


def rand_al(rng, alpha_id):
    alpha = AA if alpha_id == 0 else NT
    n = rng.choice([1, 2, 3, 4, 5, 6])
    L = rng.choice([1, 2, 3, 4, 5, 7, 9, 12])
    rows = []
    for i in range(n):
        s = "".join(rng.choice(alpha + ("-" if rng.random() < 0.3 else "") + ("*." if rng.random() < 0.1 else "")) for _ in range(L))
        rows.append(("s%d" % i, s))
    return rows, n, L


def gen(rng, tier):
    N = 250 if tier == "quick" else 2500
    for _ in range(N):
        alpha_id = rng.choice([1, 1, 0])
        rows, n, L = rand_al(rng, alpha_id)
        big = n >= 2 and L >= 2
        seed = rng.randint(0, 2 ** 31 - 1) if rng.random() < 0.9 else rng.choice([0, 1, -5, 2 ** 31 - 1, 2 ** 40 + 3])
        base = [seed, alpha_id, rows_str(rows)]
        yield Case("rnd", ["shuffle"] + base, big, "shuffle")
        yield Case("rnd", ["bootstrap"] + base + [rng.choice(FR + ["2", "1/1"])], big, "bootstrap")
        yield Case("rnd", ["sample"] + base + [rng.choice([0, 1, n - 1, n, n + 1, -1, max(1, n // 2)])], big, "sample")
        yield Case("rnd", ["subalign"] + base + [rng.choice([0, 1, L - 1, L, L + 1, max(1, L // 2)]), rng.randint(0, 1)], big, "subalign")
        yield Case("rnd", ["mutate"] + base + [rng.choice(FR + ["2"])], big, "mutate")
        yield Case("rnd", ["addgaps"] + base + [rng.choice(FR + ["2"]), rng.choice(FR + ["2"])], big, "addgaps")
        yield Case("rnd", ["swap"] + base + [rng.choice(FR + ["2"]), rng.choice(["-1", "2", "0", "1/2", "1/3", "9/10"])], big, "swap")
        yield Case("rnd", ["recombine"] + base + [rng.choice(["0", "1/2", "1/3", "1/4", "1/10", "2/3"]), rng.choice(FR + ["2"]), rng.randint(0, 1)], big, "recombine")
        yield Case("rnd", ["rogue"] + base + [rng.choice(FR + ["2"]), rng.choice(FR + ["2"])], big, "rogue")
        if rng.random() < 0.2:
            yield Case("rnd", ["twice"] + base, big, "twice")
            yield Case("rnd", ["twiceobj"] + base, big, "twice-same-object")
        yield Case("rnd", ["shufflesites"] + base + [rng.choice(FR), rng.choice(FR), rng.randint(0, 1)], big, "shufflesites")
        # Rarefy: counts for a random subset of the rows (sometimes an unknown name, a zero count, nb too large)
        names = [r[0] for r in rows]
        sub = rng.sample(names, rng.randint(1, n))
        cnt = {x: rng.choice([1, 1, 2, 3, 5]) for x in sub}
        r = rng.random()
        if r < 0.05:
            cnt["nope"] = 2
        elif r < 0.1:
            cnt[sub[0]] = 0
        tot = sum(cnt.values())
        nb = rng.choice([0, 1, max(1, tot // 2), max(0, tot - 1), tot, tot + 1])
        yield Case("rnd", ["rarefy"] + base + [nb, ";".join("%s=%d" % kv for kv in cnt.items())], n >= 2 and 0 < nb < tot, "rarefy")
    # tall / wide alignments: code paths chosen by size (a fast path for small samples of large sets, sorting
    # thresholds, buffers) must replay exactly and keep the promises as well
    for _ in range(N // 10):
        alpha_id = rng.choice([1, 0])
        alpha = AA if alpha_id == 0 else NT
        if rng.random() < 0.6:
            n, L = rng.choice([17, 32, 33, 48, 64, 80]), rng.choice([1, 2, 3, 5])
        else:
            n, L = rng.choice([2, 3, 5]), rng.choice([40, 64, 100, 130, 257])
        rows = [("s%d" % i, "".join(rng.choice(alpha + "-") for _ in range(L))) for i in range(n)]
        seed = rng.randint(0, 2 ** 31 - 1)
        base = [seed, alpha_id, rows_str(rows)]
        yield Case("rnd", ["shuffle"] + base, True, "shuffle-large")
        yield Case("rnd", ["sample"] + base + [rng.choice([1, 2, 3, 4, n // 16, n // 16 + 1, n // 2, n])], True, "sample-large")
        yield Case("rnd", ["subalign"] + base + [rng.choice([1, 2, L // 16, L // 2, L - 1, L]), rng.randint(0, 1)], True, "subalign-large")
        yield Case("rnd", ["bootstrap"] + base + [rng.choice(FR)], True, "bootstrap-large")
        yield Case("rnd", ["rogue"] + base + [rng.choice(FR), rng.choice(FR)], True, "rogue-large")
        yield Case("rnd", ["shufflesites"] + base + [rng.choice(FR), rng.choice(FR), rng.randint(0, 1)], True, "shufflesites-large")
        yield Case("rnd", ["swap"] + base + [rng.choice(FR), rng.choice(["-1", "1/2", "1/3"])], True, "swap-large")
        yield Case("rnd", ["recombine"] + base + [rng.choice(["1/2", "1/4", "1/10"]), rng.choice(FR), rng.randint(0, 1)], True, "recombine-large")
        yield Case("rnd", ["mutate"] + base + [rng.choice(FR)], True, "mutate-large")
        yield Case("rnd", ["addgaps"] + base + [rng.choice(FR), rng.choice(FR)], True, "addgaps-large")
    # very wide alignments (beyond 4096 columns: block / buffer sizes): the column operations replay exactly and keep
    # their promises
    for _ in range(1 if tier == "quick" else 6):
        # (the Lean model works on lists: a 4200-column case costs seconds, so few of them)
        n, L = rng.choice([2, 3]), rng.choice([4200, 4300, 4500])
        rows = [("s%d" % i, "".join(rng.choice(NT + "-") for _ in range(L))) for i in range(n)]
        seed = rng.randint(0, 2 ** 31 - 1)
        base = [seed, 1, rows_str(rows)]
        yield Case("rnd", ["swap"] + base + ["1", rng.choice(["0", "1/100"])], True, "swap-very-wide")
        yield Case("rnd", ["recombine"] + base + ["1/2", "99/100", rng.randint(0, 1)], True, "recombine-very-wide")
        if tier != "quick":
            yield Case("rnd", ["shufflesites"] + base + ["1", "0", 0], True, "shufflesites-very-wide")
            yield Case("rnd", ["subalign"] + base + [L - 1, 1], True, "subalign-very-wide")
            yield Case("rnd", ["bootstrap"] + base + ["1"], True, "bootstrap-very-wide")
    # small samples of tall alignments, many runs from one seed: every run must return distinct original rows
    for _ in range(4 if tier == "quick" else 40):
        n = rng.choice([32, 48, 64])
        rows = [("s%d" % i, "".join(AA[(i // 20 ** k) % 20] for k in range(3))) for i in range(n)]
        # columns of `rows` are pairwise distinct for n >= 21 (base-20 digits of the row number)
        yield Case("rnd", ["support", rng.randint(0, 2 ** 31 - 1), 0, rows_str(rows), "sample", rng.choice([2, 3]), 4000], True, "support-sample-tall")
    # distributional support: canonical alignments with distinct rows and columns, K independent runs per case
    M = 12 if tier == "quick" else 120
    for _ in range(M):
        n = rng.choice([2, 3, 4])
        L = rng.choice([2, 3, 5, 8, 10, 16])
        rows = [("s%d" % i, "".join(AA[(j + 3 * i * (j // 4 + 1)) % 20] if i else AA[j] for j in range(L))) for i in range(n)]
        seed = rng.randint(0, 2 ** 31 - 1)
        base = [seed, 0, rows_str(rows)]
        K = 3000
        yield Case("rnd", ["support"] + base + ["bootstrap", rng.choice(["1", "1/2", "1/3", "3/4", "9/10"]), K], True, "support-bootstrap")
        yield Case("rnd", ["support"] + base + ["sample", rng.randint(1, n), K], True, "support-sample")
        yield Case("rnd", ["support"] + base + ["window", rng.randint(1, L), K], True, "support-window")
        yield Case("rnd", ["support"] + base + ["columns", rng.randint(1, L), K], True, "support-columns")
        yield Case("rnd", ["support"] + base + ["shuffle", "0", K], True, "support-shuffle")
        # rarefaction: every counted row can be drawn (counts of 1 on the first / last name included)
        cs = [rng.choice([1, 1, 2, 3]) for _ in range(n)]
        if rng.random() < 0.3:
            cs[rng.randrange(n)] = 0
        if sum(cs) > 1:
            # Rarefy refuses nb >= sum of the counts
            yield Case("rnd", ["support"] + base + ["rarefy", "%d:%s" % (rng.randint(1, sum(cs) - 1), ",".join(map(str, cs))), K], True, "support-rarefy")
        if L >= 5:
            for what in ("rogue", "shufflesites", "addgaps", "mutate"):
                yield Case("rnd", ["support"] + base + [what, rng.choice(["1/2", "3/4", "1"]), K], True, "support-" + what)


def shrink(c):
    if c.op != "rnd":
        return
    a = list(c.args)
    rows = [] if a[3] == "_" else [tuple(r.split(":", 1)) for r in a[3].split(",")]
    for i in range(len(rows)):
        r2 = rows[:i] + rows[i + 1:]
        if r2:
            yield Case("rnd", a[:3] + [rows_str(r2)] + a[4:])
    if rows and len(rows[0][1]) > 1:
        L = len(rows[0][1])
        for j in range(L):
            r2 = [(n, s[:j] + s[j + 1:]) for n, s in rows]
            yield Case("rnd", a[:3] + [rows_str(r2)] + a[4:])
