"""C13 — de-duplication and site compression lose nothing but redundancy."""
import itertools
from driver.common import Case

ID = "C13"
NEEDS_BINARY = True
LEAN_MODULES = ["Gv.Props.C13"]
REQUIRED_THEOREMS = ["Gv.Props.C13." + n for n in [
    "patternTable_spec", "additive_statistic_preserved", "dedup_distinct_and_complete",
    # the model of Compress() itself
    "patternTable_mem", "compress_columns", "compress_spec", "compress_additive_statistic",
    # the Go-mirroring model of Deduplicate
    "dedup_model_eq_reference", "firstOccs_mem_iff", "dedup_keeps_first_occurrences_in_order",
    "dedup_groups_partition_names", "dedup_group_led_by_kept", "dedup_idempotent", "lookup_tables_keyed_by_content",
    "dedupKey_spec", "dedupKey_nt_eq_iff", "dedup_sequences_any_names",
    # kernel-checked witnesses that the distinct-names assumption is needed
    "dedup_repeated_names_renamed", "dedup_repeated_names_dropped"]]
LEVEL_TEXT = ("Lean theorems, all inputs: (Compress) the model of Compress() keeps names and row order, gives every row the new "
              "length and one positive weight per new column; the new columns are pairwise distinct, the weights sum to the number of "
              "sites, expanding each new column by its weight is a rearrangement of the original columns, each new column occurs among "
              "the original ones exactly weight times and every original column is a new column (compress_spec), so any column-additive "
              "statistic equals its weighted sum (compress_additive_statistic). (Deduplicate) for every uniquely named container, every "
              "alphabet, duplicate-name policy and nAsGap, the Go-mirroring model (Clear + AddSequence through the name index, "
              "compare-string map, identical slice) returns no error, keeps exactly the rows whose key has no earlier occurrence, in "
              "original order with names and residues untouched (dedup_keeps_first_occurrences_in_order), its groups are a rearrangement "
              "of the names with no empty group (dedup_groups_partition_names), group k starts with the k-th kept row and holds exactly "
              "the names of the rows with that row's key (dedup_group_led_by_kept), and a second pass changes nothing and reports "
              "singletons (dedup_idempotent); for ANY container (names possibly repeated) under the policies NONE / IGNORE_SEQUENCE the kept "
              "sequences are still exactly the first occurrences in order and the groups the reference groups "
              "(dedup_sequences_any_names); the N/X-as-gap key is characterised (dedupKey_spec, dedupKey_nt_eq_iff). Tied to /repo by "
              "bounded-exhaustive + random correspondence; the oracle's expected value is Spec.firstOccs / Spec.groupsOf, the "
              "definitions the theorems are about.")
LEVEL_NOTE = ("Trusted: Lean kernel; harness/oracle/driver; go-radix Walk visiting keys in increasing byte order is an external "
              "assumption validated by the correspondence.")
TECHNIQUE = ("Lean 4 proof (sorted-insertion invariants, multiset counts; loop invariant relating the container/index/map state of "
             "Deduplicate to the reference accumulator, closed form by snoc induction) + bounded-exhaustive differential correspondence")
RULE = ("exhaustive: all alignments of <= 3 rows x <= 4 columns over {A,C,-} (compress) and all 3-row sets over sequences of length 2 "
        "over {A,N,-} (dedup); random larger ones incl. all-identical, all-distinct, single row / column; non-trivial = at least one "
        "repeated and one unique pattern/row")
PARTIAL = ["the name-level de-duplication theorems (kept rows = first occurrences with their names, partition, leaders, idempotence) "
           "assume pairwise distinct names (the container invariant of C01). With a name repeated by a caller's Rename the re-adding "
           "renames kept rows (dedup_repeated_names_renamed; sequences and groups are still right: dedup_sequences_any_names), and "
           "under IGNORE_NAME it drops rows with distinct sequences while still reporting their groups "
           "(dedup_repeated_names_dropped, reproduced on the Go code); the reference model of C01 leaves that case unspecified",
           "Compress: the order of the new columns (increasing byte order, go-radix Walk) is an assumption of the model checked by "
           "correspondence; no theorem depends on it except patternTable_spec's sortedness clause",
           "Compress on the empty alignment sets the length to 0 instead of -1 (outside the quantifier, modelled as is)"]


def rows_str(rows):
    return ",".join("%s:%s" % r for r in rows) if rows else "_"


def _gen_core(rng, tier):
    for n in (1, 2, 3):
        for L in (1, 2, 3, 4):
            allc = list(itertools.product("AC-", repeat=n * L))
            if tier == "quick" and len(allc) > 800:
                allc = rng.sample(allc, 800)
            for cells in allc:
                rows = [("s%d" % i, "".join(cells[i * L:(i + 1) * L])) for i in range(n)]
                cols = ["".join(r[1][j] for r in rows) for j in range(L)]
                yield Case("compress", [1, rows_str(rows)], len(set(cols)) < L and len(set(cols)) > 1, "compress-exhaustive")
    seqs = ["".join(p) for p in itertools.product("AN-X", repeat=2)]
    for trip in itertools.product(seqs, repeat=3):
        rows = [("s%d" % i, trip[i]) for i in range(3)]
        for g in (0, 1):
            for alpha in (0, 1):
                if tier == "quick" and rng.random() < 0.8:
                    continue
                yield Case("dedup", [alpha, rows_str(rows), g], len(set(trip)) == 2, "dedup-exhaustive")
    N = 300 if tier == "quick" else 3000
    for _ in range(N):
        n = rng.randint(1, 7)
        L = rng.randint(1, 10)
        sym = rng.choice(["AC", "ACGT-", "ACGTNX-acgt"])
        pool = ["".join(rng.choice(sym) for _ in range(L)) for _ in range(rng.randint(1, 4))]
        rows = [("s%d" % i, rng.choice(pool)) for i in range(n)]
        yield Case("dedup", [rng.choice([0, 1]), rows_str(rows), rng.randint(0, 1)], True, "dedup")
        cpool = ["".join(rng.choice(sym) for _ in range(n)) for _ in range(rng.randint(1, 4))]
        cols = [rng.choice(cpool) for _ in range(L)]
        rows = [("s%d" % i, "".join(c[i] for c in cols)) for i in range(n)]
        yield Case("compress", [1, rows_str(rows)], True, "compress")


    # sequence sets (rows of different lengths, distinct names): prefixes of one another, N / X runs, the N-as-gap comparison
    for _ in range(150 if tier == "quick" else 1500):
        alpha = rng.choice([0, 1])
        wild = "X" if alpha == 0 else "N"
        sym = ("ARND" if alpha == 0 else "ACGT") + wild + "-"
        base = "".join(rng.choice(sym) for _ in range(rng.randint(2, 9)))
        pool = [base, base[:len(base) // 2], base[:-1], base.replace(wild, "-"), base + wild, base[1:]]
        pool += ["".join(rng.choice(sym) for _ in range(rng.randint(1, 9))) for _ in range(2)]
        pool = [q for q in pool if q]
        rows = [("s%d" % i, rng.choice(pool)) for i in range(rng.randint(2, 8))]
        yield Case("dedupbag", [alpha, rows_str(rows), rng.randint(0, 1)], True, "dedup-sequence-set")

    # dictionary stratum: two DIFFERENT sequences / column patterns that collide under a common 32-bit hash
    from driver import hashpairs
    for h, x, y in hashpairs.all_pairs():
        nuc = not (set(x + y) - set("ACGTN-"))
        extra = "".join(rng.choice("ACGT" if nuc else "ARNDCQEG") for _ in range(len(x)))
        rows = [("s0", x), ("s1", extra), ("s2", y), ("s3", x)]
        rng.shuffle(rows)
        for g in (0, 1):
            yield Case("dedup", [1 if nuc else 0, rows_str(rows), g], True, "dedup-hash-collision-" + h)
        # the same strings as column patterns (one row per character), the colliding patterns repeated
        cols = [x, extra, y, x, y, y]
        rng.shuffle(cols)
        rws = [("s%d" % i, "".join(c[i] for c in cols)) for i in range(len(x))]
        yield Case("compress", [1 if nuc else 0, rows_str(rws)], True, "compress-hash-collision-" + h)

    # large inputs: growth of the internal tables (more than 100 / 1000 distinct sequences or patterns), duplicates that
    # arrive long after their first occurrence
    for _ in range(6 if tier == "quick" else 60):
        nd = rng.choice([90, 101, 130, 150, 260, 520, 1030])
        L = rng.choice([4, 5, 6])
        distinct = set()
        while len(distinct) < nd:
            distinct.add("".join(rng.choice("ACGT-N") for _ in range(L)))
        distinct = sorted(distinct)
        rng.shuffle(distinct)
        rows = [("s%04d" % i, q) for i, q in enumerate(distinct)]
        for k in range(rng.randint(3, 12)):
            rows.append(("d%03d" % k, rng.choice(distinct[:nd] if rng.random() < 0.5 else distinct[:100])))
        if rng.random() < 0.5:
            tail = rows[nd:]
            rng.shuffle(tail)
            rows = rows[:nd] + tail
        yield Case("dedup", [1, rows_str(rows), rng.randint(0, 1)], True, "dedup-large")
        # compress: many distinct patterns, repeated ones far apart
        n = rng.choice([2, 3])
        npat = rng.choice([60, 130, 300])
        pats = set()
        while len(pats) < min(npat, 4 ** n * 2):
            pats.add("".join(rng.choice("ACGT-NRY") for _ in range(n)))
        pats = sorted(pats)
        cols = list(pats) + [rng.choice(pats) for _ in range(rng.randint(5, 40))]
        if rng.random() < 0.5:
            rng.shuffle(cols)
        rows = [("s%d" % i, "".join(c[i] for c in cols)) for i in range(n)]
        yield Case("compress", [1, rows_str(rows)], True, "compress-large")


def shrink(c):
    a = list(c.args)
    rows = [] if a[1] == "_" else [tuple(r.split(":", 1)) for r in a[1].split(",")]
    for i in range(len(rows)):
        r2 = rows[:i] + rows[i + 1:]
        if r2:
            yield Case(c.op, [a[0], rows_str(r2)] + a[2:])
    if rows and len(rows[0][1]) > 1:
        for j in range(len(rows[0][1])):
            yield Case(c.op, [a[0], rows_str([(n, s[:j] + s[j + 1:]) for n, s in rows])] + a[2:])


# ---- command-line glue: a multi-alignment Phylip input must be treated as its alignments one by one (`detmulti`) ----
MULTI_CMDS = [['compress', '--weight-out', 'w.txt'], ['compress'], ['dedup', 'dedup-files'], ['dedup', '-l', 'd.log'], ['dedup', '--n-as-gap'],
              ['dedup', '--name']]
MULTI_CMDS_N = [['dedup', '--n-as-gap'], ['dedup', '--n-as-gap', '-l', 'd.log']]


def gen(rng, tier):
    from driver import multigen
    for c in _gen_core(rng, tier):
        yield c
    from driver import cligen
    for c in cligen.cases(rng, ['dedup', 'dedup-files'], 40 if tier == "quick" else 400):
        yield c
    for _ in range(3 if tier == "quick" else 30):
        for flagname, argv in [('--weight-out', ['compress']), ('-l', ['dedup', 'dedup-files']), ('-o', ['compress']), ('-o', ['dedup', 'dedup-files'])]:
            rows = cligen.alignment(rng)
            yield Case("detgz", [cligen.esc(cligen.fasta(rows)), flagname] + argv, True, "cli-gz-" + argv[0] + flagname)
    for _ in range(2 if tier == "quick" else 20):
        for argv in MULTI_CMDS:
            yield multigen.multi_case(multigen.alignments(rng), argv, "cli-multi-" + "-".join(argv[:2]))
        for argv in MULTI_CMDS_N:      # the flags that concern N need alignments holding N
            yield multigen.multi_case(multigen.alignments(rng, alphabet="ACGTN"), argv, "cli-multi-" + "-".join(argv[:2]) + "-n")

