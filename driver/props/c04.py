"""C04 — site extraction and coordinates address exactly the requested columns."""
from driver.common import Case

ID = "C04"
LEAN_MODULES = ["Gv.Props.C04"]
REQUIRED_THEOREMS = ["Gv.Props.C04." + n for n in [
    "subAlign_ok_iff", "subAlign_never_panics", "subAlign_rows", "subAlign_lengths", "prefix_window_suffix",
    "inverseCoordinates_spec", "selectSites_ok_iff", "selectSites_never_panics", "selectSites_rows",
    "inversePositions_complement", "inversePositions_error_iff", "refCoordinates_window",
    "refCoordinates_error_of_short", "diff_then_replace_id", "addRange_never_panics",
    # reference coordinates: error characterisation, minimality, residues, composition with SubAlign/InverseCoordinates
    "refCoordinates_ok_iff", "refCoordinates_never_panics", "refCoordinates_minimal", "refCoordinates_residues",
    "refCoordinates_then_subAlign",
    # RefSites
    "refSites_ok_iff", "refSites_never_panics", "refSites_spec", "refSites_of_refCoordinates",
    # complementary extractions
    "inverseCoordinates_partition", "inverse_windows_reassemble", "inversePositions_of_window",
    "selectSites_inversePositions_ok",
    # Transpose, Split
    "transpose_spec", "transpose_transpose", "transpose_twice_drops_zero_length_rows",
    "newPartSet_partInv", "addRange_partInv", "split_reinterleave_id", "split_blocks", "split_ok_iff"]]
LEVEL_TEXT = ("Lean theorems about the model of SubAlign / SelectSites / InverseCoordinates / InversePositions / RefCoordinates / "
              "RefSites / Transpose / Diff+Replace / AddRange / Split for all alignments and all integer arguments (success iff "
              "in range, never a panic; addressed columns in addressed order; the reference window is the smallest one and "
              "RefSites of a contiguous request spans it; prefix+window+suffix, transposing twice and re-interleaving the blocks "
              "of a total partition give the alignment back; InversePositions of a window = expansion of InverseCoordinates); tied to /repo by "
              "differential correspondence with every integer argument drawn from {-1,0,1,L-1,L,L+1} and random values, and an "
              "independently stated predicate (addressed columns in addressed order; error, not crash, outside) evaluated on the "
              "implementation's result.")
LEVEL_NOTE = "Trusted: Lean kernel; harness/oracle/driver; hand-written model validated on generated cases; cobra flag parsing of the CLI glue."
TECHNIQUE = "Lean 4 proof (list induction, loop invariants) + differential correspondence incl. boundary arguments"
RULE = ("alignments of 0..5 rows x 0..9 columns with gap runs (leading/trailing/internal); every integer argument from "
        "{-1,0,1,L-1,L,L+1} + random; site lists with repeats in any order; partitions by ranges with modulo (incl. codon "
        "partitions, overlaps, gaps, huge modulo); non-trivial = at least one argument is a boundary value")
NEEDS_BINARY = True
PARTIAL = ["not Lean theorems here (checked by the independent predicate on the implementation and by correspondence): "
           "Concat/Append and TrimSequences (modelled with the container in C01)",
           "Transpose twice: names become site indices, and an alignment without columns (empty, or rows of length 0) comes "
           "back empty (theorem transpose_twice_drops_zero_length_rows); the identity is proved for the residues of every "
           "rectangular alignment with at least one column",
           "Split re-interleaving is proved for tables that are well formed (PartInv: preserved by every AddRange, theorem "
           "addRange_partInv) and total (what CheckSites tests); a partial table is outside the statement",
           "CLI glue: cmd/subseq (--ref-seq, exact bytes; multi-alignment inputs), cmd/subsites and transpose (multi-alignment inputs = alignments one by one), cmd/split --partition and cmd/extract (tab-separated and GFF annotations, several blocks per gene, --ref-seq, reverse strand, --translate, file names; exact bytes of every file written) are exercised on the built binary against the library models"]

NT = "ACGT"


def rows_str(rows):
    return ",".join("%s:%s" % r for r in rows) if rows else "_"


def rand_al(rng, minrows=0):
    n = rng.choice([0, 1, 2, 3, 5]) if minrows == 0 else rng.choice([1, 2, 3, 5])
    L = rng.choice([0, 1, 2, 3, 4, 6, 9])
    rows = []
    for i in range(n):
        s = "".join(rng.choice(NT + "-" * rng.choice([0, 1, 3])) for _ in range(L))
        if L > 2 and rng.random() < 0.3:
            k = rng.randint(1, L - 1)
            s = "-" * k + s[k:]
        if L > 2 and rng.random() < 0.3:
            k = rng.randint(1, L - 1)
            s = s[:L - k] + "-" * k
        rows.append(("s%d" % i, s))
    return rows, n, (L if n > 0 else -1)


def bnd(rng, L):
    return rng.choice([-1, 0, 1, L - 1, L, L + 1, rng.randint(-2, L + 3)])


def ilist(v):
    return ",".join(str(x) for x in v) if v else "_"


def _gen_large(rng, tier):
    """more than 4096 columns / more than 100 rows: windows, site lists and transposition across block and buffer sizes"""
    for _ in range(2 if tier == "quick" else 12):
        if rng.random() < 0.6:
            n, L = rng.randint(1, 3), rng.choice([4097, 4200, 5000])
        else:
            n, L = rng.choice([101, 130]), rng.randint(2, 6)
        rows = [("s%d" % i, "".join(rng.choice("ACGT-") for _ in range(L))) for i in range(n)]
        rs = rows_str(rows)
        st = rng.randint(0, L - 1)
        yield Case("subalign", [rs, st, rng.randint(1, L - st)], True, "subalign-large")
        yield Case("selectsites", [rs, ilist(sorted(rng.sample(range(L), min(L, 6))) + [L - 1, 0])], True, "selectsites-large")
        yield Case("invcoord", [rs, st, rng.randint(1, L - st)], True, "invcoord-large")
        yield Case("diff", [rs], n > 1, "diff-large")
        if L < 100:
            yield Case("transpose", [rs], True, "transpose-large")


def _gen_core(rng, tier):
    N = 300 if tier == "quick" else 3000
    for _ in range(N):
        rows, n, L = rand_al(rng)
        rs = rows_str(rows)
        yield Case("subalign", [rs, bnd(rng, L), bnd(rng, L)], True, "subalign")
        k = rng.randint(0, 5)
        sites = [bnd(rng, L) if rng.random() < 0.3 else rng.randint(0, max(0, L - 1)) for _ in range(k)]
        yield Case("selectsites", [rs, ilist(sites)], any(s in (-1, L, L + 1, L - 1, 0) for s in sites), "selectsites")
        yield Case("invcoord", [rs, bnd(rng, L), bnd(rng, L)], True, "invcoord")
        yield Case("invpos", [rs, ilist(sites)], True, "invpos")
        if rows:
            name = rng.choice([r[0] for r in rows] + ["zz"])
            ungapped = max(len(r[1].replace("-", "")) for r in rows)
            yield Case("refcoord", [rs, name, bnd(rng, ungapped), bnd(rng, ungapped)], True, "refcoord")
            yield Case("refsites", [rs, name, ilist([bnd(rng, ungapped) for _ in range(rng.randint(0, 4))])], True, "refsites")
        yield Case("transpose", [rs], n > 1 and L > 1, "transpose")
        yield Case("diff", [rs], n > 1, "diff")
        r2 = [(nm, "".join(rng.choice(NT + ".") for _ in s)) for nm, s in rows]
        yield Case("replacematch", [rows_str(r2)], n > 1, "replacematch")
        # partitions
        if n > 0 and L > 0:
            kind = rng.random()
            if kind < 0.3:
                m = rng.choice([2, 3])
                rngs = ["p%d:%d:%d:%d" % (i, i, L - 1, m) for i in range(m)]
            elif kind < 0.6:
                cut = rng.randint(0, L - 1)
                rngs = ["a:0:%d:1" % cut, "b:%d:%d:1" % (cut + 1, L - 1)]
            else:
                rngs = ["p%d:%d:%d:%d" % (rng.randint(0, 2), bnd(rng, L), bnd(rng, L),
                                          rng.choice([1, 2, 3, 0, -1, 9223372036854775807, 4611686018427387904]))
                        for _ in range(rng.randint(0, 4))]
            yield Case("split", [rs, ";".join(rngs) if rngs else "_"], True, "split")
    # irregular multi-range partitions covering every site once: each site drawn into one of 2-3 blocks, the blocks
    # written as maximal runs (and, for regular stretches, as start-end\\step ranges); and "almost arithmetic" blocks
    # whose first gap, end points and count fit a progression that the inner sites leave
    for _ in range(30 if tier == "quick" else 300):
        n, L = rng.randint(1, 4), rng.randint(6, 24)
        rows = [("s%d" % i, "".join(rng.choice(NT) for _ in range(L))) for i in range(n)]
        k = rng.choice([2, 3])
        if rng.random() < 0.5 and L >= 10:
            g = rng.choice([2, 3])
            cnt = rng.randint(4, (L - 1) // g + 1) if (L - 1) // g + 1 >= 4 else 4
            first = rng.randint(0, max(0, L - 1 - g * (cnt - 1)))
            prog = [first + g * i for i in range(cnt)]
            if prog[-1] <= L - 1 and cnt >= 4:
                j = rng.randint(2, cnt - 2)
                inner = prog[j] + rng.choice([-1, 1])
                if inner not in prog and 0 <= inner < L:
                    prog[j] = inner
            owner = {x: 0 for x in prog}
            for x in range(L):
                owner.setdefault(x, rng.randint(1, k - 1))
        else:
            owner = {x: rng.randrange(k) for x in range(L)}
        rngs = []
        for b in range(k):
            sites = sorted(x for x in owner if owner[x] == b)
            i = 0
            while i < len(sites):
                # longest arithmetic run starting at i (step 1..3), at least 3 sites for a step > 1
                best = (1, 1)
                for step in (1, 2, 3):
                    m = 1
                    while i + m < len(sites) and sites[i + m] == sites[i] + step * m:
                        m += 1
                    if (step == 1 and m > best[0]) or (step > 1 and m >= 3 and m > best[0]):
                        best = (m, step)
                m, step = best
                rngs.append("p%d:%d:%d:%d" % (b, sites[i], sites[i + m - 1], step))
                i += m
        if rng.random() < 0.5:
            rng.shuffle(rngs)
        yield Case("split", [rows_str(rows), ";".join(rngs)], True, "split-irregular")
    for c in gen_cli(rng, tier):
        yield c
    for c in gen_cli_multi(rng, tier):
        yield c


def gen_cli(rng, tier):
    N = 40 if tier == "quick" else 300
    for _ in range(N):
        rows, n, L = rand_al(rng, minrows=1)
        if L < 1:
            continue
        name = rng.choice([r[0] for r in rows] + ["zz"])
        ung = max(len(r[1].replace("-", "")) for r in rows)
        stdin = "".join(">%s|%s|" % r for r in rows)
        argv = ["subseq", "--ref-seq", name, "-s", str(bnd(rng, ung)), "-l", str(bnd(rng, ung))]
        if rng.random() < 0.3:
            argv.append("-r")
        yield Case("cli_subseq", [stdin] + argv, True, "cli-subseq-refseq")


def gen_cli_multi(rng, tier):
    """several alignments in one Phylip input (a documented feature of subseq)"""
    N = 40 if tier == "quick" else 300
    for _ in range(N):
        k = rng.randint(2, 3)
        n = rng.randint(1, 3)
        names = ["ref"] + ["s%d" % i for i in range(1, n)]
        blocks = []
        minres = 99
        for _a in range(k):
            L = rng.randint(3, 9)
            rows = []
            for nm in names:
                s = "".join(rng.choice("ACGT" + "-" * rng.choice([0, 2, 4])) for _ in range(L))
                if nm == "ref" and s.replace("-", "") == "":
                    s = "A" + s[1:]
                rows.append((nm, s))
            minres = min(minres, len(rows[0][1].replace("-", "")))
            blocks.append(" %d %d|" % (len(rows), L) + "".join("%s  %s|" % r for r in rows))
        st = rng.choice([0, 0, 1, max(0, minres - 1)])
        ln = rng.choice([1, 2, max(1, minres - st), minres + 1])
        yield Case("cli_subseq_multi", ["".join(blocks), "subseq", "-p", "--ref-seq", "ref", "-s", str(st), "-l", str(ln)],
                   True, "cli-subseq-refseq-multi")


def shrink(c):
    if c.op.startswith("cli") or c.op == "detannot":
        return
    a = list(c.args)
    rows = [] if a[0] == "_" else [tuple(r.split(":", 1)) for r in a[0].split(",")]
    for i in range(len(rows)):
        r2 = rows[:i] + rows[i + 1:]
        if r2:
            yield Case(c.op, [rows_str(r2)] + a[1:])


# ---- command-line glue: a multi-alignment Phylip input must be treated as its alignments one by one (`detmulti`) ----
MULTI_CMDS = [['subseq', '-s', '1', '-l', '2'], ['subseq', '--ref-seq', 'ref', '-s', '0', '-l', '2'], ['subseq', '-s', '1', '-l', '2', '-r'], ['subseq', '--ref-seq', 'ref', '-s', '1', '-l', '1', '-r'], ['subsites', '0', '2'], ['subsites', '--ref-seq', 'ref', '0', '1'], ['subsites', '-r', '0', '2'], ['subsites', '--ref-seq', 'ref', '-r', '0', '1'], ['transpose']]


def gen(rng, tier):
    for c in _gen_large(rng, tier):
        yield c
    from driver import multigen
    for c in _gen_core(rng, tier):
        yield c
    from driver import cligen
    for c in cligen.cases(rng, ['sites', 'subsites', 'split', 'extract'], 40 if tier == "quick" else 400):
        yield c
    for _ in range(2 if tier == "quick" else 20):
        for argv in MULTI_CMDS:
            yield multigen.multi_case(multigen.alignments(rng), argv, "cli-multi-" + "-".join(argv[:2]))
    # `extract`: the annotation file compressed (`.gz`) or given on the standard input (alignment from `-i`) = the plain file
    # (what the plain run must print is decided by the `cli_libf` cases above)
    for c in cligen.cases(rng, ['extract'], 25 if tier == "quick" else 250):
        a = [str(x) for x in c.args]
        if a[1].startswith("ann.txt=") and "ann.txt" in a[3:]:
            yield Case("detannot", [a[0], a[1][len("ann.txt="):] or "_"] + [("@ANN@" if x == "ann.txt" else x) for x in a[2:]], True,
                       c.tag.replace("cli-extract", "cli-extract-annotation-gz-stdin"))
