"""C11 — the command line is reproducible: same input, flags and seed, same bytes."""
from driver.common import Case

ID = "C11"
NEEDS_BINARY = True
TIMEOUT = 5.0
LEAN_MODULES = ["Gv.Props.C11"]
REQUIRED_THEOREMS = ["Gv.Props.C11." + n for n in [
    "every_source_of_nondeterminism_is_accounted_for", "single_seeding_point", "seed_flag_decides",
    "matrix_independent_of_threads", "inInputOrder_arrival_independent", "runGen_bind", "runGen_replM_map",
    "distboot_eq_seqboot_then_dist", "chain_roundtrip", "chain_fasta_nexus", "chain_all_formats",
    "chain_to_format", "chain_all_formats_stockholm", "chain_from_stockholm"]]
LEVEL_TEXT = ("Lean theorems: (1) over the determinism facts regenerated with the Go type checker on every run (every map range, "
              "goroutine, clock / pid read and seeding call of the non-test code) — each is of a shape that cannot reach the output; "
              "(2) with --seed the clock is irrelevant; (3) pool results are independent of worker count and schedule, results put back "
              "in input order are independent of arrival order; (4) distboot = distance of seqboot for every seed; (5) any chain of "
              "formats that round-trip returns the starting bytes (chain_all_formats: instantiated for FASTA, Nexus, Phylip with all 8 writer "
              "layouts and Clustal from the C02 round-trip theorems; chain_all_formats_stockholm: the same with Stockholm at any position; "
              "chain_to_format / chain_from_stockholm: a chain that ends in ANY writer returns what that writer gives directly - what the "
              "command line can do with Stockholm, which it reads with -k and writes only from a Stockholm input). Tied to /repo "
              "by T3 (regenerated facts), by exact replay of seeded commands on the binary (`cli_seeded`: the bytes predicted from the "
              "C10 programs on the math/rand replica) and by running every documented command of the freshly built binary several "
              "times with thread counts 1..16 and comparing stdout, stderr, exit status and every file written.")
LEVEL_NOTE = ("Trusted: Lean kernel; tools/detscan (go/packages type check + a syntactic classification of loop bodies; the reviewed "
              "list of goroutines is part of Props/C11); the math/rand replica; the driver that runs and compares the binary. "
              "The time stamp that Go's standard logger prints in front of warnings on stderr is removed before comparing "
              "(it is the wall clock, not output of the command).")
TECHNIQUE = ("Lean 4 proof (facts over type-checked source scan, free monad over random draws, pool transition system, format "
             "chain) + exact replay of seeded commands + repeated executions of the built binary")
RULE = ("every documented goalign command with representative flags, on random nucleotide / protein alignments (2-12 rows x 6-90 "
        "columns, gaps, ambiguity codes, ties in columns) or unaligned ORF-bearing sequences, with side files where needed; each "
        "invocation executed 3 (quick) or 5 (thorough) times with --threads from {1,2,3,4,8,16}, comparing exit status, stdout, stderr "
        "and all files written; seeded commands with random seeds; reformat chains over random permutations of fasta / phylip / nexus "
        "/ clustal; Stockholm files (written by a -k command from a hand-written one, checked against the writer model) through 0-4 "
        "-k commands and a reformat chain of 0-5 formats, the last one possibly paml / tnt, against the direct reformat; seqboot + compute distance against distboot for 5 models; cli_seeded: exact predicted bytes. Non-trivial = the "
        "command succeeded and wrote at least 20 bytes (or it is an error-path case with at least two invalid arguments)")
PARTIAL = ["the bytes of each individual command are not modelled here (C01-C10, C12-C16 model the operations; exceptions: the seeded commands "
           "of `cli_seeded`, `reformat paml` (writer model Model/Fmt/Paml.lean, also compared with the library writer by the C02 `write paml` "
           "cases; no theorem: a write-only format), and `divide` / `identical`, whose files / answer are predicted from the Phylip parser model, the writers and the "
           "model of Identical in Model/Identical.lean - characterised by the C01 theorems identical_iff_same_records / identicalRows_spec and "
           "compared with the library by the C01 harness op `identical`); C11's theorems are about "
           "the sources of nondeterminism, seeding, thread independence of the pool / ordered collection, distboot = seqboot + distance, "
           "and format chains",
           "chain theorem instantiated for FASTA, Nexus, Phylip (8 layouts) and Clustal (chain_all_formats, under the hypotheses of "
           "the C02 round-trip theorems: representable in every format used, counts within int64, version text without line break); "
           "Stockholm is not a `reformat` target: it is read with -k and written only by commands that print a Stockholm input back, so "
           "the run-time Stockholm chains (`detchainsto`) start from a Stockholm file written by goalign, go through -k commands that must "
           "return it byte for byte, then through a reformat chain whose result must be the bytes of the direct `reformat <last> -k` "
           "(chain_from_stockholm); chain_all_formats_stockholm also covers chains that would come back to Stockholm, which no command "
           "can realise",
           "the Go runtime (map iteration order, scheduler) is outside the model: the facts say no map order / schedule can reach "
           "the output, the repeated runs look for a counterexample",
           "draw png / biojs and `completion` are not exercised"]

NT = "ACGT"
AA = "ARNDCQEGHILKMFPSTWYV"
THREADS = [1, 2, 3, 4, 8, 16]


def esc(s):
    return s.replace("\n", "|").replace("\t", "~")


def fasta(rows):
    return "".join(">%s\n%s\n" % r for r in rows)


def nt_alignment(rng, nmin=2, nmax=12, lmin=6, lmax=90, plain=False):
    n = rng.randint(nmin, nmax)
    L = rng.randint(lmin, lmax)
    base = [rng.choice(NT) for _ in range(L)]
    rows = []
    for i in range(n):
        s = []
        for b in base:
            r = rng.random()
            if r < 0.15:
                s.append(rng.choice(NT))
            elif r < 0.22 and not plain:
                s.append("-")
            elif r < 0.25 and not plain:
                s.append(rng.choice("NRYacgt"))
            else:
                s.append(b)
        rows.append(("s%d" % i, "".join(s)))
    return rows


def aa_alignment(rng):
    n = rng.randint(2, 10)
    L = rng.randint(6, 60)
    base = [rng.choice(AA) for _ in range(L)]
    rows = []
    for i in range(n):
        s = [rng.choice(AA) if rng.random() < 0.2 else ("-" if rng.random() < 0.08 else b) for b in base]
        rows.append(("p%d" % i, "".join(s)))
    return rows


def orf_seqs(rng, n=None):
    codons = ["GCT", "GAA", "AAA", "CTG", "GGT", "TCA", "CCG", "ACC", "GTT", "TAC", "GAT", "CAG"]
    orf = "ATG" + "".join(rng.choice(codons) for _ in range(rng.randint(15, 40))) + "TAA"
    n = n or rng.randint(6, 40)
    rows = []
    for i in range(n):
        s = [rng.choice(NT) if (rng.random() < 0.04 and j > 3) else c for j, c in enumerate(orf)]
        pre = "".join(rng.choice(NT) for _ in range(rng.randint(0, 20)))
        post = "".join(rng.choice(NT) for _ in range(rng.randint(0, 20)))
        rows.append(("q%d" % i, pre + "".join(s) + post))
    return rows, orf


def det(stdin, argv, rng, tag, files=None, nruns=3, nontrivial=True):
    th = [1] + [rng.choice(THREADS) for _ in range(nruns - 1)]
    if 1 < nruns and all(t == 1 for t in th):
        th[-1] = 8
    fs = "_" if not files else ";;".join("%s=%s" % (k, esc(v)) for k, v in files.items())
    return Case("det", [esc(stdin) if stdin else "_", ",".join(map(str, th)), fs] + [str(a) for a in argv], nontrivial, tag)


def commands(rng, rows, aa_rows, seqs, orf):
    """(tag, stdin, argv, files) for every documented command"""
    n = len(rows)
    L = len(rows[0][1])
    names = [r[0] for r in rows]
    fa = fasta(rows)
    faa = fasta(aa_rows)
    fsq = fasta(seqs)
    seed = str(rng.randint(0, 2 ** 31 - 1))
    some = rng.sample(names, max(1, n // 2))
    out = []
    A = out.append
    # --- no randomness -------------------------------------------------------------------------------
    A(("addid", fa, ["addid", "-n", "X_"], None))
    A(("addid-right", fa, ["addid", "-n", "_X", "-r"], None))
    A(("append", fa, ["append", "other.fa"], {"other.fa": fasta([("t%d" % i, s) for i, (_, s) in enumerate(rows)])}))
    A(("clean-sites", fa, ["clean", "sites", "-c", rng.choice(["0", "0.2", "0.5", "1"])], None))
    A(("clean-sites-maj", fa, ["clean", "sites", "--char", "MAJ", "-c", "0.6"], None))
    A(("clean-sites-pos", fa, ["clean", "sites", "-c", "0.1", "--positions", "kept.txt", "--positions-rm", "rm.txt"], None))
    A(("clean-seqs", fa, ["clean", "seqs", "-c", rng.choice(["0", "0.1", "0.3"])], None))
    A(("codonalign", faa, ["codonalign", "-f", "nt.fa"],
       {"nt.fa": fasta([(nm, "".join(rng.choice(["GCT", "GAA", "AAA", "CTG"]) for c in s if c != "-")) for nm, s in aa_rows])}))
    A(("compress", fa, ["compress", "--weight-out", "w.txt"], None))
    A(("concat", fa, ["concat", "other.fa"], {"other.fa": fa}))
    A(("concat-log", fa, ["concat", "other.fa", "-l", "log.txt"], {"other.fa": fasta(rows[::-1])}))
    A(("consensus", fa, ["consensus"], None))
    A(("consensus-ign", fa, ["consensus", "--ignore-gaps", "--ignore-n"], None))
    A(("dedup", fasta(rows + [("dup", rows[0][1])]), ["dedup", "-l", "dedup.log"], None))
    A(("diff", fa, ["diff"], None))
    A(("diff-counts", fa, ["diff", "--counts"], None))
    A(("divide", " 2 4\na  ACGT\nb  ACGA\n 2 4\na  TTGT\nb  ACGA\n", ["divide", "-p", "-o", "div"], None))
    A(("extract", fa, ["extract", "--ref-seq", names[0], "--coordinates", "c.txt", "-o", "."],
       {"c.txt": "0\t3\tg1\n2\t5\tg2\n1\t4\tg0\n"}))
    A(("identical", fa, ["identical", "-c", "other.fa"], {"other.fa": fa}))
    A(("mask", fa, ["mask", "-s", "1", "-l", "4"], None))
    A(("mask-maj", fa, ["mask", "-s", "0", "-l", str(L), "--replace", "MAJ"], None))
    A(("mask-unique", fa, ["mask", "--unique", "--at-most", "1"], None))
    A(("orf", fsq, ["orf"], None))
    A(("orf-reverse", fsq, ["orf", "--reverse"], None))
    A(("phase", fsq, ["phase", "--unaligned", "-l", "phase.log", "--aa-output", "aa.fa"], None))
    A(("phase-ref", fsq, ["phase", "--unaligned", "--ref-orf", "orf.fa", "--reverse", "--cut-end"], {"orf.fa": ">orf\n%s\n" % orf}))
    A(("phasent", fsq, ["phasent", "--unaligned", "-l", "phase.log", "--aa-output", "aa.fa", "--nt-output", "nt.fa"], None))
    for f in ("fasta", "phylip", "nexus", "clustal", "paml", "tnt"):
        A(("reformat-" + f, fa, ["reformat", f], None))
    A(("reformat-phylip-strict", fa, ["reformat", "phylip", "--output-strict"], None))
    A(("reformat-phylip-oneline", fa, ["reformat", "phylip", "--one-line"], None))
    A(("reformat-clean-names", fasta([("a b(%d)" % i, s) for i, (_, s) in enumerate(rows)]), ["reformat", "fasta", "--clean-names"], None))
    A(("rename-map", fa, ["rename", "-m", "map.txt"], {"map.txt": "".join("%s\tN%s\n" % (x, x) for x in names)}))
    A(("rename-regexp", fa, ["rename", "-e", "s([0-9]+)", "-b", "x$1"], None))
    A(("replace", fa, ["replace", "-s", "A", "-n", "T"], None))
    A(("replace-regexp", fa, ["replace", "-e", "-s", "A.G", "-n", "NNN"], None))
    A(("revcomp", fa, ["revcomp"], None))
    A(("sort", fasta(rows[::-1]), ["sort"], None))
    A(("split", fa, ["split", "--partition", "part.txt", "-o", "sp"],
       {"part.txt": "M1,p1=1-%d\nM2,p2=%d-%d\n" % (L // 2, L // 2 + 1, L)}))
    A(("stats", fa, ["stats"], None))
    A(("stats-perseq", fa, ["stats", "--per-sequences"], None))
    A(("stats-mutations", fa, ["stats", "mutations", "--ref-sequence", names[0]], None))
    for sub in ("alleles", "alphabet", "char", "gaps", "length", "maxchar", "nalign", "nseq", "taxa"):
        A(("stats-" + sub, fa, ["stats", sub], None))
    A(("stats-char-persites", fa, ["stats", "char", "--per-sites"], None))
    A(("stats-mutations-list", fa, ["stats", "mutations", "list", "--ref-sequence", names[0]], None))
    A(("stats-mutations-list-aa", fa, ["stats", "mutations", "list", "--aa", "--ref-sequence", names[0]], None))
    A(("stats-mutations-unique", fa, ["stats", "mutations", "--unique"], None))
    A(("stats-perseq-ref", fa, ["stats", "--per-sequences", "--ref-sequence", names[-1]], None))
    A(("stats-gaps-unique", fa, ["stats", "gaps", "--unique"], None))
    A(("stats-maxchar-ign", fa, ["stats", "maxchar", "--ignore-gaps", "--ignore-n"], None))
    A(("subseq", fa, ["subseq", "-s", "1", "-l", str(max(1, L // 2))], None))
    A(("subseq-step", fa, ["subseq", "-s", "0", "-l", "3", "--step", "2"], None))
    A(("subset", fa, ["subset"] + some, None))
    A(("subset-revert", fa, ["subset", "-r"] + some, None))
    A(("subset-regexp", fa, ["subset", "-e", "s[0-3]$", "s1.*"], None))
    A(("subset-indices", fa, ["subset", "--indices", "0", str(n - 1)], None))
    A(("subset-bad-indices", fa, ["subset", "--indices", "x", "y", "z", "w"], None))
    A(("subset-bad-regexps", fa, ["subset", "-e", "(", "[", "*a", ")"], None))
    A(("subsites", fa, ["subsites", "0", "2", str(L - 1)], None))
    A(("subsites-informative", fa, ["subsites", "--informative"], None))
    A(("sw", fasta(seqs[:2]), ["sw", "-l", "sw.log"], None))
    A(("tolower", fa, ["tolower"], None))
    A(("toupper", fa, ["toupper"], None))
    A(("translate", fa, ["translate"], None))
    A(("translate-3phases", fa, ["translate", "--phase", "-1"], None))
    A(("transpose", fa, ["transpose"], None))
    A(("trim-name", fa, ["trim", "name", "-n", "4", "-m", "map.txt"], None))
    A(("trim-name-auto", fa, ["trim", "name", "-a", "-m", "map.txt"], None))
    A(("trim-seq", fa, ["trim", "seq", "-n", "2", "-s"], None))
    A(("unalign", fa, ["unalign"], None))
    A(("compute-entropy", fa, ["compute", "entropy"], None))
    A(("compute-entropy-avg", fa, ["compute", "entropy", "-a", "-g"], None))
    A(("compute-pssm", fa, ["compute", "pssm", "-n", str(rng.randint(0, 4)), "-c", "0.1"], None))
    A(("compute-pssm-log", fa, ["compute", "pssm", "-l", "-n", "1", "-c", "0.5"], None))
    for m in ("pdist", "rawdist", "jc", "k2p", "f81", "f84", "tn93"):
        A(("compute-distance-" + m, fa, ["compute", "distance", "-m", m], None))
    A(("compute-distance-avg", fa, ["compute", "distance", "-m", "k2p", "-a"], None))
    A(("compute-distance-gamma", fa, ["compute", "distance", "-m", "jc", "--alpha", "0.5", "-r"], None))
    A(("compute-distance-ranges", fa, ["compute", "distance", "-m", "pdist", "--range1", "0:%d" % (n // 2), "--range2", "%d:%d" % (n // 2, n - 1)], None))
    A(("compute-distance-aa", faa, ["compute", "distance", "-m", rng.choice(["lg", "wag", "jtt", "dayhoff"])], None))
    A(("version", "", ["version"], None))
    # --- seeded ----------------------------------------------------------------------------------------
    sd = ["--seed", seed]
    A(("random", "", ["random", "-n", "7", "-l", "40"] + sd, None))
    A(("random-aa", "", ["random", "-a", "-n", "5", "-l", "30"] + sd, None))
    A(("shuffle-seqs", fa, ["shuffle", "seqs"] + sd, None))
    A(("shuffle-sites", fa, ["shuffle", "sites", "-r", "0.5"] + sd, None))
    A(("shuffle-sites-rogue", fa, ["shuffle", "sites", "-r", "0.5", "--rogue", "0.3", "--rogue-file", "rogues.txt"] + sd, None))
    A(("shuffle-sites-stable", fa, ["shuffle", "sites", "-r", "0.5", "--rogue", "0.3", "--stable-rogues", "--rogue-file", "rogues.txt"] + sd, None))
    A(("shuffle-rogue", fa, ["shuffle", "rogue", "-l", "0.5", "-n", "0.5", "--rogue-file", "rogues.txt"] + sd, None))
    A(("shuffle-recomb", fa, ["shuffle", "recomb", "-l", "0.4", "-n", "0.4"] + sd, None))
    A(("shuffle-recomb-swap", fa, ["shuffle", "recomb", "-l", "0.4", "-n", "0.4", "--swap"] + sd, None))
    A(("shuffle-swap", fa, ["shuffle", "swap", "-r", "0.5"] + sd, None))
    A(("sample-seqs", fa, ["sample", "seqs", "-n", str(max(1, n // 2)), "-s", "3"] + sd, None))
    A(("sample-sites", fa, ["sample", "sites", "-l", str(max(1, L // 3)), "-n", "3", "-o", "smp"] + sd, None))
    A(("sample-sites-scattered", fa, ["sample", "sites", "-l", str(max(1, L // 3)), "--consecutive=false"] + sd, None))
    A(("sample-rarefy", fa, ["sample", "rarefy", "-n", str(max(1, n - 1)), "-c", "counts.txt", "-r", "2"] + sd,
       {"counts.txt": "".join("%s\t%d\n" % (x, rng.randint(1, 4)) for x in names)}))
    A(("sample-rarefy-bad", fa, ["sample", "rarefy", "-n", "1", "-c", "counts.txt"] + sd,
       {"counts.txt": "".join("%s\t%d\n" % (x, 0) for x in names) + "nope1\t2\nnope2\t3\n"}))
    A(("mutate-snvs", fa, ["mutate", "snvs", "-r", "0.2"] + sd, None))
    A(("mutate-gaps", fa, ["mutate", "gaps", "-r", "0.2", "-n", "0.5"] + sd, None))
    A(("build-seqboot", fa, ["build", "seqboot", "-n", "3", "-o", "boot"] + sd, None))
    A(("build-seqboot-shuf", fa, ["build", "seqboot", "-n", "3", "-S", "-f", "0.7", "-o", "boot"] + sd, None))
    A(("build-seqboot-tar", fa, ["build", "seqboot", "-n", "3", "--tar", "-o", "boot"] + sd, None))
    A(("build-seqboot-targz", fa, ["build", "seqboot", "-n", "3", "--tar", "--gz", "-o", "boot"] + sd, None))
    A(("build-seqboot-gz", fa, ["build", "seqboot", "-n", "2", "--gz", "-o", "boot"] + sd, None))
    A(("build-seqboot-partition", fa, ["build", "seqboot", "-n", "2", "-o", "boot", "--partition", "part.txt", "--out-partition", "outp.txt"] + sd,
       {"part.txt": "M1,p1=1-%d\nM2,p2=%d-%d\n" % (L // 2, L // 2 + 1, L)}))
    A(("build-distboot", fa, ["build", "distboot", "-n", "3", "-m", rng.choice(["k2p", "jc", "pdist", "f81", "tn93"])] + sd, None))
    A(("build-weightboot", fa, ["build", "weightboot", "-n", "3"] + sd, None))
    return out


def gen_seeded(rng, tier):
    N = 30 if tier == "quick" else 300
    for _ in range(N):
        rows = nt_alignment(rng, 2, 7, 3, 40, plain=True)
        n, L = len(rows), len(rows[0][1])
        st = esc(fasta(rows))
        s = str(rng.choice([rng.randint(0, 2 ** 31 - 1), rng.randint(0, 2 ** 31 - 1), 0, 1, 2 ** 40 + 3]))
        yield Case("cli_seeded", [st, "shuffle", "seqs", "--seed", s], n >= 2, "seeded-shuffle-seqs")
        yield Case("cli_seeded", [st, "sample", "seqs", "-n", str(rng.choice([1, max(1, n // 2), n, n + 1])), "-s", str(rng.randint(1, 3)), "--seed", s],
                   n >= 2, "seeded-sample-seqs")
        yield Case("cli_seeded", [st, "sample", "sites", "-l", str(rng.choice([1, max(1, L // 2), L, L + 1])), "--seed", s], L >= 2, "seeded-sample-sites")
        yield Case("cli_seeded", [st, "sample", "sites", "-l", str(rng.choice([1, max(1, L // 2), L])), "--consecutive=false", "--seed", s],
                   L >= 2, "seeded-sample-sites-scattered")
        yield Case("cli_seeded", [st, "mutate", "snvs", "-r", rng.choice(["0.25", "0.5", "0.1", "0.75", "1", "0"]), "--seed", s], True, "seeded-mutate-snvs")
        # --- commands given as `cmd sub <flags>`: flags in random order, each present or left to its default -------------
        frac = lambda: rng.choice(["0", "0.1", "0.25", "0.3", "0.5", "0.6", "0.75", "0.9", "1"] * 3 + ["1.5", "-0.5"])   # noqa: E731

        def flags(*opts):
            """opts: (names, value or None for a switch, probability of being present)"""
            fl = [[rng.choice(names)] + ([] if v is None else [v]) for names, v, p in opts if rng.random() < p]
            fl.append(["--seed", s])
            rng.shuffle(fl)
            return [x for f in fl for x in f]
        yield Case("cli_seeded", [st, "shuffle", "sites"] + flags((["-r", "--rate"], frac(), 0.8), (["--rogue"], frac(), 0.6), (["--stable-rogues"], None, 0.4),
                                                                  (["--rogue-file"], rng.choice(["none", "stdout", "-"]), 0.3)),
                   n >= 2, "seeded-shuffle-sites")
        yield Case("cli_seeded", [st, "shuffle", "swap"] + flags((["-r", "--rate"], rng.choice(["0", "0.3", "0.5", "0.6", "0.75", "0.9", "1", "1", "1", "1.5", "-0.5"]), 0.8), (["--pos"], rng.choice(["0", "0.25", "0.5", "0.7", "1", "-1", "2"]), 0.4)),
                   n >= 2, "seeded-shuffle-swap")
        yield Case("cli_seeded", [st, "shuffle", "recomb"] + flags((["-n", "--prop-seq"], rng.choice(["0", "0.1", "0.25", "0.3", "0.4", "0.5", "0.5", "0.6", "-0.5"]), 0.7),
                                                                   (["-l", "--prop-length"], frac(), 0.7), (["--swap"], None, 0.5)),
                   n >= 2, "seeded-shuffle-recomb")
        yield Case("cli_seeded", [st, "shuffle", "rogue"] + flags((["-n", "--prop-seq"], frac(), 0.7), (["-l", "--length"], frac(), 0.7),
                                                                  (["--rogue-file"], rng.choice(["none", "stdout", "-"]), 0.3)),
                   n >= 2, "seeded-shuffle-rogue")
        yield Case("cli_seeded", [st, "mutate", "gaps"] + flags((["-r", "--rate"], frac(), 0.7), (["-n", "--prop-seq"], frac(), 0.7)), True, "seeded-mutate-gaps")
        # the same for the sampling commands and `random` (which reads nothing): every flag present or left to its default
        yield Case("cli_seeded", [st, "sample", "seqs"] + flags((["-n", "--nb-seq"], str(rng.choice([1, 1, 2, max(1, n // 2), n, n, n + 1, 0])), 0.8),
                                                                (["-s", "--nb-samples"], str(rng.choice([0, 1, 2, 3])), 0.6), (["-o", "--output"], rng.choice(["stdout", "-"]), 0.2)),
                   n >= 2, "seeded-sample-seqs-flags")
        yield Case("cli_seeded", [st, "sample", "sites"] + flags((["-l", "--length"], str(rng.choice([1, 2, max(1, L // 2), max(1, L - 1), L, L + 1, 0])), 0.85),
                                                                 (["--consecutive=false", "--consecutive=false", "--consecutive=true", "--consecutive"], None, 0.6),
                                                                 (["-n", "--nsamples"], str(rng.choice([1, 1, 0])), 0.3), (["-o", "--output"], rng.choice(["stdout", "-"]), 0.2)),
                   L >= 2, "seeded-sample-sites-flags")
        yield Case("cli_seeded", [st, "shuffle", "seqs"] + flags(), n >= 2, "seeded-shuffle-seqs-flags")
        yield Case("cli_seeded", ["_", "random"] + flags((["-l", "--length"], str(rng.choice([1, 3, 10, 79, 80, 81, 161])), 0.7), (["-n", "--nb-seqs"], str(rng.randint(1, 12)), 0.7),
                                                         (["-a", "--amino-acids"], None, 0.4), (["-o", "--out-align"], rng.choice(["stdout", "-"]), 0.2)),
                   True, "seeded-random")
        yield Case("cli_libf", [st, "_", "sample", "sites"] + flags((["-l", "--length"], str(rng.choice([1, 2, max(1, L // 2), L, L + 1])), 0.9),
                                                                      (["--consecutive=false", "--consecutive=true"], None, 0.5),
                                                                      (["-n", "--nsamples"], str(rng.randint(2, 4)), 1.0), (["-o", "--output"], rng.choice(["smp", "sub_1"]), 0.7)),
                   L >= 2, "seeded-sample-sites-files")
        # --- seeded commands with side files (`cli_libf`: the driver places / collects the files) --------------------------
        names = [r[0] for r in rows]
        counted = rng.sample(names, rng.randint(1, n))
        rng.shuffle(counted)
        cnt = [(x, rng.randint(1, 4)) for x in counted]
        kind = rng.random()
        if kind < 0.08:
            cnt[rng.randrange(len(cnt))] = (cnt[0][0], rng.choice([0, -1]))
        elif kind < 0.16:
            cnt.append(("nope", 2))
        elif kind < 0.24:
            cnt.append((cnt[0][0], rng.randint(1, 5)))       # the same name twice: the later line counts
        elif kind < 0.27:
            cnt = []
        total = sum(v for _, v in cnt)
        cfile = "counts.txt=" + "".join("%s~%d|" % kv for kv in cnt)
        yield Case("cli_libf", [st, cfile, "sample", "rarefy"] + flags((["-n", "--nb-seq"], str(rng.choice([0, 1, max(1, total // 3), max(1, total // 2), max(1, total - 1), max(1, total - 1), max(0, total), rng.choice([1, -1])])), 0.9),
                                                                       (["-c", "--counts"], "counts.txt", 1.0), (["-r", "--replicates"], str(rng.choice([0, 1, 2, 2, 3, 3])), 0.6)),
                   True, "seeded-sample-rarefy")
        yield Case("cli_libf", [st, "_", "build", "seqboot"] + flags((["-n", "--nboot"], str(rng.randint(0, 3)), 0.8), (["-f", "--frac"], rng.choice(["0.25", "0.5", "0.75", "1", "0.3", "0", "1.5"]), 0.5),
                                                                     (["-o", "--out-prefix"], rng.choice(["boot", "b_"]), 0.95), (["-S", "--shuf-order"], None, 0.4)),
                   True, "seeded-build-seqboot")


def gen(rng, tier):
    quick = tier == "quick"
    nruns = 3 if quick else 5
    rounds = 2 if quick else 12
    for _ in range(rounds):
        rows = nt_alignment(rng)
        aa = aa_alignment(rng)
        seqs, orf = orf_seqs(rng)
        for tag, stdin, argv, files in commands(rng, rows, aa, seqs, orf):
            yield det(stdin, argv, rng, tag, files, nruns)
    # --- phase with many sequences and many threads (order of delivery) ------------------------------
    for _ in range(2 if quick else 10):
        seqs, orf = orf_seqs(rng, n=rng.randint(40, 90))
        yield det(fasta(seqs), ["phase", "--unaligned", "-l", "phase.log"], rng, "phase-many", None, nruns + 1)
        yield det(fasta(seqs), ["phasent", "--unaligned", "-l", "phase.log"], rng, "phasent-many", None, nruns)
    # --- distances with many pairs and several workers: related rows (defined distances of different sizes) next to
    # unrelated rows (saturated pairs, replaced by a value computed from the whole matrix) ----------------------------
    for _ in range(3 if quick else 20):
        n = rng.randint(20, 44)
        L = rng.randint(40, 80)
        base = [rng.choice("ACGT") for _ in range(L)]
        rows = []
        for i in range(n - 3):
            q = list(base)
            for j in rng.sample(range(L), rng.randint(0, L // 3)):
                q[j] = rng.choice("ACGT")
            rows.append(("r%02d" % i, "".join(q)))
        comp = {"A": "C", "C": "G", "G": "T", "T": "A"}
        far = [comp[c] for c in base]
        rows.append(("z0", "".join(far)))
        rows.append(("z1", "".join(comp[c] for c in far)))
        rows.append(("z2", "".join(rng.choice("ACGT") for _ in range(L))))
        rng.shuffle(rows)
        for m in rng.sample(["jc", "k2p", "f81", "f84", "tn93"], 2):
            yield det(fasta(rows), ["compute", "distance", "-m", m], rng, "distance-saturated-pairs-" + m, None, nruns + 3)
        yield det(fasta(rows), ["build", "distboot", "-m", "jc", "-n", "3", "--seed", str(rng.randint(0, 10 ** 6)), "-o", "boot.txt"],
                  rng, "distboot-saturated-pairs", None, nruns + 1)
    # --- ties: majority / consensus over columns with ties, repeated ----------------------------------
    for _ in range(6 if quick else 60):
        n = rng.choice([2, 4, 6])
        L = rng.randint(4, 30)
        cols = []
        for _j in range(L):
            a, b = rng.sample("ACGT-N", 2)
            col = [a] * (n // 2) + [b] * (n // 2)
            rng.shuffle(col)
            cols.append(col)
        rows = [("s%d" % i, "".join(cols[j][i] for j in range(L))) for i in range(n)]
        for argv in (["consensus"], ["stats", "maxchar"], ["clean", "sites", "--char", "MAJ", "-c", "0.4"], ["mask", "-s", "0", "-l", str(L), "--replace", "MAJ"],
                     ["compute", "pssm", "-n", "1"], ["compute", "entropy"], ["stats", "char", "--per-sites"]):
            yield det(fasta(rows), argv, rng, "ties-" + "-".join(argv[:2]), None, nruns + 2)
    # --- reformat chains ------------------------------------------------------------------------------
    fmts = ["fasta", "phylip", "nexus", "clustal"]
    for _ in range(12 if quick else 150):
        rows = nt_alignment(rng, 2, 8, 3, 130) if rng.random() < 0.7 else aa_alignment(rng)
        if rng.random() < 0.5:
            # residues that formats give a special meaning to: missing / other
            rows = [(nm, "".join(rng.choice("?*") if rng.random() < 0.08 else ch for ch in sq)) for nm, sq in rows]
        k = rng.randint(2, 6)
        chain = [rng.choice(fmts)]
        while len(chain) < k:
            f = rng.choice(fmts)
            if f != chain[-1]:
                chain.append(f)
        yield Case("detchain", [esc(fasta(rows)), ",".join(chain)], True, "chain-%d" % len(chain))
    # --- chains that start from a Stockholm file (read with -k; written only by -k commands that print their alignment) ---
    for _ in range(8 if quick else 100):
        rows = nt_alignment(rng, 2, 8, 3, 130) if rng.random() < 0.7 else aa_alignment(rng)
        if rng.random() < 0.4:
            rows = [(nm, "".join(rng.choice("?*") if rng.random() < 0.08 else ch for ch in sq)) for nm, sq in rows]
        k = rng.choice([0, 1, 1, 2, 3, 4])
        n = rng.choice([0, 1, 1, 2, 3, 4, 5])
        chain = []
        while len(chain) < n:
            f = rng.choice(fmts)
            if not chain or f != chain[-1]:
                chain.append(f)
        if chain and rng.random() < 0.25:
            chain.append(rng.choice(["paml", "tnt"]))     # the last writer needs no parser
        yield Case("detchainsto", [esc(fasta(rows)), k, ",".join(chain) or "_"], True, "chain-stockholm-%d-%d" % (k, len(chain)))
    for m in ("k2p", "jc", "pdist", "f81", "tn93", "f84", "rawdist"):
        for fl in ("", " -r"):
            for _ in range(1 if quick else 6):
                rows = nt_alignment(rng, 3, 8, 10, 80)
                yield Case("detboot", [esc(fasta(rows)), m + fl, rng.randint(2, 5), rng.choice(["1/1", "1/2", "3/4"]),
                                       rng.randint(0, 2 ** 31 - 1), rng.choice(THREADS)], True, "distboot")
    for _ in range(4 if quick else 60):
        rows = nt_alignment(rng, 3, 8, 10, 80)
        yield Case("detboot", [esc(fasta(rows)), rng.choice(["k2p", "jc", "pdist", "f81", "tn93", "f84", "rawdist"]) + rng.choice(["", "", " -r"]),
                               rng.randint(1, 5), rng.choice(["1/1", "1/2", "3/4", "1/3"]), rng.randint(0, 2 ** 31 - 1), rng.choice(THREADS)],
                   True, "distboot")
    # --- compressed output files written a second apart (a time stamp in a gzip / xz / tar header has 1 s resolution) ---
    rows = nt_alignment(rng, 3, 6, 8, 40, plain=True)
    sd = str(rng.randint(0, 2 ** 31 - 1))
    slow = [["reformat", "phylip", "-o", "out.gz"], ["shuffle", "sites", "-r", "0.5", "--seed", sd, "-o", "out.gz"],
            ["compute", "distance", "-m", "jc", "-o", "d.gz"], ["reformat", "nexus", "-o", "out.xz"],
            ["build", "seqboot", "-n", "2", "--gz", "-o", "boot", "--seed", sd], ["build", "seqboot", "-n", "2", "--tar", "--gz", "-o", "boot", "--seed", sd]]
    for argv in (slow if tier != "quick" else rng.sample(slow[:3], 2) + rng.sample(slow[3:], 1)):
        c = det(fasta(rows), argv, rng, "slow-" + "-".join(argv[:2]) + "-" + argv[-1 if "-o" == argv[-2] else argv.index("-o") + 1], nruns=2)
        c.op = "detslow"
        yield c
    # --- exact bytes of seeded commands -----------------------------------------------------------------
    for c in gen_seeded(rng, tier):
        yield c
    # --- exact bytes of two unseeded commands nobody else owns: divide (files per alignment / group), identical -----
    from driver import cligen
    for c in cligen.cases(rng, ['divide', 'identical', 'nalign-phylip', 'reformat-paml'], 30 if quick else 300):
        yield c


def recheck(binpath, cases):
    """non-trivial is decided on what the command did: it succeeded and wrote at least 20 bytes, or it is one of the
    error-path cases with several invalid arguments"""
    for c in cases:
        if c.op in ("det", "detslow"):
            im = c.impl or ""
            ok = " rc=0 " in im
            nb = 0
            try:
                nb = int(im.split("out=")[1].split(" ")[0]) if "out=" in im else 0
                nf = int(im.split("files=")[1].split(" ")[0]) if "files=" in im else 0
            except ValueError:
                nf = 0
            c.nontrivial = (ok and (nb >= 20 or nf > 0)) or (c.tag or "").find("-bad") >= 0



def shrink(c):
    """drop rows / columns of the FASTA on stdin; drop thread counts"""
    if c.op == "detchainsto":
        ch = [f for f in str(c.args[2]).split(",") if f != "_"]
        for i in range(len(ch)):
            c2 = ch[:i] + ch[i + 1:]
            if all(a != b for a, b in zip(c2, c2[1:])):
                yield Case("detchainsto", [c.args[0], c.args[1], ",".join(c2) or "_"])
        if int(c.args[1]) > 0:
            yield Case("detchainsto", [c.args[0], int(c.args[1]) - 1, c.args[2]])
    if c.op == "detchain":
        ch = c.args[1].split(",")
        for i in range(len(ch)):
            c2 = ch[:i] + ch[i + 1:]
            if len(c2) >= 1 and all(a != b for a, b in zip(c2, c2[1:])):
                yield Case("detchain", [c.args[0], ",".join(c2)])
    idx = 0
    st = c.args[idx]
    if not st.startswith(">"):
        return
    recs = [r for r in st.split(">") if r]
    rows = []
    for r in recs:
        p = r.split("|")
        rows.append((p[0], "".join(p[1:])))
    rest = list(c.args[1:])
    for i in range(len(rows)):
        r2 = rows[:i] + rows[i + 1:]
        if r2:
            yield Case(c.op, [esc(fasta(r2))] + rest)
    L = min(len(s) for _, s in rows) if rows else 0
    if c.op in ("det", "detchain", "detchainsto") and L > 1:
        for lo, hi in ((0, L // 2), (L // 2, L)):
            yield Case(c.op, [esc(fasta([(n, s[:lo] + s[hi:]) for n, s in rows]))] + rest)
