"""C16 — phasing: one correctly framed result per sequence for any thread count."""
import sys

from driver.common import Case
from driver.props import c08_pool as P

ID = "C16"
NEEDS_BINARY = True
LEVEL_TEXT = (
    "Lean theorems: framing relations of what alignAgainstRefsAA/NT build from an alignment hit "
    "(translate(drop(f+3k)) = drop k (translate f), codon sequence translates to the reported amino acids, trimmed "
    "nucleotides are the substring of the strand at the reported position, cut-end bounds, NT-mode codon frame), for all "
    "sequences and hits; ORF search: a scan of every ATG returns a longest frame, the regexp search of the unchanged "
    "code returns a genuine frame but NOT a longest one (machine-checked witness GGATGTAATGAGATAA); worker pool "
    "(shared with C08): one result per input, result stream closed exactly once after all workers, set of results "
    "independent of worker count / capacity / schedule, for ALL schedules; the aligner behind phasing: for the ATG-mode "
    "aligner on a sequence holding the reference verbatim exactly once, under gapopen <= gapextend < 0 and a diagonally "
    "dominant scheme, the returned alignment IS that occurrence and alignAgainstRefsNT trims exactly at its start "
    "(..._partial theorems, from C09's cellR_brute / brute_upper / brute_attained); the amino-acid mode alignAgainstRefsAA "
    "(default of `goalign phase`) is modelled completely (phaseAA: references x 3 or 6 translated frames, ATG-mode aligner, "
    "strict-improvement rule, amino-acid -> nucleotide positions, assembly) and for ALL settings / references / sequences: "
    "a removed result is the untrimmed input, every kept result's nucleotides are the substring of the chosen strand at "
    "the reported position (= frame + 3*seqstart), codon sequence = nucleotides, amino acids = their frame-0 translation, "
    "whole codons under cut-end, and on top of the repaired aligner no slice expression is out of range "
    "(phase_aa_never_panics) and every kept result is assembleAA of a valid hit. Tied to /repo by regenerated T3 facts "
    "(instanceOfPool, raceFree, inputsUnmodified over Gen.Facts.phase, ORF search mode), by the correspondence of the "
    "ORF-search model, and by the executable C16 predicate evaluated on Phase's real output for cpus 1..32, also "
    "under the race detector with varied GOMAXPROCS.")
LEVEL_NOTE = (
    "The framing theorems take the aligner's outcome as an arbitrary hit. The ATG-mode aligner and the hit selection of "
    "alignAgainstRefsNT and alignAgainstRefsAA are modelled (lean/Gv/Model/PhaseAlign.lean: phaseNT, phaseAA, on top of C09's "
    "fillMatrix_SW model; tied to the code by the phasent1 / phaseaa1 correspondence runs) and the clause 'a "
    "sequence containing the reference ORF verbatim once is trimmed at its start' is proved from C09's fill lemmas under "
    "explicit hypotheses (nucleotide mode, one reference, diagonally dominant scores: see 'partial'); "
    "elsewhere it is only checked as a predicate on the implementation. Go memory model / scheduler outside the model; the "
    "consumer is assumed to drain the result channel.")
TECHNIQUE = ("Lean 4 proof (list induction; transition system over all schedules; decide witnesses) + decidable checks "
             "over regenerated go/ast facts + differential correspondence + race-detector runs")
LEAN_MODULES = ["Gv.Props.C16"]
REQUIRED_THEOREMS = ["Gv.Props.C16." + n for n in [
    "translate_drop", "phase_codon_translates_to_aa", "phase_nt_is_substring_at_position",
    "phase_nt_is_substring_at_position_nt", "phase_nt_codon_in_frame", "phase_nt_verbatim_multi_partial", "phase_cutend_bounds", "pickLongest_max",
    "longestORF_scan_is_longest", "longestORF_regex_sound", "longestORF_regex_not_longest",
    "pool_one_result_per_input", "pool_results_closed", "pool_schedule_independent", "phase_inputs_unmodified",
    "instanceOfPool_closes_results",
    # the aligner behind phasing (ALIGN_ALGO_ATG, alignAgainstRefsNT): verbatim occurrence of the reference
    "atg_verbatim_aligned_at_occurrence_partial", "phase_nt_verbatim_trimmed_at_orf_start_partial",
    "phase_nt_verbatim_trimmed_matchmismatch_partial", "phase_nt_verbatim_trimmed_default_acgt_partial",
    "once_of_occurrences", "phase_nt_removed_is_untrimmed_input", "phase_nt_without_positive_alignment_is_removed",
    "phase_nt_hit_shorter_than_frame_shift_reports_error", "atg_aligner_never_panics",
    # the amino-acid mode (alignAgainstRefsAA: selection over references x 3 / 6 frames + assembly), model phaseAA
    "phase_aa_removed_is_untrimmed_input", "phase_aa_never_panics", "phase_aa_of_refs_never_panics",
    "phase_aa_nt_is_substring_at_position", "phase_aa_codon_translates_to_aa", "phase_aa_ok_is_assembleAA"]]
PARTIAL = [
    "'a sequence that contains the reference ORF verbatim once is trimmed exactly at that ORF's start' is PROVED (from the C09 "
    "lemmas about the repaired fillMatrix_SW) only as ..._partial: for the nucleotide mode (alignAgainstRefsNT, model "
    "lean/Gv/Model/PhaseAlign.lean), ONE reference, gap penalties gapopen <= gapextend < 0, "
    "a reference without gap character, and a diagonally dominant scoring scheme (each residue of the reference scores > 0 "
    "against itself and strictly less against any other residue of the sequence): instances proved = any "
    "SetAlignScores(match, mismatch) with mismatch < match, 0 < match (one or both strands: the other strand can only tie, and "
    "the forward hit is kept), and the default DNAfull matrix on upper-case A/C/G/T (forward strand); with both strands the "
    "general theorem also asks dominance on the reverse-complemented copy. 'Unless an alignment error is reported' is the "
    "theorem's other disjunct. NOT proved: translate mode (BLOSUM62 on the 3/6 translations), several references, ambiguity "
    "codes under DNAfull - there the clause is checked only by the oracle predicate on the implementation's results",
    "the models of the ATG-mode aligner and of alignAgainstRefsNT are hand-written and tied to the code by the atgalign / "
    "phasent1 correspondence runs only; scores are dyadic rationals computed exactly (as for C09)",
    "alignAgainstRefsNT / alignAgainstRefsAA: the model mirrors the code WITH proposed_fixes/c16-phaser-no-positive-alignment.diff "
    "(no alignment with a positive score => removed result carrying the untrimmed input: phase_nt_removed_is_untrimmed_input, "
    "witness ATG vs CC) and c16-phaser-frame-shift-bounds.diff (codon start clamped to the end of the trimmed sequence; the "
    "empty codon sequence is then refused by Translate, i.e. an error is reported: witness ATG vs T with --gap-open -1); on the "
    "code before these repairs both inputs are run-time panics of the worker goroutine and the check fails with them. The "
    "translate-mode function alignAgainstRefsAA is modelled (phaseAA) with the length / match cut-offs switched off (the "
    "harness op phaseaa1 sets them to -1: float ratios are outside the model) and proved panic-free on top of the repaired "
    "aligner (phase_aa_never_panics); for the unrepaired aligner the model keeps the out-of-range branches. That "
    "phaseNT never panics is proved for the aligner (atg_aligner_never_panics) but not for the two remaining slice/index "
    "expressions of alignAgainstRefsNT (all-gap aligned row, beststart > bestend), which need a positive-score alignment "
    "without any residue pair",
    "longestORF: the scan search now in /repo (fix: a715114, every ATG considered) satisfies longestORF_scan_is_longest "
    "('no input contains a longer ORF'); for the regexp search first shipped its negation longestORF_regex_not_longest "
    "is kept as a theorem (the model follows Gen.Facts.longestOrfRegex)",
    "Go memory model / pre-emption are not modelled: race freedom = lock-set + happens-before over syntactic facts + "
    "race-detector runs; accesses inside called methods (Translate, Clone, aligner) are not in the facts",
    "the consumer of the result channel is assumed to read until it is closed (the store of the pool model is unbounded)",
    "regexp semantics ('.' = any byte but LF, leftmost lazy match, non-overlapping FindAll) are modelled by hand for "
    "ASCII input and validated by correspondence only",
]
TRUSTED = P.POOL_TRUSTED + ["Go regexp package (modelled by hand for the one expression used)"]
RULE = (
    "phase: 2-8 nucleotide sequences = random flank + mutated copy (substitutions 0-10%, occasional codon deletions) of "
    "an ORF (ATG + 4-40 sense codons + stop) + random flank, some reverse-complemented; with / without explicit "
    "reference ORF(s); translate x reverse x cut-end x 3 genetic codes; cpus {1,2,3,8,16,32} (thorough: 1..32); sets "
    "with a sequence too short to translate (error path); every case also under -race with GOMAXPROCS {1,2,4,ncpu}; "
    "longestorf / baglongestorf: random and constructed sequences (overlapping frames, lower case, U), both strands; "
    "atgalign: the ATG-mode aligner on reference + (verbatim / mutated / truncated / unrelated copy in random flanks, "
    "occasionally a second copy) and on tiny random pairs, gap penalties x {matrix, 5 match/mismatch pairs}; phasent1: "
    "alignAgainstRefsNT on one sequence, 1-2 references, reverse x cut-end x 3 codes; phaseaa1: Phase() in translate mode "
    "on one sequence (nucleotide reference ORFs translated by Phase(); flank + verbatim / mutated ORF + flank, some "
    "reverse-complemented; two references with a truncated copy of the first; tiny and unrelated sequences; sequences of "
    "0-4 nucleotides = translation-error path; no reference), reverse x cut-end x 3 codes x gap penalties x "
    "{BLOSUM62, match/mismatch}. "
    "Non-trivial = phase input set with >= 2 sequences whose ORF copies lie in different frames, or an ORF-search "
    "input with >= 2 ATG..stop frames in different reading frames")
TIMEOUT = P.TIMEOUT
FACTS = [("phase", "raceFree"), ("phase", "instanceOfPool"), ("phase", "inputsUnmodified")]

STOPS = {"TAA", "TAG", "TGA", "AGA", "AGG"}     # stop in at least one of the three codes
COMP = {"A": "T", "C": "G", "G": "C", "T": "A"}


def rnd(rng, n):
    return "".join(rng.choice("ACGT") for _ in range(n))


def revcomp(s):
    return "".join(COMP.get(ch, ch) for ch in reversed(s))


def make_orf(rng, ncod):
    cods = []
    while len(cods) < ncod:
        c = rnd(rng, 3)
        if c not in STOPS and c != "ATG":
            cods.append(c)
    return "ATG" + "".join(cods) + rng.choice(["TAA", "TAG"])


def mutate(rng, orf, rate, indel):
    s = list(orf)
    for i in range(3, len(s) - 3):
        if rng.random() < rate:
            s[i] = rng.choice("ACGT")
    s = "".join(s)
    if indel and len(s) > 15:
        k = 3 * rng.randint(1, (len(s) - 9) // 3)
        s = s[:k] + s[k + 3:]
    return s


def orfs_of(s):
    """every ATG..first in-frame stop (TAA/TGA/TAG) frame of the text (upper-cased, U->T)"""
    t = s.upper().replace("U", "T")
    out = []
    for i in range(len(t) - 2):
        if t[i:i + 3] == "ATG":
            j = i + 3
            while j + 3 <= len(t):
                if t[j:j + 3] in ("TAA", "TGA", "TAG"):
                    out.append((i, j + 3))
                    break
                j += 3
    return out


def orf_nontrivial(s):
    fr = {a % 3 for a, _ in orfs_of(s)}
    return len(fr) >= 2


def gen(rng, tier):
    quick = tier == "quick"
    cpus = ",".join(str(c) for c in (P.CPUS if quick else range(1, 33)))
    # ---- ORF search -----------------------------------------------------------------------------------
    yield Case("longestorf", ["GGATGTAATGAGATAA"], True, "longestorf-known-witness")
    for _ in range(300 if quick else 3000):
        kind = rng.randint(0, 3)
        if kind == 0:
            s = rnd(rng, rng.randint(0, 60))
        elif kind == 1:
            # an ORF with a second, longer one starting inside it in another frame
            inner = "ATG" + "".join(rng.choice(["GAG", "AAA", "CCC", "GCA", "TTT"]) for _ in range(rng.randint(1, 6))) + "TAA"
            s = rnd(rng, rng.randint(0, 4)) + "ATG" + rng.choice(["", "C", "CC", "CCCA"]) + "TA" + inner[1:] if rng.random() < 0.5 else \
                rnd(rng, rng.randint(0, 4)) + "ATGTA" + inner + rnd(rng, rng.randint(0, 5))
        elif kind == 2:
            s = rnd(rng, rng.randint(0, 6)) + make_orf(rng, rng.randint(1, 8)) + rnd(rng, rng.randint(0, 6)) + make_orf(rng, rng.randint(1, 8))
        else:
            s = "".join(rng.choice(["ATG", "TAA", "TGA", "TAG", "A", "C", "G", "T", "CCC"]) for _ in range(rng.randint(1, 14)))
        if rng.random() < 0.15:
            s = s.lower()
        if rng.random() < 0.1:
            s = s.replace("T", "U")
        yield Case("longestorf", [s], orf_nontrivial(s), "longestorf")
    for _ in range(120 if quick else 1200):
        n = rng.randint(1, 5)
        rows = []
        for i in range(n):
            k = rng.randint(0, 2)
            if k == 0:
                s = rnd(rng, rng.randint(1, 40))
            elif k == 1:
                s = rnd(rng, rng.randint(0, 5)) + make_orf(rng, rng.randint(1, 10)) + rnd(rng, rng.randint(0, 5))
                if rng.random() < 0.4:
                    s = revcomp(s)
            else:
                s = rnd(rng, rng.randint(0, 3)) + "ATGTA" + "ATG" + "GAG" * rng.randint(1, 5) + "TAA" + rnd(rng, rng.randint(0, 3))
            rows.append(("s%d" % i, s))
        yield Case("baglongestorf", [rng.choice([0, 1]), P.rows_str(rows)],
                   any(orf_nontrivial(s) for _, s in rows), "baglongestorf")
    # ---- phasing --------------------------------------------------------------------------------------
    for _ in range(70 if quick else 600):
        orf = make_orf(rng, rng.randint(4, 40))
        n = rng.randint(2, 8)
        reverse = rng.choice([0, 1])
        rows, frames = [], set()
        verbatim = rng.random() < 0.35
        for i in range(n):
            left = rnd(rng, rng.randint(0, 20))
            right = rnd(rng, rng.randint(0, 20))
            body = orf if verbatim else mutate(rng, orf, rng.choice([0.0, 0.02, 0.1]), rng.random() < 0.15)
            s = left + body + right
            frames.add(len(left) % 3)
            if reverse and rng.random() < 0.4:
                s = revcomp(s)
            rows.append(("s%d" % i, s))
        explicit = rng.random() < 0.6
        refs = "_"
        if explicit:
            refs = "ref:" + orf
            if rng.random() < 0.2:
                refs += ",ref2:" + make_orf(rng, rng.randint(4, 12))
        tr = rng.choice([1, 1, 0])
        yield Case("phase", [cpus, tr, reverse, rng.choice([0, 1]), rng.choice([0, 1, 2]), refs, P.rows_str(rows), P.WATCH_MS],
                   len(frames) >= 2, "phase-explicit-ref" if explicit else "phase-longest-orf")
    for _ in range(10 if quick else 60):
        # error path: one sequence too short to be translated in every frame
        orf = make_orf(rng, rng.randint(4, 12))
        rows = [("s%d" % i, rnd(rng, rng.randint(0, 9)) + orf + rnd(rng, rng.randint(0, 9))) for i in range(rng.randint(3, 8))]
        rows.insert(rng.randint(0, len(rows)), ("short", rnd(rng, rng.randint(1, 4))))
        yield Case("phase", [cpus, 1, rng.choice([0, 1]), 0, 0, "ref:" + orf, P.rows_str(rows), P.WATCH_MS], False, "phase-error-path")


    # ---- the aligner behind phasing (ALIGN_ALGO_ATG) and alignAgainstRefsNT on one sequence ----------------
    for c in cli_cases(rng, quick):
        yield c
    for c in align_cases(rng, quick):
        yield c


GAPS = [("d", "d"), ("d", "d"), ("-20", "-1"), ("-4", "-1"), ("-2", "-2"), ("-6", "-3"), ("-24", "-1")]
SCORES = [("_", "_"), ("_", "_"), ("2", "-2"), ("10", "-8"), ("4", "-1"), ("2", "1"), ("6", "-6")]


def align_cases(rng, quick):
    """atgalign: the ATG-mode aligner against its model; phasent1: alignAgainstRefsNT on one sequence, including
    sequences that no reference aligns to with a positive score (removed result) and hits shorter than their
    frame shift (small gap penalties on tiny sequences) - both were panics of the worker goroutine before
    proposed_fixes/c16-phaser-no-positive-alignment.diff / c16-phaser-frame-shift-bounds.diff."""
    # the two minimal witnesses of those repairs
    yield Case("phasent1", [2, "d", "d", "_", "_", 0, 0, 0, "ref:ATG", "CC"], True, "phasent1-no-positive-alignment")
    yield Case("phasent1", [2, "-2", "d", "_", "_", 0, 0, 0, "ref:ATG", "T"], True, "phasent1-hit-shorter-than-frame-shift")
    for _ in range(400 if quick else 4000):
        orf = make_orf(rng, rng.randint(1, 12))
        kind = rng.randint(0, 3)
        if kind == 0:
            body = orf                                              # verbatim
        elif kind == 1:
            body = mutate(rng, orf, rng.choice([0.02, 0.1, 0.3]), rng.random() < 0.3)
        elif kind == 2:
            k = rng.randint(1, len(orf) - 1)                        # truncated copy
            body = orf[:k] if rng.random() < 0.5 else orf[len(orf) - k:]
        else:
            body = rnd(rng, rng.randint(1, 12))                     # unrelated
        left, right = rnd(rng, rng.randint(0, 9)), rnd(rng, rng.randint(0, 9))
        seq = left + body + right
        if rng.random() < 0.1:
            seq = seq + orf                                         # a second copy
        go, ge = rng.choice(GAPS)
        mt, mm = rng.choice(SCORES)
        once = seq.count(orf) == 1 and seq.find(orf) == seq.rfind(orf)
        yield Case("atgalign", [2, go, ge, mt, mm, orf, seq], once and bool(left) and bool(right), "atgalign")
    for _ in range(150 if quick else 1500):
        # tiny pairs: every border path of the trace-back (start in the first row / column, no positive value)
        s1 = rnd(rng, rng.randint(1, 4))
        s2 = rnd(rng, rng.randint(1, 5))
        go, ge = rng.choice(GAPS)
        mt, mm = rng.choice(SCORES)
        yield Case("atgalign", [2, go, ge, mt, mm, s1, s2], False, "atgalign-tiny")
    for _ in range(150 if quick else 1500):
        orf = make_orf(rng, rng.randint(2, 12))
        verb = rng.random() < 0.5
        body = orf if verb else mutate(rng, orf, rng.choice([0.02, 0.1]), rng.random() < 0.2)
        left, right = rnd(rng, rng.randint(0, 9)), rnd(rng, rng.randint(0, 9))
        seq = left + body + right
        reverse = rng.choice([0, 0, 1])
        if reverse and rng.random() < 0.5:
            seq = revcomp(seq)
        refs = "ref:" + orf
        if rng.random() < 0.15:
            refs += ",ref2:" + make_orf(rng, rng.randint(2, 6))
        go, ge = rng.choice([("d", "d"), ("d", "d"), ("-20", "-1"), ("-24", "-1")])
        mt, mm = rng.choice([("_", "_"), ("_", "_"), ("2", "-2"), ("10", "-8")])
        once = seq.count(orf) == 1
        yield Case("phasent1", [2, go, ge, mt, mm, reverse, rng.choice([0, 1]), rng.choice([0, 1, 2]), refs, seq],
                   once and bool(left), "phasent1")
    for _ in range(40 if quick else 400):
        # two references: the sequence begins inside a copy of the first one (its first k nucleotides are missing, so the
        # best alignment with it opens with k gaps) and holds the longer second one verbatim; or one reference whose
        # verbatim occurrence is on the reverse strand while the forward strand gives some weaker hit
        r1 = make_orf(rng, rng.randint(6, 10))
        r2 = make_orf(rng, rng.randint(12, 18))
        k = rng.choice([1, 2, 4, 5, 7])
        seq = r1[k:] + rnd(rng, rng.randint(0, 6)) + r2 + rnd(rng, rng.randint(0, 9))
        reverse = rng.choice([0, 1])
        if reverse and rng.random() < 0.5:
            seq = revcomp(seq)
        once = seq.count(r2) + revcomp(seq).count(r2) == 1
        yield Case("phasent1", [2, "d", "d", "_", "_", reverse, rng.choice([0, 1]), rng.choice([0, 1, 2]),
                                "ref:" + r1 + ",ref2:" + r2, seq], once, "phasent1-two-refs-truncated-first")
        orf = make_orf(rng, rng.randint(4, 12))
        seq = revcomp(rnd(rng, rng.randint(0, 12)) + orf + rnd(rng, rng.randint(0, 12)))
        yield Case("phasent1", [2, "d", "d", "_", "_", 1, rng.choice([0, 1]), rng.choice([0, 1, 2]), "ref:" + orf, seq],
                   True, "phasent1-reverse-strand-verbatim")
    for _ in range(200 if quick else 2000):
        # unrelated / tiny sequences, small gap penalties: no positive alignment, hits of one or two residues
        # behind leading gaps, empty codon sequences
        orf = make_orf(rng, rng.randint(1, 4)) if rng.random() < 0.6 else rnd(rng, rng.randint(3, 7))
        seq = rnd(rng, rng.randint(1, 6)) if rng.random() < 0.7 else rng.choice("ACGT") * rng.randint(1, 10)
        go, ge = rng.choice([("d", "d"), ("-2", "-1"), ("-2", "-2"), ("-4", "-1"), ("-1", "-1")])
        mt, mm = rng.choice([("_", "_"), ("_", "_"), ("2", "-2"), ("4", "-1")])
        yield Case("phasent1", [2, go, ge, mt, mm, rng.choice([0, 0, 1]), rng.choice([0, 1]), rng.choice([0, 1, 2]),
                                "ref:" + orf, seq], False, "phasent1-tiny")

    # ---- the amino-acid mode (alignAgainstRefsAA, the default of `goalign phase`) on one sequence ----------------
    for c in aa_cases(rng, quick):
        yield c


AA_GAPS = [("d", "d"), ("d", "d"), ("d", "d"), ("-20", "-1"), ("-24", "-1"), ("-4", "-1"), ("-2", "-2"), ("-2", "-1"), ("-1", "-1")]
AA_SCORES = [("_", "_"), ("_", "_"), ("_", "_"), ("2", "-2"), ("10", "-8"), ("4", "-1")]


def aa_cases(rng, quick):
    """phaseaa1: Phase() in translate mode on ONE sequence (references = nucleotide ORFs, translated by Phase();
    the 3 or 6 translations of the sequence aligned against each of them, best hit converted back to nucleotide
    positions) against the model phaseAA, and the framing clauses evaluated on the implementation's result."""
    # frame 1 of the forward strand; the reverse strand; no reference; a translation error after a frame-0 hit
    yield Case("phaseaa1", [2, "d", "d", "_", "_", 0, 1, 0, "ref:ATGAAACCCGGGTAA", "CATGAAACCCGGGTAACC"], True, "phaseaa1-frame1")
    yield Case("phaseaa1", [2, "d", "d", "_", "_", 1, 0, 0, "ref:ATGAAACCCGGGTAA", "GGTTACCCGGGTTTCATGG"], True, "phaseaa1-reverse-strand")
    yield Case("phaseaa1", [2, "d", "d", "_", "_", 0, 0, 0, "_", "CCATGAAATAACC"], False, "phaseaa1-no-reference")
    yield Case("phaseaa1", [2, "d", "d", "_", "_", 0, 0, 0, "ref:ATGTAA", "ATGT"], False, "phaseaa1-translation-error")
    yield Case("phaseaa1", [2, "d", "d", "_", "_", 0, 0, 0, "ref:AT", "ATGAAATAA"], False, "phaseaa1-reference-shorter-than-a-codon")
    for _ in range(220 if quick else 2200):
        orf = make_orf(rng, rng.randint(2, 14))
        verb = rng.random() < 0.4
        body = orf if verb else mutate(rng, orf, rng.choice([0.02, 0.1, 0.3]), rng.random() < 0.3)
        left, right = rnd(rng, rng.randint(0, 9)), rnd(rng, rng.randint(0, 9))
        seq = left + body + right
        reverse = rng.choice([0, 0, 1])
        if reverse and rng.random() < 0.5:
            seq = revcomp(seq)
        refs = "ref:" + orf
        if rng.random() < 0.25:
            r2 = "ref2:" + make_orf(rng, rng.randint(2, 8))
            refs = refs + "," + r2 if rng.random() < 0.5 else r2 + "," + refs
        go, ge = rng.choice(AA_GAPS)
        mt, mm = rng.choice(AA_SCORES)
        yield Case("phaseaa1", [2, go, ge, mt, mm, reverse, rng.choice([0, 1]), rng.choice([0, 1, 2]), refs, seq],
                   len(left) % 3 != 0 or (reverse == 1 and seq.count(orf) == 0), "phaseaa1")
    for _ in range(40 if quick else 400):
        # two references: a truncated copy of the first one opens the sequence, the longer second one follows in
        # another frame; or the only copy lies on the reverse strand
        r1 = make_orf(rng, rng.randint(4, 8))
        r2 = make_orf(rng, rng.randint(9, 14))
        k = rng.choice([0, 3, 4, 5, 7])
        seq = r1[k:] + rnd(rng, rng.randint(0, 7)) + r2 + rnd(rng, rng.randint(0, 9))
        reverse = rng.choice([0, 1])
        if reverse and rng.random() < 0.5:
            seq = revcomp(seq)
        yield Case("phaseaa1", [2, "d", "d", "_", "_", reverse, rng.choice([0, 1]), rng.choice([0, 1, 2]),
                                "ref:" + r1 + ",ref2:" + r2, seq], True, "phaseaa1-two-refs")
        orf = make_orf(rng, rng.randint(3, 12))
        seq = revcomp(rnd(rng, rng.randint(0, 12)) + orf + rnd(rng, rng.randint(0, 12)))
        yield Case("phaseaa1", [2, "d", "d", "_", "_", 1, rng.choice([0, 1]), rng.choice([0, 1, 2]), "ref:" + orf, seq],
                   True, "phaseaa1-reverse-strand")
    for _ in range(200 if quick else 2000):
        # unrelated / tiny sequences, small gap penalties: no positive alignment (removed result), one-residue hits,
        # hits behind gaps; sequences of 0-4 nucleotides: a frame that cannot be translated (error path; a sequence
        # of 3 or 4 nucleotides fails in frame 1 or 2 only, after frame 0 was aligned)
        orf = make_orf(rng, rng.randint(0, 4)) if rng.random() < 0.6 else rnd(rng, rng.randint(3, 9))
        k = rng.random()
        if k < 0.25:
            seq = rnd(rng, rng.randint(1, 4))
        elif k < 0.8:
            seq = rnd(rng, rng.randint(5, 12))
        else:
            seq = rng.choice("ACGT") * rng.randint(1, 10)
        go, ge = rng.choice(AA_GAPS)
        mt, mm = rng.choice(AA_SCORES)
        yield Case("phaseaa1", [2, go, ge, mt, mm, rng.choice([0, 0, 1]), rng.choice([0, 1]), rng.choice([0, 1, 2]),
                                "ref:" + orf, seq], False, "phaseaa1-tiny")


def cli_cases(rng, quick):
    """the commands `goalign orf` and `goalign phasent` on the built binary against the library models"""
    from driver import cligen
    for _ in range(30 if quick else 300):
        seqs = []
        orf = make_orf(rng, rng.randint(3, 12))
        for i in range(rng.randint(1, 5)):
            body = orf if rng.random() < 0.5 else mutate(rng, orf, rng.choice([0.02, 0.1]), rng.random() < 0.2)
            q = rnd(rng, rng.randint(0, 9)) + body + rnd(rng, rng.randint(0, 9))
            if rng.random() < 0.3:
                q = revcomp(q)
            if rng.random() < 0.15:
                q = rnd(rng, rng.randint(1, 12))
            if rng.random() < 0.3:
                # the sequence begins inside the ORF (no 5' flank): the alignment opens with gaps in the sequence
                q = body[rng.choice([1, 2, 4, 5, 7, 8]):] + rnd(rng, rng.randint(0, 9))
            if rng.random() < 0.2:
                q = q.lower() if rng.random() < 0.5 else q.replace("T", "U")
            seqs.append(("q%d" % i, q))
        st = cligen.esc(cligen.fasta(seqs))
        yield Case("cli_lib", [st, "orf"] + (["--reverse"] if rng.random() < 0.5 else []), True, "cli-orf")
        refs = [("ref", orf)] + ([("ref2", make_orf(rng, rng.randint(2, 14)))] if rng.random() < 0.3 else [])
        if rng.random() < 0.3:
            refs.reverse()
        up = [(n, q.upper().replace("U", "T")) for n, q in seqs]
        fl = ["--unaligned", "--ref-orf", "ref.fa", "--match-cutoff", "-1", "--nt-output", "codon.fa", "--aa-output", "aa.fa"]
        if rng.random() < 0.5:
            fl.append("--reverse")
        if rng.random() < 0.4:
            fl.append("--cut-end")
        if rng.random() < 0.4:
            fl += ["--genetic-code", rng.choice(["standard", "mitov", "mitoi"])]
        if rng.random() < 0.3:
            fl += ["-t", str(rng.choice([1, 2, 4, 8]))]
        if rng.random() < 0.5:
            fl += ["--gap-open", rng.choice(["-12", "-10", "-8.5", "-20"])]
        if rng.random() < 0.3:
            fl += ["--gap-extend", rng.choice(["-0.5", "-1", "-2.5"])]
        yield Case("cli_libf", [cligen.esc(cligen.fasta(up)), "ref.fa=" + cligen.esc(cligen.fasta(refs)), "phasent"] + fl, True, "cli-phasent")
        # the amino-acid mode: goalign phase (no --nt-output there)
        fl2 = [x for i, x in enumerate(fl) if x not in ("--nt-output", "codon.fa")]
        yield Case("cli_libf", [cligen.esc(cligen.fasta(up)), "ref.fa=" + cligen.esc(cligen.fasta(refs)), "phase"] + fl2, True, "cli-phase")


def accepts(c):
    return P.accepts(c)


def classify(c):
    if c.op in ("longestorf", "baglongestorf") and c.verdict == "fail:longer-orf-exists" and c.model == c.impl:
        # the model with Go's non-overlapping FindAllStringIndex semantics predicted exactly this answer
        return "longestorf-nonoverlapping-matches"
    return None


def race_cases(cases, tier):
    ph = [c for c in cases if c.op == "phase"]
    if tier == "quick":
        err = [c for c in ph if c.tag == "phase-error-path"]
        rest = [c for c in ph if c.tag != "phase-error-path"][:24]
        # fewer worker counts under the (slow) race build
        out = []
        for c in err + rest:
            a = list(c.args)
            a[0] = "2,3,16"
            out.append(Case(c.op, a, c.nontrivial, c.tag))
        return out
    return ph


def shrink(c):
    if c.op == "longestorf":
        s = c.args[0]
        for i in range(len(s)):
            yield Case(c.op, [s[:i] + s[i + 1:]])
    elif c.op == "baglongestorf":
        rows = [tuple(r.split(":", 1)) for r in c.args[1].split(",")] if c.args[1] != "_" else []
        for i in range(len(rows)):
            yield Case(c.op, [c.args[0], P.rows_str(rows[:i] + rows[i + 1:])])
        for i, (n, q) in enumerate(rows):
            for j in range(len(q)):
                r2 = list(rows)
                r2[i] = (n, q[:j] + q[j + 1:])
                yield Case(c.op, [c.args[0], P.rows_str(r2)])
    elif c.op == "phase":
        rows = [tuple(r.split(":", 1)) for r in c.args[6].split(",")]
        for i in range(len(rows)):
            if len(rows) > 1:
                a = list(c.args)
                a[6] = P.rows_str(rows[:i] + rows[i + 1:])
                yield Case(c.op, a)


def check(tier, seed):
    return P.pool_check(sys.modules[__name__], tier, seed)


def replay(path):
    return P.pool_replay(sys.modules[__name__], path)
