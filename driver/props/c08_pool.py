"""Concurrency machinery shared by C08 (dna.DistMatrix) and C16 (phaser.Phase) — a *library*.

What is here
  * metadata fragments for the pool part of C08 (`POOL_*`), to be merged into the final `c08.py`;
  * `gen_pool_cases(rng, tier)`: distcpus / distfail / distpair (metamorphic) cases;
  * `accepts(case)`: correspondence comparator (the pool model predicts a *set* of outcomes for a failing model,
    and makes no numeric claim for matrices);
  * `facts_report(...)`: evaluates `raceFree` / `instanceOfPool` / `disciplineOf` / `inputsUnmodified` over the
    regenerated T3 facts through the compiled oracle;
  * `run_race_checks(...)`: runs cases on the `-race` build with varied GOMAXPROCS, parses the detector's reports;
  * `pool_check(mod, tier, seed)`: the whole check flow (DESIGN §3) for a property whose obligations include the
    facts checks: regenerate -> build + audit -> harness (+ race harness) -> cases -> facts obligations ->
    runtime evidence (race detector, hang watchdog) -> classify against known findings -> evidence.

Python standard library only."""
import json
import os
import random
import re
import subprocess
import tempfile
import time
from concurrent.futures import ThreadPoolExecutor

from driver import common
from driver.common import Case

# ------------------------------------------------------------------------------------------------
# metadata fragments (pool part of C08)
# ------------------------------------------------------------------------------------------------

POOL_LEAN_MODULES = ["Gv.Props.C08"]
POOL_THEOREMS = ["Gv.Props.C08." + n for n in [
    "pool_conservation", "pool_step_decreases", "pool_terminates", "pool_confluent",
    "pool_cells_schedule_independent", "pool_locked_fold_schedule_independent",
    "pool_error_is_returned_no_deadlock", "pool_results_closed_once", "pool_asis_deadlocks",
    "pool_error_lost_without_sticky", "halfJobs_cells_disjoint", "rangeJobs_cells_overlap",
    "rangeJobsDedup_cells_disjoint",
    "raceFree_sound", "instanceOfPool_discipline", "instanceOfPool_returns_error"]]
POOL_LEVEL_TEXT = (
    "Lean theorems about the producer / bounded channel / n workers / wait-group transition system "
    "(lean/Gv/Model/Pool.lean), for ALL schedules, any n>0, any capacity>0: conservation, termination (measure), "
    "confluence (every maximal execution stores the sequential result; cells bit-identical), error returned "
    "without deadlock for a pool whose workers call Done on every path, results closed exactly once after all "
    "workers exited; machine-checked witnesses that the unchanged discipline deadlocks / loses the error. Tied to "
    "dna.DistMatrix by regenerated T3 facts (tools/extract/facts.go): raceFree (lock-set + happens-before) and "
    "instanceOfPool are evaluated on the regenerated facts every run; a false fact is a broken obligation whose "
    "failing input is searched with the -race build (GOMAXPROCS varied, cpus 1..32) and failing DistModels under a "
    "10 s watchdog.")
POOL_LEVEL_NOTE = (
    "The Go memory model, scheduler and race detector are outside the Lean model (trusted / runtime evidence "
    "only); steps of the model are atomic; a caller-supplied DistModel must itself be safe for concurrent "
    "Distance calls; estimator values are opaque here (C07).")
POOL_PARTIAL = [
    "Go memory model / pre-emption / real deadlock detection are not modelled: race freedom is a lock-set + "
    "happens-before check over syntactic facts plus race-detector runs, not a proof about the Go runtime",
    "accesses performed inside called functions (DistModel.Distance, Sequence) are not in the facts",
    "unbuffered channels (cap = 0) are not modelled; DistMatrix uses 100",
    "the float post-processing (2*max substitution) is covered as 'any commutative locked fold' "
    "(pool_locked_fold_schedule_independent), its float instance is C07's",
    "first half of C08 (column permutation / replication / weights / reverse complement / row permutation): proved over "
    "the reals in lean/Gv/Props/C08Cols.lean (see COLS_* in driver/props/c08.py); here implementation-only metamorphic "
    "pairs with relative tolerance 1e-9",
]
POOL_TRUSTED = [
    "tools/extract/facts.go (syntactic go/ast pass): goroutine roles, captured-variable accesses, lock sets, "
    "wg.Add/Done/Wait and channel close/range placement",
    "Go race detector and runtime (runtime evidence only)",
    "hang verdicts: in-process watchdog of 10 s for calls that take < 10 ms (>= 1000x), backed by the parent's",
]
POOL_RULE = (
    "distcpus: random alignments 2-8 rows x 1-60 columns over ACGT + IUPAC ambiguity codes + gap runs, 7 models x "
    "rm-gaps x gap-mode x gamma x optional weights x optional ranges (disjoint and overlapping), DistMatrix with "
    "cpus in {1,2,3,8,16,32}, matrices compared as Float64bits; distfail: caller-supplied DistModel failing at "
    "the k-th pair / k-th call, 3-16 rows (up to 120 pairs > channel capacity), cpus 1..32, 10 s watchdog; distpair: "
    "metamorphic pairs (column permutation, replication k, integer weights k, explicit unit weights, reverse "
    "complement, row permutation; internal-gap mode exempt from permutation/replication), relative tolerance "
    "1e-9; race build: the distcpus/phase cases re-run under -race with GOMAXPROCS in {1,2,4,ncpu}. Non-trivial = "
    ">= 3 rows (>= 3 jobs), >= 1 difference and >= 1 gap or ambiguity code; for distfail: k < number of pairs and "
    "cpus >= 2")

POOL_FACTS = [("distMatrix", "raceFree"), ("distMatrix", "instanceOfPool")]
POOL_TECHNIQUE = ("Lean 4 proof over a small-step transition system (all schedules) + decidable lock-set/happens-before "
                  "check over regenerated go/ast facts + race-detector / watchdog runs + metamorphic pairs")

CPUS = [1, 2, 3, 8, 16, 32]
WATCH_MS = 10000          # in-process hang watchdog (ms); the calls normally take < 10 ms
TIMEOUT = 25.0            # parent watchdog (s), above the in-process one
MODELS = ["jc", "k2p", "pdist", "pdistamb", "rawdist", "f81", "tn93", "f84"]
AMBIG = "RYSWKMBDHVN"
COMP = {"A": "T", "C": "G", "G": "C", "T": "A", "R": "Y", "Y": "R", "S": "S", "W": "W", "K": "M", "M": "K",
        "B": "V", "V": "B", "D": "H", "H": "D", "N": "N", "-": "-"}


def rows_str(rows):
    return ",".join("%s:%s" % r for r in rows) if rows else "_"


def rand_alignment(rng, nrows=None, ncols=None, plain=False):
    n = nrows or rng.randint(2, 8)
    L = ncols or rng.choice([1, 2, 3, 5, 8, 13, 21, 40, 60])
    base = [rng.choice("ACGT") for _ in range(L)]
    rows = []
    pmut = rng.choice([0.0, 0.05, 0.2, 0.5, 0.75])
    for i in range(n):
        s = list(base)
        for j in range(L):
            if rng.random() < pmut:
                s[j] = rng.choice("ACGT")
            if not plain and rng.random() < 0.05:
                s[j] = rng.choice(AMBIG)
        if not plain and L >= 3 and rng.random() < 0.5:
            # gap runs: leading, trailing, internal
            kind = rng.choice(["lead", "trail", "mid"])
            g = rng.randint(1, max(1, L // 3))
            if kind == "lead":
                s[:g] = "-" * g
            elif kind == "trail":
                s[L - g:] = "-" * g
            else:
                st = rng.randint(1, max(1, L - g - 1))
                s[st:st + g] = "-" * len(s[st:st + g])
        rows.append(("s%d" % i, "".join(s)))
    return rows


def aln_nontrivial(rows):
    if len(rows) < 3:
        return False
    diff = any(a != b for r in rows[1:] for a, b in zip(rows[0][1], r[1]))
    special = any(ch in AMBIG + "-" for _, s in rows for ch in s)
    return diff and special


def model_opts(rng, exempt_internal=False):
    m = rng.choice(MODELS)
    rm = rng.choice([0, 0, 1])
    gm = 0
    if m in ("rawdist", "pdist", "pdistamb"):
        gm = rng.choice([0, 2] if exempt_internal else [0, 1, 2])
    alpha = "0"
    if m not in ("rawdist", "pdist", "pdistamb") and rng.random() < 0.4:
        alpha = rng.choice(["0.1", "0.5", "1", "2", "10"])
    return m, rm, gm, alpha


def weights_str(ws):
    return ",".join(ws) if ws else "_"


def ranges_overlap(r):
    if r == "_":
        return False
    a, b, c, d = [int(x) for x in r.split(",")]
    lo, hi = max(a, c), min(b, d)
    return hi - lo >= 1      # two distinct indices in both ranges -> (i,j) and (j,i) are both jobs


def gen_pool_cases(rng, tier):
    quick = tier == "quick"
    cpus = ",".join(str(c) for c in CPUS)
    # ---- thread counts ------------------------------------------------------------------------
    for _ in range(60 if quick else 600):
        rows = rand_alignment(rng)
        m, rm, gm, alpha = model_opts(rng)
        L = len(rows[0][1])
        w = "_"
        if rng.random() < 0.3:
            w = weights_str([rng.choice(["1", "2", "0.5", "3", "1.25"]) for _ in range(L)])
        yield Case("distcpus", [m, rm, gm, alpha, rows_str(rows), w, "_", cpus], aln_nontrivial(rows), "distcpus")
    # ---- many pairs, some of them undefined / saturated: the `2*max` substitute depends on a maximum that the
    #      workers reduce together — it must not depend on who finishes last -----------------------------------
    for _ in range(6 if quick else 60):
        n = rng.randint(16, 40)
        L = rng.randint(40, 120)
        base = [rng.choice("ACGT") for _ in range(L)]
        rows = []
        for i in range(n):
            if i % 7 == 3:
                s = [rng.choice("ACGT") for _ in range(L)]       # unrelated: saturated against the others
            else:
                rate = rng.choice([0.02, 0.05, 0.1, 0.2, 0.3, 0.4])
                s = [rng.choice("ACGT") if rng.random() < rate else b for b in base]
            rows.append(("s%d" % i, "".join(s)))
        m = rng.choice(["jc", "k2p", "f81", "tn93", "f84"])
        yield Case("distcpus", [m, 0, 0, "0", rows_str(rows), "_", "_", cpus + ",2,8,16,3"], True, "distcpus-saturated")
    # ---- finite distances above the "too large" limit (NT_DIST_OVER = 100000: gamma correction with a small shape on
    #      strongly divergent but unsaturated pairs): every thread count must treat them alike --------------------
    for _ in range(4 if quick else 40):
        L = rng.randint(100, 200)
        base = [rng.choice("ACGT") for _ in range(L)]
        rows = [("s0", "".join(base))]
        for i, f in enumerate([0.03, 0.1, rng.choice([0.58, 0.62, 0.66]), rng.choice([0.6, 0.64, 0.7]), 1.0]):
            idx = set(rng.sample(range(L), int(f * L)))
            rows.append(("s%d" % (i + 1), "".join(rng.choice([c for c in "ACGT" if c != b]) if j in idx else b for j, b in enumerate(base))))
        m = rng.choice(["jc", "f81", "k2p", "tn93", "f84"])
        yield Case("distcpus", [m, 0, 0, rng.choice(["0.1", "0.05", "0.2"]), rows_str(rows), "_", "_", "1,2,1,4,3"], True, "distcpus-huge-finite")
    for _ in range(12 if quick else 120):
        rows = rand_alignment(rng, nrows=rng.randint(4, 8))
        n = len(rows)
        m, rm, gm, alpha = model_opts(rng)
        cut = rng.randint(1, n - 2)
        r = "0,%d,%d,%d" % (cut - 1, cut, n - 1)       # disjoint ranges
        yield Case("distcpus", [m, rm, gm, alpha, rows_str(rows), "_", r, cpus], aln_nontrivial(rows), "distcpus-ranges-disjoint")
    for _ in range(8 if quick else 80):
        rows = rand_alignment(rng, nrows=rng.randint(4, 8))
        n = len(rows)
        m, rm, gm, alpha = model_opts(rng)
        a = rng.randint(0, n - 3)
        b = rng.randint(a + 1, n - 1)
        c = rng.randint(0, b - 1)
        d = rng.randint(max(c, a) + 1, n - 1)
        r = "%d,%d,%d,%d" % (a, b, c, d)
        yield Case("distcpus", [m, rm, gm, alpha, rows_str(rows), "_", r, cpus],
                   aln_nontrivial(rows), "distcpus-ranges-overlap" if ranges_overlap(r) else "distcpus-ranges")
    # ---- the producer's job list (which pairs are handed to the workers) ----------------------------
    for n in range(1, 10):      # (an empty alignment makes InitModel panic: Length() is -1; outside C08)
        yield Case("distjobs", [n, "_", 1], n >= 3, "distjobs-half")
    for _ in range(40 if quick else 400):
        n = rng.randint(2, 9)
        a, b = sorted([rng.randint(0, n - 1), rng.randint(0, n + 1)])
        c, d = sorted([rng.randint(0, n - 1), rng.randint(0, n + 1)])
        if rng.random() < 0.1:
            a, b = b + 1, a       # min > max: error
        r = "%d,%d,%d,%d" % (a, b, c, d)
        yield Case("distjobs", [n, r, rng.choice([1, 1, 4])], n >= 3,
                   "distjobs-ranges-overlap" if ranges_overlap(r) else "distjobs-ranges")
    # ---- failing model --------------------------------------------------------------------------
    nfail = 26 if quick else 200
    for i in range(nfail):
        n = rng.choice([3, 4, 5, 6, 8, 10]) if i % 6 else 16     # 16 rows = 120 pairs > channel capacity 100
        rows = rand_alignment(rng, nrows=n, ncols=rng.choice([4, 12]), plain=True)
        npairs = n * (n - 1) // 2
        c = rng.choice(CPUS)
        k = rng.choice([0, npairs - 1, rng.randint(0, npairs - 1), rng.randint(0, npairs - 1)])
        mode = rng.choice(["pair", "pair", "call", "pairfrom", "pairfrom"])
        yield Case("distfail", [rows_str(rows), c, k, mode, WATCH_MS], c >= 2, "distfail-%s" % mode)
    # every worker fails early while far more than the channel capacity (100 pairs) is still to be sent: the producer
    # must still be drained and the call must return
    for n, c, k in ([(16, 1, 0), (20, 1, 1), (20, 4, 5), (24, 8, 3), (40, 8, 100)] if quick else
                    [(n, c, k) for n in (16, 20, 24, 40) for c in (1, 2, 4, 8, 16) for k in (0, 1, 5, 50)]):
        rows = rand_alignment(rng, nrows=n, ncols=8, plain=True)
        yield Case("distfail", [rows_str(rows), c, k, "call", WATCH_MS], True, "distfail-all-workers-early")
        if c >= 2:
            # every evaluation from the k-th pair on fails: several workers hold an error at the same time
            yield Case("distfail", [rows_str(rows), c, k, "pairfrom", WATCH_MS], True, "distfail-several-workers-fail")
    for _ in range(4 if quick else 20):
        n = rng.choice([3, 5])
        rows = rand_alignment(rng, nrows=n, ncols=6, plain=True)
        yield Case("distfail", [rows_str(rows), rng.choice(CPUS), n * (n - 1) // 2 + rng.randint(0, 3), "pair", WATCH_MS],
                   False, "distfail-never")
    # ---- metamorphic pairs (first half of C08) --------------------------------------------------
    for c in gen_meta_cases(rng, 40 if quick else 400):
        yield c
    for _ in range(1 if quick else 10):
        for c in gen_meta_grid(rng):
            yield c


def revcomp_row(s):
    return "".join(COMP[ch] for ch in reversed(s))


def gen_meta_cases(rng, per_kind):
    for _ in range(per_kind):
        rows = rand_alignment(rng)
        L = len(rows[0][1])
        nt = aln_nontrivial(rows)
        cp = rng.choice([1, 2, 8])
        # column permutation
        m, rm, gm, alpha = model_opts(rng, exempt_internal=True)
        p = list(range(L))
        rng.shuffle(p)
        rows2 = [(n, "".join(s[i] for i in p)) for n, s in rows]
        yield Case("distpair", ["same", "_", m, rm, gm, alpha, rows_str(rows), "_", rows_str(rows2), "_", cp], nt, "meta-colperm")
        # replication k  (raw distances scale by k)
        m, rm, gm, alpha = model_opts(rng, exempt_internal=True)
        k = rng.randint(1, 4)
        rows2 = [(n, s * k) for n, s in rows]
        kind, par = ("scale", k) if m == "rawdist" else ("same", "_")
        yield Case("distpair", [kind, par, m, rm, gm, alpha, rows_str(rows), "_", rows_str(rows2), "_", cp], nt, "meta-replicate")
        # integer weight k instead of replication
        m, rm, gm, alpha = model_opts(rng, exempt_internal=True)
        k = rng.randint(1, 4)
        rows2 = [(n, s * k) for n, s in rows]
        yield Case("distpair", ["same", "_", m, rm, gm, alpha, rows_str(rows2), "_", rows_str(rows),
                                weights_str([str(k)] * L), cp], nt, "meta-weight-k")
        # unit weights passed explicitly
        m, rm, gm, alpha = model_opts(rng)
        yield Case("distpair", ["same", "_", m, rm, gm, alpha, rows_str(rows), "_", rows_str(rows),
                                weights_str(["1"] * L), cp], nt, "meta-unit-weights")
        # reverse complement of the whole alignment
        m, rm, gm, alpha = model_opts(rng)
        rows2 = [(n, revcomp_row(s)) for n, s in rows]
        yield Case("distpair", ["same", "_", m, rm, gm, alpha, rows_str(rows), "_", rows_str(rows2), "_", cp], nt, "meta-revcomp")
        # row permutation permutes the matrix
        m, rm, gm, alpha = model_opts(rng)
        q = list(range(len(rows)))
        rng.shuffle(q)
        rows2 = [rows[i] for i in q]
        yield Case("distpair", ["rowperm", ",".join(map(str, q)), m, rm, gm, alpha, rows_str(rows), "_", rows_str(rows2), "_", cp],
                   nt, "meta-rowperm")


def gen_meta_grid(rng):
    """every model x {all sites, gap sites removed}: integer weight k (not 1) against k-fold replication, and a
    non-constant integer weight vector against the matching replication, on an alignment that has differences in the
    gap-free columns and a few gapped columns (a weighted numerator over an unweighted denominator shows only here)"""
    for m in MODELS:
        for rm in (0, 1):
            n, L = rng.randint(3, 5), rng.choice([12, 20, 30])
            base = [rng.choice("ACGT") for _ in range(L)]
            rows = []
            for i in range(n):
                r = [c if rng.random() < 0.7 else rng.choice("ACGT") for c in base]
                for j in rng.sample(range(L), 2):
                    if rng.random() < 0.5:
                        r[j] = "-"
                rows.append(("s%d" % i, "".join(r)))
            alpha = rng.choice(["0", "0", "0.5"]) if m not in ("rawdist", "pdist", "pdistamb") else "0"
            cp = rng.choice([1, 3])
            k = rng.choice([2, 3])
            rep = [(nm, sq * k) for nm, sq in rows]
            kind, par = ("same", "_")
            yield Case("distpair", [kind, par, m, rm, 0, alpha, rows_str(rep), "_", rows_str(rows), weights_str([str(k)] * L), cp],
                       True, "meta-grid-weight-k")
            ws = [rng.choice([1, 1, 2, 3]) for _ in range(L)]
            rep2 = [(nm, "".join(ch * w for ch, w in zip(sq, ws))) for nm, sq in rows]
            yield Case("distpair", ["same", "_", m, rm, 0, alpha, rows_str(rep2), "_", rows_str(rows), weights_str([str(w) for w in ws]), cp],
                       True, "meta-grid-weights")


def accepts(c):
    """does the implementation's answer agree with what the Lean side claims?"""
    if c.model == "na":
        return True
    if c.op.startswith("cli") and c.model in ("unmodelled", "bad-args"):
        return True       # a command line the expectations do not cover: nothing is claimed
    if c.op == "distfail":
        return c.impl in (c.model or "").split("|")
    return c.model == c.impl


def pool_race_cases(cases, tier):
    """which cases are re-run under the race detector: the thread-count cases (a subset in the quick tier) and the
    error path (each failing-model case waits for the 10 s watchdog on the unchanged tree)"""
    cs = [c for c in cases if c.op == "distcpus"]
    fails = [c for c in cases if c.op == "distfail" and c.tag != "distfail-never" and c.args[1] != "1"]
    if tier == "quick":
        return [c for c in cs if c.tag != "distcpus"] + [c for c in cs if c.tag == "distcpus"][:14] + fails[:4]
    return cs + fails[:40]


def classify_pool_case(c):
    """known-finding id for a failing pool case of C08"""
    if c.op == "distfail" and c.impl == "hang" and "hang" in (c.model or "").split("|"):
        # the pool model with the *extracted* discipline (error return skips wg.Done) predicts exactly this
        return "distmatrix-error-return-skips-done"
    if c.op == "distjobs" and c.verdict == "fail:two-jobs-own-the-same-cells" and ranges_overlap(c.args[1]) \
            and c.model == c.impl:
        # (i,j) and (j,i) are both produced (Props.C08.rangeJobs_cells_overlap): the static side of the race below
        return "distmatrix-overlapping-ranges-race"
    if c.op == "distpair" and (c.verdict or "").endswith(":zero-vs-2max"):
        # the relation fails only where one presentation yields (numerically) 0 and the other the 2*max substitute
        return "zero-distance-rounds-negative-becomes-2max"
    return None


# ------------------------------------------------------------------------------------------------
# facts (T3) through the oracle
# ------------------------------------------------------------------------------------------------

def oracle_query(lines):
    orc = common.oracle_path()
    inp = "".join("%d\t-\t%s\n" % (i, l) for i, l in enumerate(lines))
    p = subprocess.run([orc], input=inp.encode(), stdout=subprocess.PIPE, stderr=subprocess.PIPE)
    out = {}
    for ln in p.stdout.decode("utf-8", "replace").split("\n"):
        f = ln.split("\t")
        if len(f) == 3:
            out[int(f[0])] = f[1]
    return [out.get(i, "oracle-crash") for i in range(len(lines))]


def facts_report(which):
    """{'raceFree': (bool, detail), 'instanceOfPool': (bool, detail), 'discipline': str, 'raceLines': set, ...}"""
    q = ["facts\t%s\traceFree" % which, "facts\t%s\tinstanceOfPool" % which, "facts\t%s\tdiscipline" % which,
         "facts\t%s\traceLines" % which, "facts\t%s\tinputsUnmodified" % which, "facts\t%s\torfSearch" % which,
         "facts\t%s\townCellLines" % which]
    r = oracle_query(q)

    def b(s):
        f = s.split(" ", 1)
        return f[0] == "1", (f[1] if len(f) > 1 else "")
    pairs = set()
    for pr in r[3].split(";"):
        m = re.match(r"[^:]+:\w+:([^@]+)@(\d+)(?:\[[^\]]*\])?~[^:]+:\w+:([^@]+)@(\d+)", pr)
        if m:
            pairs.add((m.group(1), frozenset([int(m.group(2)), int(m.group(4))])))
    own = set(int(x) for x in r[6].split(",") if x.isdigit())
    return {"raceFree": b(r[0]), "instanceOfPool": b(r[1]), "discipline": r[2], "racePairs": pairs,
            "inputsUnmodified": b(r[4]), "orfSearch": r[5], "ownCellLines": own, "raw": r}


def kernel_check_facts(pid, claims):
    """`claims` = [(lean term : Bool, value)].  Each is stated as `example : <term> = <value> := by decide` and checked
    by Lean's kernel (no native evaluation): the oracle's answer about the regenerated facts is thereby a checked
    `decide` statement, in whichever direction it falls.  Returns (ok, output)."""
    path = os.path.join(common.BUILD, "FactsCheck_%s.lean" % pid)
    src = ["import Gv.Gen.Facts", "open Gv.Model.Facts Gv.Gen.Facts", ""]
    for term, val in claims:
        src.append("set_option maxRecDepth 100000 in")
        src.append("example : %s = %s := by decide" % (term, "true" if val else "false"))
    open(path, "w").write("\n".join(src) + "\n")
    with common.Lock():
        rc, out = common.run(["lake", "env", "lean", path], cwd=common.LEAN, timeout=600)
    return rc == 0, out[-1500:]


FACT_TERMS = {"raceFree": "raceFree %s", "instanceOfPool": "instanceOfPool %s",
              "inputsUnmodified": "inputsUnmodified phaseMutCalls"}


# ------------------------------------------------------------------------------------------------
# race detector runs
# ------------------------------------------------------------------------------------------------

ACCESS_RE = re.compile(r"^(Write|Read|Previous write|Previous read|Atomic \w+|Previous atomic \w+) at 0x[0-9a-f]+ by (.*):$")


def parse_race_reports(stderr, repo):
    """-> list of {'accesses': [(kind, func, file, line), (…)], 'text': str}"""
    reports = []
    for block in stderr.split("=================="):
        if "WARNING: DATA RACE" not in block:
            continue
        accs = []
        lines = block.split("\n")
        i = 0
        while i < len(lines):
            m = ACCESS_RE.match(lines[i].strip())
            if m:
                kind = m.group(1).replace("Previous ", "").lower()
                # first frame inside the repository under test
                j = i + 1
                found = None
                while j + 1 < len(lines) and lines[j].startswith("  ") and lines[j].strip():
                    fn = lines[j].strip()
                    loc = lines[j + 1].strip()
                    mm = re.match(r"(\S+?):(\d+)(?: \+0x[0-9a-f]+)?$", loc)
                    if mm and mm.group(1).startswith(repo.rstrip("/") + "/"):
                        found = (kind, fn, os.path.relpath(mm.group(1), repo), int(mm.group(2)))
                        break
                    j += 2
                accs.append(found or (kind, "?", "?", 0))
                i = j
            i += 1
        reports.append({"accesses": accs[:2], "text": block.strip()[:2500]})
    return reports


def run_race_checks(binpath, cases, gomaxprocs=None, timeout_s=60.0, repeats=1):
    """run every case alone in a fresh -race process for each GOMAXPROCS value; returns
    (runs, findings) where findings = list of {'case', 'gomaxprocs', 'report', 'result'}"""
    gomaxprocs = gomaxprocs or sorted({1, 2, 4, common.NCPU})
    jobs = [(c, g) for c in cases for g in gomaxprocs for _ in range(repeats)]
    jobs.sort(key=lambda j: 0 if j[0].op == "distfail" else 1)      # the ones that may wait for a watchdog first

    def one(job):
        c, g = job
        env = common.goenv()
        env["GOMAXPROCS"] = str(g)
        env["GORACE"] = "halt_on_error=0 exitcode=66"
        try:
            p = subprocess.run([binpath], input=("0\t%s\n" % c.line()).encode(), stdout=subprocess.PIPE,
                               stderr=subprocess.PIPE, env=env, timeout=timeout_s)
            out = p.stdout.decode("utf-8", "replace").strip().split("\t", 1)
            res = out[1] if len(out) == 2 else "exit:%d" % p.returncode
            reps = parse_race_reports(p.stderr.decode("utf-8", "replace"), common.REPO)
            return c, g, res, reps, p.returncode
        except subprocess.TimeoutExpired:
            return c, g, "hang", [], -1
    findings = []
    runs = 0
    with ThreadPoolExecutor(max(2, common.NCPU)) as ex:
        for c, g, res, reps, rc in ex.map(one, jobs):
            runs += 1
            for r in reps:
                findings.append({"case": c, "gomaxprocs": g, "report": r, "result": res})
            if rc not in (0, 66) and not reps:
                findings.append({"case": c, "gomaxprocs": g, "report": {"accesses": [], "text": "process exit %s" % rc}, "result": res})
    return runs, findings


FACTS_FILE = {"distance/dna/distance.go": "distMatrix", "align/phaser.go": "phase"}


def explain_race(f, facts):
    """-> (explained, finding_id or None, what).  A runtime report is *explained* when both accesses lie on lines
    of a racy pair predicted by Facts.raceFree (then it is the runtime evidence of that broken obligation)."""
    accs = f["report"]["accesses"]
    if len(accs) < 2 or any(a[2] == "?" for a in accs):
        return False, None, "unparsed"
    files = {a[2] for a in accs}
    if len(files) != 1:
        return False, None, "two files"
    which = FACTS_FILE.get(files.pop())
    if which is None or which not in facts:
        return False, None, "outside the analysed functions"
    lines = frozenset(a[3] for a in accs)
    for var, pl in facts[which]["racePairs"]:
        if pl == lines:
            fid = {"distMatrix": "distmatrix-err-race", "phase": "phase-err-race"}[which] if var == "err" else None
            return True, fid, "%s:%s" % (which, var)
    if which == "distMatrix" and lines <= facts[which]["ownCellLines"]:
        c = f["case"]
        if c.op == "distcpus" and ranges_overlap(c.args[6]):
            return True, "distmatrix-overlapping-ranges-race", "distMatrix:outmatrix(own-cell, overlapping ranges)"
    return False, None, "not predicted by the facts"


# ------------------------------------------------------------------------------------------------
# the check flow
# ------------------------------------------------------------------------------------------------

def pool_check(mod, tier, seed):
    """custom check for properties whose obligations include the T3 concurrency facts.

    `mod` provides: ID, LEAN_MODULES, REQUIRED_THEOREMS, RULE, gen(rng, tier), accepts(case), classify(case),
    FACTS = list of (which, predicate) obligations, race_cases(cases, tier) -> cases to re-run under -race,
    classify_obligation(name) -> finding id for a false facts obligation (or None)."""
    res = common.Result(mod.ID, tier, seed)
    known = common.load_known()
    rng = random.Random(seed * 1000003 + common.hash_id(mod.ID))
    timeout = getattr(mod, "TIMEOUT", TIMEOUT)

    with common.Lock():
        ok, out, _ = common.regenerate()
        res.add_obligation("T1/T3:regenerate-from-source", ok, "tie", "" if ok else out[-500:])
        gen_ok = ok
        common.set_oracle(mod.ID)
        bok, broken, bout, _ = common.lake_build(mod.LEAN_MODULES + [common.ORACLE])
        oracle_ok = os.path.exists(common.oracle_path()) and not any(
            b["file"].startswith(("Gv/Model", "Gv/Oracle", "Gv/Gen", "Gv/Basic", "Gv/Spec", "Main")) for b in broken)
        if not bok and oracle_ok:
            ook, _, _, _ = common.lake_build([common.ORACLE])
            oracle_ok = ook
        ths = []
        if bok:
            rc, ths, aout = common.audit(mod.LEAN_MODULES)
            if rc not in (0, 1) or not ths:
                res.add_obligation("axiom-audit-ran", False, "audit", aout[-500:])
        toks = common.forbidden_token_scan()
        res.add_obligation("no-forbidden-tokens(sorry/admit/axiom/native_decide/bv_decide/...)", not toks, "audit", "; ".join(toks))
        lc_fail = None
        if bok and tier == "thorough":
            lok, lout = common.leancheck(mod.LEAN_MODULES)
            res.add_obligation("leanchecker re-checks the compiled property modules", lok, "audit", "" if lok else lout[-800:])
            if not lok:
                lc_fail = "leanchecker rejected a compiled module: " + lout[-300:]
        hok, hout, _, binpath = common.build_harness()
        res.add_obligation("harness-builds-against-working-tree", hok, "tie", "" if hok else hout[-800:])
        if getattr(mod, "NEEDS_BINARY", False):
            cok, cout, _, _ = common.build_binary()
            res.add_obligation("goalign-binary-builds-from-working-tree", cok, "tie", "" if cok else cout[-800:])
            hok = hok and cok
            hout = hout + cout
        rok, rout, rt, racebin = (False, "", 0, None)
        if hok:
            rok, rout, rt, racebin = common.build_harness(race=True)
            res.add_obligation("race-harness-builds (go build -race)", rok, "tie", "" if rok else rout[-800:])

    names = {t["name"] for t in ths}
    for t in ths:
        res.add_obligation("theorem:" + t["name"], t["ok"], "theorem", "axioms=" + ",".join(t["axioms"]))
    broken_names = []
    if not bok:
        for b in broken:
            nm = b["theorem"] or b["file"]
            broken_names.append("%s (%s:%d: %s)" % (nm, b["file"], b["line"], b["msg"]))
            res.add_obligation("theorem:" + str(nm), False, "theorem", "%s:%d %s" % (b["file"], b["line"], b["msg"]))
    else:
        for n in [n for n in getattr(mod, "REQUIRED_THEOREMS", []) if n not in names]:
            broken_names.append(n + " (required theorem is missing from the compiled module)")
            res.add_obligation("theorem:" + n, False, "theorem", "missing")
    for t in [t for t in ths if not t["ok"]]:
        broken_names.append("%s (forbidden axioms %s)" % (t["name"], t["axioms"]))
    if toks:
        broken_names.append("forbidden tokens: " + "; ".join(toks))
    if lc_fail:
        broken_names.append(lc_fail)
    if not gen_ok:
        broken_names.append("T1/T3 regeneration: " + out[-300:])

    if not hok or not rok:
        o = hout if not hok else rout
        p = common.write_replay(mod.ID, "harness-build", {"obligation": "harness builds against the working tree", "output": o[-3000:]})
        res.violations.append(("harness does not build against the working tree", o[-200:], p, True))
        return common.finish(res, mod, [], 0, 0, "harness build failed")
    if not oracle_ok:
        # keep searching with the last known good copy of the failed tables (see common.restore_good_gen)
        with common.Lock():
            stale = common.restore_good_gen()
            if stale:
                ook, _, _, _ = common.lake_build([common.ORACLE])
                oracle_ok = ook and os.path.exists(common.oracle_path())
                if oracle_ok:
                    res.add_obligation("oracle rebuilt on the last known good copy of " + ",".join(stale) +
                                       " to search for a failing input (model side stale)", False, "tie", "")
    if not oracle_ok:
        p = common.write_replay(mod.ID, "model-build", {"obligation": "model/oracle build", "broken": broken, "output": bout[-3000:]})
        res.violations.append(("model, regenerated tables or facts no longer compile: " + "; ".join(broken_names)[:300], "", p, True))
        return common.finish(res, mod, [], 0, 0, "oracle build failed")

    # ---- facts obligations (decidable checks over the regenerated facts) -------------------------
    facts = {}
    for which in sorted({w for w, _ in mod.FACTS}):
        facts[which] = facts_report(which)
    false_facts = []
    claims = [((FACT_TERMS[pred] % which) if "%s" in FACT_TERMS[pred] else FACT_TERMS[pred], facts[which][pred][0])
              for which, pred in mod.FACTS]
    kok, kout = kernel_check_facts(mod.ID, claims)
    res.add_obligation("facts values kernel-checked (`example : <check> Gen.Facts.… = <value> := by decide`)", kok,
                       "facts", "" if kok else kout)
    if not kok:
        p = common.write_replay(mod.ID, "facts-kernel", {"property": mod.ID, "claims": claims, "lean_output": kout})
        res.violations.append(("oracle and kernel disagree about the facts checks", "", p, True))
    for which, pred in mod.FACTS:
        okp, detail = facts[which][pred]
        name = "facts:%s(Gen.Facts.%s)" % (pred, which if pred != "inputsUnmodified" else "phaseMutCalls")
        res.add_obligation(name, okp, "facts", detail[:600])
        if not okp:
            false_facts.append((which, pred, name, detail))

    # ---- cases: implementation + oracle -------------------------------------------------------------
    cases = common.corpus_cases(mod) + list(mod.gen(rng, tier))
    seen, uniq = set(), []
    for c in cases:
        if c.key() not in seen:
            seen.add(c.key())
            uniq.append(c)
    cases = uniq
    t_impl = time.time()
    common.run_impl(binpath, cases, timeout, nproc=common.NCPU)
    common.run_oracle(cases)
    t_impl = time.time() - t_impl

    def classify(cs):
        failing, mism = [], []
        for c in cs:
            v = c.verdict or "na"
            if v.startswith("fail"):
                fid = common.classify_known(mod, c, known)
                if fid:
                    e = known[(mod.ID, fid)]
                    res.known[fid] = (e["what"], res.known.get(fid, ("", 0))[1] + 1)
                    if not mod.accepts(c):
                        mism.append(c)
                else:
                    failing.append(c)
            elif not mod.accepts(c):
                mism.append(c)
        return failing, mism
    failing, mismatching = classify(cases)

    # ---- the same cases under other GOMAXPROCS values: answers must be identical -------------------------
    det_ops = getattr(mod, "DETERMINISTIC_OPS", ("distcpus", "distjobs", "phase"))
    det = [c for c in cases if c.op in det_ops]
    gmp_diffs = []
    for g in (1, 3):
        env = common.goenv()
        env["GOMAXPROCS"] = str(g)
        again = [Case(c.op, c.args, c.nontrivial, c.tag) for c in det]
        common.run_impl(binpath, again, timeout, nproc=common.NCPU, env=env)
        for c, c2 in zip(det, again):
            if c.impl != c2.impl and "ERR" not in (c.impl or "") and "ERR" not in (c2.impl or ""):
                gmp_diffs.append((g, c, c2.impl))
    res.add_obligation("answers identical under GOMAXPROCS 1 / 3 / default on %d cases" % len(det), not gmp_diffs,
                       "runtime", "" if not gmp_diffs else "GOMAXPROCS=%d: %s" % (gmp_diffs[0][0], gmp_diffs[0][1].to_json()))
    if gmp_diffs:
        g, c, other = gmp_diffs[0]
        p = common.write_replay(mod.ID, "gomaxprocs", {"property": mod.ID, "case": c.to_json(), "gomaxprocs": g,
                                                       "impl_under_gomaxprocs": other})
        res.violations.append(("answer depends on GOMAXPROCS (%d) on `%s`" % (g, c.line()[:120].replace("\t", " ")), "", p, False))

    # ---- runtime evidence: race detector ------------------------------------------------------------------
    race_cases = mod.race_cases(cases, tier)
    gmp = sorted({1, 2, 4, common.NCPU})
    t_race = time.time()
    runs, findings = run_race_checks(racebin, race_cases, gmp, timeout_s=max(60.0, timeout * 2))
    t_race = time.time() - t_race
    unexplained, explained = [], {}
    for f in findings:
        okx, fid, what = explain_race(f, facts)
        if okx:
            explained.setdefault((fid, what), []).append(f)
        else:
            unexplained.append((f, what))

    n = 0

    def replay_of_race(f, what, note):
        c = f["case"]
        return {"property": mod.ID, "seed": seed, "kind": "race", "case": c.to_json(), "gomaxprocs": f["gomaxprocs"],
                "what": what, "note": note, "accesses": f["report"]["accesses"], "report": f["report"]["text"],
                "replay": "./check %s --replay <this file>   (re-runs the case under the -race build)" % mod.ID}

    # explained races: evidence for a false raceFree obligation -> known finding or violation
    for (fid, what), fs in sorted(explained.items(), key=lambda kv: str(kv[0])):
        f = min(fs, key=lambda x: len(x["case"].line()))
        if fid and (mod.ID, fid) in known:
            e = known[(mod.ID, fid)]
            res.known[fid] = (e["what"], res.known.get(fid, ("", 0))[1] + len(fs))
            common.write_replay(mod.ID, "known-" + fid, replay_of_race(f, what, "known finding " + fid))
        else:
            n += 1
            p = common.write_replay(mod.ID, "race-%d" % n, replay_of_race(f, what, "predicted by Facts.raceFree, confirmed by the race detector"))
            res.violations.append(("data race (%s) on `%s` GOMAXPROCS=%d" % (what, f["case"].line()[:120].replace("\t", " "), f["gomaxprocs"]), "", p, False))
    seen_un = set()
    for f, what in unexplained:
        sig = tuple(sorted((a[2], a[3]) for a in f["report"]["accesses"]))
        if sig in seen_un:
            continue
        seen_un.add(sig)
        n += 1
        p = common.write_replay(mod.ID, "race-%d" % n, replay_of_race(f, what, "race detector report that the facts do not predict"))
        res.violations.append(("data race not predicted by the facts (%s) at %s on `%s`" % (
            what, sig, f["case"].line()[:100].replace("\t", " ")), "", p, False))
        if n >= 6:
            break
    res.add_obligation("race-detector: %d runs of %d cases x GOMAXPROCS %s, every report explained by a listed finding" % (
        runs, len(race_cases), gmp), not unexplained and not any(
            not (fid and (mod.ID, fid) in known) for (fid, _w) in explained), "runtime",
        "%d reports (%d unexplained)" % (len(findings), len(unexplained)))

    # false facts obligations need a failing input (DESIGN §3.4)
    for which, pred, name, detail in false_facts:
        evid = None
        if pred == "raceFree":
            evid = [k for k in explained if k[1].startswith(which + ":")]
        elif pred == "instanceOfPool":
            evid = [c for c in cases if c.op == "distfail" and (c.verdict or "").startswith("fail")] if which == "distMatrix" else []
        elif pred == "inputsUnmodified":
            evid = [c for c in cases if "inputs-modified" in (c.verdict or "")]
        if not evid:
            p = common.write_replay(mod.ID, "facts-" + pred + "-" + which, {
                "property": mod.ID, "obligation": name, "detail": detail,
                "note": "the decidable check over the regenerated facts is false and neither the race build nor the "
                        "watchdog runs produced a failing input", "searched": {"race_runs": runs, "cases": len(cases)}})
            res.violations.append(("facts obligation broken: %s [%s]" % (name, detail[:160]), "", p, True))

    # failing property predicates on ordinary cases
    reported = set()
    for c in failing:
        key = (c.op, (c.verdict or "").split(":")[1] if ":" in (c.verdict or "") else c.verdict)
        if key in reported:
            continue
        reported.add(key)
        small = c
        if hasattr(mod, "shrink"):
            small = common.shrink_case(mod, binpath, c, lambda x, v=c.verdict: x.verdict == v and
                                       common.classify_known(mod, x, known) is None)
        n += 1
        p = common.write_replay(mod.ID, n, {"property": mod.ID, "seed": seed, "case": small.to_json(), "original": c.to_json(),
                                            "replay": "./check %s --replay <this file>" % mod.ID})
        res.violations.append(("%s on `%s`" % (small.verdict, small.line()[:160].replace("\t", " ")), "", p, False))
        if n >= 10:
            break

    corr_ok = not mismatching
    res.add_obligation("T4:correspondence model~implementation on %d cases" % len(cases), corr_ok, "tie",
                       "" if corr_ok else "%d mismatches, e.g. %s" % (len(mismatching), mismatching[0].to_json()))
    if mismatching and not failing:
        c = mismatching[0]
        p = common.write_replay(mod.ID, "correspondence", {
            "property": mod.ID, "obligation": "T4 correspondence (model ~ implementation)",
            "note": "model and implementation disagree; the property predicate held on every explored input",
            "case": c.to_json(), "mismatches": len(mismatching)})
        res.violations.append(("correspondence broken on `%s`: impl=%s model=%s" % (
            c.line()[:120].replace("\t", " "), str(c.impl)[:80], str(c.model)[:80]), "", p, True))
    if broken_names and not failing:
        p = common.write_replay(mod.ID, "proof", {"property": mod.ID, "obligation": "proof obligations no longer check",
                                                  "broken": broken_names, "lake_output": bout[-4000:]})
        res.violations.append(("proof obligation broken: " + "; ".join(broken_names)[:300], "", p, True))

    nontriv = len({c.key() for c in cases if c.nontrivial})
    samples = [c.to_json() for c in cases[:: max(1, len(cases) // 6)]][:6]
    for s in samples:
        for k in ("impl", "model"):
            if s.get(k) and len(s[k]) > 400:
                s[k] = s[k][:400] + "…"
        s["args"] = [a if len(a) <= 300 else a[:300] + "…" for a in s["args"]]
    dist, outcomes = {}, {}
    for c in cases:
        dist[c.tag or c.op] = dist.get(c.tag or c.op, 0) + 1
        k = c.op + ":" + ((c.verdict or "na").split(":")[0])
        outcomes[k] = outcomes.get(k, 0) + 1
    return common.finish(res, mod, samples, len(cases) + runs, nontriv, mod.RULE, {
        "generator_distribution": dist, "verdicts_by_op": outcomes,
        "theorems": [{"name": t["name"], "axioms": t["axioms"]} for t in ths],
        "facts": {w: {"raceFree": facts[w]["raceFree"], "instanceOfPool": facts[w]["instanceOfPool"],
                      "discipline": facts[w]["discipline"]} for w in facts},
        "race_runs": runs, "race_cases": len(race_cases), "race_reports": len(findings),
        "race_reports_unexplained": len(unexplained), "gomaxprocs": gmp, "cpus": CPUS,
        "seconds": {"cases": round(t_impl, 1), "race": round(t_race, 1), "race_build": round(rt, 1)}})


def pool_replay(mod, path):
    d = json.load(open(path))
    if "case" not in d:
        print(json.dumps(d, indent=1)[:6000])
        return 0
    c = Case(d["case"]["op"], d["case"]["args"])
    with common.Lock():
        common.regenerate()
        common.set_oracle(mod.ID)
        common.lake_build([common.ORACLE])
        ok, out, _, binpath = common.build_harness()
        if d.get("kind") == "race":
            ok, out, _, racebin = common.build_harness(race=True)
    if d.get("kind") == "race":
        runs, findings = run_race_checks(racebin, [c], [int(d.get("gomaxprocs", 2))], repeats=5)
        print("op      :", c.line())
        print("runs    :", runs, "race reports:", len(findings))
        for f in findings[:2]:
            print(f["report"]["text"][:3000])
        return 1 if findings else 0
    common.evaluate(binpath, [c], timeout_s=getattr(mod, "TIMEOUT", TIMEOUT))
    print("op      :", c.line())
    print("impl    :", c.impl)
    print("model   :", c.model)
    print("verdict :", c.verdict)
    return 1 if (c.verdict or "").startswith("fail") or not mod.accepts(c) else 0
