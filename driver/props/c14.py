"""C14 — column statistics and consensus match definitions and are deterministic."""
import math
import struct
from driver.common import Case

ID = "C14"
NEEDS_BINARY = True
LEAN_MODULES = ["Gv.Props.C14", "Gv.Props.C14Pssm"]
REQUIRED_THEOREMS = ["Gv.Props.C14." + n for n in [
    "maxLoop_eq_foldl", "maxLoop_perm", "maxLoop_is_argmax", "charStatsSite_error_iff", "entropy_error_iff",
    "charStatsSeq_error_iff", "iupacToInt_matches_sets", "equalOrCompatible_spec", "equalOrCompatible_error",
    # every counting statistic (Model/Stats.lean: the Go loops) equals its naive definition (Spec/Stats.lean), all inputs
    "countsBy_eq_countTable", "charStats_eq_spec", "uniqueCharacters_eq_spec", "charStatsSeq_eq_spec",
    "charStatsSite_eq_spec", "charStatsSite_row_order_independent", "nbVariableSites_eq_spec",
    "informativeSites_eq_spec", "avgAllelesCounts_eq_spec", "countDifferences_empty", "countDifferences_all_eq_spec",
    "countDifferences_counts_eq_spec", "numGapsUnique_eq_spec", "numMutationsUnique_eq_spec",
    "equalOrCompatible_is_shared_base", "nt2IndexIUPAC_defined_iff", "numMutationsVsRef_eq_spec",
    "listMutationsVsRef_eq_spec", "wildcard_or_compatible_is_no_substitution", "entropy_eq_spec",
    # the codon-wise list (--aa): error exactly as the code, every entry justified by a reference codon / gap triple,
    # and model = naive definition (Spec.aaMutations) on every input (completeness)
    "standard_code_defined", "listMutationsVsRefAA_error_iff", "listMutationsVsRefAA_defined_iff_spec",
    "listMutationsVsRefAA_entries_justified", "aaEntry_reports_a_difference", "listMutationsVsRefAA_eq_spec",
    # MaxCharStats / Consensus on the actual count entries of a column (first-appearance order = some map order)
    "countUpper_eq_tally", "countUpper_keys_nodup", "countUpper_lookup", "countUpper_pos",
    "maxCharSite_order_independent", "maxCharSite_is_argmax",
    "countProfile_panic_iff", "countProfile_eq_spec", "profileCount_eq_spec", "profileCountsAt_error_iff",
    # the counter loops with a count profile (three slices: unique / new / both) = the naive recounts, all inputs
    "numGapsUniqueProf_eq_spec", "numMutationsUniqueProf_eq_spec", "numGapsUniqueProf_first_eq_nil",
    # Frameshifts / Stops (Model/FrameStats.lean): panic / error conditions, shape, soundness of the coordinates
    "frameshifts_panic_iff", "frameshifts_shape", "frameshiftsRow_bounds", "stops_err_iff", "stops_panic_iff"]] + [
    # Pssm over the reals (Model/Pssm.lean, generic in the numeric type; Mathlib-importing module)
    "Gv.Props.C14Pssm." + n for n in [
    "pssm_no_panic", "pssm_empty_is_error", "pssm_err_iff", "pssm_err_iff_all", "pssm_shape", "pssm_counts", "pssm_freq", "pssm_freq_column_sum",
    "pssm_freq_column_sums_to_one", "pssm_freq_column_sum_one_iff", "pssm_freq_column_with_gap_sums_below_one",
    "pssm_unif", "pssm_data", "pssm_logo", "pssm_log"]]
LEVEL_TEXT = ("Lean theorems: MaxCharStats' selection loop returns the same result for EVERY iteration order of the count entries "
              "(Go map order = arbitrary permutation) and equals the naive argmax with the smallest-byte tie rule, also stated on the actual "
              "count entries of a column (distinct keys, naive counts, positive); every counting "
              "statistic's model (the Go loops with their accumulators, early exits and counter slices: CharStats, UniqueCharacters, "
              "CharStatsSeq/Site, NbVariableSites, InformativeSites, the two counters of AvgAllelesPerSite, CountDifferences, unique "
              "gaps / mutations per sequence, number and list of mutations vs a reference incl. IUPAC compatibility on base sets, and the "
              "codon-wise list --aa: listMutationsVsRefAA_eq_spec) is "
              "proved equal to its naive definition in Spec/Stats.lean for ALL inputs, index errors exactly outside [0,n) / [0,L); "
              "the same for the three counter slices (unique / new / both) of the unique gap / mutation counters with a count "
              "profile (length-check error, index panic and the naive recounts: numGapsUniqueProf_eq_spec, "
              "numMutationsUniqueProf_eq_spec); Pssm is modelled stage by stage, generic in the numeric type, and over the reals every "
              "entry is proved to be what the definition says on the naive counts: plain counts (+ pseudo-count), frequency "
              "(count + pseudo) / (N + K pseudo) whose columns sum to 1 exactly when every row holds an alphabet character, uniform, "
              "data and logo normalisations in closed form, log = log2 of the entry, error / panic conditions; "
              "tied to /repo by differential correspondence where every call is repeated (200x for map-ordered code) inside one "
              "process and nondeterminism, site indices in [-1, L] and the naive definitions are checked on the implementation's output.")
LEVEL_NOTE = ("Trusted: Lean kernel; harness/oracle/driver. Float-valued statistics are compared by exact NaN/Inf class and relative "
              "tolerance (entropy, alleles per site: 1e-12 by the driver; PSSM: 1e-9 by the oracle, which echoes the implementation's "
              "text when it agrees): math.Log rounding is not modelled.")
TECHNIQUE = "Lean 4 proof (order-independence for all permutations, list induction) + differential correspondence with repeated calls"
RULE = ("alignments of 1..6 rows x 1..6 columns over small alphabets with ties for the most frequent character, all-gap and all-N "
        "columns, mixed case, specials; all site indices in [-1, L]; both ignore options; every map-ordered call repeated 200 "
        "times; non-trivial = a column with a tie or a boundary index; Frameshifts / Stops: reference / row pairs (and further rows) with "
        "gap runs of every length 0..7 in either row at the start, inside, adjacent and at the end, stop codons of the three genetic "
        "codes in and out of frame, lower case, U, IUPAC codes, unknown codes, no / one row")
PARTIAL = ["Frameshifts / Stops (the statistics goalign phasent logs; Model/FrameStats.lean mirrors the two loops, Spec/FrameStats.lean "
           "states the documented meaning with prefix counts: longest dephased part between two in-phase points, first stop codon "
           "of the residues of the row / of its complete part): proved are the panic / error conditions, the shape and the soundness "
           "of the reported interval (zero value or more than one residue, End within the residues of the row); model = documented "
           "meaning is NOT proved: the oracle evaluates Spec/FrameStats on every answer of the implementation (strata frameshifts*, "
           "stops*). Two deviations of Stops from its documentation are kept out of the generator (candidate defects, DESIGN 11.4): "
           "the column loop stops at Length()-2, so a first stop codon whose last base lies in the last two columns is not reported "
           "(`stops 1 r:GAAG,q:TAGT 1 0` answers -1), and `phase` / `started` are declared outside the loop over the rows, so with the "
           "option and more than two rows a later row is read from its first residue instead of its complete part",
           "Entropy: the occurrence counts, the summation order and the error/NaN cases are proved (entropy_eq_spec); the float sum itself "
           "(math.Log) is compared with tolerance 1e-12, rounding is not modelled; AvgAllelesPerSite: the two integer counters are "
           "proved, the float64 quotient is compared with tolerance",
           "Pssm: theorems are over the reals (Props/C14Pssm.lean); float rounding and the last place of math.Log are not modelled: "
           "the Float evaluation of the same model is compared with the implementation's bit patterns within relative 1e-9 "
           "(exact NaN / Inf class), and the oracle re-evaluates the naive count / frequency definition on the implementation's answer",
           "Pssm divides by the number of sequences: a frequency-normalised column that holds a gap / N / X / other symbol sums to "
           "LESS than 1 (pssm_freq_column_with_gap_sums_below_one, pssm_freq_column_sum_one_iff); a negative pseudo-count enters the "
           "denominators but is not added to the cells (model = code; theorems state it through `added`)",
           "Pssm on an alignment without sequences was a run-time panic (makeslice with length -1): repaired "
           "(proposed_fixes/c14-pssm-empty-alignment.diff: an error), the model follows the repaired code (pssm_no_panic, "
           "pssm_empty_is_error, pssm_err_iff_all); the witness `pssm 1 _ 0 0 1 1` is in corpus/C14 and in the generator "
           "(tag pssm-empty): on a tree without the guard the check fails on it with verdict fail:pssm-crash",
           "command line `compute pssm` (cmd/pssm.go, printPSSM): the table the built binary prints is the Float evaluation of the "
           "model printed with a model of strconv's '%.3f' (exact binary value, ties to even, NaN / +Inf / -Inf, signed zero): "
           "byte for byte without logarithms, and with --log / the logo a cell may be the printed form of a value within 1e-12 "
           "(relative) of the model's (last place of math.Log); pseudo-counts a float64 does not hold exactly are not decided",
           "command line `stats --per-sequences`, `stats gaps --count-profile`, `stats mutations --count-profile` "
           "(Oracle/CliStatsSeq.lean): the bytes of the built binary = the library models + a model of the count-profile file "
           "reader; not modelled (no claim): a profile header naming a character twice or a byte >= 128, counts of more than "
           "18 digits, CRLF line ends, gzip-compressed or stdin profiles",
           "the model is stated for ASCII residues: CharStats / InformativeSites index 130-entry slices with unicode.ToUpper(rune) "
           "(bytes >= 130 panic in Go; only NumMutationsUniquePerSequence models that panic explicitly)",
           "command line `diff` with --counts / --no-gaps / --reverse: the table printed from the CountDifferences model (pairs sorted, gap pairs "
           "left out with --no-gaps, one line per row but the first), ReplaceMatchChars / DiffWithFirst otherwise, byte for byte",
           "CountDifferences on an alignment without sequences and CountProfile.CountsAt(len) were run-time panics: repaired "
           "(fix: commits), the models follow the repaired code (countDifferences_empty, profileCountsAt_error_iff)"]

NT = "ACGTacgNn-R*."
AA = "ARNDXx-*KLkl"


def rows_str(rows):
    return ",".join("%s:%s" % r for r in rows) if rows else "_"


def rand_al(rng, alpha):
    sym = AA if alpha == 0 else NT
    n = rng.randint(1, 6)
    L = rng.randint(1, 6)
    k = rng.choice([2, 3, 4, len(sym)])
    sub = rng.sample(sym, k)
    rows = [("s%d" % i, "".join(rng.choice(sub) for _ in range(L))) for i in range(n)]
    if rng.random() < 0.2:
        j = rng.randrange(L)
        c = rng.choice("-N" if alpha == 1 else "-X")
        rows = [(nm, s[:j] + c + s[j + 1:]) for nm, s in rows]
    return rows, n, L


def prof_al(rng, alpha, L):
    """a second alignment for the count profile: same number of sites (1 in 8: another one), own symbols"""
    sym = AA if alpha == 0 else NT
    if rng.random() < 0.125:
        L = max(1, L + rng.choice([-1, 1]))
    k = rng.choice([2, 3, len(sym)])
    sub = rng.sample(sym, k)
    return [("p%d" % i, "".join(rng.choice(sub) for _ in range(L))) for i in range(rng.randint(1, 4))]


def _gen_core(rng, tier):
    N = 250 if tier == "quick" else 2500
    rep = 200
    for _ in range(N):
        alpha = rng.choice([0, 1, 1])
        rows, n, L = rand_al(rng, alpha)
        rs = rows_str(rows)
        ig, iN = rng.randint(0, 1), rng.randint(0, 1)
        yield Case("maxchar", [alpha, rs, ig, iN, rep], True, "maxchar")
        yield Case("consensus", [alpha, rs, ig, iN, 50], True, "consensus")
        yield Case("charstats", [alpha, rs], n > 1, "charstats")
        yield Case("charstatsseq", [alpha, rs, rng.choice([-1, 0, n - 1, n, n + 1])], True, "charstatsseq")
        for site in (-1, 0, L - 1, L):
            yield Case("charstatssite", [alpha, rs, site], True, "charstatssite")
            yield Case("entropy", [alpha, rs, site, rng.randint(0, 1), 60], True, "entropy")
        yield Case("sitecounts", [alpha, rs], n > 2, "sitecounts")
        yield Case("countdiffs", [alpha, rs], n > 1, "countdiffs")
        yield Case("uniques", [alpha, rs], n > 1, "uniques")
        a, b = rng.choice(rows)[1], rng.choice(rows)[1]
        yield Case("refmuts", [alpha, a, b], True, "refmuts")
        # a reference with runs of gaps (insertions of the query) that the query itself interrupts with gaps, opens or
        # closes with a gap; insertions at both ends
        sym = NT if alpha == 1 else AA
        Lr = rng.randint(1, 14)
        rf, q = [], []
        while len(rf) < Lr:
            run = rng.randint(1, 5)
            if rng.random() < 0.5:
                rf += ["-"] * run
                q += [rng.choice(sym) if rng.random() < 0.6 else "-" for _ in range(run)]
            else:
                for _ in range(run):
                    ch = rng.choice(sym)
                    rf.append(ch)
                    q.append(ch if rng.random() < 0.5 else rng.choice(sym + "-"))
        yield Case("refmuts", [alpha, "".join(q), "".join(rf)], "-" in rf, "refmuts-gapped-insertions")
        # count profile: a character of the alignment or another one, site in [-1, L]
        ch = rng.choice([ord(rng.choice(rng.choice(rows)[1])), ord(rng.choice(NT + AA)), rng.choice([0, 129, 130, 200])])
        yield Case("profile", [alpha, rs, ch, rng.choice([-1, 0, L - 1, L, rng.randint(0, L)])], ch < 130, "profile")
        # unique gaps / mutations with a count profile built from a second alignment (same length, sometimes not)
        yield Case("uniquesprof", [alpha, rs, rows_str(prof_al(rng, alpha, L))], n > 2, "uniquesprof")
        # Pssm: the model (Gv.Model.pssm at Float) within tolerance; repeated calls agree; the five normalisations, an
        # unknown one (error), logarithm, pseudo-counts (also negative: added to the denominators only)
        lg, ps, nm = rng.choice([(0, "0", 0), (0, "0", 1), (rng.randint(0, 1), rng.choice(["0", "1/2", "1", "1/3", "3", "-1/2"]),
                                                          rng.choice([0, 1, 1, 2, 3, 4, 4, 5, -1]))])
        yield Case("pssm", [alpha, rs, lg, ps, nm, 20], True, "pssm")
    # columns with several gaps that the profile does not have (every row's `numnew` must count them)
    for _ in range(N // 2):
        alpha = rng.choice([0, 1])
        n, L = rng.randint(3, 6), rng.randint(1, 5)
        sym = "ACG-" if alpha == 1 else "ARN-"
        rows = [("s%d" % i, "".join(rng.choice(sym + "---") for _ in range(L))) for i in range(n)]
        prows = [("p%d" % i, "".join(rng.choice(sym[:3] + ("-" if rng.random() < 0.15 else "")) for _ in range(L))) for i in range(rng.randint(1, 3))]
        yield Case("uniquesprof", [alpha, rows_str(rows), rows_str(prows)], True, "uniquesprof-gappy")
    # an alignment without sequences: CountDifferences evaluates make(.., -1) (modelled as a panic); the others return
    yield Case("countdiffs", [1, "_"], False, "countdiffs-empty")
    yield Case("uniques", [1, "_"], False, "uniques-empty")
    yield Case("sitecounts", [1, "_"], False, "sitecounts-empty")
    yield Case("charstats", [1, "_"], False, "charstats-empty")
    for nm in (0, 1, 2, 3, 4, 7):
        yield Case("pssm", [rng.choice([0, 1]), "_", rng.randint(0, 1), rng.choice(["0", "1/2"]), nm, 3], False, "pssm-empty")
    for a in range(0, 17):
        for b in range(0, 17):
            yield Case("compat", [a, b], True, "compat")
    # more rows -> more distinct probabilities -> float summation order matters
    for _ in range(N // 5):
        n = rng.randint(8, 14)
        rows = [("s%d" % i, rng.choice("ACGTRYKMN")) for i in range(n)]
        yield Case("entropy", [1, rows_str(rows), 0, 0, 300], True, "entropy-many-classes")


def _gen_aa(rng, tier):
    """codon-wise mutation list (`refmutsaa`): a reference made of codons (stop codons, IUPAC codes, lower case, U) with
    gap runs of 1..7 columns in front of, inside, between and behind them; the query repeats it with substitutions,
    residues facing the reference gaps (whole codons, or a number that is not a multiple of 3), deleted codons and
    partial deletions; lengths that are not a multiple of 3; rarely a character that is no nucleotide code, another
    alphabet, different lengths (errors)"""
    N = 120 if tier == "quick" else 4000
    codons = ["ATG", "TAA", "TAG", "TGA", "GCN", "gcr", "CTN", "YTA", "MGR", "AUG", "TTY", "RAY", "NNN", "AAA", "cgt", "TCA", "GGG", "ATH"]
    for _ in range(N):
        rf, q = [], []

        def gaprun():
            g = rng.choice([1, 2, 3, 3, 4, 5, 6, 7])
            k = rng.random()
            rf.extend("-" * g)
            if k < 0.3:
                q.extend("-" * g)
            elif k < 0.6:
                q.extend(rng.choice("ACGTacgtNR") for _ in range(g))
            else:
                q.extend(rng.choice("ACGT--") for _ in range(g))
        if rng.random() < 0.4:
            gaprun()
        for _c in range(rng.randint(0, 6)):
            cd = rng.choice(codons) if rng.random() < 0.7 else "".join(rng.choice("ACGT") for _ in range(3))
            for j, ch in enumerate(cd):
                rf.append(ch)
                k = rng.random()
                q.append(ch if k < 0.6 else rng.choice("ACGTacgtNRYKM") if k < 0.85 else "-")
                if j < 2 and rng.random() < 0.15:
                    gaprun()
            k = rng.random()
            if k < 0.12:
                q[-3:] = "---"
            elif k < 0.2:
                q[-3:] = rng.choice(["TAA", "TGA", "tag", "TAR", "TRA"])
            if rng.random() < 0.35:
                gaprun()
        for _c in range(rng.choice([0, 0, 1, 2])):
            rf.append(rng.choice("ACGT"))
            q.append(rng.choice("ACGT-"))
            if rng.random() < 0.3:
                gaprun()
        if not rf:
            rf, q = ["-"], [rng.choice("A-")]
        if rng.random() < 0.05:
            j = rng.randrange(len(rf))
            (rf if rng.random() < 0.5 else q)[j] = rng.choice("EF?*.X!")
        alpha = 1
        k = rng.random()
        if k < 0.03:
            alpha = rng.choice([0, 2, 3])
        elif k < 0.06:
            q = q[:-1] if len(q) > 1 and rng.random() < 0.5 else q + ["A"]
        rfs, qs = "".join(rf), "".join(q)
        yield Case("refmutsaa", [alpha, qs, rfs], "-" in rfs and any(c != "-" for c in rfs), "refmutsaa")
    # plain random pairs (the same strata as `refmuts`)
    for _ in range(N // 3):
        L = rng.randint(1, 16)
        sym = rng.choice(["ACGT-", "ACGT---", NT, "ACGTRYN-acgt"])
        yield Case("refmutsaa", [1, "".join(rng.choice(sym) for _ in range(L)), "".join(rng.choice(sym) for _ in range(L))], L >= 3, "refmutsaa-random")


def _fl(tok):
    f = tok.split(":")
    return struct.unpack(">d", bytes.fromhex(f[1]))[0]


def _close(a, b):
    if math.isnan(a) or math.isnan(b):
        return math.isnan(a) and math.isnan(b)
    if math.isinf(a) or math.isinf(b):
        return a == b
    return abs(a - b) <= 1e-12 * max(1.0, abs(a), abs(b))


def matches(c):
    if c.op.startswith("det"):
        return (c.impl or "").startswith("same")
    """model = implementation; float tokens `f:<bits>[:decimal]` are compared by class and relative tolerance"""
    if c.model == c.impl:
        return True
    if c.model == "panic" and (c.impl or "").startswith("panic"):
        return True
    x, y = (c.model or "").split(" "), (c.impl or "").split(" ")
    if len(x) != len(y):
        return False
    for s, t in zip(x, y):
        if s.startswith("f:") and t.startswith("f:"):
            if not _close(_fl(s), _fl(t)):
                return False
        elif s != t:
            return False
    return True


def shrink(c):
    a = list(c.args)
    if c.op in ("refmuts", "refmutsaa"):
        for j in range(len(a[1])):
            if len(a[1]) > 1:
                yield Case(c.op, [a[0], a[1][:j] + a[1][j + 1:], a[2][:j] + a[2][j + 1:]])
        return
    if c.op == "compat":
        return
    if c.op == "uniquesprof":
        rows = [tuple(r.split(":", 1)) for r in a[1].split(",")]
        prows = [tuple(r.split(":", 1)) for r in a[2].split(",")]
        for i in range(len(rows)):
            if len(rows) > 1:
                yield Case(c.op, [a[0], rows_str(rows[:i] + rows[i + 1:]), a[2]])
        for i in range(len(prows)):
            if len(prows) > 1:
                yield Case(c.op, [a[0], a[1], rows_str(prows[:i] + prows[i + 1:])])
        L = len(rows[0][1])
        if L > 1 and all(len(r[1]) == L for r in prows):
            for j in range(L):
                yield Case(c.op, [a[0], rows_str([(nm, q[:j] + q[j + 1:]) for nm, q in rows]),
                                  rows_str([(nm, q[:j] + q[j + 1:]) for nm, q in prows])])
        return
    if c.op == "pssm":
        return
    if c.op == "profile":
        rows = [tuple(r.split(":", 1)) for r in a[1].split(",")]
        for i in range(len(rows)):
            if len(rows) > 1:
                yield Case(c.op, [a[0], rows_str(rows[:i] + rows[i + 1:])] + a[2:])
        return
    rows = [] if a[1] == "_" else [tuple(r.split(":", 1)) for r in a[1].split(",")]
    for i in range(len(rows)):
        r2 = rows[:i] + rows[i + 1:]
        if r2:
            yield Case(c.op, [a[0], rows_str(r2)] + a[2:])


# ---- command-line glue: a multi-alignment Phylip input must be treated as its alignments one by one (`detmulti`) ----
MULTI_CMDS = [['consensus'], ['consensus', '--ignore-gaps'], ['compute', 'pssm', '-n', '1'], ['stats', 'char'], ['stats', 'alleles'], ['stats'],
              ['stats', '--per-sequences'], ['stats', '--per-sequences', '--ref-sequence', 'ref'], ['stats', 'char', '--per-sites'], ['stats', 'char', '--per-sequences'],
              ['diff'], ['diff', '--counts'],
              ['stats', 'length'], ['stats', 'nseq']]


def check(tier, seed):
    """generic flow with the memoising axiom audit (Audit/AuditMemo.lean: same output as Audit/Audit.lean; the Pssm
    theorems import Mathlib, whose dependency cone Audit.lean would re-traverse per theorem)"""
    import sys
    from driver import common

    def audit_memo(modules):
        rc, out = common.run(["lake", "env", "lean", "--run", "Audit/AuditMemo.lean"] + modules, cwd=common.LEAN, timeout=1200)
        ths = []
        for m in common.re.finditer(r"THEOREM (\S+) (\S+) axioms=\[(.*?)\] (OK|FORBIDDEN)", out):
            axs = [a.strip() for a in m.group(3).split(",") if a.strip()]
            ths.append({"module": m.group(1), "name": m.group(2), "axioms": axs, "ok": m.group(4) == "OK"})
        return rc, ths, out
    common.audit = audit_memo
    return common.generic_check(sys.modules[__name__], tier, seed)


def _gen_large(rng, tier):
    for _ in range(2 if tier == "quick" else 10):
        n, L = (rng.randint(2, 4), rng.choice([4097, 4200])) if rng.random() < 0.4 else (rng.choice([101, 150, 260]), rng.randint(2, 8))
        rows = [("s%d" % i, "".join(rng.choice("ACGTacgt-NRY") for _ in range(L))) for i in range(n)]
        rs = rows_str(rows)
        yield Case("maxchar", [1, rs, rng.randint(0, 1), rng.randint(0, 1), 3], True, "maxchar-large")
        yield Case("consensus", [1, rs, rng.randint(0, 1), rng.randint(0, 1), 3], True, "consensus-large")
        yield Case("charstats", [1, rs], True, "charstats-large")
        yield Case("sitecounts", [1, rs], True, "sitecounts-large")
        yield Case("uniques", [1, rs], True, "uniques-large")
        if L < 100:
            yield Case("countdiffs", [1, rs], True, "countdiffs-large")
        yield Case("charstatssite", [1, rs, L - 1], True, "charstatssite-large")


# --- Frameshifts / Stops (the statistics goalign phasent logs) ---------------------------------------------------

FS_CODONS = ["TAA", "TAG", "TGA", "AGA", "AGG", "taa", "UAA", "uag", "tGa", "TAR", "TRA", "NNN", "ATG", "GCC", "AAA", "ctg",
             "TGG", "CAU", "ggy", "ATA"]
FS_STOPS = {0: {"TAA", "TAG", "TGA"}, 1: {"TAA", "TAG", "AGA", "AGG"}, 2: {"TAA", "TAG"}}


def _fs_pair(rng, lens=None):
    """one reference / row pair: columns of residue pairs interrupted by gap runs of every length 0..7 in either row, at
    the start, inside and at the end; the residues of the row are codons (stops of the three codes, lower case, U,
    IUPAC codes) after 0..2 loose characters: stop codons in and out of frame"""
    stream = list("".join(rng.choice("ACGT") for _ in range(rng.choice([0, 0, 1, 2]))) +
                  "".join(rng.choice(FS_CODONS) for _ in range(12)))
    ref, row = [], []

    def run(which, n):
        for _ in range(n):
            if which == 0:      # gap in the reference: insertion in the row
                ref.append("-"); row.append(stream.pop(0) if stream else "A")
            else:               # gap in the row: deletion
                ref.append(rng.choice("ACGTacgt")); row.append("-")
    lens = lens or list(range(8))
    run(rng.randint(0, 1), rng.choice(lens) if rng.random() < 0.6 else 0)
    for _ in range(rng.randint(0, 4)):
        for _ in range(rng.randint(1, 7)):
            ref.append(rng.choice("ACGTacgtN")); row.append(stream.pop(0) if stream else "C")
        run(rng.randint(0, 1), rng.choice(lens))
        if rng.random() < 0.2:  # a run in the other row right after: adjacent insertion and deletion
            run(rng.randint(0, 1), rng.choice(lens))
    for _ in range(rng.randint(0, 5)):
        ref.append(rng.choice("ACGT")); row.append(stream.pop(0) if stream else "G")
    run(rng.randint(0, 1), rng.choice(lens) if rng.random() < 0.5 else 0)
    return "".join(ref), "".join(row)


def _py_complete_from(ref, row):
    n = 0
    for k in range(len(ref)):
        if ref[k] != "-":
            n += 1
        if row[k] != "-" and n % 3 == 1:
            return k
    return None


def _py_first_stop(res, code):
    for j in range(len(res) // 3):
        if res[3 * j:3 * j + 3].upper().replace("U", "T") in FS_STOPS[code]:
            return 3 * (j + 1)
    return -1


def _py_stop_doc(ref, row, flag, code, cols=None):
    """the documented meaning: first stop codon of the residues of the row (of its complete part with the option);
    `cols`: only the first `cols` columns are looked at"""
    if cols is not None:
        ref, row = ref[:max(cols, 0)], row[:max(cols, 0)]
    if flag:
        k = _py_complete_from(ref, row)
        if k is None:
            return -1
        row = row[k:]
    return _py_first_stop(row.replace("-", ""), code)


def _gen_frame(rng, tier):
    import os
    every = os.environ.get("C14_FRAME_ALL") == "1"
    N = 150 if tier == "quick" else 3000
    for i in range(N):
        ref, row = _fs_pair(rng, [i % 8] if i % 3 == 0 else None)
        rows = [("r", ref), ("q", row)]
        extra = rng.random() < 0.15
        if extra:   # further rows: the same reference, other rows
            for j in range(rng.randint(1, 2)):
                src = list(_fs_pair(rng)[1].replace("-", "")) + ["-"] * len(ref)
                rng.shuffle(src)
                rows.append(("x%d" % j, "".join(src[:len(ref)])))
        flag = rng.randint(0, 1)
        gappy = "-" in ref or "-" in row
        yield Case("frameshifts", [1, rows_str(rows), flag], gappy, "frameshifts-multi" if extra else "frameshifts")
        code = rng.choice([0, 1, 2])
        L = len(ref)
        # (two deviations of Stops from its documented meaning - the last two columns never read, `phase` / `started`
        # carried from row to row - were kept out of the generator until they were repaired in /repo; every case is
        # generated now)
        full = [_py_stop_doc(ref, r[1], flag, code) for r in rows[1:]]
        yield Case("stops", [1, rows_str(rows), flag, code], any(p > 0 for p in full),
                   "stops-multi" if extra else "stops")
    for code in (-1, 3, 99):
        yield Case("stops", [1, "r:ATGTAAGG,q:ATGTAAGG", 1, code], True, "stops-unknown-code")
        yield Case("stops", [1, "_", 0, code], True, "stops-unknown-code")
    for flag in (0, 1):
        yield Case("frameshifts", [1, "_", flag], False, "frameshifts-empty")
        yield Case("stops", [1, "_", flag, 0], False, "stops-empty")
        yield Case("frameshifts", [1, "r:ATG-A", flag], False, "frameshifts-one-row")
        yield Case("stops", [1, "r:ATGTAAAA", flag, 0], False, "stops-one-row")
        yield Case("frameshifts", [0, "r:AR-NDA,q:ARN-DA", flag], True, "frameshifts-protein")


def gen(rng, tier):
    for c in _gen_large(rng, tier):
        yield c
    for c in _gen_frame(rng, tier):
        yield c
    from driver import multigen
    for c in _gen_core(rng, tier):
        yield c
    for c in _gen_aa(rng, tier):
        yield c
    from driver import cligen
    for c in cligen.cases(rng, ['consensus', 'entropy', 'stats', 'gapstats', 'mutstats', 'charstats', 'alleles', 'alphabet', 'pssm', 'summary', 'diff'], 40 if tier == "quick" else 400):
        yield c
    for c in cligen.cases(rng, ['mutlist', 'mutcount'], 30 if tier == "quick" else 600):
        yield c
    for c in cligen.cases(rng, ['perseq', 'gapsprof', 'mutsprof'], 40 if tier == "quick" else 800):
        yield c
    for _ in range(2 if tier == "quick" else 20):
        for argv in MULTI_CMDS:
            yield multigen.multi_case(multigen.alignments(rng), argv, "cli-multi-" + "-".join(argv[:2]))
