"""C03 — parsers terminate on every input with an error or a well-formed result."""
import re

from driver.common import Case, dd_chunks
from driver import fmtgen as G
from driver import utf8gen as U

ID = "C03"
TIMEOUT = 3.0           # per-op watchdog; inputs are < 1 kB, a parse takes microseconds
UNMODELLED = "unmodelled"


def matches(c):
    """model = implementation, or the oracle's explicit `unmodelled` marker (machine-dependent allocation band of the unrepaired
    Phylip parser): no correspondence obligation for that case"""
    return c.model == UNMODELLED or c.model == c.impl


LEVEL_TEXT = ("Lean theorems about total executable models of all seven parsers (FASTA, Phylip strict/relaxed/multi, Nexus, "
              "Clustal, Stockholm, partition + AddRange; termination = Lean's termination checker, explicit outcomes "
              "ok/error/exit/panic/hang), parametric in the guards regenerated from the working tree: the full C03 statement "
              "over ALL byte strings and options is proved for the repaired FASTA, Stockholm, Nexus, Phylip and partition parsers "
              "(fasta_outcome_fixed, stockholm_outcome_fixed, nexus_outcome_fixed, phylip_outcome_fixed, partition_outcome, "
              "addRange_in_bounds for all 64-bit "
              "start/end/modulo); likewise Clustal (clustal_outcome_fixed); a Phylip success agrees with the counts declared in "
              "its header line (as read by the parser and as read by an independent naive scanner) and the end-of-stream marker "
              "needs a blank input (phylip_outcome_full); a Nexus success agrees with ntax / nchar / the TAXA labels as the "
              "parser read them (nexus_counts_as_read); ParseMultiple terminates on every input (phylip_multi_outcome); the unrepaired code "
              "is refuted by kernel-evaluated counter-examples. Models are tied to /repo by regenerated "
              "guard facts + differential correspondence on every generated input; the C03 predicate itself is evaluated "
              "by the compiled oracle on the implementation's outcome for every input.")
LEVEL_NOTE = ("Trusted: Lean kernel; harness + python watchdog (hang = no answer within 3 s on inputs < 1 kB); the naive "
              "header scanners of Spec/Fmt.lean; tools/extract/fmtfacts.go (syntactic recognition of the guards); "
              "the rune reader model Model/Fmt/Utf8.lean (ReadRune / WriteRune as Go's unicode/utf8 does it: compared with "
              "the implementation on every generated input with bytes >= 128; all seven models are defined on ALL byte strings; "
              "the keyword tests of the Clustal / Stockholm / Nexus lexers upper-case rune-wise - Utf8.upperLit: of all runes >= 0x80 "
              "only U+0131 and U+017F have an ASCII upper case, I / S - and keywords spelled with these runes are generated "
              "and compared). Agreement of the Nexus DIMENSIONS reading with the naive scanner is checked on the "
              "implementation only: see evidence 'partial'.")
TECHNIQUE = "Lean 4 proof (total parser models, container invariant by induction over token lists) + exhaustive-truncation / mutation differential run"
LEAN_MODULES = ["Gv.Props.C03"]
REQUIRED_THEOREMS = ["Gv.Props.C03." + n for n in [
    "fasta_outcome_counterexample", "fasta_outcome_partial", "fasta_outcome_fixed",
    "stockholm_counterexample_hang", "stockholm_counterexample_empty", "stockholm_patched_witnesses",
    "stockholm_outcome_partial", "stockholm_outcome_fixed",
    "nexus_counterexample_hang", "nexus_counterexample_zero_columns", "nexus_counterexample_minus_one",
    "nexus_patched_witnesses", "clustal_counterexample_panic", "clustal_patched_witness",
    "phylip_counterexample_alloc_panic", "phylip_patched_witness",
    "partition_counterexample_overflow_panic", "partition_patched_witness", "addRange_in_bounds", "newPSet_inv",
    "partition_outcome", "phylip_outcome_partial", "phylip_multi_wellformed", "clustal_outcome_partial",
    "nexus_outcome_partial", "clustal_no_panic", "phylip_no_panic", "nexus_no_panic", "nexus_outcome_fixed", "clustal_no_hang", "clustal_outcome_fixed_partial",
    "phylip_no_hang", "phylip_outcome_fixed", "clustal_outcome_fixed",
    # consistency with the header counts / the end-of-stream marker (Proofs/PhylipHeader.lean)
    "phylip_counts_as_read", "phylip_header_consistent", "phylip_eos_blank", "phylip_eos_blank_to_eof",
    "phylip_multi_counts", "phylip_outcome_full", "phylip_multi_outcome",
    # Nexus: counts of the DIMENSIONS commands / TAXA block as the parser read them (Proofs/NexusHeader.lean)
    "nexus_counts_as_read", "nexus_header_consistent_partial", "nexus_endblock_ends_block", "nexus_counterexample_nested_begin",
    "nexus_counterexample_empty_command", "nexus_counterexample_second_data_block",
    # the raw input, ALL byte strings (rune reader model Model/Fmt/Utf8.lean, Proofs/Utf8Norm.lean)
    "fasta_parseBytes_ascii", "fasta_outcome_bytes_partial", "fasta_outcome_bytes",
    # the rune lexer of FASTA (Model/Fmt/FastaRunes.lean, mirrors lexer.go on ReadRune / WriteRune) = the byte lexer on Utf8.norm
    "fasta_rune_scan", "fasta_rune_lexer",
    "phylip_parseBytes_ascii", "phylip_header_reading_raw", "phylip_outcome_bytes", "phylip_multi_outcome_bytes", "partition_outcome_bytes",
    "clustal_outcome_bytes", "stockholm_outcome_bytes", "nexus_outcome_bytes", "parseBytes_ascii_claim"]]
TRUSTED = ["bufio.Reader buffering (ReadRune = utf8.DecodeRune on the remaining input; the decoding itself is modelled in "
           "Model/Fmt/Utf8.lean and compared on every input with bytes >= 128); unicode.ToUpper: of the runes >= 0x80 only "
           "U+0131 and U+017F have an ASCII upper case (Utf8.upperRune; Clustal, Stockholm, Nexus keyword tests)",
           "python watchdog: hang = no answer within TIMEOUT",
           "tools/extract/fmtfacts.go: recognises the proposed guards syntactically; the models are parametric in these facts"]
ASSUMPTIONS = ["a NUL byte is goalign's in-band end-of-input marker (lexers return rune 0 for EOF): the Phylip "
               "end-of-stream marker is accepted when the input is blank up to its first NUL",
               "os.Exit(1) after a printed message (lone CR in Phylip/Clustal lexers) is an explicit error report (DESIGN 7.2)",
               "Phylip header counts of 2^27..2^44 sequences: the allocation succeeds lazily and the outcome depends on the "
               "machine's memory; such inputs are judged by the predicate but not compared with the model"]
RULE = ("valid files of each format (python writers + hand-written variants: interleaved blocks, comments, TAXA blocks, "
        "markup lines, duplicate names) and from them ALL truncations, single-byte substitutions from a 26-byte class "
        "alphabet at token boundaries (quick) / every offset (thorough), line deletion / duplication / swap, token "
        "splices across formats, header-count perturbations, lone CR, CRLF, NUL, unterminated '[', markup on the last "
        "line, blocks with extra / missing rows; every parser option on the option-sensitive files; auto-detecting entry "
        "point, multi-Phylip streams and their truncations; partition strings from a grammar + overflow values; "
        "bytes >= 128 (driver/utf8gen.py): valid 2/3/4-byte UTF-8, truncated sequences, over-long forms, surrogates, values "
        "above U+10FFFF, lone continuation bytes, FE/FF, Unicode blanks, U+0131/U+017F - in names, residues (columns of "
        "equal WRITTEN length, so that many cases succeed), header lines with the written / raw / rune length, strict "
        "Phylip name fields of 10 runes, keywords, at the end of the input, inserted at / substituted for token boundaries of "
        "every seed file, in multi-Phylip streams, partition strings and through the auto-detecting entry point; every Clustal / "
        "Stockholm / Nexus seed file with its keywords spelled with U+017F / U+0131 (all keywords, one keyword, one letter, "
        "every s / i of the file) and truncations of these; "
        "non-trivial = differs from every seed file and the first changed byte lies beyond the header")

PARTIAL = [
    "all seven parsers: the full C03 outcome statement (explicit error / exit with message / well-formed result; never a "
    "panic, never a hang) is PROVED for the repaired code over ALL byte strings (of what the lexer holds after ReadRune / "
    "WriteRune: X.parse; and of the raw input, bytes >= 128 included: X.parseBytes = X.parse . Utf8.norm, theorems "
    "fasta_outcome_bytes, phylip_outcome_bytes, phylip_multi_outcome_bytes, partition_outcome_bytes, clustal_outcome_bytes, "
    "stockholm_outcome_bytes, nexus_outcome_bytes) and all options: fasta_outcome_fixed, "
    "phylip_outcome_fixed (strict and relaxed), nexus_outcome_fixed, clustal_outcome_fixed, stockholm_outcome_fixed, "
    "partition_outcome (+ addRange_in_bounds); the unrepaired variants are covered by *_partial theorems and "
    "kernel-evaluated counter-examples",
    "consistency with the header counts, PROVED for the models over all byte strings and options: Phylip — a success went "
    "through a header line `nbseq lenseq`, has exactly lenseq columns and nbseq rows (at most nbseq under a duplicate policy "
    "that drops rows; the _%04d renaming never fails: pigeonhole), and these are the numbers the independent naive scanner "
    "of Spec/Fmt.lean reads off the raw bytes (phylip_counts_as_read, phylip_header_consistent, phylip_multi_counts); the "
    "end-of-stream marker is returned only for an input that is blank up to its first NUL / up to EOF (phylip_eos_blank, "
    "phylip_eos_blank_to_eof); phylip_outcome_full combines them with the outcome statement. Nexus — a success has the "
    "ntax rows / nchar columns of the DIMENSIONS commands as the parser read them and one row per TAXA label "
    "(nexus_counts_as_read)",
    "NOT proved: that the parser's reading of the Nexus DIMENSIONS commands equals what the naive textual scanner "
    "`declaredNexus` reads off the raw bytes (two independent tokenisations; nexus_header_consistent_partial states the "
    "clause under that hypothesis) — checked on the implementation by the oracle predicate on every run (the scanner now "
    "skips the `#NEXUS` word, which has no `;`: before, it never saw the DATA block of an ordinary file and the clause was "
    "vacuous). ENDBLOCK now ends a block like END (proposed_fixes/c03-nexus-endblock.diff; model keyword table and "
    "nexus_endblock_ends_block: the former witness `begin data; dimensions ntax=9; endblock; begin trees; dimensions ntax=1; "
    "matrix a AC ; end;` is an explicit error; it is in corpus/C03 and a seed file uses ENDBLOCK: a tree without the repair "
    "fails on it with contradicts-header-ntax). A BEGIN inside an unterminated block is now an error as well "
    "(proposed_fixes/c03-nexus-begin-inside-block.diff, regenerated fact nexus_rejects_nested_begin; before, it was skipped "
    "as an unsupported command and a later `dimensions` overwrote the DATA block's ntax: nexus_counterexample_nested_begin; "
    "found by the generators from the ENDBLOCK seed file, witness in corpus/C03). With both repairs no input is known on "
    "which the two readings differ; their agreement on ALL inputs remains unproved. The multi-Phylip stream loop is now PROVED to terminate without panic / hang for the repaired code "
    "(phylip_multi_outcome: every Parse call that hands on an alignment consumes input), every alignment it hands on being "
    "well formed and consistent with its own header line (phylip_multi_wellformed, phylip_multi_counts)",
    "ParseAlignmentAuto: modelled as a first-byte dispatch over the single-parser models (C02.autodetect_selects_written_format)",
    "bytes >= 128: the lexers read runes; Model/Fmt/Utf8.lean models ReadRune (utf8.DecodeRune: ill-formed byte = U+FFFD of "
    "width 1) and WriteRune, every format model is defined on the raw input through it (a byte outside a well-formed "
    "sequence reaches names and residues as EF BF BD: lengths are lengths of the WRITTEN bytes; strict Phylip names are ten "
    "runes). That the byte lexer on Utf8.norm equals the rune lexer is PROVED for FASTA (Model/Fmt/FastaRunes.lean mirrors "
    "io/fasta/lexer.go on runes - read / unread / WriteRune; fasta_rune_scan: one Scan, every list of runes; fasta_rune_lexer: "
    "Fasta.lex (Utf8.norm bs) = the rune lexer's tokens on Utf8.runes bs, all byte strings; Proofs/FastaRunes.lean). For the "
    "other five lexers it rests on the same facts (Proofs/Utf8Norm.lean: rune < 0x80 iff ASCII byte, written back as itself; "
    "rune >= 0x80 written with a non-empty run of bytes >= 0x80; every class constant is ASCII) and on the correspondence run, "
    "not on a proved lexer equivalence. The header-consistency clause and the blank-input clause of phylip_outcome_bytes read the RAW "
    "bytes, as the oracle predicate does (phylip_header_reading_raw: declaredPhylip and blankToNul read the same off "
    "Utf8.norm bs and off bs, for all byte strings - Proofs/Utf8Header.lean). The keyword tests of the Clustal, "
    "Stockholm and Nexus lexer models upper-case rune-wise (Utf8.upperLit: U+0131 / U+017F become I / S, so `clu\u017ftal`, "
    "`matr\u0131x`, `# \u017fTOCKHOLM 1.0` are keywords, as in the Go code); clustal_outcome_bytes, stockholm_outcome_bytes and "
    "nexus_outcome_bytes hold for ALL byte strings without exception and the former `no claim` answer is gone (on ASCII literals "
    "upperLit is the byte-wise upper case: Utf8Norm.upperLit_ascii, which carries the C02 round-trip proofs over). Phylip allocations of 2^27..2^44 entries "
    "(unrepaired code only): predicate only, no model",
]

BYTE_CLASSES = [b"\n", b"\r", b" ", b"\t", b"\x00", b">", b"#", b"[", b"]", b";", b"=", b",", b"-", b"/", b":",
                b"0", b"9", b"A", b"z", b"*", b".", b"\x7f", b"\x80", b"\xff", b"\xc3", b"|"]
COUNTS = ["0", "-1", "1", "2147483648", "9223372036854775807", "99999999999999", "9223372036854775808", "007"]


def popts_all(fmt):
    stricts = [0, 1] if fmt == "phylip" else [0]
    return ["%d,%d,%d" % (s, i, a) for s in stricts for i in (0, 1, 2) for a in (2, 0, 1)]


def popts_default(fmt, strict=0):
    return "%d,0,2" % strict


# ---- seed files ---------------------------------------------------------------------------------------------

def seeds(rng):
    """(fmt, strict, bytes, header_len, tag)"""
    out = []
    small = [("a", "ACGT-N"), ("b1", "AC-TTA"), ("cc", "acgtnn")]
    prot = [("p1", "MKV-LE"), ("p2", "MRV*LE")]
    dup = [("x", "ACGT"), ("x", "ACGT"), ("x", "AC-T")]
    wide = [("s1", "".join(rng.choice("ACGT") for _ in range(70))), ("s2", "".join(rng.choice("ACGT-") for _ in range(70)))]
    for rows, tg in ((small, "nt"), (prot, "prot"), (dup, "dup"), (wide, "wide")):
        out.append(("fasta", 0, G.w_fasta(rows, 80 if tg != "wide" else 30).encode(), 0, "fasta-" + tg))
        for w in ("000", "100", "010", "001"):
            if tg == "wide" or w in ("000", "100"):
                f = G.w_phylip(rows, w[0] == "1", w[1] == "1", w[2] == "1")
                out.append(("phylip", int(w[0]), f.encode(), f.index("\n") + 1, "phylip%s-%s" % (w, tg)))
        f = G.w_nexus(rows, tg == "prot")
        out.append(("nexus", 0, f.encode(), f.index("matrix\n") + 7, "nexus-" + tg))
        f = G.w_clustal(rows)
        out.append(("clustal", 0, f.encode(), f.index("\n\n") + 2, "clustal-" + tg))
        f = G.w_stockholm(rows)
        if tg != "nt":   # one seed is the exact writer output; the others drop the 36-byte #=GF line (every
            f = f.replace("#=GF ID   Goalign generated alignment\n", "")   # cut inside a markup line hangs for 3 s)
        out.append(("stockholm", 0, f.encode(), 16, "stockholm-" + tg))
    # hand-written variants
    nx = ("#NEXUS\n[a comment]\nBEGIN TAXA;\n DIMENSIONS NTAX=2;\n TAXLABELS t1 t2;\nEND;\n"
          "BEGIN CHARACTERS;\n DIMENSIONS NCHAR=6;\n FORMAT DATATYPE=DNA MISSING=? GAP=- MATCHCHAR=.;\n MATRIX\n"
          " t1 ACG TTA\n t2 .C. T-?\n ;\nEND;\nBEGIN TREES;\n tree t = (t1,t2);\nEND;\n")
    out.append(("nexus", 0, nx.encode(), nx.index("MATRIX\n") + 7, "nexus-full"))
    nxi = ("#NEXUS\nbegin data;\ndimensions ntax=2 nchar=8;\nformat datatype=dna interleave=yes;\nmatrix\n"
           "a ACGT\nb AC-T\n\na GGCC\nb GG-C\n;\nend;\n")
    out.append(("nexus", 0, nxi.encode(), nxi.index("matrix\n") + 7, "nexus-interleaved"))
    # ENDBLOCK, the standard synonym of END; a later block with its own `dimensions` (must not reach the DATA block)
    nxe = ("#NEXUS\nbegin data;\ndimensions ntax=2 nchar=4;\nformat datatype=dna;\nmatrix\na ACGT\nb AC-T\n;\nendblock;\n"
           "begin trees;\ndimensions ntax=1;\ntree t = (a,b);\nENDBLOCK;\n")
    out.append(("nexus", 0, nxe.encode(), nxe.index("matrix\n") + 7, "nexus-endblock"))
    cl = "CLUSTAL W (1.82) multiple sequence alignment\n\n\nab   ACGT\ncd   AC-T\n     ** *\n\nab   GG\ncd   GC\n     * \n"
    out.append(("clustal", 0, cl.encode(), cl.index("\n\n\n") + 3, "clustal-nocounts"))
    st = "# STOCKHOLM 1.0\n#=GF x\n\nab ACG.T\n#=GC y\ncd AC..T\n//\n"
    out.append(("stockholm", 0, st.encode(), 16, "stockholm-markup"))
    fa = ">a desc\r\nAC GT\r\n\r\n>  b\r\nACGT\r\n"
    out.append(("fasta", 0, fa.encode(), 0, "fasta-crlf-spaces"))
    ph = " 2 12\nab   ACGT ACGT\ncd\tAC-T AC-T\n\nACGT\nAC-T\n"
    out.append(("phylip", 0, ph.encode(), 6, "phylip-handwritten"))
    return out


# ---- mutators: yield (bytes, first_changed_offset, tag) --------------------------------------------------

def token_boundaries(data):
    def cls(b):
        if b in b" \t":
            return 0
        if b in b"\r\n":
            return 1
        if b in b"[];=,#>/:":
            return 2 + b
        return 2
    pos = set([0, len(data) - 1])
    for i in range(1, len(data)):
        if cls(data[i]) != cls(data[i - 1]):
            pos.add(i)
            pos.add(i - 1)
    return sorted(p for p in pos if 0 <= p < len(data))


def truncations(data):
    for k in range(len(data)):
        yield data[:k], k, "truncate"


def substitutions(data, offsets, classes):
    for i in offsets:
        for c in classes:
            if data[i:i + 1] != c:
                yield data[:i] + c + data[i + 1:], i, "subst"


def insertions(data, offsets, what, tag):
    for i in offsets:
        yield data[:i] + what + data[i:], i, tag


def line_ops(data):
    lines = data.split(b"\n")
    starts = [0]
    for ln in lines[:-1]:
        starts.append(starts[-1] + len(ln) + 1)
    for i in range(len(lines)):
        yield b"\n".join(lines[:i] + lines[i + 1:]), starts[i], "line-delete"
        yield b"\n".join(lines[:i + 1] + lines[i:]), starts[i], "line-duplicate"
        if i + 1 < len(lines):
            yield b"\n".join(lines[:i] + [lines[i + 1], lines[i]] + lines[i + 2:]), starts[i], "line-swap"


def cr_variants(data):
    yield data.replace(b"\n", b"\r\n"), 0, "crlf"
    yield data.replace(b"\n", b"\r"), 0, "all-cr"
    for m in re.finditer(b"\n", data):
        i = m.start()
        yield data[:i] + b"\r" + data[i + 1:], i, "lone-cr"
        yield data[:i] + b"\r" + data[i:], i, "cr-inserted"   # a valid CRLF among LFs
    yield data + b"\r", len(data), "lone-cr-at-end"


def header_counts(fmt, data):
    if fmt == "phylip":
        m = re.match(rb"(\s*)(\d+)(\s+)(\d+)", data)
        if m:
            n, l = int(m.group(2)), int(m.group(4))
            for v in COUNTS + [str(n + 1), str(n - 1)]:
                yield data[:m.start(2)] + v.encode() + data[m.end(2):], m.start(2), "header-nbseq" + ("-2^31" if v == "2147483648" else "")
            for v in COUNTS + [str(l + 1), str(l - 1)]:
                yield data[:m.start(4)] + v.encode() + data[m.end(4):], m.start(4), "header-length"
    if fmt == "nexus":
        for key in (rb"ntax", rb"nchar"):
            for m in re.finditer(rb"(?i)" + key + rb"=(\d+)", data):
                n = int(m.group(1))
                for v in COUNTS + [str(n + 1), str(n - 1)]:
                    yield data[:m.start(1)] + v.encode() + data[m.end(1):], m.start(1), "header-" + key.decode()


def structural(fmt, rng):
    """blocks with extra / missing rows, markup / comments at end of file, empty records …"""
    if fmt == "clustal":
        yield b"CLUSTAL W\n\na AC\nb AC\n  **\n\na AC\nb AC\nc AC\n", "block-extra-row"
        yield b"CLUSTAL W\n\na AC\n  **\n\na AC\nb AC\n", "block-extra-row"
        yield b"CLUSTAL W\n\na AC\nb AC\n  **\n\na AC\n  **\n", "block-missing-row"
        yield b"CLUSTAL W\n\na AC\nb AC\n  **\n\nb AC\na AC\n  **\n", "block-rows-swapped"
        yield b"CLUSTAL W\n\na AC\nb AC\n\na AC\nb AC\n", "no-conservation-line"
        yield b"CLUSTAL W\n\na AC\nb ACG\n  **\n", "ragged"
        yield b"CLUSTAL W\n\n", "header-only"
        yield b"CLUSTAL", "header-only"
        yield b"CLUSTAL W\n\na AC 2\nb AC 2\n  ** \n", "with-counts"
        yield b"CLUSTAL W\n\na AC x\n", "bad-count"
        yield b"CLUSTAL W\n\na AC\na AC\n  **\n", "duplicate-names"
    if fmt == "phylip":
        yield b" 2 4\na AC\nb AC\n\nGT\nGT\nTT\n", "block-extra-row"
        yield b" 2 4\na AC\nb AC\n\nGT\n", "block-missing-row"
        yield b" 2 4\na AC\nb AC\n\nGT\nG\n", "ragged"
        yield b" 2 4\na ACGT\n", "missing-row"
        yield b" 1 4\na ACGT\nb ACGT\n", "extra-row"
        yield b" 2 2\na AC\na AC\n", "duplicate-names"
        yield b" 2 2\na AC\na AG\n", "duplicate-names"
        yield b" 1 2\na AC\n 1 2\nb GT\n", "two-alignments"
        yield b"\n\n  \n", "blank"
        yield b"", "empty"
        yield b" 1 0\na \n", "zero-length"
        yield b" 1 1\na 5\n", "numeric-residues"
        yield b" 1 2\n\xffbcdefghij AC\n", "non-ascii-name"
        yield b" 1 2\nabcdefghijAC\n", "strict-no-separator"
        yield b" 1 2\nabc", "strict-short-name"
        yield b" 1 2", "header-only"
        yield b" 1 2\n", "header-only"
        yield b"1 2\na AC", "no-final-newline"
    if fmt == "stockholm":
        yield b"# STOCKHOLM 1.0\n//", "no-rows"
        yield b"# STOCKHOLM 1.0", "header-only"
        yield b"# STOCKHOLM 1.0\n", "header-only"
        yield b"# STOCKHOLM 1.0\na AC\n#=GF x", "markup-last-line"
        yield b"# STOCKHOLM 1.0\n#", "markup-last-line"
        yield b"# STOCKHOLM 1.0\na AC\n//\n#=GF x", "markup-after-end"
        yield b"# STOCKHOLM 1.0\na AC\nb ACG\n//\n", "ragged"
        yield b"# STOCKHOLM 1.0\na AC\na AC\n//\n", "duplicate-names"
        yield b"# STOCKHOLM 1.0\na AC", "no-end"
        yield b"# STOCKHOLM 1.0\na\n//\n", "name-only"
        yield b"# STOCKHOLM 1.0\nSTOCKHOLM AC\n//\n", "keyword-name"
        yield b"# STOCKHOLM 1.0\na 12\n//\n", "numeric-residues"
        yield b"# STOCKHOLM 1.0\na AC extra\n//\n", "three-columns"
    if fmt == "fasta":
        yield b">a\n", "name-only"
        yield b">a", "name-only"
        yield b">", "gt-only"
        yield b">a\n>b\n", "names-only"
        yield b">a\nAC\n>b\n", "last-record-empty"
        yield b">a\nAC\n>b\nA\n", "ragged"
        yield b">a\nAC\n>a\nAC\n", "duplicate-names"
        yield b">a\nAC\n>a\nAG\n", "duplicate-names"
        yield b"\n\n>a\nAC\n", "leading-blank-lines"
        yield b"ACGT\n", "no-gt"
        yield b">a\n  \n", "spaces-only-sequence"
        yield b">   \nAC\n", "blank-name"
        yield b">a\nAC\n\n\n\nGT\n", "blank-lines-inside"
        yield b">>a\nAC\n", "double-gt"
        yield b">a\nA>C\n", "gt-in-sequence"
    if fmt == "nexus":
        yield b"#NEXUS\n[abc", "unterminated-comment"
        yield b"#NEXUS\nbegin data;\nmatrix\na AC\n[x\n;\nend;\n", "unterminated-comment"
        yield b"#NEXUS\nbegin data;\n[x\n", "unterminated-comment"
        yield b"#NEXUS\nbegin taxa;\n[x", "unterminated-comment"
        yield b"#NEXUS\n", "header-only"
        yield b"#NEXUS", "header-only"
        yield b"#NEXUS\nbegin data;\nmatrix\n;\nend;\n", "no-rows"
        yield b"#NEXUS\nbegin data;\nmatrix\na AC\nb A\n;\nend;\n", "ragged"
        yield b"#NEXUS\nbegin data;\nmatrix\na AC\na GT\n;\nend;\n", "interleaved-same-name"
        yield b"#NEXUS\nbegin data;\nmatrix\na \nb \n;\nend;\n", "empty-sequences"
        yield b"#NEXUS\nbegin data;\nmatrix\na AC", "truncated-matrix"
        yield b"#NEXUS\nbegin data;\ndimensions ntax=3 nchar=2;\nmatrix\na AC\nb AC\n;\nend;\n", "ntax-too-big"
        yield b"#NEXUS\nbegin data;\ndimensions ntax 2 nchar=2;\nmatrix\na AC\nb AC\n;\nend;\n", "ntax-no-equal"
        yield b"#NEXUS\nbegin data;\nformat datatype=protein gap=x missing=y matchchar=z;\nmatrix\na ACxyz\nb zzzzz\n;\nend;\n", "format-chars"
        yield b"#NEXUS\nbegin data;\nformat datatype=foo;\nmatrix\na AC\n;\nend;\n", "unknown-datatype"
        yield b"#NEXUS\nbegin data;\nmatrix\na END\nb ENV\n;\nend;\n", "keyword-row"
        yield b"#NEXUS\nbegin taxa;\ntaxlabels a b c;\nend;\nbegin data;\nmatrix\na AC\nb AC\n;\nend;\n", "taxlabels-mismatch"
        yield b"#NEXUS\nbegin taxa;\ndimensions ntax=5;\ntaxlabels a b;\nend;\nbegin data;\nmatrix\na AC\nb AC\n;\nend;\n", "taxa-ntax-mismatch"
        yield b"#NEXUS\nbegin foo;\nbar;\n", "unsupported-block-eof"
        yield b"#NEXUS\nbegin data;\nfoo bar", "unsupported-command-eof"
        yield b"#NEXUS\nbegin data;\nmatrix\n.. AC\nb ..\n;\nend;\n", "matchchar"
        yield b"#NEXUS\nbegin data;\nmatrix\na .C\nb A.\n;\nend;\n", "matchchar-in-first-row"


def variants(fmt, data, hdr, rng, tier, seed_tag):
    """all mutants of one seed file"""
    thorough = tier != "quick"
    yield data, None, "valid"
    yield from truncations(data)
    tb = token_boundaries(data)
    if thorough:
        # every offset x every byte class; an unterminated '[' in a Nexus file costs a 3 s watchdog wait, so that one
        # class is applied at the token boundaries only
        classes = [c for c in BYTE_CLASSES if not (fmt == "nexus" and c == b"[")]
        yield from substitutions(data, range(len(data)), classes)
        if fmt == "nexus":
            yield from substitutions(data, tb[::3], [b"["])
    else:
        # (every unterminated '[' in a Nexus file costs a 3 s watchdog wait: in the quick tier '[' is inserted
        # at a few boundaries only, below)
        classes = [c for c in BYTE_CLASSES if not (fmt == "nexus" and c == b"[")]
        for i in tb:
            yield from substitutions(data, [i], rng.sample(classes, 5))
    yield from line_ops(data)
    yield from cr_variants(data)
    yield from header_counts(fmt, data)
    offs = tb if thorough else rng.sample(tb, min(len(tb), 12))
    few = offs if fmt != "nexus" else (offs[::4] if thorough else offs[:3])
    yield from insertions(data, offs, b"\x00", "nul-inserted")
    yield from insertions(data, few, b"[", "open-bracket-inserted")
    yield from insertions(data, offs, b"#", "hash-inserted")
    yield from insertions(data, offs, b"#=GF x", "markup-inserted")
    yield data + b"#=GF x", len(data), "markup-appended"
    yield data + b"[", len(data), "open-bracket-appended"
    yield data + b"\x00", len(data), "nul-appended"
    yield data + data, len(data), "file-twice"


PART_TOK = ["M", "GTR", "p1", "p", ",", "=", "-", "/", " ", "\n", "\r", "\r\n", "1", "2", "3", "5", "10", "11", "0",
            "9223372036854775807", "9223372036854775806", "4611686018427387904", "99999999999999999999", "\x00", "x-1"]


def partition_cases(rng, tier):
    fixed = ["M,p=1-10", "M,p=1-10/3", "M,p=2-10/9223372036854775807", "M,p=1-10/9223372036854775807",
             "M,p=1-5\nN,q=6-10\n", "M,p=1-5,7-9/2\n", "M,p=1-3\nM,p=4-6\n", "M,p=1-5\nN,p=6-8\n", "M,p=1-11",
             "M,p=0-3", "M,p=5-2", "M,p=10-2/3", "M,p=1-5\nM,q=5-6", "M,p=3", "M,p=3/0", "M,p=3/-1", "M,p=1-10/0",
             "M,p=", "M,p", "M,", "M", "", "\n", "M,p=1-2,", "M,p=1-2,,", "M, p = 1 - 4 / 2 , 6\n", "M,p=1-2\r\nN,q=3-4\r",
             "M,p=1-2 x", "M,p=9223372036854775807-9223372036854775807", "M,p=9223372036854775808",
             "M,p=2-10/9223372036854775806", "M,p=3-10/4611686018427387904", "M,p=10-10/9223372036854775807",
             "M,p=1-10/2\nM,p=2-10/2\n", "=", "1", "M,1=2", "1,p=2"]
    for s in fixed:
        for L in (10, 0, 1):
            yield Case("parse", ["partition", L, G.hx(s)], "/" in s or "\n" in s, "partition-fixed")
    n = 600 if tier == "quick" else 6000
    for _ in range(n):
        k = rng.randint(1, 14)
        if rng.random() < 0.5:
            # grammar-shaped
            parts = []
            for _ in range(rng.randint(1, 3)):
                ivs = []
                for _ in range(rng.randint(1, 3)):
                    a = rng.choice(["0", "1", "2", "5", "10", "11", "9223372036854775807"])
                    iv = a
                    if rng.random() < 0.7:
                        iv += "-" + rng.choice(["1", "3", "9", "10", "11", a])
                    if rng.random() < 0.5:
                        iv += "/" + rng.choice(["1", "2", "3", "0", "9223372036854775807", "9223372036854775806", "4611686018427387904"])
                    ivs.append(iv)
                parts.append("%s,%s=%s" % (rng.choice(["M", "GTR"]), rng.choice(["p", "q", "p"]), ",".join(ivs)))
            s = rng.choice(["\n", "\r\n", "\n\n"]).join(parts) + rng.choice(["", "\n"])
        else:
            s = "".join(rng.choice(PART_TOK) for _ in range(k))
        yield Case("parse", ["partition", rng.choice([10, 10, 10, 3, 0]), G.hx(s)], True, "partition-random")


def nexus_command_cases(rng, tier):
    """Nexus files assembled command by command: blocks with their commands in any order, empty commands (`;;`),
    unknown commands and blocks, comments between any two tokens, DIMENSIONS given several times / in several blocks /
    with counts that do or do not fit the matrix, END / ENDBLOCK, missing terminators.  The oracle reads the declared
    counts with its own scanner of the raw text: a success that contradicts them is a failing input."""
    n = 400 if tier == "quick" else 6000
    for _ in range(n):
        nrow = rng.randint(1, 3)
        L = rng.randint(1, 4)
        rows = [("t%d" % i, "".join(rng.choice("ACGT") for _ in range(L))) for i in range(nrow)]
        kw = lambda w: w if rng.random() < 0.6 else (w.upper() if rng.random() < 0.5 else "".join(c.upper() if rng.random() < 0.5 else c for c in w))
        sep = lambda: rng.choice([" ", " ", "\n", "\n", " [c] ", "\n[c;c]\n", "  "])
        declared_nt = rng.choice([nrow, nrow, nrow, nrow + 1, nrow + 2, 1, 0, 9])
        declared_nc = rng.choice([L, L, L, L + 1, 1, 0, 7])
        dims = kw("dimensions") + sep() + rng.choice([
            "%s=%d %s=%d" % (kw("ntax"), declared_nt, kw("nchar"), declared_nc), "%s=%d" % (kw("ntax"), declared_nt),
            "%s=%d" % (kw("nchar"), declared_nc), "%s=%d %s=%d" % (kw("nchar"), declared_nc, kw("ntax"), declared_nt)]) + ";"
        fmtc = kw("format") + " " + kw("datatype") + "=" + rng.choice(["dna", "DNA", "nucleotide"]) + rng.choice(["", " gap=-", " missing=?"]) + ";"
        matrix = kw("matrix") + "\n" + "".join("%s %s\n" % r for r in rows) + ";"
        junk = lambda: rng.choice([";", ";", "foo bar;", "foo;", "options x=1;", "[note]", "charset a=1-2;", "title t;"])
        cmds = []
        if rng.random() < 0.85:
            cmds.append(dims)
        if rng.random() < 0.6:
            cmds.append(fmtc)
        if rng.random() < 0.25:
            cmds.append(dims if rng.random() < 0.5 else kw("dimensions") + " " + kw("ntax") + "=%d;" % rng.choice([nrow, nrow + 1]))
        if rng.random() < 0.5:
            rng.shuffle(cmds)
        cmds.append(matrix)
        body = []
        for c in cmds:
            while rng.random() < 0.3:
                body.append(junk())
            body.append(c)
        while rng.random() < 0.3:
            body.append(junk())
        blockname = rng.choice(["data", "data", "data", "characters", "DATA", "dAtA"])
        ender = rng.choice(["end;", "end;", "END;", "endblock;", "end ;", "end", ""])
        data_block = kw("begin") + " " + blockname + rng.choice([";", ";", ";;", " ;", ";\n;"]) + sep() + sep().join(body) + sep() + ender
        pre = []
        if rng.random() < 0.35:
            labels = [r[0] for r in rows] + (["zz"] if rng.random() < 0.2 else [])
            tn = rng.choice([len(labels), len(labels), nrow + 1, 9])
            tb = [kw("dimensions") + " " + kw("ntax") + "=%d;" % tn, kw("taxlabels") + " " + " ".join(labels) + ";"]
            if rng.random() < 0.3:
                tb.insert(rng.randint(0, 2), junk())
            pre.append(kw("begin") + " taxa" + rng.choice([";", ";;"]) + sep() + sep().join(tb) + sep() + rng.choice(["end;", "endblock;", "END;"]))
        if rng.random() < 0.2:
            pre.append(kw("begin") + " " + rng.choice(["trees", "sets", "assumptions"]) + ";" + sep() + rng.choice(["tree t=(a,b);", "dimensions ntax=7;", "x;"]) + sep() + rng.choice(["end;", "endblock;"]))
        post = []
        if rng.random() < 0.2:
            post.append(kw("begin") + " " + rng.choice(["trees", "sets", "data"]) + ";" + sep() + rng.choice(["tree t=(a,b);", "dimensions ntax=7;", "x;"]) + sep() + rng.choice(["end;", "endblock;", ""]))
        if rng.random() < 0.15:
            rng.shuffle(pre)
        txt = "#NEXUS" + rng.choice(["\n", "\n\n", " ", "\n[c]\n"]) + sep().join(pre + [data_block] + post) + rng.choice(["\n", "", "\n\n"])
        yield Case("parse", ["nexus", popts_default("nexus", 0), G.hx(txt.encode())], True, "nexus:commands")


def line_level_cases(rng, tier):
    """Clustal, Stockholm and Phylip files assembled line by line: blocks whose rows come in the right / another order, with
    one row more or less, repeated or renamed; cumulative counts right or wrong; conservation lines, blank lines, markup and
    terminators present, repeated or missing; header counts that fit or not; things after the end"""
    n = 300 if tier == "quick" else 4000
    nl = lambda: rng.choice(["\n", "\n", "\n", "\r\n", "\n\n"])
    for _ in range(n):
        nrow = rng.randint(1, 4)
        nblock = rng.randint(1, 3)
        w = rng.randint(1, 5)
        names = ["t%d" % i for i in range(nrow)]
        seqs = {nm: "".join(rng.choice("ACGT-") for _ in range(w * nblock)) for nm in names}

        def block_rows(b, with_counts=False):
            rows = list(names)
            k = rng.random()
            if k < 0.08 and len(rows) > 1:
                rows = rows[:-1]                      # a row missing
            elif k < 0.16:
                rows = rows + [rng.choice(rows + ["zz"])]   # a row more (repeated or unknown)
            elif k < 0.24:
                rng.shuffle(rows)
            out = []
            for nm in rows:
                chunk = seqs.get(nm, "A" * (w * nblock))[b * w:(b + 1) * w]
                if rng.random() < 0.05:
                    chunk = chunk[:-1] or "A"
                cnt = ""
                if with_counts:
                    cnt = " %d" % (len(seqs.get(nm, "")[: (b + 1) * w].replace("-", "")) + rng.choice([0, 0, 0, 1]))
                out.append((nm, chunk, cnt))
            return out
        # --- Clustal
        wc = rng.random() < 0.4
        txt = rng.choice(["CLUSTAL W (1.82) multiple sequence alignment", "CLUSTAL W", "CLUSTAL", "CLUSTAL O(1.2.4)"]) + nl() + nl()
        for b in range(nblock):
            for nm, ch, cnt in block_rows(b, wc):
                txt += "%s%s%s%s" % (nm, rng.choice(["  ", " ", "      "]), ch, cnt) + nl()
            if rng.random() < 0.8:
                txt += " " * 4 + "".join(rng.choice(" *:.") for _ in range(w)) + nl()
            if rng.random() < 0.85 or b == nblock - 1:
                txt += nl()
        yield Case("parse", ["clustal", popts_default("clustal", 0), G.hx(txt.encode())], True, "clustal:lines")
        # --- Stockholm
        txt = rng.choice(["# STOCKHOLM 1.0", "# STOCKHOLM 1.0", "# stockholm 1.0", "#STOCKHOLM 1.0"]) + nl()
        if rng.random() < 0.4:
            txt += "#=GF ID x" + nl()
        for b in range(nblock):
            for nm, ch, _ in block_rows(b):
                txt += "%s %s" % (nm, ch) + nl()
                if rng.random() < 0.15:
                    txt += "#=GR %s SS %s" % (nm, "." * len(ch)) + nl()
            if rng.random() < 0.3:
                txt += "#=GC cons " + "x" * w + nl()
            if b < nblock - 1:
                txt += nl()
        txt += rng.choice(["//", "//", "//\n", "", "//\n//\n", "//\nt0 ACGT\n", "#=GF x"])
        yield Case("parse", ["stockholm", popts_default("stockholm", 0), G.hx(txt.encode())], True, "stockholm:lines")
        # --- Phylip (relaxed and strict): header counts that fit or not, later blocks without names
        L = w * nblock
        hn = rng.choice([nrow, nrow, nrow, nrow + 1, max(0, nrow - 1), 0])
        hl = rng.choice([L, L, L, L + 1, max(0, L - 1), 0])
        strict = rng.random() < 0.3
        txt = rng.choice(["", " ", "   "]) + "%d%s%d" % (hn, rng.choice([" ", "  ", "\t"]), hl) + nl()
        for b in range(nblock):
            rows = block_rows(b)
            for nm, ch, _ in rows:
                if b == 0:
                    txt += (nm.ljust(10) if strict else nm + rng.choice(["  ", " "])) + ch + nl()
                else:
                    txt += ch + nl()
            if b < nblock - 1:
                txt += nl()
        if rng.random() < 0.15:
            txt += rng.choice(["t0 ACGT\n", " 1 1\nx A\n", "ACGT\n"])
        yield Case("parse", ["phylip", popts_default("phylip", 1 if strict else 0), G.hx(txt.encode())], True, "phylip:lines")


def gen(rng, tier):
    for c in nexus_command_cases(rng, tier):
        yield c
    for c in line_level_cases(rng, tier):
        yield c
    thorough = tier != "quick"
    sd = seeds(rng)
    seedset = {d for _, _, d, _, _ in sd}
    big = 0
    # option-sensitive seeds get every option; the others the default option + one random option set
    for fmt, strict, data, hdr, tag in sd:
        allopts = popts_all(fmt)
        optsens = ("dup" in tag or "prot" in tag or tag.endswith("-nt"))
        for mutant, off, mtag in variants(fmt, data, hdr, rng, tier, tag):
            nontriv = mutant not in seedset and off is not None and off >= hdr
            if mtag.endswith("2^31"):
                # (maps 48 GB lazily and keeps the GC busy for seconds: a handful only, so that the machine stays quiet)
                big += 1
                if big > (3 if not thorough else 8):
                    continue
                yield Case("parse", [fmt, popts_default(fmt, strict), G.hx(mutant)], nontriv, "%s:%s" % (fmt, mtag))
                continue
            if thorough:
                if mtag in ("subst", "nul-inserted", "hash-inserted", "markup-inserted", "open-bracket-inserted"):
                    opts = [popts_default(fmt, strict), rng.choice(allopts)]
                elif mtag == "truncate" and not optsens:
                    opts = [popts_default(fmt, strict)] + rng.sample(allopts, 2)
                else:
                    opts = allopts
            elif optsens and mtag in ("valid", "truncate", "line-duplicate", "line-delete"):
                opts = allopts if mtag != "truncate" else [popts_default(fmt, strict)] + rng.sample(allopts, 2)
            else:
                opts = [popts_default(fmt, strict), rng.choice(allopts)]
            for o in dict.fromkeys(opts):
                yield Case("parse", [fmt, o, G.hx(mutant)], nontriv, "%s:%s" % (fmt, mtag))
    # structural cases with every option
    for fmt in G.FORMATS:
        for data, tag in structural(fmt, rng):
            for o in popts_all(fmt):
                yield Case("parse", [fmt, o, G.hx(data)], True, "%s:structural-%s" % (fmt, tag))
            yield Case("auto", [0, G.hx(data)], True, "auto:structural")
            yield Case("auto", [1, G.hx(data)], True, "auto:structural")
    # token splices across formats: a prefix of one file (cut at a token boundary) + a suffix of another
    ns = 1500 if not thorough else 12000
    for _ in range(ns):
        f1, s1, d1, h1, t1 = rng.choice(sd)
        f2, s2, d2, h2, t2 = rng.choice(sd)
        b1 = token_boundaries(d1)
        b2 = token_boundaries(d2)
        cut1, cut2 = rng.choice(b1), rng.choice(b2)
        data = d1[:cut1] + d2[cut2:]
        fmt = rng.choice([f1, f2])
        o = rng.choice(popts_all(fmt))
        yield Case("parse", [fmt, o, G.hx(data)], data not in seedset and cut1 >= h1, "%s:splice" % fmt)
    # every seed and a sample of its mutants through the auto-detecting entry point and every other parser
    for fmt, strict, data, hdr, tag in sd:
        yield Case("auto", [strict, G.hx(data)], False, "auto:valid")
        for k in range(0, len(data), 1 if thorough else 7):
            yield Case("auto", [strict, G.hx(data[:k])], k >= hdr, "auto:truncate")
        for other in G.FORMATS:
            if other != fmt:
                yield Case("parse", [other, popts_default(other), G.hx(data)], False, "%s:foreign-file" % other)
    # multi-Phylip streams
    ph = [d for f, s, d, h, t in sd if f == "phylip" and s == 0 and "wide" not in t]
    for _ in range(40 if not thorough else 200):
        k = rng.randint(1, 3)
        sep = rng.choice([b"", b"\n", b"\n\n", b" \n"])
        data = sep.join(rng.choice(ph) for _ in range(k))
        yield Case("parsemulti", ["0,0,2", G.hx(data)], True, "multi:valid")
        step = 1 if thorough else 5
        for c in range(0, len(data), step):
            yield Case("parsemulti", ["0,%d,2" % rng.randint(0, 2), G.hx(data[:c])], True, "multi:truncate")
    yield from partition_cases(rng, tier)
    # bytes >= 128: the lexers read runes (Model/Fmt/Utf8.lean); strata of driver/utf8gen.py
    yield from U.cases(rng, tier, sd, popts_all, popts_default, token_boundaries)


# ---- shrinking: bytes ----------------------------------------------------------------------------------

def _data_index(c):
    if c.op == "parse":
        return 2
    if c.op in ("auto", "parsemulti"):
        return 1
    return None


def shrink(c):
    k = _data_index(c)
    if k is None:
        return
    data = G.unhx(c.args[k])
    n = len(data)
    seen = set()
    for a, b in dd_chunks(n):
        d = data[:a] + data[b:]
        if d not in seen:
            seen.add(d)
            args = list(c.args)
            args[k] = G.hx(d)
            yield Case(c.op, args)
    # simplify bytes towards 'A' / shrink numbers
    for i in range(n):
        if data[i:i + 1] not in (b"A", b"\n", b" ") and data[i] >= 0x30:
            d = data[:i] + b"A" + data[i + 1:]
            if d not in seen:
                seen.add(d)
                args = list(c.args)
                args[k] = G.hx(d)
                yield Case(c.op, args)


# ---- watchdog hits that no known root cause explains are re-run alone (machine load must not fail the check) ------

def recheck(binpath, cases):
    from driver import common
    sus = [c for c in cases if (c.impl in ("hang",) or (c.impl or "").startswith("exit:-")) and classify(c) is None]
    for c in sus[:40]:
        again = Case(c.op, c.args, c.nontrivial, c.tag)
        common.evaluate(binpath, [again], timeout_s=2 * TIMEOUT)
        c.impl, c.model, c.verdict = again.impl, again.model, again.verdict


# ---- known findings (precise, per root cause) --------------------------------------------------------

def _fmt_of(c):
    if c.op == "parse":
        return c.args[0]
    if c.op == "parsemulti":
        return "phylip"
    if c.op == "auto":
        d = G.unhx(c.args[1])
        return {b">": "fasta", b"#": "nexus", b"C": "clustal"}.get(d[:1], "phylip")
    return None


def _data(c):
    k = _data_index(c)
    return G.unhx(c.args[k]) if k is not None else b""


def classify(c):
    fmt, v, impl, data = _fmt_of(c), c.verdict or "", c.impl or "", _data(c)
    eff = data.split(b"\x00", 1)[0]
    if fmt == "fasta" and v == "fail:empty-alignment":
        # no record has a sequence line with a non-space byte
        body = [ln for ln in re.split(b"[\r\n]+", eff) if ln and not ln.startswith(b">")]
        if all(not ln.replace(b" ", b"") for ln in body):
            return "fasta-empty-success"
    if fmt == "stockholm" and v == "fail:empty-alignment":
        return "stockholm-empty-success"
    if fmt == "stockholm" and v == "fail:hang":
        last = re.split(b"\n", data)[-1]
        # a '#' that starts a token (MARKUP) on a last line that has no newline
        if re.search(rb"(^|[ \t#\r\x00])#", last):
            return "stockholm-markup-eof-hang"
    if fmt == "nexus" and v == "fail:hang":
        # some '[' token whose comment is not closed by a ']' TOKEN before the end of the input (a ']' right after a
        # lone CR is swallowed into an identifier by the lexer)
        i = data.rfind(b"[")
        rest = data[i:].replace(b"\r]", b"") if i >= 0 else b""
        if i >= 0 and (b"]" not in rest or any(b"]" not in data[k:].replace(b"\r]", b"") for k in range(len(data)) if data[k:k + 1] == b"[")):
            return "nexus-unterminated-comment-hang"
    if fmt == "clustal" and v == "fail:panic" and "index out of range" in impl:
        if len(re.split(rb"\n[ \t]*[^\n]*\n[ \t\r]*\n", data)) >= 2 or data.count(b"\n\n") >= 2:
            return "clustal-later-block-extra-row-panic"
    if fmt == "phylip" and (v == "fail:hang" or v == "fail:process-died" or (v == "fail:panic" and "makeslice" in impl)):
        # the declared number of sequences exceeds what the input could hold, and is used for make()
        m = re.match(rb"[ \t\r\n]*(\d+)", data)
        if m and int(m.group(1)) > len(data) and int(m.group(1)) >= 1 << 27:
            return "phylip-header-count-unchecked-allocation"
    if fmt == "nexus" and v == "fail:zero-columns":
        return "nexus-zero-length-success"
    if fmt == "nexus" and v.startswith("fail:contradicts-header-") and re.search(rb"(?i)(ntax|nchar)\s*=\s*-1\b", data):
        return "nexus-count-minus-one-sentinel"
    if fmt == "phylip" and v == "fail:panic" and "index out of range" in impl and any(b >= 0x80 for b in data):
        strict = (c.op == "parse" and c.args[1].startswith("1")) or (c.op == "auto" and c.args[0] == "1")
        if strict:
            return "phylip-strict-non-ascii-name-panic"
    if fmt == "partition" and v == "fail:panic" and "index out of range [-" in impl and b"/" in data:
        return "partition-modulo-overflow-panic"
    return None
