"""C17 — protein distances are likelihood maximisers forming a sane matrix."""
import struct
import sys

from driver import common
from driver.common import Case, dd_chunks

ID = "C17"
LEVEL_TEXT = (
    "Lean theorems (for all alignments / all objectives). (a) Over any numeric type: the matrix MLDist assembles is symmetric "
    "with a zero diagonal and a pair without a site holding two unambiguous different residues is at 0; the pair-frequency "
    "matrix ignores ambiguous sites (it equals the naive count over selected sites where both rows hold an amino acid), swapping "
    "the two rows transposes it, and JC69Dist's counters are symmetric. (b) Over the reals: the normalised pair frequencies sum "
    "to 1, all counts are invariant under any permutation of the columns (weights permuted along), row permutation leaves the "
    "site selection unchanged; the regenerated JC69 cell equals the published formula, lies in [0, 20] and is 0 without a "
    "difference; the model of dist_F_Brent, for ANY objective f: at most BRENT_ITMAX+1 evaluations, the returned abscissa is "
    ">= BL_MIN, is one of the evaluated points and no evaluated point has a smaller f (so no evaluated distance has a higher "
    "likelihood); hence every reported entry is 0, or lies in [BL_MIN, 20] (or is the missing marker -1 of the unchanged tree, "
    "theorem names the case), and an entry below the cap is the best evaluated point. "
    "ONLY TESTED, not proved: that the reported distance maximises the likelihood over the whole range [1e-8, 20] (needs "
    "unimodality of a spectral likelihood built from gonum's numeric eigen-decomposition): every run evaluates an independent "
    "likelihood (own pair frequencies, P(t) = R diag(g(lambda t)) L from the eigen-system the implementation used) on a 61-point log grid "
    "and at d(1 +- 1e-3), d(1 +- 1e-2), d(1 +- 0.1), d(1 +- 0.3); and that row / column permutations permute / keep the *distances* "
    "(needs reversibility of the numeric P(t)): checked on the implementation's three matrices per case.")
LEVEL_NOTE = (
    "Trusted: Lean kernel; tools/extract (constants, literals, ambiguity characters, the JC69 cell and three variant facts are "
    "regenerated from distance/protein/*.go on every run; the generated text is executed against the Go code); harness + oracle; "
    "float64 rounding, math.Exp/Log/Pow and Lean's libm (frequencies and p-distances are compared bit-exactly, JC69 distances "
    "to 1e-12, ML distances to the resolution of the Brent stop rule: |a-b| <= 1e-6 max(1,|a|,|b|) or equal likelihood to 1e-12); "
    "gonum's Eigen/Inverse (the implementation's eigen-system is read through reflect and used by model and oracle alike; its "
    "validity is property C18) and mat.Sum. The hand-written model is validated on generated alignments (2-6 rows x 5-60 columns) only.")
TECHNIQUE = "Lean 4 proof (list induction, permutation invariance, loop invariant of Brent's method over R for any objective) + regenerated constants/formula + differential correspondence + independent likelihood grid (testing)"
LEAN_MODULES = ["Gv.Props.C17"]
REQUIRED_THEOREMS = ["Gv.Props.C17." + n for n in [
    "source_shape_known",
    "matrix_symmetric", "matrix_diag_zero", "entry_is_pair_result", "zero_when_no_unambiguous_difference",
    "pairFreq_masks_ambiguous", "counts_row_swap", "jcCounts_symmetric", "pairFreq_sums_to_one",
    "counts_column_permutation", "selection_row_permutation",
    "jc69_eq_published", "jc69_range", "jc69_zero_of_no_difference",
    "brent_evaluations_bounded", "brent_result_ge_blmin", "brent_result_is_best_evaluated", "optDistF_result",
    "likelihood_clamps_distance",
    "entry_in_range_or_missing_marker", "missing_marker_only_without_counted_weight", "range_0_20",
    "reported_distance_is_best_evaluated", "lnL_transpose_of_reversible_partial",
]]
PARTIAL = [
    "likelihood maximiser over the whole range [1e-8, 20]: NOT proved (needs unimodality of a 20x20 spectral likelihood built from a numeric "
    "eigen-decomposition). Proved instead, for any objective: the reported distance is one of the <= BRENT_ITMAX+1 evaluated points and no "
    "evaluated point has a higher likelihood (brent_result_is_best_evaluated, reported_distance_is_best_evaluated). The whole-range clause is "
    "TESTED on every case: independent likelihood (oracle's own pair frequencies; P(t) = R diag(g(lambda t)) L from the implementation's "
    "eigen-system, g = exp or the gamma mixture) on a 61-point log grid over [1e-8, 20] and at d(1 +- 1e-3), d(1 +- 1e-2), d(1 +- 0.1), "
    "d(1 +- 0.3), tolerance 1e-9 max(1, |lnL|) (a search stopped within the stop rule's 1e-6 of a maximiser loses <= 2e-10)",
    "upper bound BL_MAX on Brent's abscissa for an ARBITRARY objective: not a theorem of the code as written (a forced minimal step x +- tol1 can "
    "leave a bracket narrower than 2 tol1; standard Brent prevents this through the stop test the unchanged tree replaced). Proved instead: the "
    "abscissa is >= BL_MIN, lk_Dist only sees it clamped into [BL_MIN, BL_MAX] (likelihood_clamps_distance) and MLDist caps the stored value at 20",
    "range_0_20 is for the repaired source (check2SequencesDiff honours the selection) with positive weights and the protein alphabet; for the "
    "unchanged tree the theorem is entry_in_range_or_missing_marker (0, -1, or [BL_MIN, 20]) + missing_marker_only_without_counted_weight",
    "row permutation => permuted matrix and column permutation => same matrix are proved for the COUNTS over the reals (counts_row_swap, "
    "selection_row_permutation, counts_column_permutation) and for the matrix assembly; for the distances they need (i) reversibility of the "
    "numerically decomposed P(t) (lnL_transpose_of_reversible_partial is the step under that hypothesis) and (ii) exact arithmetic - float "
    "sums depend on the order of the columns. Tested on every case: |x-y| <= 1e-5 max(1,|x|,|y|) or equal likelihood to 1e-12, between "
    "entries that are maximisers in both calls",
    "empirical equilibrium frequencies (aaFrequency) are modelled and compared bit-exactly; no theorem relates them to the alignment's "
    "composition (the property does not ask for it)",
    "NaN / Inf / signed zeros, rounding and the last-ulp behaviour of math.Exp/Log/Pow are not modelled (theorems over the reals; Brent's "
    "'best evaluated point' theorem needs a total order on objective values, which float64 with NaN is not)",
    "stepsize is 1 in every caller (NewProtDistModel); JC69Dist is modelled for stepsize 1 only",
]
TRUSTED = [
    "gonum mat.Eigen / Dense.Inverse (external call; the eigen-system the implementation computed is read through reflect and handed to model and "
    "oracle; its validity is property C18) and gonum mat.Sum (only compared with the thresholds .001, 1 +- .001)",
    "float64 rounding, math.Exp/Log/Pow vs Lean's libm: correspondence tolerance on ML distances = the Brent stop rule's resolution",
    "the oracle's specification side (lean/Gv/Oracle/ProtDist.lean: specF, specLnL, judgeLk): independent of the model, hand-written",
]
ASSUMPTIONS = ["site weights are finite and positive, alpha > 0, residues are the 20 amino acids (upper case), '-', 'X' or '*'"]
RULE = ("protein alignments of 2-6 rows x 5-60 columns derived from a random parent (identical, 1-3 substitutions, 5 %, 20 %, 50 %, "
        "saturated) with gaps / X / * sprinkled or in runs; 7 models x {model, empirical} frequencies x gamma on/off (alpha in "
        "{1/2, 1, 2}) x gap-site removal x weights {none, ones, positive ratios}; every case also runs one random row permutation "
        "and one random column permutation; non-trivial = some pair below the cap with at least one ambiguous site. "
        "Command layer (binary built from the tree): `compute distance -m dayoff|jtt|mtrev|lg|wag|hivb|ab` with -r / --alpha / -a and the "
        "flags that do not reach the protein code (--gap-mut, --rm-ambiguous, --range1/2) = the library call (fresh model object, "
        "NewProtDistModel / InitModel(nil, nil) / MLDist on the alignment with the alphabet the parsers detect) to the 12 printed "
        "decimals, FASTA and Phylip inputs holding 2-4 alignments (one model object in the command, a fresh one per alignment in "
        "the expectation); alignments whose letters are all nucleotide codes and names ModelStringToInt does not know "
        "(`dayhoff`, upper case) must fail alike; `build distboot -m <protein model> [-r] [--alpha]` = build seqboot + compute distance")
TIMEOUT = 30.0
NEEDS_BINARY = True      # the `det*` cases run the goalign binary built from the working tree

AA = "ARNDCQEGHILKMFPSTWYV"
ALPHAS = ["1/2", "1", "2"]
WEIGHTS = ["1", "2", "1/2", "3/10", "7/3", "5", "3/2", "1/4"]


def rows_str(rows):
    return ",".join("s%d:%s" % (i, r) for i, r in enumerate(rows))


def mk(model, mf, gamma, alpha, rg, weights, rp, cp, rows, tag):
    w = "_" if weights is None else ",".join(weights)
    amb = any(ch not in AA for r in rows for ch in r)
    differ = len(set(rows)) > 1
    return Case("c17", [model, int(mf), int(gamma), alpha, int(rg), w, ",".join(map(str, rp)), ",".join(map(str, cp)),
                        rows_str(rows)], amb and differ, tag)


def derive(rng, parent, kind):
    L = len(parent)
    s = list(parent)
    if kind == "identical":
        return s
    if kind == "near":
        for _ in range(rng.randint(1, 3)):
            j = rng.randrange(L)
            s[j] = rng.choice([c for c in AA if c != s[j]])
        return s
    rate = {"few": 0.05, "some": 0.2, "many": 0.5, "saturated": 1.0}[kind]
    for j in range(L):
        if rng.random() < rate:
            s[j] = rng.choice(AA) if kind != "saturated" else rng.choice([c for c in AA if c != parent[j]])
    return s


def rand_alignment(rng):
    n = rng.randint(2, 6)
    L = rng.choice([5, 6, 8, 10, 15, 20, 30, 40, 60])
    comp = rng.choice([AA, AA, AA, "ARNDCQEG", "LIVMFWY", "AG"])
    parent = [rng.choice(comp) for _ in range(L)]
    rows = [list(parent)]
    for _ in range(n - 1):
        base = rng.choice(rows + [parent])
        rows.append(derive(rng, base, rng.choice(["identical", "near", "near", "few", "some", "some", "many", "saturated"])))
    style = rng.choice(["plain", "gaps", "amb", "both", "both", "runs"])
    for r in rows:
        if style in ("gaps", "both"):
            for j in range(L):
                if rng.random() < 0.08:
                    r[j] = "-"
        if style in ("amb", "both"):
            for j in range(L):
                if rng.random() < 0.06:
                    r[j] = rng.choice("X*")
        if style == "runs" and rng.random() < 0.7:
            a = rng.randrange(L)
            for j in range(a, min(L, a + rng.randint(1, max(1, L // 3)))):
                r[j] = "-"
    rng.shuffle(rows)
    return ["".join(r) for r in rows]


def rand_options(rng, L, model=None, mf=None, gamma=None, rg=None):
    model = rng.randrange(7) if model is None else model
    mf = (rng.random() < 0.6) if mf is None else mf
    gamma = (rng.random() < 0.5) if gamma is None else gamma
    alpha = rng.choice(ALPHAS) if gamma else "1"
    rg = (rng.random() < 0.4) if rg is None else rg
    k = rng.random()
    weights = None if k < 0.5 else (["1"] * L if k < 0.6 else [rng.choice(WEIGHTS) for _ in range(L)])
    return model, mf, gamma, alpha, rg, weights


def perms(rng, n, L):
    rp = list(range(n))
    rng.shuffle(rp)
    cp = list(range(L))
    rng.shuffle(cp)
    return rp, cp


# minimal witnesses of the departures recorded in known_findings.jsonl (row names p0.. keep them apart from the corpus)
PROBES = [
    ("missing-marker", [3, 1, 0, "1", 1, "_", "0,1,2", "0,1", "p0:XC,p1:AD,p2:A-"]),
    ("empirical-freq-order", [3, 0, 0, "1", 0, "_", "2,1,0", "9,8,7,6,5,4,3,2,1,0", "p0:ACDEFGHIKL,p1:ACDEFGHIKM,p2:ACDE-GHIKL"]),
]


PROT_ONLY = "QEILFP"          # the amino-acid letters that are not nucleotide codes (align.DetectAlphabet)
CLI_MODELS = ["dayoff", "jtt", "mtrev", "lg", "wag", "hivb", "ab"]


def force_protein(rng, rows):
    """every column gets a letter that only an amino-acid alignment can hold: the parsers of the command decide the alphabet
    from the residues, and a bootstrap replicate must be read as amino acids whatever columns it drew"""
    rows = [list(r) for r in rows]
    for j in range(len(rows[0])):
        if not any(r[j] in PROT_ONLY for r in rows):
            rng.choice(rows)[j] = rng.choice(PROT_ONLY)
    return ["".join(r) for r in rows]


def gen_cli(rng, tier):
    """command-line glue (ops `detdist`, `detdistmulti`, `detboot` of driver/common.py, run on the binary built from the tree):
    `goalign compute distance -m <protein model>` prints the matrix the library call returns (fresh model object,
    NewProtDistModel / InitModel(nil, nil) / MLDist) to 12 decimals, one matrix after the other on an input holding several
    alignments; `build distboot -m <protein model>` prints what seqboot + compute distance print"""
    quick = tier == "quick"
    # one alignment (FASTA): every model x -r x --alpha; flags that do not reach the protein code; -a
    grid = [(m, rg, al) for m in CLI_MODELS for rg in ("0", "1") for al in ("0", "1/2", "2")]
    for k in range(len(grid) + (40 if quick else 600)):
        model, rg, alpha = grid[k] if k < len(grid) else (rng.choice(CLI_MODELS), rng.choice("01"), rng.choice(["0", "0", "1/2", "1", "2"]))
        rows = rand_alignment(rng)
        u = rng.random()
        tag = "cli-compute-distance"
        if u < 0.75:
            rows = force_protein(rng, rows)
        elif u < 0.85:
            # letters that are all nucleotide codes: the command reads a nucleotide alignment and MLDist refuses it
            comp = rng.choice(["ARNDCGHKMSTWYV", "ACGT", "AG"])
            rows = ["".join(rng.choice(comp) if ch in PROT_ONLY else ch for ch in r) for r in rows]
            tag = "cli-compute-distance-nucleotide-letters"
        gm, ra, r1, r2 = "0", "0", "_", "_"
        v = rng.random()
        if v < 0.1:
            gm = rng.choice(["1", "2"])
        elif v < 0.2:
            ra = "1"
        elif v < 0.3 and len(rows) >= 3:
            r1, r2 = "0:0", "1:%d" % (len(rows) - 1)
        if rng.random() < 0.04:
            model = rng.choice(["dayhoff", "JTT", "LG"])      # not names ModelStringToInt knows: the command must fail
            tag = "cli-compute-distance-unknown-name"
        args = [rows_str(rows), model, rg, gm, ra, alpha, r1, r2]
        if rng.random() < 0.2:
            args.append("avg")
            tag += "-average"
        yield Case("detdist", args, True, tag)
    # several alignments in one Phylip input: ONE model object serves them all in the command
    for _ in range(25 if quick else 300):
        groups = []
        for _k in range(rng.randint(2, 4)):
            rows = rand_alignment(rng)
            groups.append(rows_str(force_protein(rng, rows) if rng.random() < 0.93 else rows))
        yield Case("detdistmulti", [";;".join(groups), rng.choice(CLI_MODELS), rng.choice(["0", "1", "1"]), rng.choice(["0", "0", "1/2", "2"]),
                                    rng.choice(["1", "2", "4"])], True, "cli-compute-distance-multi")
    # build distboot = build seqboot + compute distance on every replicate
    for k in range(10 if quick else 120):
        rows = rand_alignment(rng)
        while len(rows[0]) < 15 or len(rows) < 3:
            rows = rand_alignment(rng)
        rows = force_protein(rng, rows)
        model = CLI_MODELS[k % len(CLI_MODELS)] + rng.choice(["", "", " -r"]) + rng.choice(["", "", " --alpha 0.5", " --alpha 2"])
        fa = "".join(">s%d|%s|" % (i, r) for i, r in enumerate(rows))
        yield Case("detboot", [fa, model, rng.randint(1, 4), rng.choice(["1/1", "1/1", "1/2", "3/4"]), rng.randint(0, 2 ** 31 - 1),
                               rng.choice(["1", "2", "4"])], True, "cli-distboot")


def gen(rng, tier):
    for name, args in PROBES:
        yield Case("c17", args, True, "probe-" + name)
    quick = tier == "quick"
    # every model x frequencies x gamma/alpha x gap removal
    for model in range(7):
        for mf in (True, False):
            for gamma, alpha in [(False, "1")] + [(True, a) for a in ALPHAS]:
                for rg in (False, True):
                    for _ in range(1 if quick else 6):
                        rows = rand_alignment(rng)
                        n, L = len(rows), len(rows[0])
                        _, _, _, _, _, weights = rand_options(rng, L)
                        rp, cp = perms(rng, n, L)
                        yield mk(model, mf, gamma, alpha, rg, weights, rp, cp, rows,
                                 "grid-m%d-%s%s" % (model, "model" if mf else "empirical", "-gamma" if gamma else ""))
    for _ in range(500 if quick else 6000):
        rows = rand_alignment(rng)
        n, L = len(rows), len(rows[0])
        o = rand_options(rng, L)
        rp, cp = perms(rng, n, L)
        yield mk(*o, rp, cp, rows, "random-%s" % ("model" if o[1] else "empirical"))
    # the same three calls through ONE model object (as `compute distance` / `distboot` do for the alignments of their
    # input): what a call returns must not depend on the alignments the model has seen before; gap runs make the selected
    # sites of the column-permuted alignment differ from those of the original
    for _ in range(60 if quick else 600):
        rows = rand_alignment(rng)
        n, L = len(rows), len(rows[0])
        o = rand_options(rng, L, rg=(rng.random() < 0.7))
        rp, cp = perms(rng, n, L)
        c = mk(*o, rp, cp, rows, "reuse-%s" % ("model" if o[1] else "empirical"))
        c.args.append("reuse")
        yield c
    for c in gen_cli(rng, tier):
        yield c


def parse_rows(s):
    return [r.split(":", 1)[1] for r in s.split(",")]


def shrink(c):
    if c.op != "c17":
        return
    a = list(c.args)
    rows = parse_rows(a[8])
    n, L = len(rows), len(rows[0])
    w = None if a[5] == "_" else a[5].split(",")
    rp = [int(x) for x in a[6].split(",")]
    cp = [int(x) for x in a[7].split(",")]

    def renum(p, removed):
        q = [x for x in p if x not in removed]
        order = sorted(q)
        return [order.index(x) for x in q]

    def case(rows2=None, w2="keep", rp2=None, cp2=None, **kw):
        b = list(a)
        r2 = rows if rows2 is None else rows2
        b[8] = rows_str(r2)
        ww = w if w2 == "keep" else w2
        b[5] = "_" if ww is None else ",".join(ww)
        b[6] = ",".join(map(str, rp if rp2 is None else rp2))
        b[7] = ",".join(map(str, cp if cp2 is None else cp2))
        for k, i in (("mf", 1), ("gamma", 2), ("alpha", 3), ("rg", 4)):
            if k in kw:
                b[i] = str(kw[k])
        return Case(c.op, b)

    if rp != list(range(n)):
        yield case(rp2=list(range(n)))
    if cp != list(range(L)):
        yield case(cp2=list(range(L)))
    if w is not None:
        yield case(w2=None)
    if n > 2:
        for i in range(n):
            yield case(rows2=rows[:i] + rows[i + 1:], rp2=renum(rp, {i}))
    if L > 1:
        for st, en in dd_chunks(L):
            if en - st < L:
                rm = set(range(st, en))
                yield case(rows2=[r[:st] + r[en:] for r in rows], w2=None if w is None else w[:st] + w[en:],
                           cp2=renum(cp, rm))
    if a[2] == "1":
        yield case(gamma=0, alpha="1")
    if a[4] == "1":
        yield case(rg=0)
    if a[1] == "0":
        yield case(mf=1)
    if L <= 12:
        for i in range(n):
            for j in range(L):
                if rows[i][j] != "A":
                    r2 = list(rows)
                    r2[i] = rows[i][:j] + "A" + rows[i][j + 1:]
                    yield case(rows2=r2)


KNOWN_BY_CLAUSE = {
    "range-missing-marker": "c17-missing-marker-minus-one",
    "row-perm-empirical-freq": "c17-empirical-frequencies-order-dependent",
    "col-perm-empirical-freq": "c17-empirical-frequencies-order-dependent",
    "lk-nearby": "c17-brent-stops-before-convergence",
    "lk-grid": "c17-local-maximum-not-global",
}
PRIORITY = ["c17-empirical-frequencies-order-dependent", "c17-missing-marker-minus-one", "c17-brent-stops-before-convergence",
            "c17-local-maximum-not-global"]


def classify(case):
    """a failing verdict is attributed to recorded findings only when EVERY failing clause is the signature of one"""
    v = case.verdict or ""
    if case.op != "c17" or not v.startswith("fail:"):
        return None
    # the recorded findings are properties of the search AS IT IS WRITTEN (Brent's stop rule, the unchecked bracket):
    # they are recognised only when the faithful model of that search reproduces the implementation's matrices.
    # A non-maximiser that the model does not predict has another cause and is reported.
    if (case.model or "") != (case.impl or ""):
        return None
    ids = set()
    for cl in v[5:].split("+"):
        fid = KNOWN_BY_CLAUSE.get(cl)
        if fid is None:
            return None
        ids.add(fid)
    for fid in PRIORITY:
        if fid in ids:
            return fid
    return None


def decode(impl):
    if not (impl or "").startswith("ok "):
        return None
    out = {}
    for sec in impl[3:].split(";"):
        k, _, v = sec.partition("=")
        out[k] = [struct.unpack(">d", bytes.fromhex(x))[0] for x in v.split(",")] if v else []
    return out


def source_version(cases):
    """which of the recorded departures the source under test shows (read from the regenerated facts and the probes)"""
    out = {}
    try:
        gen = open(common.os.path.join(common.LEAN, "Gv/Gen/ProtDist.lean")).read()
    except OSError:
        gen = ""
    out["brent-stop-rule"] = "as-is" if "old_param-cur_param" in gen else ("repaired" if "tol2 - 0.5*(b-a)" in gen else "unknown")
    out["empirical-frequencies"] = "as-is" if "num[i] = w * freq[i]" in gen else ("repaired" if "num[i] += w * freq[i]" in gen else "unknown")
    out["missing-marker"] = "as-is" if 'check2SequencesDiff(&pair)"' in gen else ("repaired" if "check2SequencesDiff(&pair, selected)" in gen else "unknown")
    return out


def check(tier, seed):
    """generic flow with the memoising axiom audit (Mathlib-importing Props module) and one oracle process per core
    (an oracle call replays three MLDist runs per case)"""
    import json

    def audit_memo(modules):
        rc, out = common.run(["lake", "env", "lean", "--run", "Audit/AuditMemo.lean"] + modules, cwd=common.LEAN, timeout=1200)
        ths = []
        for m in common.re.finditer(r"THEOREM (\S+) (\S+) axioms=\[(.*?)\] (OK|FORBIDDEN)", out):
            axs = [a.strip() for a in m.group(3).split(",") if a.strip()]
            ths.append({"module": m.group(1), "name": m.group(2), "axioms": axs, "ok": m.group(4) == "OK"})
        return rc, ths, out
    common.audit = audit_memo
    orig_oracle = common.run_oracle
    common.run_oracle = lambda cases, nproc=None: orig_oracle(cases, nproc or min(common.NCPU, max(1, len(cases) // 8)))
    orig_impl = common.run_impl
    common.run_impl = lambda binpath, cases, timeout_s=5.0, nproc=None, env=None, **kw: orig_impl(
        binpath, cases, timeout_s, nproc or min(common.NCPU, max(1, len(cases) // 8)), env, **kw)
    rc = common.generic_check(sys.modules[__name__], tier, seed)
    sv = source_version(None)
    print("SOURCE-VERSION property=C17 " + " ".join("%s=%s" % kv for kv in sorted(sv.items())))
    p = common.os.path.join(common.EVID, "C17.json")
    try:
        ev = json.load(open(p))
        ev["coverage"]["source_version_seen"] = sv
        json.dump(ev, open(p, "w"), indent=1)
    except (OSError, ValueError, KeyError):
        pass
    return rc
