"""C19 — queries never modify their input; copies share nothing with the original."""
from driver.common import Case

ID = "C19"
LEAN_MODULES = ["Gv.Props.C19"]
REQUIRED_THEOREMS = ["Gv.Props.C19." + n for n in [
    "queries_pure", "copies_own_data", "sampling_shares", "allocRows_disjoint_and_preserves", "allocRows_obs",
    "write_frame", "writes_frame", "mutating_copy_preserves_original",
    "typed_facts_wellformed", "queries_pure_typed", "copies_own_data_typed", "sampling_shares_typed", "pwaligner_isolated_typed"]]
LEVEL_TEXT = ("Lean theorems (kernel evaluation) over mutation facts regenerated from the source on every run, by two independent "
              "stages (syntactic go/ast; type-checked go/types with resolved callees, all implementations of interface calls, "
              "allocation-site freshness, writes classified by the type of the written location): no listed query reaches a write to "
              "sequence data through its input (call-graph closure), every listed copy operation hands only freshly allocated "
              "buffers to the new object / returns nothing that shares memory with an input, the pairwise aligner's constructor "
              "result shares nothing with its arguments and its methods write only inside it; plus ownership-model theorems: freshly "
              "allocated rows share no buffer with an existing container and writes outside a container never change what it shows, "
              "for arbitrary mutation sequences. Tied to /repo by the regeneration itself and by a run-time check: snapshot "
              "before/after every query, overlap of the backing arrays (slice pointers), in-place mutation of the copy and of the "
              "original.")
LEVEL_NOTE = ("Trusted: Lean kernel; tools/extract/mutfacts.go (syntactic go/ast analysis: name-based call graph, identifiers assigned "
              "from make/New*/Clone are fresh; types are read from declarations, not inferred) for queries_pure / copies_own_data; "
              "tools/mutscan (go/packages type check + flow-insensitive region analysis with summaries, one flow-sensitive refinement for straight-line uses of a variable just assigned a fresh call result) and the reviewed lists "
              "roExternals / dataStructs / dataContainers of Model/MutFactsT.lean for the ..._typed theorems; harness/oracle/driver.")
TECHNIQUE = "Lean 4 proof (decide +kernel over regenerated mutation facts, syntactic and type-checked; heap ownership model) + run-time aliasing correspondence"
RULE = ("alignments of 1..5 rows x 1..9 columns (nucleotide, protein), every query group (writers, statistics, coordinates, copies, "
        "distances, pairwise aligner) and every copy operation followed by in-place mutations of the copy and of the original; "
        "non-trivial = at least 2 rows and 2 columns")
PARTIAL = ["phaser.Phase is in the facts theorem of the syntactic stage only (queries_pure) and is checked at run time (inputs compared "
           "before/after): the type-checked analysis treats a region as everything reachable, so the NEW bag Phase fills with the "
           "bytes of an input row (orfs = NewSeqBag; orfs.AddSequenceChar(.., orf.SequenceChar(), ..); orfs.AutoAlphabet()) is one "
           "region with the input and the writes to the bag's own fields count as writes to the input (same reason: Sample / Rarefy "
           "are not provable pure); seqbag.LongestORF (reversed clone) is proved over the type-checked facts through the 'fresh "
           "window' refinement, as are all other interface queries, Sequence.Translate and the pairwise aligner "
           "(pwaligner_isolated_typed); the oracle's model side reads the syntactic facts",
           "the ownership model assumes the shape 'new object from freshly allocated buffers' that the facts theorems "
           "`copies_own_data` (syntactically) and `copies_own_data_typed` (allocation sites, go/types) establish; slices handed out "
           "by accessors (SequenceChar) are outside the property"]
TRUSTED = ["tools/mutscan fresh window: a variable assigned the result of a call whose summary-derived region shares memory with no "
           "input / package-level / unknown memory holds an unshared object until a statement of the same list mentions it other "
           "than as receiver / plain argument of a call whose summaries keep that input isolated (variables captured by closures "
           "or address-taken, labelled statements, calls with function-literal arguments are excluded)",
           "tools/mutscan: values of type error and strings carry no mutable reference; no unsafe / reflect / cgo writes; a store into a "
           "package-level variable through a local alias is not seen (direct stores are: typed_facts_wellformed)",
           "Model/MutFactsT.lean roExternals: the listed standard-library functions (bytes.Buffer.Write, fmt.*, bytes.*, regexp "
           "matching, io.Writer.Write) do not write through their arguments; a function parameter called inside Iterate* is "
           "accounted at the site of the literal passed by the caller (its parameters are unified with that call's receiver)"]

NT = "ACGTacgtN-"
# RNA (U/u: goalign's complement table is not an involution on them) and the IUPAC ambiguity codes in both cases
NTX = "ACGUacguTtRYSWKMBDHVNrykmn-"
AA = "ARNDCQEGHILKMFPSTWYVX-"


def rows_str(rows):
    return ",".join("%s:%s" % r for r in rows) if rows else "_"


def gen(rng, tier):
    N = 120 if tier == "quick" else 1200
    for _ in range(N):
        alpha = rng.choice([1, 1, 0])
        # soft-masked (lower-case) protein residues in a third of the protein cases
        sym = (AA + "arndlkmfx" if rng.random() < 0.35 else AA) if alpha == 0 else (NTX if rng.random() < 0.35 else NT)
        n = rng.randint(1, 5)
        L = rng.randint(1, 12)
        gaps = "-" * rng.choice([0, 0, 3, 8])
        rows = [("s%d" % i, "".join(rng.choice(sym + gaps) for _ in range(L))) for i in range(n)]
        rs = rows_str(rows)
        big = n >= 2 and L >= 2
        for q in ("writers", "stats", "coords", "copies", "dist", "sw"):
            yield Case("purity", [alpha, rs, q], big, "purity-" + q)
        # the same queries on an alignment whose alphabet was never detected (UNKNOWN = 3: built through the library
        # without AutoAlphabet) or is BOTH (2): the alphabet is part of what must stay unchanged
        if rng.random() < 0.5:
            a2 = rng.choice([3, 3, 2])
            for q in ("writers", "stats", "coords", "copies"):
                yield Case("purity", [a2, rs, q], big, "purity-%s-alphabet%d" % (q, a2))
        for c in ("clone", "clonebag", "subalign", "selectsites", "transpose", "bootstrap", "unalign", "sample", "randsub"):
            yield Case("alias", [alpha, rs, c], big, "alias-" + c)
        # growing the derived alignment in place (every row is appended to): spare capacity of a row must not lie inside
        # another row or inside the source
        for c in ("clone", "subalign", "selectsites", "transpose", "bootstrap", "randsub"):
            yield Case("aliasappend", [alpha, rs, c], big, "aliasappend-" + c)
        # the same constructors on windows / site lists of every shape (a run of consecutive sites, scattered,
        # reversed, repeated, a single site; interior windows; shorter random sub-alignments)
        if L >= 2:
            a0 = rng.randrange(L - 1)
            b0 = rng.randint(a0 + 1, L - 1)
            lists = [list(range(a0, b0 + 1)), sorted(rng.sample(range(L), rng.randint(1, L))),
                     list(range(L - 1, -1, -1)), [rng.randrange(L) for _ in range(rng.randint(1, L + 2))], [rng.randrange(L)]]
            for sl in lists:
                yield Case("alias", [alpha, rs, "selectsites", ",".join(map(str, sl))], big, "alias-selectsites-list")
            st = rng.randrange(L)
            yield Case("alias", [alpha, rs, "subalign", "%d,%d" % (st, rng.randint(1, L - st))], big, "alias-subalign-window")
            yield Case("aliasappend", [alpha, rs, "subalign", "%d,%d" % (st, rng.randint(1, L - st))], big, "aliasappend-subalign-window")
            yield Case("aliasappend", [alpha, rs, "selectsites", ",".join(map(str, lists[0]))], big, "aliasappend-selectsites-run")
            yield Case("aliasappend", [alpha, rs, "randsub", "%d,%d" % (rng.randint(1, L), rng.randint(0, 1))], big, "aliasappend-randsub-len")
            yield Case("alias", [alpha, rs, "randsub", "%d,%d" % (rng.randint(1, L), rng.randint(0, 1))], big, "alias-randsub-len")
        if alpha == 0:
            # protein alignment + nucleotide sequences -> codon alignment (rows without gap, rows with extra nucleotides)
            prow = [(nm, sq if rng.random() < 0.5 else sq.replace("-", "A")) for nm, sq in rows]
            yield Case("aliascodon", [rows_str(prow), rng.randint(0, 2)], big, "alias-codonalign")
        for mode in ("halves", "codon"):
            yield Case("aliassplit", [alpha, rs, mode], big and L >= 3, "alias-split-" + mode)


def matches(c):
    if c.model == c.impl:
        return True
    # sharing operations: only the sharing itself is modelled
    if c.op in ("alias", "aliasappend", "aliascodon") and c.model == "shared=1":
        return (c.impl or "").startswith("shared=1") or c.impl == "err"
    if c.op in ("alias", "aliasappend", "aliascodon") and c.impl == "err":
        return True
    return False
