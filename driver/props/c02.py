"""C02 — every alignment format round-trips losslessly through writer and parser."""
from driver.common import Case
from driver import fmtgen as G

ID = "C02"
TIMEOUT = 5.0
UNMODELLED = "unmodelled"


def matches(c):
    if c.op.startswith("det"):
        return (c.impl or "").startswith("same")
    """model = implementation, or the oracle's explicit `unmodelled` marker (non-ASCII input, machine-dependent
    allocation band): no correspondence obligation for that case"""
    return c.model == UNMODELLED or c.model == c.impl


LEVEL_TEXT = ("Lean theorems: parse(write a) = a (names, order, residues, length, detected alphabet) for every "
              "representable alignment, every wrap width w > 0, every number of rows and every length, by induction "
              "over rows and over chunks - complete for FASTA (roundtrip_fasta), Stockholm (roundtrip_stockholm), Nexus (roundtrip_nexus, "
              "incl. decimal print/parse of the header counts and the datatype/alphabet hand-over), Phylip (roundtrip_phylip: all 8 "
              "combinations of strict / one-line / no-block; roundtrip_phylip_widths: every line width and group width > 0, by induction "
              "over the interleaved blocks) and Clustal (roundtrip_clustal: any number of blocks of 50 with cumulative counts and "
              "conservation lines, any version text without a line break) and streams of several Phylip alignments (phylip_multi); "
              "executable writer + parser models of all five "
              "formats (Phylip with its 8 option combinations, multi-alignment streams and auto-detection as folds over them) "
              "tied to /repo by constant regeneration (line / block widths) and differential correspondence of writer bytes "
              "and parser results; the round-trip predicate is evaluated on the implementation for every format x option, "
              "multi-Phylip streams, auto-detection, chains of formats and plain/.gz/.xz files. The Nexus round trip was "
              "false for the unrepaired parser (roundtrip_nexus_counterexample: rows spelling a reserved word) and holds on "
              "that witness for the repaired one (roundtrip_nexus_patched_witness).")
LEVEL_NOTE = ("Trusted: Lean kernel; harness; compress/gzip, xz, bufio, the file system (file round trips are observed on "
              "the implementation and compared with the in-memory model). Multi-Phylip streams: phylip_multi; chains of "
              "formats: Props/C11 chain_all_formats. See evidence 'partial'.")
TECHNIQUE = "Lean 4 proof (induction over rows / chunks for every width) + differential correspondence"
NEEDS_BINARY = True
LEAN_MODULES = ["Gv.Props.C02"]
REQUIRED_THEOREMS = ["Gv.Props.C02." + n for n in ["roundtrip_fasta", "roundtrip_fasta_go", "roundtrip_stockholm",
                                                     "roundtrip_nexus", "roundtrip_nexus_counterexample", "roundtrip_nexus_patched_witness",
                                                     "autodetect_selects_written_format", "roundtrip_phylip", "roundtrip_phylip_widths",
                                                     "roundtrip_clustal", "roundtrip_clustal_harness", "phylip_multi", "phylip_multi_oracle_fuel"]]
TRUSTED = ["compress/gzip, github.com/ulikunitz/xz, bufio, os (temp files): .gz/.xz round trips are observed, not modelled",
           "version.Version of the harness build is the literal 'Unset' (Clustal header line)"]
ASSUMPTIONS = ["the property's residue alphabet: IUPAC nucleotide codes ACGTU RYSWKM BDHV N or the 20 amino acids + B Z X, "
               "both cases, plus '-', '*', '?' ('.' is the match / gap character of Nexus and Stockholm and is outside the quantifier)",
               "a representable alignment has pairwise distinct names (container invariant, C01)",
               "'the same detected alphabet' = AutoAlphabet of the written rows over the character classes regenerated from the source"]
RULE = ("alignments of 1..8 rows, L in {1,9,10,11,49,50,51,59,60,61,79,80,81,119,120,121,159,160,161,599,600,601} + random, "
        "nucleotide / protein IUPAC residues in both cases with - * ?, names of 1..30 printable non-blank bytes minus each "
        "format's delimiters (incl. numeric names), every format x writer option (8 Phylip combinations), written alphabet "
        "auto / forced, lists of 1..4 alignments for multi-Phylip, chains of 2..5 formats, auto-detection, plain/.gz/.xz "
        "files, rows spelling Nexus reserved words; non-trivial = L within 1 of a multiple of 10/50/60/80 or more than one block")

PARTIAL = [
    "FASTA: complete (roundtrip_fasta: every width w > 0, every alignment, every duplicate policy, with and without the repair)",
    "Stockholm: complete (roundtrip_stockholm: every alignment, every duplicate policy, with and without the repairs)",
    "Nexus: complete for the repaired parser (roundtrip_nexus: every representable alignment whose counts fit Go's int; rows "
    "spelling a reserved word need the keyword-row repair 2d2dfb5, for the unrepaired parser they are the proved "
    "counter-example roundtrip_nexus_counterexample)",
    "auto-detection: proved (autodetect_selects_written_format: first byte of every writer's output)",
    "Phylip: complete (roundtrip_phylip: all 8 combinations of strict / one-line / no-block, every representable alignment whose "
    "counts fit int64, every duplicate policy; with the pre-repair allocation from the header count the number of rows must stay "
    "below 2^27; roundtrip_phylip_widths: the same for every line width and group width > 0)",
    "Clustal: complete (roundtrip_clustal: every representable alignment whose length fits int64, any alphabet for the "
    "conservation line, with and without the row-index guard, every version text without \\n, \\r, NUL - with a line break in the "
    "version text the writer's own header is rejected, kernel-checked example in Props/C02.lean)",
    "multi-Phylip stream (several alignments in one file, ParseMultiple): complete (phylip_multi: every list of representable "
    "alignments, all 8 layouts; phylip_multi_oracle_fuel: with the fuel the oracle uses); "
    "chain-of-formats: Props/C11 chain_all_formats (FASTA, Nexus, Phylip, Clustal)",
    ".gz/.xz files: observed on the implementation only (compression is a trusted external)",
]


def wopts_of(fmt, rng=None, every=False):
    if fmt != "phylip":
        return ["_"]
    if every or rng is None:
        return G.PHYLIP_WOPTS
    return [rng.choice(G.PHYLIP_WOPTS)]


def popts_for(w):
    return "%d,0,2" % (1 if w != "_" and w[0] == "1" else 0)


def nontrivial_len(L):
    return any(abs(L - k * w) <= 1 for w in (10, 50, 60, 80) for k in range(1, L // w + 2)) or L > 50


def _gen_core(rng, tier):
    thorough = tier != "quick"
    # 1. every format x every writer option x every boundary length
    reps = 1 if not thorough else 4
    for fmt in G.FORMATS:
        for w in wopts_of(fmt, every=True):
            strict = w != "_" and w[0] == "1"
            for L in G.WIDTH_LENGTHS:
                for _ in range(reps):
                    n = rng.choice([1, 2, 3]) if L > 200 else None
                    rows = rand = G.rand_alignment(rng, [fmt], strict, L=L, nrows=n)
                    x = G.xrows(rows)
                    yield Case("roundtrip", [fmt, w, popts_for(w), "auto", x], True, "rt-%s-%s" % (fmt, w))
                    yield Case("write", [fmt, w, "auto", x], True, "write-%s" % fmt)
    # 1b. the write-only format PAML (`reformat paml`): the writer model against the real writer, every boundary length
    for L in G.WIDTH_LENGTHS:
        for _ in range(reps):
            n = rng.choice([1, 2, 3]) if L > 200 else None
            x = G.xrows(G.rand_alignment(rng, ["fasta"], False, L=L, nrows=n))
            yield Case("write", ["paml", "_", "auto", x], True, "write-paml")
    for _ in range(30 if not thorough else 300):
        rows = G.rand_alignment(rng, ["fasta"], False)
        yield Case("write", ["paml", "_", rng.choice(["auto", "0", "1", "3"]), G.xrows(rows)], nontrivial_len(len(rows[0][1])), "write-paml")
    # 1c. names holding well-formed multi-byte UTF-8 letters (strict Phylip: at most 10 bytes - the writer cuts at 10 bytes and pads to 10 runes): no
    # model, the round-trip predicate alone (`roundtripu`)
    letters = ["\u00e9", "\u00fc", "\u00df", "\u4e2d", "\u03a9", "\u00f1", "\U0001d49c"]
    for fmt in G.FORMATS:
        for _ in range(12 if not thorough else 120):
            w = wopts_of(fmt, rng)[0]
            strict = w != "_" and w[0] == "1"
            rows = G.rand_alignment(rng, [fmt], strict, L=rng.choice([1, 9, 10, 11, 59, 60, 61, 120, 125]), nrows=rng.randint(1, 4))
            names = set()
            urows = []
            for i, (nm, sq) in enumerate(rows):
                for attempt in range(1000):
                    k = rng.choice([2, 3, 5, 8]) if strict else rng.randint(2, 14)
                    u = "".join(rng.choice(letters) if rng.random() < 0.3 else rng.choice("abcXYZ019_") for _ in range(k))
                    if strict:
                        while len(u.encode("utf-8")) > 10:
                            u = u[:-1]
                        if rng.random() < 0.5:       # fill the field to exactly 10 bytes when possible
                            u += "q" * (10 - len(u.encode("utf-8")))
                    if u and u not in names and any(ord(ch) > 127 for ch in u):
                        break
                else:
                    u = "\u00e9%d" % i
                names.add(u)
                urows.append((u.encode("utf-8").decode("latin-1"), sq))
            yield Case("roundtripu", [fmt, w, popts_for(w), "auto", G.xrows(urows)], True, "rt-%s-utf8-names" % fmt)
    # 2. random alignments, random lengths, all formats
    N = 60 if not thorough else 600
    for fmt in G.FORMATS:
        for _ in range(N):
            w = wopts_of(fmt, rng)[0]
            strict = w != "_" and w[0] == "1"
            rows = G.rand_alignment(rng, [fmt], strict)
            L = len(rows[0][1])
            x = G.xrows(rows)
            yield Case("roundtrip", [fmt, w, popts_for(w), "auto", x], nontrivial_len(L), "rt-%s-random" % fmt)
            if rng.random() < 0.3:
                yield Case("write", [fmt, w, rng.choice(["auto", "0", "1", "3"]), x], nontrivial_len(L), "write-%s" % fmt)
            if rng.random() < 0.3:
                yield Case("autort", [fmt, w, "auto", x], nontrivial_len(L), "autodetect-%s" % fmt)
    # 3. auto-detection at every boundary length
    for fmt in ["fasta", "nexus", "clustal", "phylip"]:
        for L in G.WIDTH_LENGTHS[:-3]:
            for w in wopts_of(fmt, rng):
                strict = w != "_" and w[0] == "1"
                rows = G.rand_alignment(rng, [fmt], strict, L=L, nrows=rng.choice([1, 2, 3]))
                yield Case("autort", [fmt, w, "auto", G.xrows(rows)], True, "autodetect-%s" % fmt)
    # 4. files: plain / gz / xz through io/utils
    for fmt in G.FORMATS:
        for ext in ("plain", "gz", "xz"):
            for L in ([10, 61, 160] if not thorough else G.WIDTH_LENGTHS):
                w = wopts_of(fmt, rng)[0]
                strict = w != "_" and w[0] == "1"
                rows = G.rand_alignment(rng, [fmt], strict, L=L, nrows=rng.choice([1, 2, 4]))
                yield Case("filert", [fmt, ext, w, popts_for(w), "auto", G.xrows(rows)], True, "file-%s-%s" % (fmt, ext))
    # 4b. several alignments written one after the other to one plain / .gz / .xz file (one write per alignment, as the
    # commands do), small and large ones in every order: what is read back is the list that was written
    for ext in ("plain", "gz", "xz"):
        for _ in range(3 if not thorough else 12):
            w = rng.choice(G.PHYLIP_WOPTS)
            strict = w[0] == "1"
            sizes = rng.choice([["s", "L"], ["L", "s"], ["s", "s", "L", "s"], ["s", "L", "L"], ["L", "L"], ["s", "m", "L", "m", "s"]])
            als = []
            for z in sizes:
                nr, L = {"s": (rng.randint(1, 3), rng.randint(1, 30)), "m": (rng.randint(3, 6), rng.randint(150, 400)),
                         "L": (rng.randint(6, 10), rng.randint(500, 900))}[z]
                als.append(G.rand_alignment(rng, ["phylip"], strict, L=L, nrows=nr))
            yield Case("multirtf", [ext, w, popts_for(w), ";".join(G.xrows(a) for a in als)], True, "multi-phylip-file-%s" % ext)
        # raw strings of sizes around the writer's buffer size (4096) and its multiples
        for _ in range(6 if not thorough else 40):
            k = rng.randint(2, 6)
            sizes = [rng.choice([0, 1, 7, 100, 1000, 4095, 4096, 4097, 5000, 8191, 8192, 8193, 20000, rng.randint(1, 9000)]) for _ in range(k)]
            yield Case("filechunks", [ext, ",".join(map(str, sizes))], True, "file-chunks-%s" % ext)
    # 5. multi-Phylip streams: lists of 1..4 alignments
    for w in G.PHYLIP_WOPTS:
        strict = w[0] == "1"
        for k in (1, 2, 3, 4):
            for _ in range(2 if not thorough else 10):
                als = [G.rand_alignment(rng, ["phylip"], strict, L=rng.choice([1, 9, 10, 11, 59, 60, 61, 119, 120, 121, rng.randint(1, 150)]),
                                        nrows=rng.choice([1, 2, 3])) for _ in range(k)]
                yield Case("multirt", [w, popts_for(w), ";".join(G.xrows(a) for a in als)], k > 1, "multi-phylip-%d" % k)
    # 6. chains of formats
    for _ in range(120 if not thorough else 1200):
        k = rng.randint(2, 5)
        steps = []
        for _ in range(k):
            f = rng.choice(G.FORMATS)
            steps.append((f, wopts_of(f, rng)[0]))
        strict = any(w != "_" and w[0] == "1" for _, w in steps)
        rows = G.rand_alignment(rng, [f for f, _ in steps], strict, L=rng.choice(G.WIDTH_LENGTHS[:-3] + [rng.randint(1, 130)]),
                                nrows=rng.choice([1, 2, 3, 5]))
        yield Case("chain", [",".join("%s:%s" % s for s in steps), "auto", G.xrows(rows)], True, "chain-%d" % k)
    # 7. residue rows that spell a reserved word of some format (any case)
    words = G.KEYWORD_ROWS + ["CLUSTAL", "CLUSTALW", "STOCKHOLM", "NEXUS"]
    for kw in words:
        for variant in (kw, kw.lower(), kw.capitalize()):
            if not all(ch in G.AA_ALPHA for ch in variant):
                continue
            other = "".join(rng.choice("ACDE") for _ in variant)
            for fmt in G.FORMATS:
                for w in wopts_of(fmt, rng):
                    rows = [("a", variant), ("b", other)]
                    yield Case("roundtrip", [fmt, w, popts_for(w), "auto", G.xrows(rows)], True, "keyword-row-%s" % fmt)
                    rows = [("a", other), ("b", variant)]
                    yield Case("roundtrip", [fmt, w, popts_for(w), "auto", G.xrows(rows)], True, "keyword-row-%s" % fmt)
    # 8. outside the quantifier (verdict `na`): model validation only
    for _ in range(60 if not thorough else 400):
        fmt = rng.choice(G.FORMATS)
        w = wopts_of(fmt, rng)[0]
        rows = G.rand_alignment(rng, [fmt], False, L=rng.choice([1, 5, 61]), nrows=rng.choice([2, 3]))
        kind = rng.choice(["dup", "space", "longstrict", "dot", "ragged", "popts"])
        o = popts_for(w)
        if kind == "dup":
            rows[-1] = (rows[0][0], rows[-1][1])
        elif kind == "space":
            rows[0] = ("a b", rows[0][1])
        elif kind == "longstrict":
            rows[0] = ("abcdefghijklm", rows[0][1])
        elif kind == "dot":
            rows[-1] = (rows[-1][0], "." + rows[-1][1][1:])
        elif kind == "ragged":
            rows[-1] = (rows[-1][0], rows[-1][1] + "A")
        else:
            o = "%d,%d,%d" % (rng.randint(0, 1), rng.randint(0, 2), rng.randint(0, 2))
        yield Case("roundtrip", [fmt, w, o, "auto", G.xrows(rows)], False, "outside-%s" % kind)


# ---- shrinking: rows, then columns towards the nearest width boundary -----------------------------------

def _rows_index(c):
    return {"roundtrip": 4, "roundtripu": 4, "write": 3, "autort": 3, "filert": 5, "chain": 2}.get(c.op)


def shrink(c):
    k = _rows_index(c)
    if k is None:
        return
    rows = G.dec_xrows(c.args[k])

    def mk(r):
        a = list(c.args)
        a[k] = G.xrows(r)
        return Case(c.op, a)
    for i in range(len(rows)):
        if len(rows) > 1:
            yield mk(rows[:i] + rows[i + 1:])
    L = len(rows[0][1]) if rows else 0
    for newL in sorted({1, 2, L // 2, 9, 10, 11, 49, 50, 51, 59, 60, 61, 79, 80, 81, L - 1}):
        if 0 < newL < L:
            yield mk([(n, q[:newL]) for n, q in rows])
    for i, (n, q) in enumerate(rows):
        if len(n) > 1:
            yield mk(rows[:i] + [(n[:1], q)] + rows[i + 1:])
    for j in range(min(L, 12)):
        yield mk([(n, q[:j] + q[j + 1:]) for n, q in rows]) if L > 1 else mk(rows)


def classify(c):
    v = c.verdict or ""
    k = _rows_index(c)
    if k is None or not v.startswith("fail"):
        return None
    if c.op == "chain":
        fmts = [s.split(":")[0] for s in c.args[0].split(",")]
    else:
        fmts = [c.args[0]]
    rows = G.dec_xrows(c.args[k])
    if "nexus" in fmts and any(q.upper() in G.NEXUS_KEYWORDS for _, q in rows):
        return "nexus-keyword-row"
    return None


# ---- command-line glue: a multi-alignment Phylip input must be treated as its alignments one by one (`detmulti`) ----
MULTI_CMDS = [['reformat', 'phylip'], ['reformat', 'nexus'], ['reformat', 'phylip', '--output-strict'],
              ['reformat', 'paml']]


def gen(rng, tier):
    from driver import multigen
    for c in _gen_core(rng, tier):
        yield c
    for _ in range(2 if tier == "quick" else 20):
        for argv in MULTI_CMDS:
            yield multigen.multi_case(multigen.alignments(rng), argv, "cli-multi-" + "-".join(argv[:2]))
