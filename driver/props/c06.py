"""C06 — strand, case and un-align transforms."""
from driver.common import Case

ID = "C06"
LEVEL_TEXT = 'Lean theorems: complement involutive / case-preserving / equal to IUPAC set complement on the regenerated table (all 256 bytes), revcomp = reverse o map complement, involution, frame theorem for named subsets, case idempotence, ungap laws incl. commutation, for all sequences by induction; tied to /repo by table regeneration and differential correspondence.'
LEVEL_NOTE = 'Trusted: Lean kernel; tools/extract; harness; model of in-place Go loops as list functions validated by correspondence on generated rows.'
TECHNIQUE = 'Lean 4 proof (decide over bytes, list induction) + differential correspondence'
NEEDS_BINARY = True
LEAN_MODULES = ["Gv.Props.C06"]
REQUIRED_THEOREMS = ["Gv.Props.C06." + n for n in [
    "complement_involutive", "complement_eq_iupac_set_complement", "complement_preserves_case",
    "complement_fixes_specials", "complement_closed", "revcomp_spec", "revcomp_involutive",
    "revcompRows_spec", "revcompNamed_frame", "toUpper_idem", "toLower_idem",
    "case_only_changes_case", "toUpperRows_idem", "toLowerRows_idem", "case_preserves_gap",
    "ungap_removes_exactly_gaps", "ungap_idem", "ungap_commutes_case", "ungap_commutes_revcomp"]]
RULE = ("rows over the 33-symbol C06 alphabet (IUPAC DNA both cases, '-', '.', '*'), every length 0..9 plus random "
        "longer, 0..5 rows, alphabets nucleotide/protein/unknown, name subsets incl. unknown and repeated names; "
        "plus rows containing U/u or non-DNA letters (error path) and printable-ASCII rows for case/unalign; "
        "non-trivial = contains an ambiguity code or a lower-case letter or a gap")

UP = "ACGTRYSWKMBDHVN"
ALPHA = UP + UP.lower() + "-.*"
PRINTABLE = "".join(chr(c) for c in range(33, 127) if chr(c) not in ",:")


def rows_str(rows):
    return ",".join("%s:%s" % r for r in rows) if rows else "_"


def nontriv(rows):
    return any(any(ch in "RYSWKMBDHVNryswkmbdhvnacgt-" for ch in s) for _, s in rows)


def rand_rows(rng, alpha, maxrows=5, maxlen=9, dupnames=False):
    n = rng.randint(0, maxrows)
    rows = []
    for i in range(n):
        L = rng.randint(0, maxlen)
        rows.append(("s%d" % (rng.randint(0, 2) if dupnames else i), "".join(rng.choice(alpha) for _ in range(L))))
    return rows


def _gen_core(rng, tier):
    N = 400 if tier == "quick" else 4000
    # every length 0..9, single row, full alphabet coverage
    for L in range(0, 10):
        for _ in range(6):
            rows = [("r", "".join(rng.choice(ALPHA) for _ in range(L)))]
            yield Case("revcomp", [1, rows_str(rows)], nontriv(rows), "revcomp-len%d" % L)
    yield Case("revcomp", [1, rows_str([("all", ALPHA)])], True, "revcomp-all-symbols")
    for _ in range(N):
        rows = rand_rows(rng, ALPHA, maxlen=rng.choice([3, 9, 30]))
        a = rng.choice([1, 1, 1, 0, 3])
        yield Case("revcomp", [a, rows_str(rows)], nontriv(rows), "revcomp")
    for _ in range(N // 4):
        rows = rand_rows(rng, ALPHA + "UuZ!E", maxlen=6)
        yield Case("revcomp", [1, rows_str(rows)], False, "revcomp-outside-alphabet")
    for _ in range(N):
        rows = rand_rows(rng, ALPHA, maxlen=8)
        names = [r[0] for r in rows]
        pool = names + ["zz", "s9"]
        k = rng.randint(0, 4)
        sel = [rng.choice(pool) for _ in range(k)]
        a = rng.choice([1, 1, 1, 0])
        yield Case("revcompsub", [a, rows_str(rows), ",".join(sel) if sel else "_"], nontriv(rows) and k > 0, "revcompsub")
    for _ in range(N // 8):
        rows = rand_rows(rng, ALPHA + "Uu!", maxlen=6)
        names = [r[0] for r in rows]
        sel = [rng.choice(names + ["zz"]) for _ in range(rng.randint(0, 3))] if names else []
        yield Case("revcompsub", [1, rows_str(rows), ",".join(sel) if sel else "_"], False, "revcompsub-outside")
    for op in ("toupper", "tolower", "unalign"):
        for _ in range(N // 2):
            rows = rand_rows(rng, rng.choice([ALPHA, PRINTABLE, "-aA-zZ-"]), maxlen=12)
            yield Case(op, [rows_str(rows)], nontriv(rows), op)


    # rows holding bytes >= 0x80 (Latin-1 / Windows-1252 dashes and blanks, ill-formed and well-formed UTF-8, runes whose
    # case pair has another encoded length): no model for these bytes, but the length and the ASCII positions are judged
    specials = [b"\x96", b"\xa0", b"\xe9", b"\xff", b"\xb5", b"\xc4\xb1", b"\xc5\xbf", b"\xe2\x84\xaa", b"\xc4\xb0", b"\xc3\xa9", b"\xef\xbf\xbd", b"\x80"]
    for _ in range(N // 4):
        bs = b""
        for _ in range(rng.randint(1, 10)):
            bs += rng.choice(specials) if rng.random() < 0.3 else rng.choice(ALPHA + "-aAzZnN").encode()
        yield Case("casehex", [rng.choice(["up", "low"]), bs.hex() or "_"], True, "case-nonascii")


def shrink(c):
    """drop rows, then drop residues"""
    if c.op == "casehex":
        return
    ai = {"revcomp": 1, "revcompsub": 1}.get(c.op, 0)
    s = c.args[ai]
    if s == "_":
        return
    rows = [tuple(r.split(":", 1)) for r in s.split(",")]
    for i in range(len(rows)):
        r2 = rows[:i] + rows[i + 1:]
        a = list(c.args)
        a[ai] = rows_str(r2)
        yield Case(c.op, a)
    for i, (n, q) in enumerate(rows):
        for j in range(len(q)):
            r2 = list(rows)
            r2[i] = (n, q[:j] + q[j + 1:])
            a = list(c.args)
            a[ai] = rows_str(r2)
            yield Case(c.op, a)


# ---- command-line glue: a multi-alignment Phylip input must be treated as its alignments one by one (`detmulti`) ----
MULTI_CMDS = [['revcomp'], ['toupper'], ['tolower'], ['unalign'], ['revcomp', 'nope', 's1'], ['revcomp', 's1', 'ref'], ['revcomp', 'zz', 'ref', 's1'],
              ['revcomp', '-o', 'rc.phy'], ['toupper', '-o', 'up.phy']]


def _gen_large(rng, tier):
    for _ in range(2 if tier == "quick" else 12):
        n, L = (rng.randint(1, 3), rng.choice([4097, 4300, 6000])) if rng.random() < 0.6 else (rng.choice([101, 140]), rng.randint(1, 8))
        rows = [("s%d" % i, "".join(rng.choice("ACGTacgtRYKMN-") for _ in range(L))) for i in range(n)]
        yield Case("revcomp", [1, rows_str(rows)], True, "revcomp-large")
        for op in ("toupper", "tolower", "unalign"):
            yield Case(op, [rows_str(rows)], True, op + "-large")


def gen(rng, tier):
    for c in _gen_large(rng, tier):
        yield c
    from driver import multigen
    for c in _gen_core(rng, tier):
        yield c
    from driver import cligen
    for c in cligen.cases(rng, ['strand', 'revcomp-names'], 40 if tier == "quick" else 400):
        yield c
    for _ in range(2 if tier == "quick" else 20):
        for argv in MULTI_CMDS:
            yield multigen.multi_case(multigen.alignments(rng), argv, "cli-multi-" + "-".join(argv[:2]))

