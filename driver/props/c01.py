"""C01 — containers stay rectangular, uniquely named and index-consistent (histories)."""
from driver.common import Case, dd_chunks

ID = "C01"
NEEDS_BINARY = True
LEAN_MODULES = ["Gv.Props.C01"]
REQUIRED_THEOREMS = ["Gv.Props.C01." + n for n in [
    "step_inv", "run_inv", "inv_of_empty_bag", "inv_of_empty_align", "lookup_paths_agree", "idByName_spec",
    "byName_found_iff", "add_wrong_length_rejected", "add_wrong_length_error_of_new_name",
    # rectangularity for all histories (+ the kernel-checked counterexample of the excluded case)
    "step_rect", "run_rect", "rect_of_empty_align", "rows_have_reported_length", "rows_have_reported_length_aligned",
    "translate_three_frames_not_rect",
    # the kind changes only through Unalign, and only from alignment to sequence set
    "kind_preserved", "kind_only_decreases", "unalign_is_seqbag", "unalign_rows_of_distinct_names",
    "three_frames_same_count_iff",
    # names stay pairwise distinct unless the caller edits names
    "step_names_nodup", "run_names_nodup",
    # Identical: on uniquely named containers = the same records in any order
    "identical_iff_same_records", "identical_eq_identicalRows", "identicalRows_spec", "identical_symm", "identical_refl",
    "identical_not_symmetric_with_repeated_names",
    # refinement: Go-shaped container = plain list reference model, all 39 operations, all histories
    "step_refines", "run_refines", "diffWithFirst_agrees_with_row_model", "replaceMatchChars_agrees_with_row_model",
    "step_diffFirst_is_row_model", "compress_empty_unchanged", "good_of_empty_bag", "good_of_empty_align", "obs_byName", "obs_idByName", "obs_length"]]
LEVEL_TEXT = ("Lean theorems (Identical: `identical_iff_same_records` - on uniquely named containers `seqbag.Identical` decides exactly 'the two "
              "row lists are permutations of each other', bytes compared as they are; `identicalRows_spec` - with repeated names: as many "
              "rows and every row of the receiver is the first row of its name in the other; `identical_symm`, `identical_refl`, "
              "`identical_not_symmetric_with_repeated_names`; model `Model/Identical.lean`, harness op `identical`), the others "
              "all by induction over operation histories of any length and for arbitrary arguments: "
              "(1) refinement `step_refines` / `run_refines`: for each of the 39 operations of the history language (add under the "
              "three duplicate-name policies, ignore, clear, append, concat, rename, appendId, cleanNames, trimNames, trimAuto, sort, "
              "permute=ShuffleSequences, filter, dedup, rmSeqs/RemoveGapSeqs, translate, clone, sample, toUpper, toLower, replace, "
              "setChar, trimSeqs, autoAlpha, revcomp=ReverseComplement, replaceChar, rmGapSites=RemoveGapSites, compress=Compress, unalign=Unalign - after which the history continues on the NEW plain sequence set it returns, "
              "renameRe=RenameRegexp with the values of the regular-expression substitution supplied per row, setAlpha=SetAlphabet, revcompSeqs=ReverseComplementSequences on a list of names, diffFirst=DiffWithFirst, replaceMatch=ReplaceMatchChars, mask=Mask, maskOcc=MaskOccurences/MaskUnique, rmCharSites=RemoveCharacterSites in its general form - character set, cutoff, ends mode, case folding, gaps / wildcards not counted, reversed selection -, rmMajSites=RemoveMajorityCharacterSites, replaceRe=Replace with a regular expression with the new sequence of every row supplied), whenever the plain list-of-(name,sequence) reference model specifies the outcome, the "
              "implementation-shaped model (ordered rows with pointer ids + separate name index + allocation counter + cached "
              "alignment length) yields exactly that content (names, row order, residues, policy, alphabet, kind) and that status, and "
              "the strong invariant (index exact and pointing to the first row of each name, rectangular, alphabet never BOTH) holds "
              "again; `obs_byName`/`obs_idByName`/`obs_length` show every observation of the harness is a function of the abstraction; "
              "(2) rectangularity `step_rect` / `run_rect` / `rows_have_reported_length`: as long as the object is an alignment (`kind_preserved`: every history "
              "without Unalign; `kind_only_decreases`: Unalign goes one way) the cached length equals the length of every "
              "row and is -1 iff there is no row, after every operation whatever its outcome, except the excluded cases (three-frame "
              "Translate of an alignment with L mod 3 != 2 - `translate_three_frames_not_rect` is the kernel-checked violation - and a "
              "Replace (literal or regular expression) / Concat that itself returned an error); (3) `step_names_nodup` / `run_names_nodup`: names stay pairwise distinct "
              "under every operation other than the caller's own name edits (Unalign included: `unalign_rows_of_distinct_names` - the new set "
              "shows exactly the degapped rows); (3b) `diffWithFirst_agrees_with_row_model` / `replaceMatchChars_agrees_with_row_model`: on every rectangular alignment the container-level DiffWithFirst / ReplaceMatchChars (row pointers, cached length, in-place writes) never panic and show exactly the rows the row-level models of property C04 (`Model.diffWithFirst`, `Model.replaceMatchChars`) compute; (4) the weak representation invariant for all operations "
              "including name collisions made by the caller (`step_inv`/`run_inv`), agreement of the by-name access paths, rejection "
              "of a wrong-length sequence with the state unchanged. Tied to /repo by a differential correspondence on random histories "
              "that compares the full observation vector (iteration, by-index, by-name through the index and by linear scan, "
              "Sequences()) after every step.")
LEVEL_NOTE = ("Trusted: Lean kernel; harness/oracle/driver; the hand-written model of seqbag.go/align.go is validated against the "
              "implementation on generated histories only; regexp (CleanNames is modelled directly; for RenameRegexp and the regex Replace the harness "
              "evaluates Go's regexp on every name / every sequence before the call and hands the values to the model in the step's status), fmt, "
              "sort.SliceStable, math/rand (replica) are external. Command line `rename -e`, `replace -e`, `subset -e`: the expectations use a hand-written "
              "model of a small, delimited subset of Go's regexp (lean/Gv/Model/Regex.lean: literals, `.`, `\\d`, classes, greedy `* + ?`, `^` / `$`, one "
              "capture group; ReplaceAllString with `$1` / `${1}` / `$0` templates, MatchString) which every run validates against the real package on "
              "generated (pattern, template, input) triples (harness op `regexsub`); a pattern outside the subset leaves the case undecided.")
TECHNIQUE = "Lean 4 proof (refinement of the Go-shaped container to a plain-list reference model for all 39 operations, representation / rectangularity / distinct-names invariants, all by induction over histories) + differential correspondence"
RULE = ("pairs of containers for Identical (equal, permuted, one residue / case / name changed, smaller, larger, a name given twice, "
        "caller-made renames that make names collide on either side; both directions asked); "
        "random histories of 1..12 (quick) / 1..40 (thorough) operations over alignments (0..5 rows x 0..8 columns) and "
        "sequence sets with ragged lengths, duplicate names, special characters in names, all three duplicate-name policies, "
        "boundary arguments; stratum around Unalign / RenameRegexp (empty object, one row, all-gap rows, names made equal before "
        "Unalign or by the expression, expressions that do not compile, then by-name accesses and alignment-only operations on the "
        "sequence set); stratum around the in-place residue operations (ReverseComplementSequences with known / unknown / repeated "
        "names, names shared by two rows, residues without a complement, wrong alphabet, no row, no column, ragged sequence sets; DiffWithFirst / ReplaceMatchChars on rows close to the first one, points "
        "already present, one row, no row, rows left ragged by a failed Replace); stratum around Mask / MaskUnique / MaskOccurences (windows at and beyond both "
        "ends, every replacement mode, protected gaps / reference residues, reference absent or shared by two rows, no row, no column); stratum around RemoveCharacterSites (general) / RemoveMajorityCharacterSites / RemoveCharacterSeqs (columns of one character, of gaps or wildcards only, exact ties at cutoff 1/2, mixed case, qualifying runs at both ends, all / no column qualifying, empty and several-character sets, cutoffs 0, 1, exact fractions and outside [0,1], every option combination, no row, one row, no column, proteins, rows left ragged by a failed Replace); stratum around Replace with a regular expression (length-preserving and length-changing substitutions, empty matches, anchors, groups, expressions that do not compile, no row, one row, no column, shared names, ragged sequence sets, then residue writes and cleaning on the rows it left); the full observation vector is compared after every operation; non-trivial = at least two "
        "state-changing operations")
PARTIAL = ["the refinement theorem claims the outcome of a step only where the reference model specifies it (`Spec.stepOp` returns "
           "`some`); by design it returns `none` - and nothing is claimed, the history theorem `run_refines` stops there - for: a "
           "rebuild by re-insertion (filter, dedup, rmSeqs, translate, clone, sample, concat) or a shuffle applied after the caller "
           "made two rows share a name; an append/replace/trimNames/translate that reported an error; a three-frame translation whose "
           "output names collide or, for an alignment, whose frames differ in length (known finding). The weak invariant (`run_inv`), "
           "rectangularity (`run_rect`) and the access-path theorems hold on those histories too",
           "ShuffleSequences / Sample are modelled with their permutation supplied (Op.permute / Op.sample; the theorems assume it is a "
           "genuine permutation of the positions, `OpWF`/`OpWFR`); in the correspondence the oracle resolves it with the Go math/rand "
           "replica of C10 (that the replica's shuffle is a permutation for every seed is C10.shuffle_every_seed)",
           "the history language (Lean `Op`, oracle decoder, generator) has 39 operations (Replace with a regular expression is modelled from the point where the expression has been evaluated: `Op.replaceRe ok seqs` carries whether it compiled and the value of ReplaceAllString for the sequence of every row - the harness computes them with Go's regexp before the call and reports them in the step's status; the model covers what the method does with them: in-place overwrite through the row pointers, cached length untouched, the final scan of an alignment that reports rows of another length; the general RemoveCharacterSites and RemoveMajorityCharacterSites run the C12 model functions on the rows as they are - cached length, write-back in place, index panic on a short row - and the reference states them as `Spec.cleanByQual` on the qualification lists `Spec.charQual` (selected residues against residues that count) / `Spec.majQual` (the counts of MaxCharStats, meaning: C14.maxCharSite_is_argmax); RemoveMajorityCharacterSites does not reset a cutoff outside [0,1] although its documentation says so: the model follows the code (`cutoffTestRaw`), the reference leaves that step unspecified; ReverseComplement, ReplaceChar, "
           "RemoveGapSites and Compress through the C06 / C12 / C13 models; Unalign, whose result replaces the current object; "
           "RenameRegexp; SetAlphabet; ReverseComplementSequences, which reaches its rows through the name index; DiffWithFirst and ReplaceMatchChars, which rewrite every row but the first against the first - an index panic, `PANIC`, when a row is too short, possible only after an operation that reported an error; Mask and MaskOccurences / MaskUnique through the C15 row-level model, with the reference sequence looked up in the name index, the cached length, in-place write-back and the index panics of short rows - the reference runs the same C15 function on the plain rows, whose meaning is C15.mask_cells / maskOcc_cells / mask_ok_iff / maskOcc_ok_iff; residues >= 130 with MAJ, an index panic in Go, are outside the model as in C15). RenameRegexp is modelled from the point where the regular expression has been evaluated: `Op.renameRe ok "
           "names` carries whether it compiled and the value of ReplaceAllString for every row (Go's regexp is external); the model "
           "covers what the method does with those names - in-place rename, name map in row order, rebuildIndex, collisions kept. "
           "NewSeqBag ends the process for an alphabet other than the three it knows: the model answers `EXIT` and the reference "
           "leaves that step unspecified (unreachable: an alignment never carries BOTH)"]

NAMES = ["a", "b", "c", "d", "Seq0000", "Seq0001", "a_0001", "x y", " lead", "n(1)", "p:q", "k,l", "t;u", "e.f", "long_name_here", "A"]
NT = "ACGTacgtNn-RYK*?."
AA = "ARNDCQEGHILKMFPSTWYVXx-*"


def pct(s):
    return "".join(ch if (ch.isalnum() and ord(ch) < 128) or ch == "_" else "%%%02X" % ord(ch) for ch in s)


def prow(rows):
    return "/".join(pct(n) + "/" + s for n, s in rows) if rows else "_"


def rseq(rng, alpha, L):
    return "".join(rng.choice(alpha) for _ in range(L))


# regular expressions / replacements of `renamere` (Go syntax; the last ones do not compile)
REGEXES = ["^", "$", "_0001$", "_[0-9]+$", "^(.)(.*)$", ".", ".*", "[a-z]+", "[A-Z]", "(a|b)", "^S", "\\d+", "[_:; ,.()]+", "x*", "q",
           "^.", "(?i)seq", "e", "(", "[a", "*a", "a{2,1}", "\\"]
REPLACES = ["", "X", "_", "$1", "${2}${1}", "$0$0", "$2", "n-$0", "p:q", "a", "$$", "${1}x"]


def renamere_op(rng):
    return "renamere:%s:%s" % (pct(rng.choice(REGEXES)), pct(rng.choice(REPLACES)))


def gen_hist(rng, maxops):
    kind = rng.choice("AAB")
    alpha_id = rng.choice([1, 1, 1, 0, 3, 2] if kind == "A" else [1, 1, 0, 3])
    alpha = AA if alpha_id == 0 else NT
    nrows = rng.choice([0, 1, 2, 3, 3, 4, 5])
    L = rng.choice([0, 1, 2, 3, 4, 6, 8])
    pool = rng.sample(NAMES, rng.randint(2, 6))
    rows = []
    for _ in range(nrows):
        ln = L if kind == "A" else rng.randint(0, 8)
        rows.append((rng.choice(pool), rseq(rng, alpha, ln)))
    curL = [L]

    def some_len():
        return rng.choice([curL[0], curL[0], curL[0], curL[0] + 1, max(0, curL[0] - 1), 0])

    ops = []
    nops = rng.randint(1, maxops)
    changing = 0
    for _ in range(nops):
        k = rng.random()
        if k < 0.22:
            ops.append("add:%s:%s" % (pct(rng.choice(pool)), rseq(rng, alpha, some_len() if kind == "A" else rng.randint(0, 8))))
            changing += 1
        elif k < 0.27:
            ops.append("ignore:%d" % rng.choice([0, 1, 2, 3, -1]))
        elif k < 0.29:
            ops.append("clear")
            changing += 1
        elif k < 0.34:
            r2 = [(rng.choice(pool), rseq(rng, alpha, some_len())) for _ in range(rng.randint(0, 3))]
            ops.append("append:" + prow(r2))
            changing += 1
        elif k < 0.40:
            l2 = rng.randint(0, 3)
            nm = rng.sample(pool + ["zz"], rng.randint(0, min(3, len(pool))))
            ops.append("concat:" + prow([(n, rseq(rng, alpha, l2)) for n in nm]))
            changing += 1
        elif k < 0.48:
            olds = rng.sample(sorted(set(pool + ["zz", "a_0001"])), rng.randint(1, 3))
            ops.append("rename:" + "/".join(pct(o) + "/" + pct(rng.choice(pool + ["new1", "new2"])) for o in olds))
            changing += 1
        elif k < 0.51:
            ops.append("appendid:%s:%d" % (pct(rng.choice(["", "_x", "p|", "Z"])), rng.randint(0, 1)))
            changing += 1
        elif k < 0.54:
            ops.append("cleannames")
            changing += 1
        elif k < 0.57:
            ops.append("trimnames:%d" % rng.choice([-1, 0, 1, 2, 3, 4, 5, 8]))
            changing += 1
        elif k < 0.59:
            ops.append("trimauto:%d" % rng.choice([0, 1, 9, 10, 99, 100]))
            changing += 1
        elif k < 0.64:
            ops.append("sort")
            changing += 1
        elif k < 0.69:
            ops.append("filter:%d:%d" % (rng.choice([-1, 0, 1, 3, 5]), rng.choice([-1, 0, 2, 4, 7, 100])))
            changing += 1
        elif k < 0.73:
            ops.append("dedup:%d" % rng.randint(0, 1))
            changing += 1
        elif k < 0.77:
            ops.append("rmseqs:%s:%s:%d:%d:%d" % (rng.choice("-NnAX"), rng.choice(["0", "1", "1/2", "1/3", "2/3", "1/4", "2"]),
                                                  rng.randint(0, 1), rng.randint(0, 1), rng.randint(0, 1)))
            changing += 1
        elif k < 0.79:
            ops.append("rmgapseqs:%s:%d" % (rng.choice(["0", "1", "1/2", "1/3"]), rng.randint(0, 1)))
            changing += 1
        elif k < 0.82:
            ops.append("translate:%d:%d" % (rng.choice([0, 1, 2, -1]), rng.choice([0, 1, 2, 5])))
            changing += 1
        elif k < 0.85:
            ops.append("clone")
        elif k < 0.865:
            ops.append(rng.choice(["toupper", "tolower", "autoalpha", "setalpha:%d" % rng.choice([0, 1, 1, 2, 3, -1, 7])]))
            changing += 1
        elif k < 0.875:
            ops.append("shuffle:%d" % rng.randint(0, 10 ** 6))
            changing += 1
        elif k < 0.88:
            ops.append("sample:%d:%d" % (rng.choice([0, 1, 2, 3, 6]), rng.randint(0, 10 ** 6)))
            changing += 1
        elif k < 0.91:
            ops.append("replace:%s:%s" % (rng.choice(["A", "AC", "-", "N"]), rng.choice(["T", "", "GG", "-"])))
            changing += 1
        elif k < 0.95:
            ops.append("setchar:%d:%d:%s" % (rng.randint(-1, 5), rng.randint(-1, 8), rng.choice("ACGT-N")))
            changing += 1
        elif k < 0.97:
            ops.append("trimseqs:%d:%d" % (rng.choice([-1, 0, 1, 2, curL[0], curL[0] + 1]), rng.randint(0, 1)))
            changing += 1
        elif k < 0.976:
            ops.append("unalign")
            changing += 1
        elif k < 0.984:
            ops.append(renamere_op(rng) if rng.random() < 0.6 else replacere_op(rng))
            changing += 1
        else:
            ops.append(rng.choice(["revcomp", "compress", "revcompseqs:" + names_arg(rng, pool), "diffwithfirst", "replacematch", mask_op(rng, pool, curL[0]),
                                   sites_op(rng), sites_op(rng),
                                   "rmgapsites:%s:%d" % (rng.choice(["0", "1", "1/2", "1/3", "2/3"]), rng.randint(0, 1)),
                                   "replacechar:%s:%d:%s" % (pct(rng.choice(pool + ["zz"])), rng.randint(-1, 8), rng.choice("ACGT-N"))]))
            changing += 1
    return Case("hist", [kind, alpha_id, prow(rows), ";".join(ops) if ops else "_"], changing >= 2, "hist-" + kind)


def gen_big(rng):
    """containers of 13..40 rows (sort.Slice is an insertion sort — stable — up to 12 elements), names made equal by
    renames, then order-sensitive operations"""
    kind = rng.choice("AB")
    n = rng.randint(13, 40)
    L = rng.randint(2, 5)
    rows = [("r%02d" % i, rseq(rng, "ACGT", L)) for i in range(n)]
    rng.shuffle(rows)
    groups = ["G%d" % i for i in range(rng.randint(1, 4))]
    olds = rng.sample([r[0] for r in rows], rng.randint(4, n))
    ops = ["rename:" + "/".join(pct(o) + "/" + pct(rng.choice(groups)) for o in olds)]
    for _ in range(rng.randint(1, 4)):
        ops.append(rng.choice(["sort", "sort", "dedup:0", "shuffle:%d" % rng.randint(0, 10 ** 6), "cleannames", "clone",
                               "rename:" + pct(rng.choice(groups)) + "/" + pct(rng.choice(groups + ["H"]))]))
    ops.append("sort")
    return Case("hist", [kind, 1, prow(rows), ";".join(ops)], True, "hist-big-" + kind)


def gen_alias(rng):
    """an alignment is handed to Append / Concat (into an empty or a filled receiver), then residues are written in place:
    the argument keeps its content, the receiver does not see later writes into the argument (last record of the trace)"""
    alpha = "acgtACGT"
    L = rng.randint(1, 6)
    pool = rng.sample(NAMES, 4)
    nrows = rng.choice([0, 0, 1, 2, 3])
    rows = [(pool[i], rseq(rng, alpha, L)) for i in range(nrows)]
    ops = []
    if nrows and rng.random() < 0.3:
        ops.append("clear")
        nrows = 0
    arg = [(n, rseq(rng, alpha, rng.choice([L, L, rng.randint(1, 4)]))) for n in rng.sample(pool + ["zz"], rng.randint(1, 3))]
    ops.append(rng.choice(["concat:", "concat:", "append:"]) + prow(arg))
    for _ in range(rng.randint(1, 3)):
        ops.append(rng.choice(["toupper", "tolower", "setchar:%d:%d:N" % (rng.randint(0, 2), rng.randint(0, L)), "diffwithfirst", "replacematch",
                               "replace:%s:%s" % (rng.choice("acgtACGT"), rng.choice("nN-")), "trimseqs:1:%d" % rng.randint(0, 1)]))
    if rng.random() < 0.4:
        ops.append("concat:" + prow([(n, rseq(rng, alpha, 2)) for n in rng.sample(pool, 2)]))
    return Case("hist", ["A", 1, prow(rows), ";".join(ops)], True, "hist-alias")


def gen_columns(rng):
    """histories around the column operations added to the language: ReverseComplement, ReplaceChar, RemoveGapSites,
    Compress - mixed with operations that empty, rebuild or rename the container"""
    alpha_id = rng.choice([1, 1, 1, 0])
    alpha = "ACGTacgtNRY-" if alpha_id == 1 else "ARNDCQEGX-"
    L = rng.choice([1, 2, 3, 5, 8])
    pool = rng.sample(NAMES, 4)
    nrows = rng.choice([0, 1, 2, 3, 4])
    cols = ["".join(rng.choice(alpha + "-" * rng.choice([0, 6])) for _ in range(nrows)) for _ in range(L)]
    if cols and rng.random() < 0.5:
        cols = [rng.choice(cols) for _ in range(L)]      # repeated columns
    rows = [(pool[i], "".join(c[i] for c in cols)) for i in range(nrows)]
    ops = []
    for _ in range(rng.randint(1, 6)):
        ops.append(rng.choice([
            "revcomp", "compress", "compress", "rmgapsites:%s:%d" % (rng.choice(["0", "1", "1/2", "1/3"]), rng.randint(0, 1)),
            "replacechar:%s:%d:%s" % (pct(rng.choice(pool + ["zz"])), rng.randint(-1, L), rng.choice("ACGT-Nn*")),
            "clear", "add:%s:%s" % (pct(rng.choice(pool)), rseq(rng, alpha, rng.choice([L, L, 1, 2]))), "toupper", "sort",
            "dedup:0", "filter:0:100", "trimseqs:1:%d" % rng.randint(0, 1), "autoalpha", "setalpha:%d" % rng.choice([0, 1, 1, 2])]))
    return Case("hist", ["A", alpha_id, prow(rows), ";".join(ops)], True, "hist-columns")


def gen_unalign_rename(rng):
    """histories around Unalign (a NEW sequence set replaces the alignment: the kind changes) and RenameRegexp (new names
    computed by Go's regexp in the harness): empty object, one row, all-gap rows, rows made of gaps only in some columns,
    names made equal BEFORE Unalign (the insertion into the new set renames them) or BY RenameRegexp (kept equal: the index
    points to the first), expressions that do not compile; followed by by-name accesses, insertions of the old / new
    names, and the alignment-only operations (answered `na` once the object is a sequence set)"""
    kind = rng.choice("AAAB")
    alpha_id = rng.choice([1, 1, 0, 3] if kind == "B" else [1, 1, 0, 3, 2])
    alpha = "ARNDCQEGX-" if alpha_id == 0 else "ACGTacgtN-"
    shape = rng.choice(["empty", "one", "allgap", "gapcols", "plain", "plain", "dups"])
    L = rng.choice([0, 1, 2, 4, 6])
    pool = rng.sample(NAMES + ["a_0002", "Seq0000_0001", "b_0001"], 5)
    nrows = {"empty": 0, "one": 1}.get(shape, rng.randint(2, 5))
    rows = []
    for i in range(nrows):
        ln = L if kind == "A" else rng.randint(0, 6)
        if shape == "allgap" and rng.random() < 0.7:
            sq = "-" * ln
        elif shape == "gapcols":
            sq = "".join(rng.choice(alpha) if j % 2 else "-" for j in range(ln))
        else:
            sq = "".join(rng.choice(alpha + "---") for _ in range(ln))
        rows.append((rng.choice(pool) if shape == "dups" else pool[i % len(pool)], sq))
    ops = []
    pre = rng.random()
    if pre < 0.35:
        # two or more rows share a name when Unalign / RenameRegexp runs
        olds = rng.sample(pool, rng.randint(2, 4))
        tgt = rng.choice(pool + ["new1"])
        ops.append("rename:" + "/".join(pct(o) + "/" + pct(tgt) for o in olds))
    elif pre < 0.5:
        ops.append(rng.choice(["clear", "ignore:1", "ignore:2", "sort", "compress", "rmgapsites:1:0", "autoalpha",
                               "add:%s:%s" % (pct(rng.choice(pool)), rseq(rng, alpha, L))]))
    for _ in range(rng.randint(1, 3)):
        ops.append(rng.choice(["unalign", "unalign", renamere_op(rng), renamere_op(rng),
                               "renamere:%s:%s" % (pct(rng.choice([".*", "^.*$", ".+", "[^_]*"])), pct(rng.choice(["X", "", "a", "$0"])))]))
        if rng.random() < 0.6:
            ops.append(rng.choice([
                "add:%s:%s" % (pct(rng.choice(pool + ["X", "a_0001"])), rseq(rng, alpha, rng.choice([L, L, 0, 3]))),
                "sort", "dedup:0", "dedup:1", "clone", "filter:1:-1", "filter:0:100", "cleannames", "trimauto:0", "toupper",
                "append:" + prow([(rng.choice(pool), rseq(rng, alpha, L))]), "concat:" + prow([(rng.choice(pool), rseq(rng, alpha, 2))]),
                "replacechar:%s:%d:%s" % (pct(rng.choice(pool + ["X"])), rng.randint(0, max(L, 1)), rng.choice("ACGT-")),
                "setchar:%d:%d:N" % (rng.randint(0, 3), rng.randint(0, max(L, 1))), "trimseqs:1:0", "compress", "rmgapsites:0:0",
                "rmgapseqs:1:0", "translate:0:0", "revcomp", "ignore:%d" % rng.randint(0, 2), "shuffle:%d" % rng.randint(0, 999),
                "sample:%d:%d" % (rng.randint(1, 3), rng.randint(0, 999)), "autoalpha", "setalpha:%d" % rng.choice([0, 1, 2, 3]),
                "rename:" + pct(rng.choice(pool)) + "/" + pct(rng.choice(pool))]))
    return Case("hist", [kind, alpha_id, prow(rows), ";".join(ops)], True, "hist-unalign-rename-" + shape)


def names_arg(rng, pool, extra=("zz", "a_0001")):
    """a list of names on the wire (`_` = none): known, unknown and repeated names"""
    k = rng.choice([0, 1, 1, 2, 2, 3, 4])
    nm = [rng.choice(list(pool) + list(extra)) for _ in range(k)]
    if nm and rng.random() < 0.3:
        nm.append(nm[0])                                   # a name given twice
    return "/".join(pct(n) for n in nm) if nm else "_"


MASKREPS = ["_", "AMBIG", "GAP", "MAJ", "MAJ", "N", "X", "%2A", "%2D", "%2E", "NN", "maj"]


def mask_op(rng, pool, L):
    ref = rng.choice(["_", "_"] + [pct(n) for n in pool] + ["zz"])
    k = rng.random()
    if k < 0.5:
        return "mask:%s:%d:%d:%s:%d:%d" % (ref, rng.choice([0, 0, 1, 2, L - 1, L, L + 1, -1]), rng.choice([0, 1, 2, L, L + 3, -1]),
                                           rng.choice(MASKREPS), rng.randint(0, 1), rng.randint(0, 1))
    if k < 0.75:
        return "maskuniq:%s:%s" % (ref, rng.choice(MASKREPS))
    return "maskocc:%s:%d:%s" % (ref, rng.choice([-1, 0, 1, 2, 3, 100]), rng.choice(MASKREPS))


def gen_mask(rng):
    """histories around Mask / MaskUnique / MaskOccurences: windows at and beyond both ends, empty and negative windows, every
    replacement mode (default, AMBIG, GAP, MAJ with ties, one character, a string that is none of these), gaps and reference
    residues protected or not, the reference absent / given twice among the rows (after a rename) / not the first row, columns with
    unique and repeated residues, no row, one row, no column, wrong alphabet for AMBIG, rows left ragged by a failed Replace"""
    alpha_id = rng.choice([1, 1, 1, 0, 3, 2])
    alpha = "ARNDX-" if alpha_id == 0 else rng.choice(["ACGT-", "ACGTN-acgt", "AC-"])
    L = rng.choice([0, 1, 2, 4, 6])
    pool = rng.sample(NAMES, 4)
    nrows = rng.choice([0, 1, 2, 3, 4, 5])
    cols = ["".join(rng.choice(alpha) for _ in range(nrows)) for _ in range(L)]
    rows = [(pool[i % len(pool)] if i < len(pool) else "r%d" % i, "".join(c[i] for c in cols)) for i in range(nrows)]
    ops = []
    if rng.random() < 0.25:
        olds = rng.sample(pool, 2)
        ops.append("rename:" + "/".join(pct(o) + "/" + pct(olds[0]) for o in olds))
    for _ in range(rng.randint(1, 5)):
        if rng.random() < 0.7:
            ops.append(mask_op(rng, pool, L))
        else:
            ops.append(rng.choice(["sort", "shuffle:%d" % rng.randint(0, 999), "replace:A:GG", "replace:C:", "diffwithfirst", "replacematch",
                                   "add:%s:%s" % (pct(rng.choice(pool)), rseq(rng, alpha, L)), "clear", "autoalpha", "setalpha:%d" % rng.choice([0, 1]),
                                   "rmgapsites:1:0", "compress", "unalign", "dedup:0", "revcompseqs:" + names_arg(rng, pool),
                                   "trimseqs:1:0", "toupper", "rename:" + pct(rng.choice(pool)) + "/" + pct(rng.choice(pool))]))
    return Case("hist", ["A", alpha_id, prow(rows), ";".join(ops)], True, "hist-mask")


CHARSETS = ["%2D", "%2D", "N", "n", "A", "a", "AC", "ac", "%2DN", "X", "x", "%2A", "_", "%2E", "ACGT", "a%2D", "NX"]
CUTS = ["0", "0", "1", "1", "1/2", "1/2", "1/3", "2/3", "1/4", "3/4", "1/5", "2", "3/2"]


def sites_op(rng):
    """RemoveCharacterSites (general), RemoveMajorityCharacterSites, and RemoveGapSites for comparison"""
    k = rng.random()
    if k < 0.55:
        return "rmcharsites:%s:%s:%d:%d:%d:%d:%d" % (rng.choice(CHARSETS), rng.choice(CUTS), rng.randint(0, 1), rng.randint(0, 1),
                                                     rng.randint(0, 1), rng.randint(0, 1), rng.choice([0, 0, 0, 1]))
    if k < 0.92:
        return "rmmajsites:%s:%d:%d:%d" % (rng.choice(CUTS), rng.randint(0, 1), rng.randint(0, 1), rng.randint(0, 1))
    return "rmgapsites:%s:%d" % (rng.choice(CUTS), rng.randint(0, 1))


def seqs_op(rng):
    """RemoveCharacterSeqs (general form) / RemoveGapSeqs"""
    if rng.random() < 0.8:
        return "rmseqs:%s:%s:%d:%d:%d" % (rng.choice("-NnAaXx*."), rng.choice(CUTS), rng.randint(0, 1), rng.randint(0, 1), rng.randint(0, 1))
    return "rmgapseqs:%s:%d" % (rng.choice(CUTS), rng.randint(0, 1))


def gen_sites(rng):
    """histories around RemoveCharacterSites (general: character set incl. empty and several characters, cutoffs 0 / 1 / exact
    fractions / outside [0,1], ends mode, case folding, gaps and wildcards ignored, reversed selection), RemoveMajorityCharacterSites
    and RemoveCharacterSeqs (general): columns made of one character, of gaps / wildcards only (nothing counts), exact ties (half
    / half at cutoff 1/2), mixed case, runs of qualifying columns at the start and at the end separated by non-qualifying ones
    (ends mode), every column qualifying, none; no row, one row, no column; proteins (X/x is the wildcard); rows left ragged by a
    failed Replace (index panic on both sides); mixed with operations that empty, rebuild, rename or reorder the container"""
    alpha_id = rng.choice([1, 1, 1, 0, 3, 2])
    wild = "Xx" if alpha_id == 0 else "Nn"
    base = "ARNDCQ" if alpha_id == 0 else "ACGT"
    shape = rng.choice(["mixed", "mixed", "runs", "runs", "ties", "case", "allqual", "empty", "one", "nocols"])
    nrows = {"empty": 0, "one": 1, "ties": rng.choice([2, 4])}.get(shape, rng.randint(2, 5))
    L = 0 if shape == "nocols" else rng.choice([1, 2, 3, 5, 8])

    def column(kind):
        if kind == "gap":
            return "-" * nrows
        if kind == "wild":
            return "".join(rng.choice(wild) for _ in range(nrows))
        if kind == "gapwild":
            return "".join(rng.choice("-" + wild) for _ in range(nrows))
        if kind == "one":
            return rng.choice(base) * nrows
        if kind == "case":
            c = rng.choice(base)
            return "".join(rng.choice([c, c.lower()]) for _ in range(nrows))
        if kind == "tie":
            a, b = rng.sample(base + "-", 2)
            h = nrows // 2
            col = list(a * h + b * (nrows - h))
            rng.shuffle(col)
            return "".join(col)
        return "".join(rng.choice(base + base.lower() + "-" + wild[0]) for _ in range(nrows))

    if shape == "runs":
        lead, trail = rng.randint(0, 2), rng.randint(0, 2)
        kinds = ["gap"] * lead + [rng.choice(["plain", "one", "gap", "plain"]) for _ in range(max(0, L - lead - trail))] + ["gap"] * trail
        kinds = kinds[:L] if L else []
        if len(kinds) < L:
            kinds += ["plain"] * (L - len(kinds))
    elif shape == "ties":
        kinds = [rng.choice(["tie", "tie", "one", "gap"]) for _ in range(L)]
    elif shape == "case":
        kinds = [rng.choice(["case", "case", "plain", "wild"]) for _ in range(L)]
    elif shape == "allqual":
        kinds = [rng.choice(["gap", "gapwild"])] * L
    else:
        kinds = [rng.choice(["plain", "plain", "gap", "wild", "gapwild", "one", "case", "tie"]) for _ in range(L)]
    cols = [column(k) for k in kinds]
    pool = rng.sample(NAMES, 5)
    rows = [(pool[i % len(pool)], "".join(c[i] for c in cols)) for i in range(nrows)]
    ops = []
    pre = rng.random()
    if pre < 0.12:
        ops.append(rng.choice(["replace:A:GG", "replace:-:", "translate:-1:0"]))        # may leave the rows ragged
    elif pre < 0.2:
        olds = rng.sample(pool, 2)
        ops.append("rename:" + "/".join(pct(o) + "/" + pct(olds[0]) for o in olds))
    for _ in range(rng.randint(1, 5)):
        k = rng.random()
        if k < 0.6:
            ops.append(sites_op(rng))
        elif k < 0.75:
            ops.append(seqs_op(rng))
        else:
            ops.append(rng.choice([
                "add:%s:%s" % (pct(rng.choice(pool)), rseq(rng, base + "-", rng.choice([L, L, 1, 2]))), "sort", "compress", "clear",
                "shuffle:%d" % rng.randint(0, 999), "dedup:0", "dedup:1", "toupper", "tolower", "autoalpha", "unalign", "clone",
                "setalpha:%d" % rng.choice([0, 1]), "trimseqs:1:%d" % rng.randint(0, 1), "revcomp", "diffwithfirst",
                "concat:" + prow([(n, rseq(rng, base + "-", 2)) for n in rng.sample(pool + ["zz"], 2)]),
                "setchar:%d:%d:%s" % (rng.randint(0, 3), rng.randint(0, max(L, 1)), rng.choice("-Nn")),
                "rename:" + pct(rng.choice(pool)) + "/" + pct(rng.choice(pool))]))
    return Case("hist", ["A", alpha_id, prow(rows), ";".join(ops)], True, "hist-sites-" + shape)


# regular expressions / replacements of `replacere` on sequences (Go syntax; the last ones do not compile)
SEQ_REGEXES = ["A", "[AC]", "[acgt]", "-", "-+", "^-", "-$", "^-+", "N+", "(?i)a", ".", "^.", ".$", "^", "$", "(A)(C)", "(.)(.)", "A*",
               "[^ACGT-]", "\\.", "\\*", "AC|GT", "X", "(", "[a", "*a", "A{2,1}", "\\"]
SEQ_REPLACES = ["N", "-", "", "GG", "$1", "${2}${1}", "$0$0", "n", ".", "X", "$2$1", "?"]


def replacere_op(rng):
    return "replacere:%s:%s" % (pct(rng.choice(SEQ_REGEXES)), pct(rng.choice(SEQ_REPLACES)))


def gen_replacere(rng):
    """histories around Replace with a regular expression (new sequences computed by Go's regexp in the harness):
    length-preserving substitutions (one character or class by one character, swapped groups) and length-changing ones (an
    alignment then reports an error and keeps the rows as written: ragged, later index panics on both sides), empty matches,
    anchors, expressions that do not compile, no row, one row, no column, rows sharing a name, sequence sets with ragged rows;
    followed by by-name accesses, residue writes, site and sequence cleaning, insertions"""
    kind = rng.choice("AAAB")
    alpha_id = rng.choice([1, 1, 1, 0, 3] if kind == "B" else [1, 1, 1, 0, 3, 2])
    alpha = "ARNDCX-" if alpha_id == 0 else rng.choice(["ACGT-", "ACGTacgtN-", "AC-", "ACGT.*-"])
    shape = rng.choice(["plain", "plain", "plain", "empty", "one", "nocols", "dups"])
    L = 0 if shape == "nocols" else rng.choice([1, 2, 3, 5, 8])
    pool = rng.sample(NAMES, 5)
    nrows = {"empty": 0, "one": 1}.get(shape, rng.randint(2, 5))
    rows = []
    for i in range(nrows):
        ln = L if kind == "A" else rng.choice([L, L, rng.randint(0, 6)])
        rows.append((rng.choice(pool) if shape == "dups" else pool[i % len(pool)], rseq(rng, alpha, ln)))
    ops = []
    if rng.random() < 0.2:
        olds = rng.sample(pool, 2)
        ops.append("rename:" + "/".join(pct(o) + "/" + pct(olds[0]) for o in olds))
    for _ in range(rng.randint(1, 4)):
        k = rng.random()
        if k < 0.6:
            ops.append(replacere_op(rng))
        elif k < 0.7:
            ops.append("replacere:%s:%s" % (pct(rng.choice(["[AC]", "[acgt]", "-", ".", "[^ACGT-]", "N"])), pct(rng.choice(["N", "-", "n", ".", "X"]))))
        else:
            ops.append(rng.choice([
                "add:%s:%s" % (pct(rng.choice(pool)), rseq(rng, alpha, L)), "sort", "dedup:0", "clone", "toupper", "autoalpha",
                "setalpha:%d" % rng.choice([0, 1]), "replace:A:T", "replace:A:", "diffwithfirst", "replacematch", "compress",
                "rmgapsites:1:0", sites_op(rng), seqs_op(rng), "trimseqs:1:0", "unalign", "revcomp", "clear",
                "setchar:%d:%d:N" % (rng.randint(0, 3), rng.randint(0, max(L, 1))),
                "replacechar:%s:%d:%s" % (pct(rng.choice(pool)), rng.randint(0, max(L, 1)), rng.choice("ACGT-N")),
                "concat:" + prow([(n, rseq(rng, alpha, 2)) for n in rng.sample(pool + ["zz"], 2)]),
                "mask:_:0:%d:N:0:0" % max(L, 1), "filter:1:-1", "shuffle:%d" % rng.randint(0, 999)]))
    return Case("hist", [kind, alpha_id, prow(rows), ";".join(ops)], True, "hist-replacere-" + shape)


def gen_inplace(rng):
    """histories around the operations that rewrite residues in place without touching names, order or lengths:
    ReverseComplementSequences (named subset: known / unknown / repeated names, a name two rows share after a rename, residues
    without a complement in a named or in an unnamed row, wrong alphabet, no row, no column, a sequence set with ragged rows),
    DiffWithFirst / ReplaceMatchChars (rows close to the first one, points already present in the first row or in the others, one
    row, no row, after a Replace / three-frame Translate that left the rows ragged: index panics on both sides)"""
    kind = rng.choice("AAAB")
    alpha_id = rng.choice([1, 1, 1, 1, 0, 3, 2] if kind == "A" else [1, 1, 1, 0, 3])
    shape = rng.choice(["plain", "plain", "nocomp", "empty", "nocols", "dups", "one", "points", "points", "near"])
    alpha = {"plain": "ACGTUacgtuNnRYSWKMBDHV-", "nocomp": "ACGTacgt-*?.XZ", "points": "ACGT...-", "near": "ACGT.-"}.get(shape, "ACGTacgtN-")
    if alpha_id == 0:
        alpha = "ARNDCQEGX-"
    L = 0 if shape == "nocols" else rng.choice([1, 2, 3, 5, 8])
    pool = rng.sample(NAMES, 5)
    nrows = {"empty": 0, "one": 1}.get(shape, rng.randint(2, 5))
    rows = []
    for i in range(nrows):
        ln = L if kind == "A" else rng.choice([L, L, rng.randint(0, 6)])
        sq = rseq(rng, alpha, ln)
        if shape == "near" and rows:
            # the first row with a few residues changed (most positions match: DiffWithFirst writes many points)
            sq = "".join(c if rng.random() < 0.7 else rng.choice(alpha) for c in rows[0][1][:ln]).ljust(ln, "A")
        rows.append((rng.choice(pool) if shape == "dups" else pool[i % len(pool)], sq))
    ops = []
    if rng.random() < 0.3:
        olds = rng.sample(pool, rng.randint(2, 3))
        tgt = rng.choice(pool + ["new1"])
        ops.append("rename:" + "/".join(pct(o) + "/" + pct(tgt) for o in olds))
    for _ in range(rng.randint(1, 5)):
        k = rng.random()
        if k < (0.2 if shape in ("points", "near") else 0.5):
            ops.append("revcompseqs:" + names_arg(rng, pool + ["new1"]))
        elif k < 0.7:
            ops.append(rng.choice(["diffwithfirst", "diffwithfirst", "replacematch", "replacematch",
                                   "replace:%s:%s" % (rng.choice("ACGT."), rng.choice(["", "..", "N"])), "translate:-1:0"]))
        else:
            ops.append(rng.choice([
                "revcomp", "toupper", "sort", "shuffle:%d" % rng.randint(0, 999), "dedup:0", "clone", "autoalpha",
                "setalpha:%d" % rng.choice([0, 1]), "add:%s:%s" % (pct(rng.choice(pool)), rseq(rng, alpha, L)),
                "setchar:%d:%d:%s" % (rng.randint(0, 3), rng.randint(0, max(L, 1)), rng.choice("ACGT-N*")),
                "replacechar:%s:%d:%s" % (pct(rng.choice(pool)), rng.randint(0, max(L, 1)), rng.choice("ACGT-N*")),
                "rename:" + pct(rng.choice(pool)) + "/" + pct(rng.choice(pool)), "unalign", "compress", "rmgapsites:0:0",
                "cleannames", "filter:1:-1", "clear"]))
    return Case("hist", [kind, alpha_id, prow(rows), ";".join(ops)], True, "hist-inplace-" + shape)


def _gen_core(rng, tier):
    for _ in range(300 if tier == "quick" else 3000):
        yield gen_replacere(rng)
    for _ in range(400 if tier == "quick" else 4000):
        yield gen_sites(rng)
    for _ in range(300 if tier == "quick" else 3000):
        yield gen_inplace(rng)
    for _ in range(300 if tier == "quick" else 3000):
        yield gen_mask(rng)
    for _ in range(400 if tier == "quick" else 4000):
        yield gen_unalign_rename(rng)
    for _ in range(150 if tier == "quick" else 1500):
        yield gen_alias(rng)
    for _ in range(300 if tier == "quick" else 3000):
        yield gen_columns(rng)
    n = 1500 if tier == "quick" else 15000
    maxops = 12 if tier == "quick" else 40
    for _ in range(n):
        yield gen_hist(rng, maxops if rng.random() < 0.7 else 4)
    for _ in range(n // 25):
        yield gen_big(rng)


def shrink(c):
    if c.op != "hist":
        return
    kind, alpha, rows, ops = c.args
    opl = [] if ops in ("_", "") else ops.split(";")
    for a, b in dd_chunks(len(opl)):
        o2 = opl[:a] + opl[b:]
        yield Case("hist", [kind, alpha, rows, ";".join(o2) if o2 else "_"])
    rl = [] if rows == "_" else rows.split("/")
    prs = [(rl[i], rl[i + 1]) for i in range(0, len(rl) - 1, 2)]
    for i in range(len(prs)):
        p2 = prs[:i] + prs[i + 1:]
        yield Case("hist", [kind, alpha, "/".join(a + "/" + b for a, b in p2) if p2 else "_", ops])
    if kind == "B":
        for i, (n, s) in enumerate(prs):
            if len(s) > 0:
                p2 = list(prs)
                p2[i] = (n, s[:-1])
                yield Case("hist", [kind, alpha, "/".join(a + "/" + b for a, b in p2), ops])
SHRINK_ANY_FAIL = True


import re


def _step(v):
    m = re.search(r"step(\d+)$", v or "")
    return int(m.group(1)) if m else None


def classify(c):
    """known findings of C01 (see known_findings.jsonl)"""
    if c.op != "hist":
        return None
    k = _step(c.verdict)
    ops = c.args[3].split(";")
    if c.args[0] == "A" and (c.verdict or "").startswith("fail:ragged-step") and k and 1 <= k <= len(ops) \
            and ops[k - 1].startswith("translate:-1:") and _rows_unequal(c.impl, k):
        # the finding is: the three frames have different numbers of residues.  Rows of EQUAL length with a wrong
        # cached length (L mod 3 = 2) are a different violation and are reported
        return "align-translate-3frames-ragged"
    return None


def _rows_unequal(impl, k):
    steps = (impl or "").split(";")
    if k >= len(steps):
        return False
    m = re.search(r"(?:^|[ |])it=(\S*)", steps[k])
    if not m:
        return False
    f = m.group(1).split("/")
    lens = {len(x) for x in f[1::2]}
    return len(lens) > 1


def matches(c):
    if c.op.startswith("det"):
        return (c.impl or "").startswith("same")
    if c.op == "regexsub" and c.model == "unmodelled":
        return True       # a pattern outside the modelled subset of Go's regexp: nothing is claimed, no expectation uses it
    """model = implementation, compared up to (and including) the step at which the property is already
    violated: what the code does with a ragged 'alignment' afterwards (index panics...) is not modelled"""
    if c.model == c.impl:
        return True
    k = _step(c.verdict)
    if k is None or not (c.verdict or "").startswith("fail:ragged-step"):
        return False
    return (c.model or "").split(";")[:k + 1] == (c.impl or "").split(";")[:k + 1]


# ---- command-line glue: a multi-alignment Phylip input must be treated as its alignments one by one (`detmulti`) ----
MULTI_CMDS = [['sort'], ['addid', '-n', 'x_'], ['rename', '-e', 's', '-b', 't'], ['replace', '-s', 'A', '-n', 'T'], ['trim', 'seq', '-n', '1'], ['trim', 'name', '-n', '3'],
              ['subset', 'ref', 's1'], ['subset', '--indices', '0', '1'], ['subset', '-r', 's1'], ['clean', 'seqs', '-c', '0.5']]


def gen_regexsub(rng, count):
    from driver import cligen
    return cligen.regex_cases(rng, count)


def gen_identical(rng, n):
    """pairs of containers for `Identical`: equal, permuted, one residue / one name changed, case changed, different sizes,
    the same name given twice (the container renames the second), caller-made renames that make names collide"""
    for _ in range(n):
        kind = rng.choice("AB")
        alpha = rng.choice([1, 1, 0, 3])
        nrows = rng.choice([0, 1, 2, 3, 4, 5, 6])
        L = rng.randint(1, 6)
        names = rng.sample(NAMES, min(len(NAMES), nrows))
        x = [(nm, rseq(rng, "ACGTacgt-N", L if kind == "A" else rng.randint(1, 6))) for nm in names]
        y = list(x)
        mx = my = []
        what = rng.choice(["equal", "permuted", "permuted", "residue", "case", "name", "smaller", "larger", "twice", "twice-both",
                           "collide-x", "collide-y", "collide-both", "length"])
        if what != "equal":
            rng.shuffle(y)
        if what == "residue" and y:
            i = rng.randrange(len(y))
            q = list(y[i][1])
            j = rng.randrange(len(q))
            q[j] = rng.choice([c for c in "ACGT-" if c != q[j]])
            y[i] = (y[i][0], "".join(q))
        elif what == "case" and y:
            i = rng.randrange(len(y))
            y[i] = (y[i][0], y[i][1].swapcase())
        elif what == "name" and y:
            i = rng.randrange(len(y))
            y[i] = (rng.choice(["zz", y[i][0] + "_0001", y[i][0].upper() + "q"]), y[i][1])
        elif what == "smaller" and y:
            y.pop(rng.randrange(len(y)))
        elif what == "larger":
            y.insert(rng.randint(0, len(y)), ("extra", rseq(rng, "ACGT", L)))
        elif what in ("twice", "twice-both") and y:
            # the same name added twice: the container stores the second one under a fresh name (`name_0001`)
            i = rng.randrange(len(y))
            d = (y[i][0], rng.choice([y[i][1], rseq(rng, "ACGT", len(y[i][1]))]))
            y.insert(rng.randint(0, len(y)), d)
            if what == "twice-both":
                x = x + [d] if rng.random() < 0.5 else [d] + x
        elif what.startswith("collide") and len(x) >= 2:
            # caller-made renames: two rows end up with one name; same residues or not
            a, b = rng.sample([nm for nm, _ in x], 2)
            if rng.random() < 0.5:
                sa = dict(x)[a]
                x = [(nm, sa if nm == b else sq) for nm, sq in x]
                y = [(nm, sa if nm == b else sq) for nm, sq in y]
            ren = [(b, a)]
            if what in ("collide-x", "collide-both"):
                mx = ren
            if what in ("collide-y", "collide-both"):
                my = ren
            if what == "collide-x" and rng.random() < 0.6:
                # the other side: a row named like the merged one, and any other row in place of the second
                y = [(nm if nm != b else rng.choice(["other", a + "_0001"]), sq) for nm, sq in y]
        elif what == "length" and y and kind == "B":
            i = rng.randrange(len(y))
            y[i] = (y[i][0], y[i][1] + "A")
        enc = lambda m: "/".join(pct(o) + "/" + pct(nw) for o, nw in m) if m else "_"   # noqa: E731
        yield Case("identical", [kind, alpha, prow(x), prow(y), enc(mx), enc(my)], len(x) >= 1, "identical-" + what)


def gen(rng, tier):
    from driver import multigen
    for c in _gen_core(rng, tier):
        yield c
    # `Identical` on pairs of containers: model and naive definition ("same records in any order")
    for c in gen_identical(rng, 150 if tier == "quick" else 3000):
        yield c
    from driver import cligen
    for c in cligen.cases(rng, ['sort', 'sort-more', 'addid', 'trim', 'rename', 'replace', 'replace-file', 'concat', 'subset'], 40 if tier == "quick" else 400):
        yield c
    # Go's regexp against the hand-written model of the subset that the `-e` expectations use
    for c in gen_regexsub(rng, 400 if tier == "quick" else 6000):
        yield c
    # `subset -e` with several ARBITRARY Go expressions (inline flags, alternations, anchors, classes): the rows kept are
    # the union of the rows kept with each expression alone - the binary against itself, no regexp model involved
    atoms = ["(?i)^a", "(?i)b", "^B", "^s", "2$", "[0-9]+$", "a|Z", "(?s).", "(?U)a+", "^(alpha|beta)", "e.a", "(?i:T)a", "_", "^$", "S"]
    for _ in range(30 if tier == "quick" else 300):
        names = rng.sample(["alpha1", "Alpha2", "beta2", "BETA3", "sTa", "STa_4", "gamma", "Zeta9", "b", "A"], rng.randint(2, 8))
        rows = [(nm, "".join(rng.choice("ACGT-") for _ in range(5))) for nm in names]
        pats = rng.sample(atoms, rng.randint(2, 4))
        yield Case("detunion", [cligen.esc(cligen.fasta(rows)), ";;".join(pats), rng.randint(0, 1), "subset"], True, "cli-subset-regexps-union")
    for _ in range(2 if tier == "quick" else 20):
        for argv in MULTI_CMDS:
            yield multigen.multi_case(multigen.alignments(rng), argv, "cli-multi-" + "-".join(argv[:2]))
