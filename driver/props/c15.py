"""C15 — masking rewrites exactly the selected residues and nothing else."""
from driver.common import Case

ID = "C15"
LEAN_MODULES = ["Gv.Props.C15"]
REQUIRED_THEOREMS = ["Gv.Props.C15." + n for n in [
    "mask_result", "mask_frame_names_lengths", "mask_cells", "mask_outside_window_unchanged", "mask_ok_iff", "repChar_spec"]]
LEVEL_TEXT = ("Lean theorems about the model of Mask / MaskOccurences: names, order and lengths unchanged, every residue outside the "
              "selection unchanged, selected residues replaced by the replacement character, overhanging windows truncated; tied to "
              "/repo by correspondence over all windows (start, length) incl. empty / overhanging / negative, all replacement modes, "
              "both protection flags, every reference row or none, thresholds 0..n, with an independently stated predicate.")
LEVEL_NOTE = "Trusted: Lean kernel; harness/oracle/driver; hand-written model validated on generated cases only."
TECHNIQUE = "Lean 4 proof (frame / selection theorems by list induction) + differential correspondence over all windows"
RULE = ("alignments of 1..5 rows x 1..7 columns (nucleotide / protein / unknown alphabet, gaps, lower case, '.'), every window with "
        "start in [-1, L+1] and length in [-1, L+2], replacement in {'', AMBIG, GAP, MAJ, one char, bad string}, nogap x noref, "
        "reference = each row / unknown / none, occurrence thresholds 0..n; non-trivial = window overlapping the end or protected cells")
PARTIAL = ["MaskOccurences / MaskUnique: modelled and checked by the independent predicate and by correspondence; the Lean theorems so "
           "far cover Mask (frame, selection, truncation, replacement character)",
           "the column-majority replacement (MAJ) is the lowest byte among the most frequent raw characters: stated in the model, "
           "compared with a naive recount by the oracle"]

NT = "ACGTacg-N."
AA = "ARNDX-kl"


def rows_str(rows):
    return ",".join("%s:%s" % r for r in rows) if rows else "_"


def gen(rng, tier):
    N = 400 if tier == "quick" else 4000
    for _ in range(N):
        alpha = rng.choice([0, 1, 1, 3])
        sym = AA if alpha == 0 else NT
        n = rng.randint(1, 5)
        L = rng.randint(1, 7)
        sub = rng.sample(sym, rng.randint(2, len(sym)))
        rows = [("s%d" % i, "".join(rng.choice(sub) for _ in range(L))) for i in range(n)]
        rs = rows_str(rows)
        ref = rng.choice(["_", "_", "zz"] + [r[0] for r in rows])
        rep = rng.choice(["_", "AMBIG", "GAP", "MAJ", "MAJ", "Z", "-", "bad"])
        st = rng.choice([-1, 0, 1, L - 1, L, L + 1, rng.randint(0, L)])
        ln = rng.choice([-1, 0, 1, L, L + 2, rng.randint(0, L)])
        nogap, noref = rng.randint(0, 1), rng.randint(0, 1)
        yield Case("mask", [alpha, rs, ref, st, ln, rep, nogap, noref], st + ln > L or nogap or noref, "mask")
        yield Case("maskocc", [alpha, rs, ref, rng.choice([0, 1, 1, 2, n, -1]), rep], True, "maskocc")


def shrink(c):
    a = list(c.args)
    rows = [] if a[1] == "_" else [tuple(r.split(":", 1)) for r in a[1].split(",")]
    for i in range(len(rows)):
        r2 = rows[:i] + rows[i + 1:]
        if r2:
            yield Case(c.op, [a[0], rows_str(r2)] + a[2:])
