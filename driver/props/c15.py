"""C15 — masking rewrites exactly the selected residues and nothing else."""
from driver.common import Case

ID = "C15"
NEEDS_BINARY = True
LEAN_MODULES = ["Gv.Props.C15"]
REQUIRED_THEOREMS = ["Gv.Props.C15." + n for n in [
    "mask_result", "mask_frame_names_lengths", "mask_cells", "mask_outside_window_unchanged", "mask_ok_iff", "repChar_spec",
    # replacement character incl. the MAJ tie rule
    "majority_replacement", "mask_replacement_char",
    # MaskOccurences / MaskUnique
    "maskOcc_result", "maskOcc_ok_iff", "maskOcc_frame_names_lengths", "maskOcc_cells", "maskOcc_selected_exactly",
    "maskOcc_changed_iff", "maskOcc_not_selected", "maskOcc_threshold_extremes", "maskOcc_replacement_char",
    "maskOcc_empty_column", "maskUnique_selected"]]
LEVEL_TEXT = ("Lean theorems, all inputs, about the Go-mirroring models. Mask: names, order and lengths unchanged, every residue outside "
              "the selection unchanged, selected residues replaced, overhanging windows truncated, replacement character per mode "
              "(mask_replacement_char). MaskOccurences / MaskUnique (loop model: per-column occurrence table keyed by row index, MAJ value "
              "carried between columns): success condition (maskOcc_ok_iff); names, order and length unchanged "
              "(maskOcc_frame_names_lengths); residue by residue, for every row and every column < L, the result is the replacement "
              "if the residue is selected and the original otherwise (maskOcc_cells); selected = the row takes part in the count (no "
              "reference, or not the reference row and residue different from the reference residue or facing a reference gap), not a "
              "gap, count among the counted residues of the column <= threshold (maskOcc_selected_exactly); the reference row, "
              "residues equal to a non-gap reference residue, gaps and too frequent residues are never selected "
              "(maskOcc_not_selected); thresholds <= 0 select nothing, thresholds >= n select every counted non-gap residue "
              "(maskOcc_threshold_extremes); MaskUnique = threshold 1 = exactly one occurrence (maskUnique_selected); replacement per "
              "mode, for MAJ the most frequent counted residue of the column, lowest byte on ties (maskOcc_replacement_char, "
              "majority_replacement). Tied to /repo by correspondence over all windows (start, length) incl. empty / overhanging / "
              "negative, all replacement modes, both protection flags, every reference row or none, thresholds 0..n, MaskUnique through "
              "its own entry point, with two independently stated predicates (a naive recount and Spec.maskOccCell, the definition the "
              "theorems are about).")
LEVEL_NOTE = "Trusted: Lean kernel; harness/oracle/driver; hand-written model validated on generated cases only."
TECHNIQUE = ("Lean 4 proof (frame / selection theorems by list induction; loop invariant for the column loop with carried replacement; "
             "first-strict-maximum invariant for the 130-entry scan) + differential correspondence over all windows")
RULE = ("alignments of 1..5 rows x 1..7 columns (nucleotide / protein / unknown alphabet, gaps, lower case, '.'), every window with "
        "start in [-1, L+1] and length in [-1, L+2], replacement in {'', AMBIG, GAP, MAJ, one char, bad string}, nogap x noref, "
        "reference = each row / unknown / none, occurrence thresholds 0..n, MaskUnique; non-trivial = window overlapping the end or "
        "protected cells")
PARTIAL = ["MAJ: the theorems describe the majority among bytes < 130 (the size of the Go occurrence table); a residue >= 130 makes the "
           "Go code panic (index out of range) and lies outside the ASCII quantifier of the property",
           "MaskOccurences MAJ in a column without any counted residue carries the previous column's value; nothing is selected "
           "there (maskOcc_empty_column), so the value is never written"]

NT = "ACGTacg-N."
AA = "ARNDX-kl"


def rows_str(rows):
    return ",".join("%s:%s" % r for r in rows) if rows else "_"


def _gen_core(rng, tier):
    N = 400 if tier == "quick" else 4000
    for _ in range(N):
        alpha = rng.choice([0, 1, 1, 3])
        sym = AA if alpha == 0 else NT
        n = rng.randint(1, 5)
        L = rng.randint(1, 7)
        sub = rng.sample(sym, rng.randint(2, len(sym)))
        rows = [("s%d" % i, "".join(rng.choice(sub) for _ in range(L))) for i in range(n)]
        rs = rows_str(rows)
        ref = rng.choice(["_", "_", "zz"] + [r[0] for r in rows])
        rep = rng.choice(["_", "AMBIG", "GAP", "MAJ", "MAJ", "Z", "-", "bad"])
        st = rng.choice([-1, 0, 1, L - 1, L, L + 1, rng.randint(0, L)])
        ln = rng.choice([-1, 0, 1, L, L + 2, rng.randint(0, L)])
        nogap, noref = rng.randint(0, 1), rng.randint(0, 1)
        yield Case("mask", [alpha, rs, ref, st, ln, rep, nogap, noref], st + ln > L or nogap or noref, "mask")
        yield Case("maskocc", [alpha, rs, ref, rng.choice([0, 1, 1, 2, n, -1]), rep], True, "maskocc")
        if rng.random() < 0.5:
            yield Case("maskuniq", [alpha, rs, ref, rep], True, "maskuniq")


def shrink(c):
    a = list(c.args)
    rows = [] if a[1] == "_" else [tuple(r.split(":", 1)) for r in a[1].split(",")]
    for i in range(len(rows)):
        r2 = rows[:i] + rows[i + 1:]
        if r2:
            yield Case(c.op, [a[0], rows_str(r2)] + a[2:])


# ---- command-line glue: a multi-alignment Phylip input must be treated as its alignments one by one (`detmulti`) ----
MULTI_CMDS = [['mask', '-s', '1', '-l', '2'], ['mask', '-s', '0', '-l', '3', '--replace', 'MAJ'], ['mask', '--unique'], ['mask', '--ref-seq', 'ref', '-s', '0', '-l', '2'], ['mask', '--unique', '--ref-seq', 'ref', '--replace', 'MAJ'],
              ['mask', '--pos', '0,2'], ['mask', '--unique', '--at-most', '2'], ['mask', '-s', '0', '-l', '3', '--no-gaps'], ['mask', '--ref-seq', 'ref', '-s', '0', '-l', '3', '--no-ref'], ['mask', '-s', '1', '-l', '2', '--replace', 'GAP']]


def _gen_large(rng, tier):
    # (the list-based model recomputes column tables per cell: the wide cases stay small in number and use the cheap
    # replacement characters; MAJ and the occurrence masks are exercised on the tall ones)
    for _ in range(2 if tier == "quick" else 10):
        n, L = rng.choice([101, 131]), rng.randint(2, 6)
        rows = [("s%d" % i, "".join(rng.choice("ACGT-N") for _ in range(L))) for i in range(n)]
        rs = rows_str(rows)
        st = rng.randint(0, L - 1)
        yield Case("mask", [1, rs, rng.choice(["_", "s0"]), st, rng.choice([1, L - st, L]), rng.choice(["AMBIG", "MAJ", "GAP"]), rng.randint(0, 1), rng.randint(0, 1)], True, "mask-tall")
        yield Case("maskocc", [1, rs, rng.choice(["_", "s0"]), rng.choice([1, 2, n // 2]), rng.choice(["AMBIG", "MAJ"])], True, "maskocc-tall")
    for _ in range(1 if tier == "quick" else 4):
        L = rng.choice([4097, 4200])
        rows = [("s%d" % i, "".join(rng.choice("ACGT-N") for _ in range(L))) for i in range(2)]
        st = rng.choice([0, 4090, L - 3])
        yield Case("mask", [1, rows_str(rows), "_", st, rng.choice([2, 7, L]), rng.choice(["AMBIG", "GAP"]), rng.randint(0, 1), 0], True, "mask-wide")


def gen(rng, tier):
    for c in _gen_large(rng, tier):
        yield c
    from driver import multigen
    for c in _gen_core(rng, tier):
        yield c
    from driver import cligen
    for c in cligen.cases(rng, ['mask'], 40 if tier == "quick" else 400):
        yield c
    for _ in range(2 if tier == "quick" else 20):
        for argv in MULTI_CMDS:
            yield multigen.multi_case(multigen.alignments(rng), argv, "cli-multi-" + "-".join(argv[:2]))

