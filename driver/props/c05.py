"""C05 — translation."""
from driver.common import Case, dd_chunks

ID = "C05"
LEVEL_TEXT = ("Lean theorems: the Go codon translation over the regenerated tables equals the NCBI-table meaning for every byte triple and "
              "all 3 codes (17^3 representatives by kernel evaluation, lifted to all bytes); frame/length/error theorems by induction over "
              "sequences; three-frame naming and count, cached length; CodonAlign: 3x length, ungapped rows = original nucleotides minus <= 2 "
              "trailing, and threading nucleotides onto a gapped copy of their own translation succeeds and translates back (all 3 codes, all "
              "gap placements); TranslateByReference: rectangular result in every frame, equal to plain translation in every frame when no "
              "row has a gap, frame-0 reference row (gaps removed) a prefix of the translation of the ungapped reference, exact error "
              "conditions; tied to /repo by table regeneration, an exhaustive 3x38^3 codon correspondence run and differential "
              "correspondence of the container operations with the property's predicates evaluated on the implementation's rows.")
LEVEL_NOTE = 'Trusted: Lean kernel; tools/extract transcription of const.go; correspondence harness; NCBI tables 1,2,5 transcribed in Spec/Genetic.lean; model validated on generated cases only.'
TECHNIQUE = 'Lean 4 proof (decide +kernel over regenerated tables, induction) + differential correspondence'
NEEDS_BINARY = True
LEAN_MODULES = ["Gv.Props.C05"]
REQUIRED_THEOREMS = ["Gv.Props.C05." + n for n in [
    "geneticCode_dispatch", "translateCodon_eq_spec", "translate_length", "translate_error_iff",
    "translate_residue", "gap_codon", "codon_gap_iff", "translate_eq_codons",
    "codonAlign_rows", "codonAlign_length", "codonAlign_ungapped_rows", "codonAlign_translates_back", "codonAlign_error_iff",
    "byRef_rectangular", "byRef_eq_translate_of_no_gaps", "byRef_short_is_error", "byRef_negative_phase_is_error", "byRef_ref_row_prefix",
    "byRef_error_iff", "three_frames_names_and_count", "one_frame_names_and_count", "alignTranslate_length"]]
PARTIAL = ["TranslateByReference on an alignment shorter than 3+phase (rows without residues instead of the error of Translate) and "
           "with a negative phase (index panic; reachable from the command line with --phase -1 --ref-seq) were genuine defects: "
           "repaired (fix: commits), model and theorems follow the repaired code (byRef_short_is_error, "
           "byRef_negative_phase_is_error, byRef_eq_translate_of_no_gaps now without caveat); rows are assumed to have the length "
           "of the reference row (alignment invariant, C01)",
           "SeqBag.Translate renames colliding output names (name_0001 ...): collisions between '<a>_0' style names and existing names are "
           "not modelled (oracle: unmodelled)"]
RULE = ("CodonAlign: 1..4 rows, protein rows = gapped translations of random A/C/G/T sequences with 0..2 trailing bases, plus too "
        "short / too long / missing nucleotide sequences and arbitrary protein letters; TranslateByReference: 1..4 rows x 0..24 columns, "
        "gap-free / random gaps / gap runs, frames 0..2, unknown and empty reference names, an invalid code; "
        "exhaustive: 3 genetic codes x 38^3 codons over {ACGTU + 11 IUPAC codes} in both cases, '-', and the "
        "nucleotide-compatible unknown symbols ? * . X x, packed 300 codons per call; random sequences of length "
        "0..40 x frames 0..2 x codes incl. an invalid code; sequences with protein-only / unknown letters (error "
        "path); non-trivial = codon with an ambiguity/gap/unknown symbol, or frame 1-2")

NT = "ACGTURYSWKMBDHVN"
SYMS = NT + NT.lower() + "-" + "?*.Xx"
assert len(SYMS) == 38


def _gen_core(rng, tier):
    # exhaustive codons (both tiers: cheap)
    codons = [a + b + c for a in SYMS for b in SYMS for c in SYMS]
    rng.shuffle(codons)
    CH = 300
    for code in (0, 1, 2):
        for i in range(0, len(codons), CH):
            s = "".join(codons[i:i + CH])
            yield Case("translate", [0, code, s], True, "exhaustive-codons-code%d" % code)
    N = 600 if tier == "quick" else 6000
    for _ in range(N):
        L = rng.choice([0, 1, 2, 3, 4, 5, 6, 7, rng.randint(8, 40)])
        alpha = rng.choice([NT[:4], NT, SYMS])
        s = "".join(rng.choice(alpha) for _ in range(L))
        ph = rng.randint(0, 2)
        code = rng.choice([0, 1, 2, 0, 1, 2, 3, -1])
        yield Case("translate", [ph, code, s], ph > 0 and L >= 3, "random-seq")
    for _ in range(N // 6):
        L = rng.randint(1, 12)
        s = "".join(rng.choice(NT + "EFILPQZ!J") for _ in range(L))
        yield Case("translate", [rng.randint(0, 2), rng.randint(0, 2), s], False, "non-nucleotide")
    # frames beyond 2 are accepted by the library call (phase is just an offset)
    for _ in range(N // 10):
        L = rng.randint(0, 15)
        s = "".join(rng.choice(NT[:4]) for _ in range(L))
        yield Case("translate", [rng.randint(3, 6), 0, s], False, "large-phase")
    for c in gen_al(rng, tier):
        yield c
    for c in gen_codonalign(rng, tier):
        yield c
    for c in gen_byref(rng, tier):
        yield c


def gen_al(rng, tier):
    """Alignment.Translate: rows, frame-suffixed names and the cached Length(), all residues L mod 3, phases 0,1,2,-1"""
    N = 150 if tier == "quick" else 1500
    for _ in range(N):
        n = rng.randint(1, 4)
        L = rng.choice([2, 3, 4, 5, 6, 7, 8, 9, 10, 11, rng.randint(12, 30)])
        al = rng.choice([NT[:4], NT[:4], NT])
        rows = ",".join("s%d:%s" % (i, "".join(rng.choice(al) for _ in range(L))) for i in range(n))
        yield Case("altranslate", [1, rng.choice([0, 1, 2, -1, -1]), rng.choice([0, 1, 2, 0, 1, 2, 3]), rows], L >= 5, "alignment-translate")


NCBI = ["FFLLSSSSYY**CC*WLLLLPPPPHHQQRRRRIIIMTTTTNNKKSSRRVVVVAAAADDEEGGGG",
        "FFLLSSSSYY**CCWWLLLLPPPPHHQQRRRRIIMMTTTTNNKKSS**VVVVAAAADDEEGGGG",
        "FFLLSSSSYY**CCWWLLLLPPPPHHQQRRRRIIMMTTTTNNKKSSSSVVVVAAAADDEEGGGG"]


def _tr(code, nt):
    """plain translation of an A/C/G/T string (generator side only: builds protein rows that are real translations)"""
    ix = {"T": 0, "C": 1, "A": 2, "G": 3}
    return "".join(NCBI[code][16 * ix[nt[i]] + 4 * ix[nt[i + 1]] + ix[nt[i + 2]]] for i in range(0, len(nt) - 2, 3))


def _gapped(rng, s, L):
    s = list(s)
    while len(s) < L:
        s.insert(rng.randint(0, len(s)), "-")
    return "".join(s)


def gen_codonalign(rng, tier):
    """CodonAlign: protein rows that are the (gapped) translations of their nucleotides, 0..2 trailing nucleotides; plus
    too short / too long nucleotides, missing names, arbitrary protein letters"""
    N = 200 if tier == "quick" else 2000
    for _ in range(N):
        n = rng.randint(1, 4)
        code = rng.randint(0, 2)
        nts, prots = [], []
        for i in range(n):
            k = rng.randint(0, 6)
            nt = "".join(rng.choice("ACGT") for _ in range(3 * k + rng.choice([0, 0, 1, 2])))
            nts.append(nt)
            prots.append(_tr(code, nt))
        kind = rng.choice(["own", "own", "own", "short", "long", "missing", "letters"])
        if kind == "short":
            j = rng.randrange(n)
            nts[j] = nts[j][:max(0, len(nts[j]) - rng.randint(1, 4))]
        elif kind == "long":
            j = rng.randrange(n)
            nts[j] += "".join(rng.choice("ACGT") for _ in range(rng.randint(1, 4)))
        elif kind == "letters":
            prots = ["".join(rng.choice("ARNDX*-") for _ in p) for p in prots]
        L = max(len(p) for p in prots) + rng.randint(0, 2)
        prots = [_gapped(rng, p, L) for p in prots]
        prows = ",".join("s%d:%s" % (i, p) for i, p in enumerate(prots))
        order = list(range(n))
        rng.shuffle(order)
        if kind == "missing":
            order = order[1:]
        nrows = ",".join("s%d:%s" % (i, nts[i]) for i in order) or "_"
        yield Case("codonalign", [code, prows, nrows], L > 0 and kind == "own", "codonalign-" + kind)


def gen_byref(rng, tier):
    """TranslateByReference: gapped and gap-free alignments, every frame, reference rows starting / ending with gaps,
    unknown / empty reference names, an invalid code"""
    N = 400 if tier == "quick" else 4000
    for _ in range(N):
        n = rng.randint(1, 4)
        L = rng.choice([0, 1, 2, 3, 4, 5, 6, 7, 8, 9, rng.randint(10, 24)])
        kind = rng.choice(["nogap", "gappy", "gappy", "gapruns"])
        al = rng.choice(["ACGT", "ACGT", "ACGTRYN"])
        rows = []
        for i in range(n):
            if kind == "nogap":
                r = "".join(rng.choice(al) for _ in range(L))
            elif kind == "gappy":
                r = "".join(rng.choice(al + "--") for _ in range(L))
            else:
                r = ""
                while len(r) < L:
                    r += rng.choice(["-", "--", "---", "----"]) if rng.random() < 0.4 else "".join(rng.choice(al) for _ in range(rng.randint(1, 4)))
                r = r[:L]
            rows.append(r)
        if kind != "nogap" and rng.random() < 0.3 and L >= 2:
            # reference ending with 1 or 2 bases of an incomplete codon followed by gaps up to the last column
            k = rng.randint(1, min(3, L - 1))
            left = rng.randint(1, 2)
            rows[0] = (rows[0][:max(0, L - k - left)] + "".join(rng.choice("ACGT") for _ in range(left)) + "-" * k)[-L:] if L - k - left >= 0 else rows[0]
        ref = rng.choice(["s%d" % rng.randrange(n)] * 8 + ["zz", ""])
        ph = rng.choice([0, 0, 0, 0, 0, 1, 2, -1])
        code = rng.choice([0, 1, 2, 0, 1, 2, 7])
        rs = ",".join("s%d:%s" % (i, r) for i, r in enumerate(rows))
        yield Case("byref", [ph, code, ref, rs], L >= 3 and ref.startswith("s"), "byref-" + kind)
    # references whose last codon is incomplete and followed by gaps only (every placement of 1..2 bases + 1..3 gaps)
    for _ in range(N // 4):
        ncod = rng.randint(1, 4)
        body = "".join(rng.choice("ACGT") for _ in range(3 * ncod))
        if rng.random() < 0.4:
            j = rng.randrange(len(body))
            body = body[:j] + "-" * rng.randint(1, 3) + body[j:]
        refrow = body + "".join(rng.choice("ACGT") for _ in range(rng.randint(1, 2))) + "-" * rng.randint(1, 3)
        L = len(refrow)
        others = ["".join(rng.choice("ACGT-") for _ in range(L)) for _ in range(rng.randint(0, 2))]
        rs = ",".join("s%d:%s" % (i, r) for i, r in enumerate([refrow] + others))
        yield Case("byref", [0, rng.randint(0, 2), "s0", rs], True, "byref-trailing-gaps")


    # references assembled from units: a plain codon, a codon split by 1..5 gaps after its first or second base, an
    # all-gap run of 1..7 columns - every unit followed by every other (a split codon right before an all-gap triplet, two
    # split codons in a row, gap runs of length 3k+1 / 3k+2 between codons)
    for _ in range(N // 2):
        units = []
        for _ in range(rng.randint(2, 6)):
            k = rng.random()
            cod = "".join(rng.choice("ACGT") for _ in range(3))
            if k < 0.3:
                units.append(cod)
            elif k < 0.65:
                cut = rng.choice([1, 2])
                units.append(cod[:cut] + "-" * rng.randint(1, 5) + cod[cut:])
            else:
                units.append("-" * rng.choice([1, 2, 3, 3, 3, 4, 6, 7]))
        refrow = "".join(units)
        L = len(refrow)
        others = ["".join(rng.choice("ACGTacgtN-") for _ in range(L)) for _ in range(rng.randint(1, 3))]
        rs = ",".join("s%d:%s" % (i, r) for i, r in enumerate([refrow] + others))
        yield Case("byref", [rng.choice([0, 0, 0, 1, 2]), rng.randint(0, 2), "s0", rs], True, "byref-split-codons")


def _rows(s):
    return [] if s == "_" else [tuple(r.split(":", 1)) for r in s.split(",")]


def _enc(rows):
    return ",".join("%s:%s" % r for r in rows) if rows else "_"


def shrink(c):
    if c.op == "byref":
        ph, code, ref, rs = c.args
        rows = _rows(rs)
        for i in range(len(rows)):
            if len(rows) > 1 and rows[i][0] != ref:
                yield Case(c.op, [ph, code, ref, _enc(rows[:i] + rows[i + 1:])])
        L = len(rows[0][1]) if rows else 0
        for a, b in dd_chunks(L):
            yield Case(c.op, [ph, code, ref, _enc([(nm, s[:a] + s[b:]) for nm, s in rows])])
        return
    if c.op == "codonalign":
        code, ps, ns = c.args
        prot, nts = _rows(ps), _rows(ns)
        for i in range(len(prot)):
            if len(prot) > 1:
                nm = prot[i][0]
                yield Case(c.op, [code, _enc(prot[:i] + prot[i + 1:]), _enc([r for r in nts if r[0] != nm])])
        return
    if c.op != "translate":
        return
    s = c.args[2]
    # whole codons (delta-debugging windows), then single residues
    nc = len(s) // 3
    for a, b in dd_chunks(nc):
        yield Case(c.op, [c.args[0], c.args[1], s[:3 * a] + s[3 * b:]])
    if len(s) <= 12:
        for j in range(len(s)):
            yield Case(c.op, [c.args[0], c.args[1], s[:j] + s[j + 1:]])


def matches(c):
    if c.op.startswith("det"):
        return (c.impl or "").startswith("same")
    if c.op == "byref" and c.model == "err":
        return (c.impl or "").startswith("err")      # errors are raised before the alignment is touched
    if c.op == "altranslate" and c.model == "err":
        return (c.impl or "").startswith("err")      # what an operation that failed leaves behind is not judged
    return c.model == c.impl


# ---- command-line glue: a multi-alignment Phylip input must be treated as its alignments one by one (`detmulti`) ----
MULTI_CMDS = [['translate'], ['translate', '--phase', '1'], ['translate', '--genetic-code', 'mitov'], ['translate', '--ref-seq', 'ref']]


def multi_codonalign(rng):
    """`codonalign -f nt.fa` on a Phylip input holding several alignments of the SAME protein sequences (other gap placements,
    other widths): the nucleotide sequences are read once and serve every alignment (cmd/codonalign.go loops over aligns.Achan)"""
    from driver import multigen
    aa = "ARNDCQEGHILKMFPSTWYV"
    n = rng.randint(2, 4)
    names = ["ref"] + ["s%d" % i for i in range(1, n)]
    prots = {nm: "".join(rng.choice(aa) for _ in range(rng.randint(2, 6))) + rng.choice("EFILPQ") for nm in names}
    als = []
    for _ in range(rng.randint(2, 4)):
        L = max(len(p) for p in prots.values()) + rng.randint(0, 3)
        rows = []
        for nm in names:
            sq = list(prots[nm])
            while len(sq) < L:
                sq.insert(rng.randint(0, len(sq)), "-")
            rows.append((nm, "".join(sq)))
        als.append(rows)
    nts = [(nm, "".join(rng.choice("ACGTacgtN") for _ in range(3 * len(p) + rng.choice([0, 0, 1, 2])))) for nm, p in prots.items()]
    nts.append(("other", "ACGTAC"))
    rng.shuffle(nts)
    return multigen.multi_case(als, ["codonalign", "-f", "nt.fa"], "cli-multi-codonalign", files={"nt.fa": "".join(">%s\n%s\n" % r for r in nts)})


def _gen_large(rng, tier):
    for _ in range(2 if tier == "quick" else 10):
        L = rng.choice([4097, 4100, 6001, 12290])
        s = "".join(rng.choice("ACGTacgtNRY-") for _ in range(L))
        yield Case("translate", [rng.randint(0, 2), rng.randint(0, 2), s], True, "translate-large")
        n = rng.choice([101, 120])
        rows = ",".join("s%d:%s" % (i, "".join(rng.choice("ACGT") for _ in range(9))) for i in range(n))
        yield Case("altranslate", [1, rng.choice([0, 1, 2, -1]), rng.randint(0, 2), rows], True, "alignment-translate-large")


def gen(rng, tier):
    for c in _gen_large(rng, tier):
        yield c
    from driver import multigen
    for c in _gen_core(rng, tier):
        yield c
    from driver import cligen
    for c in cligen.cases(rng, ['translate', 'translate-ref', 'codonalign'], 40 if tier == "quick" else 400):
        yield c
    for _ in range(2 if tier == "quick" else 20):
        for argv in MULTI_CMDS:
            yield multigen.multi_case(multigen.alignments(rng), argv, "cli-multi-" + "-".join(argv[:2]))
        yield multi_codonalign(rng)
