"""C08 — PROVISIONAL self-contained module: the concurrency half (thread counts, data races, error return) plus the
implementation-only metamorphic pairs of the first half.  The final c08.py combines `c08_pool` (this machinery:
`gen_pool_cases`, `accepts`, `classify_pool_case`, `pool_race_cases`, `POOL_*` metadata, `pool_check`) with the counter
theorems of the C07 work: add its Lean module(s) to LEAN_MODULES / REQUIRED_THEOREMS and chain its generator in `gen`."""
import sys

from driver.props import c08_pool as P

ID = "C08"
LEVEL_TEXT = P.POOL_LEVEL_TEXT
LEVEL_NOTE = P.POOL_LEVEL_NOTE
TECHNIQUE = P.POOL_TECHNIQUE
LEAN_MODULES = list(P.POOL_LEAN_MODULES)
REQUIRED_THEOREMS = list(P.POOL_THEOREMS)
RULE = P.POOL_RULE
PARTIAL = list(P.POOL_PARTIAL)
TRUSTED = list(P.POOL_TRUSTED)
TIMEOUT = P.TIMEOUT
FACTS = list(P.POOL_FACTS)

gen = P.gen_pool_cases
accepts = P.accepts
classify = P.classify_pool_case
race_cases = P.pool_race_cases


def check(tier, seed):
    return P.pool_check(sys.modules[__name__], tier, seed)


def replay(path):
    return P.pool_replay(sys.modules[__name__], path)
