"""C08 — PROVISIONAL self-contained module: the concurrency half (thread counts, data races, error return) plus the
implementation-only metamorphic pairs of the first half.  The final c08.py combines `c08_pool` (this machinery:
`gen_pool_cases`, `accepts`, `classify_pool_case`, `pool_race_cases`, `POOL_*` metadata, `pool_check`) with the counter
theorems of the C07 work: add its Lean module(s) to LEAN_MODULES / REQUIRED_THEOREMS and chain its generator in `gen`."""
import sys

from driver.props import c08_pool as P

ID = "C08"

# ---- first half: the distances depend only on the multiset of weighted columns (lean/Gv/Props/C08Cols.lean) ----
COLS_LEAN_MODULES = ["Gv.Props.C08Cols"]
COLS_THEOREMS = ["Gv.Props.C08Cols." + n for n in [
    "countMutations_weighted_counts", "countDiffs_weighted_counts", "counters_perm_invariant",
    "probaNt_weighted_columns", "selectedSites_columnwise", "estimators_homogeneous", "internal_gaps_exactly",
    "distMatrix_depends_on_weighted_columns", "pair_distance_depends_on_weighted_columns", "initModel_is_initOf",
    "distMatrix_column_perm", "distMatrix_replicate", "rawdist_replicate_linear",
    "distMatrix_replicate_eq_integer_weights", "distMatrix_scale_weights", "distMatrix_unit_weights",
    "distMatrix_function_of_pair_distances", "complement_preserves_classes", "complement_residue_code",
    "estimators_strand_symmetric", "distMatrix_complement", "distMatrix_reverse_complement",
    "internal_gaps_reversal_invariant", "distMatrix_reverse_columns", "distMatrix_reverse_complement_all_modes",
    "revcompRows_is_ReverseComplement", "distMatrix_row_perm", "distance_symmetric",
    "internal_gaps_not_permutation_invariant", "internal_gaps_not_replication_invariant"]]
COLS_LEVEL_TEXT = (
    "FIRST HALF - Lean theorems over the reals (weights real, sums exact) about the Go-mirroring model of "
    "distance/dna/distance.go (lean/Gv/Model/Dist.lean: countMutations, countDiffs, countDiffsWithGaps, "
    "countDiffsWithInternalGaps, selectedSites, probaNt, Distance of the 7 models with the closed forms REGENERATED from "
    "the Go source on every run, DistMatrix assembly), for ALL alignments, models, gamma/alpha, rm-gaps, rm-ambiguous, "
    "ranges and both variants (unchanged / repaired): every result of the three order-free counters is a weighted count "
    "'sum of w over the sites picked by an indicator of (code, code, selected)', probaNt is a normalised weighted sum over "
    "the columns, the estimators only use ratios of counts (proved on the regenerated text) and rawdist is linear; hence "
    "the MASTER THEOREM distMatrix_depends_on_weighted_columns: DistMatrix is a function of 'column content -> total "
    "weight of the columns with that content', up to a common factor k != 0 (k = 1 for rawdist). Instances proved at the "
    "DistMatrix level: column permutation by any index permutation (weights move with their columns), Concat with itself "
    "k >= 1 times (every model but rawdist; rawdist pair distances are multiplied by k), k copies = integer weight k "
    "(rawdist included), all weights multiplied by k != 0, explicit unit weights = no weights (every counting mode), "
    "complementing every residue (every counting mode: the complement keeps IUPAC compatibility, transitions and "
    "transversions and exchanges A<->G with C<->T and piA<->piT, piC<->piG, under which TN93/F84/F81 as written in the "
    "source are symmetric), reverse complement (modes 0 and 2 for any real weights; EVERY counting mode, the "
    "internal-gap one included, for non-negative weights: the internal-gap counter is shown to be a two-sided sum that "
    "reads the same from both ends - leading and trailing gap runs are ignored alike; tied to the C06 model of "
    "ReverseComplement), and row permutation (m'[i][j] = m[q i][q j], half-matrix mode, every counting mode: Distance is symmetric over the reals and "
    "the 2*max substitute only depends on the set of pair distances). The internal-gap mode (rawdist/pdist with "
    "countgapmut = 1, internal_gaps_exactly) is exempt from permutation/replication, and necessarily so: two DistMatrix "
    "evaluations of the model over R are machine-checked counterexamples (A-A/AAA: 1 vs AA-/AAA: 0; A-/AA: 0 vs two "
    "copies: 1). On the implementation the same relations are run as metamorphic pairs (op distpair, tolerance 1e-9). "
    "SECOND HALF - ")
COLS_PARTIAL = [
    "first half: the theorems are over the reals (exact sums); float64 summation order and rounding are not modelled - on "
    "the implementation the relations are metamorphic pairs with relative tolerance 1e-9",
    "first half: preconditions of the theorems = preconditions of dna.DistMatrix: rectangular alignment (all rows of one "
    "length) and, when weights are given, at least one weight per column (weights[i] panics otherwise); complement / "
    "reverse complement: every residue has an IUPAC code (otherwise DistMatrix returns an error on the original alignment)",
    "first half: reverse complement / column reversal in the internal-gap mode (countgapmut = 1) is proved for "
    "non-negative weights only (math.Max of the two trailing sums); with a negative weight it is false in general",
    "first half: row permutation is proved for the half-matrix mode (no ranges: a range names row positions); over R the "
    "model's test `d == +Inf` reads `d = 1/0 = 0` (Lean's real division), so a zero distance takes the substitute branch "
    "of the real-valued assembly - the pair-level theorems and distMatrix_function_of_pair_distances (any interpretation "
    "of float64) do not depend on it; IEEE special values are C07's FVal theorems",
    "first half: replication is `Concat` with itself (k copies side by side, no weights); in-place repetition of each "
    "column is the same multiset of columns and is covered by the master theorem, not stated separately",
]

LEVEL_TEXT = COLS_LEVEL_TEXT + P.POOL_LEVEL_TEXT
LEVEL_NOTE = P.POOL_LEVEL_NOTE
TECHNIQUE = ("Lean 4 proof over the reals (weighted-multiset argument on the regenerated estimators and the hand-written "
             "counters / probaNt / assembly; decide over the 16 IUPAC codes and the 256 residues) + " + P.POOL_TECHNIQUE)
LEAN_MODULES = list(P.POOL_LEAN_MODULES) + COLS_LEAN_MODULES
REQUIRED_THEOREMS = list(P.POOL_THEOREMS) + COLS_THEOREMS
RULE = P.POOL_RULE
PARTIAL = [p for p in P.POOL_PARTIAL if not p.startswith("first half of C08")] + COLS_PARTIAL
TRUSTED = list(P.POOL_TRUSTED)
TIMEOUT = P.TIMEOUT
FACTS = list(P.POOL_FACTS)

gen = P.gen_pool_cases
accepts = P.accepts
classify = P.classify_pool_case
race_cases = P.pool_race_cases


def check(tier, seed):
    return P.pool_check(sys.modules[__name__], tier, seed)


def replay(path):
    return P.pool_replay(sys.modules[__name__], path)
