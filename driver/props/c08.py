"""C08 — PROVISIONAL self-contained module: the concurrency half (thread counts, data races, error return) plus the
implementation-only metamorphic pairs of the first half.  The final c08.py combines `c08_pool` (this machinery) with
the counter theorems of the C07 work."""
from driver.props import c08_pool as P

ID = "C08"
LEVEL_TEXT = P.POOL_LEVEL_TEXT
LEVEL_NOTE = P.POOL_LEVEL_NOTE
TECHNIQUE = ("Lean 4 proof over a small-step transition system (all schedules) + decidable lock-set/happens-before "
             "check over regenerated go/ast facts + race-detector / watchdog runs + metamorphic pairs")
LEAN_MODULES = P.POOL_LEAN_MODULES
REQUIRED_THEOREMS = P.POOL_THEOREMS
RULE = P.POOL_RULE
PARTIAL = P.POOL_PARTIAL
TRUSTED = P.POOL_TRUSTED
TIMEOUT = P.TIMEOUT
FACTS = [("distMatrix", "raceFree"), ("distMatrix", "instanceOfPool")]

gen = P.gen_pool_cases
accepts = P.accepts
classify = P.classify_pool_case


def race_cases(cases, tier):
    """the thread-count cases are re-run under the race detector (a subset in the quick tier)"""
    cs = [c for c in cases if c.op == "distcpus"]
    if tier == "quick":
        keep = [c for c in cs if c.tag != "distcpus"] + [c for c in cs if c.tag == "distcpus"][:14]
        # the error path under the race detector too (each hangs for the watchdog's 10 s on the unchanged tree)
        fails = [c for c in cases if c.op == "distfail" and c.tag != "distfail-never" and c.args[1] != "1"]
        return keep + fails[:4]
    return cs + [c for c in cases if c.op == "distfail"]


def check(tier, seed):
    return P.pool_check(__import__("driver.props.c08", fromlist=["x"]), tier, seed)


def replay(path):
    return P.pool_replay(__import__("driver.props.c08", fromlist=["x"]), path)
