"""python3 -m driver.seedtable  — rewrites the seeded-changes table of DESIGN.md (between the SEEDTABLE markers)
from seeded/*/meta.json"""
import glob
import json
import os

VERIF = os.path.dirname(os.path.dirname(os.path.abspath(__file__)))


def main():
    rows = []
    for mp in sorted(glob.glob(os.path.join(VERIF, "seeded", "*", "meta.json"))):
        m = json.load(open(mp))
        name = os.path.basename(os.path.dirname(mp))
        det = []
        for k, v in sorted(m.get("detection", {}).items()):
            viol = v.get("violations", [])
            if v.get("rc") == 1 and viol:
                how = "failing input" if any("no-failing-input-found" not in x for x in viol) else "broken tie only"
                what = ""
                for x in viol:
                    if "no-failing-input-found" not in x:
                        what = x.split(" ", 3)[3][:70] if len(x.split(" ", 3)) > 3 else ""
                        break
                det.append("%s: %s%s" % (k, how, (" (`%s`)" % what.replace("|", "\\|").replace("`", "'")) if what else ""))
            else:
                det.append("%s: not detected" % k)
        rows.append("| %s | %s | %s |" % (name, m.get("needs_to_manifest", "").replace("|", "\\|"), "<br>".join(det) or "not run"))
    table = "| seeded change | needs, to manifest | checks run with it applied |\n|---|---|---|\n" + "\n".join(rows) + "\n"
    p = os.path.join(VERIF, "DESIGN.md")
    s = open(p).read()
    a, b = "<!-- SEEDTABLE:BEGIN -->\n", "<!-- SEEDTABLE:END -->"
    if a in s and b in s:
        s = s[:s.index(a) + len(a)] + table + s[s.index(b):]
        open(p, "w").write(s)
    print(table)


if __name__ == "__main__":
    main()
