"""Pairs of distinct residue strings with equal 32-bit hash under commonly used hash functions (found once by a birthday
search over random strings; `zlib.crc32`, `zlib.adler32`, FNV-1 / FNV-1a 32, Java's 31-polynomial, djb2, CRC-32C).
Two such strings are different sequences (different column patterns): an implementation that keys a table by the hash
instead of by the content merges them.  Used as a dictionary stratum by the C13 generators."""

PAIRS = {
 "crc32": [
  [
   "GACGTACCACGCTC",
   "AGCCGATTTAGCAA"
  ],
  [
   "A-CC-CCATACC",
   "CGTGCANGGNCA"
  ],
  [
   "PCLWKEFR",
   "AWCVDRSQ"
  ]
 ],
 "adler32": [
  [
   "CCGGTTTAGATGAC",
   "CTGGGAGTTCATAC"
  ],
  [
   "-TCGNANCNT-T",
   "CGCGT-NCCCNT"
  ],
  [
   "MQIKVGGL",
   "RTKDNAHV"
  ]
 ],
 "fnv1": [
  [
   "GGAAAATCCGTTAT",
   "CCCTATATAACCAT"
  ],
  [
   "T-CGCGGGANCN",
   "GNCNNACNCNNT"
  ],
  [
   "GWWLHDHY",
   "IFCREWQK"
  ]
 ],
 "fnv1a": [
  [
   "CACCTCCCCGGGAT",
   "CTGGTCGGAGCGAG"
  ],
  [
   "-NN-CGNAATCA",
   "TTT-GGCGGCTC"
  ],
  [
   "HKATNGQD",
   "QSIRAQYR"
  ]
 ],
 "java31": [
  [
   "TCAGCGCTTGTTCT",
   "TGATGCTGTGTGTG"
  ],
  [
   "NA-TGNGA-AAG",
   "NTA-T-G-NACT"
  ],
  [
   "CQEIRSGH",
   "MLASEDHL"
  ]
 ],
 "djb2": [
  [
   "CGCATCTATGGCCG",
   "AACTGGGGTTGACA"
  ],
  [
   "-CGCCAANTG-C",
   "GAAT-TCTNGGG"
  ],
  [
   "EEFIDIFR",
   "MQGGNLDT"
  ]
 ],
 "crc32c": [
  [
   "TTGTACTGCCAGTG",
   "ATGACTGGTCTCTA"
  ],
  [
   "T-GTAAAAATG-",
   "A-CTGGCACATA"
  ],
  [
   "MDAECFTL",
   "GIYGKLSE"
  ]
 ]
}


def all_pairs():
    return [(h, a, b) for h, ps in sorted(PAIRS.items()) for a, b in ps]
