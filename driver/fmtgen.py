"""Generators shared by the C02 / C03 property modules: random representable alignments, python
re-implementations of the five writers (used ONLY to synthesise valid seed files for the C03 mutation
generators - never as an oracle), wire encodings.  Standard library only."""

NT = "ACGTURYSWKMBDHVN"
AA = "ARNDCQEGHILKMFPSTWYVBZX"
SPECIAL = "-*?"
NT_ALPHA = NT + NT.lower() + SPECIAL
AA_ALPHA = AA + AA.lower() + SPECIAL
PRINTABLE = "".join(chr(c) for c in range(33, 127))

# lengths straddling every writer line / block width (10, 50, 60, 80 and multiples)
WIDTH_LENGTHS = [1, 9, 10, 11, 49, 50, 51, 59, 60, 61, 79, 80, 81, 119, 120, 121, 159, 160, 161, 599, 600, 601]

NEXUS_KEYWORDS = ["#NEXUS", "BEGIN", "DATA", "CHARACTERS", "TAXA", "TAXLABELS", "TREES", "TREE", "DIMENSIONS",
                  "NTAX", "NCHAR", "FORMAT", "DATATYPE", "MISSING", "MATCHCHAR", "GAP", "MATRIX", "END", "ENDBLOCK"]
# reserved words that are also words over the protein (or nucleotide) IUPAC alphabet
KEYWORD_ROWS = [k for k in NEXUS_KEYWORDS if all(ch in AA for ch in k)]

FORMATS = ["fasta", "phylip", "nexus", "clustal", "stockholm"]
PHYLIP_WOPTS = ["000", "100", "010", "001", "110", "101", "011", "111"]


def hx(b):
    if isinstance(b, str):
        b = b.encode("latin-1")
    return b.hex() if b else "-"


def unhx(s):
    return b"" if s in ("-", "") else bytes.fromhex(s)


def xrows(rows):
    if not rows:
        return "_"
    return ",".join("%s:%s" % (n.encode("latin-1").hex(), q.encode("latin-1").hex()) for n, q in rows)


def dec_xrows(s):
    if s == "_":
        return []
    out = []
    for p in s.split(","):
        n, q = p.split(":")
        out.append((bytes.fromhex(n).decode("latin-1"), bytes.fromhex(q).decode("latin-1")))
    return out


def name_alphabet(fmt):
    """printable non-blank characters minus the format's own delimiters"""
    bad = {"fasta": "", "phylip": "", "nexus": "[];=", "clustal": "", "stockholm": "[];="}[fmt]
    return "".join(c for c in PRINTABLE if c not in bad)


def name_ok(fmt, strict, name):
    if not name:
        return False
    up = name.upper()
    if fmt == "fasta":
        return name[0] != ">"
    if fmt == "phylip":
        return len(name) <= 10 if strict else True
    if fmt == "nexus":
        return up not in NEXUS_KEYWORDS
    if fmt == "clustal":
        return up not in ("CLUSTAL", "CLUSTALW")
    if fmt == "stockholm":
        return name[0] != "#" and name != "//" and up != "STOCKHOLM"
    return True


def rand_name(rng, fmts, strict=False, maxlen=30):
    """a name representable in all of `fmts`"""
    alpha = PRINTABLE
    for f in fmts:
        alpha = "".join(c for c in alpha if c in name_alphabet(f))
    for _ in range(100):
        k = rng.choice([1, 2, 3, 5, 9, 10, 11, rng.randint(1, maxlen)])
        if strict:
            k = min(k, 10)
        style = rng.random()
        if style < 0.3:
            nm = "".join(rng.choice("abcXYZ019_") for _ in range(k))
        elif style < 0.4:
            nm = "".join(rng.choice("0123456789") for _ in range(k))     # numeric names
        else:
            nm = "".join(rng.choice(alpha) for _ in range(k))
        if all(name_ok(f, strict, nm) for f in fmts):
            return nm
    return "s"


def rand_alignment(rng, fmts, strict=False, L=None, nrows=None, protein=None, maxname=30):
    n = nrows or rng.choice([1, 2, 2, 3, 4, rng.randint(1, 8)])
    if L is None:
        L = rng.choice(WIDTH_LENGTHS[:-3] + [rng.randint(1, 200)])
    if protein is None:
        protein = rng.random() < 0.5
    alpha = AA_ALPHA if protein else NT_ALPHA
    style = rng.random()
    if style < 0.2:
        alpha = (AA if protein else NT)          # upper case only
    elif style < 0.3:
        alpha = (AA if protein else NT).lower() + "-"
    names = []
    while len(names) < n:
        nm = rand_name(rng, fmts, strict, maxname)
        if nm not in names:
            names.append(nm)
    rows = []
    for nm in names:
        rows.append((nm, "".join(rng.choice(alpha) for _ in range(L))))
    return rows


# ---- python re-implementations of the writers (seed files for C03 only) -----------------------------

def w_fasta(rows, width=80):
    out = []
    for n, q in rows:
        out.append(">" + n + "\n")
        for i in range(0, len(q), width):
            out.append(q[i:i + width] + "\n")
        if not q:
            out.append("\n")
    return "".join(out)


def w_phylip(rows, strict=False, oneline=False, noblock=False):
    L = len(rows[0][1])
    line, block = 60, 10
    if oneline:
        line = L
    if noblock:
        block = line
    out = ["   %d   %d\n" % (len(rows), L)]
    cur, header = 0, True
    while cur < L:
        if cur > 0:
            out.append("\n")
        for n, q in rows:
            if header:
                out.append(("%-10s" % n[:10]) if strict else n + "  ")
            i = cur
            while i < cur + line and i < len(q):
                if i > cur:
                    out.append(" ")
                elif not header:
                    out.append("          " if strict else "   ")
                out.append(q[i:min(i + block, len(q))])
                i += block
            out.append("\n")
        cur += line
        header = False
    return "".join(out)


def w_nexus(rows, protein=False):
    out = ["#NEXUS\n", "begin data;\n", "dimensions ntax=%d nchar=%d;\n" % (len(rows), len(rows[0][1])),
           "format datatype=%s;\n" % ("protein" if protein else "dna"), "matrix\n"]
    for n, q in rows:
        out.append(n + " " + q + "\n")
    out.append(";\nend;\n")
    return "".join(out)


def w_clustal(rows, width=50):
    L = len(rows[0][1])
    m = max(len(n) for n, _ in rows)
    out = ["CLUSTAL W (goalign version Unset)\n\n"]
    cur = 0
    while cur < L:
        if cur > 0:
            out.append("\n")
        end = min(cur + width, L)
        for n, q in rows:
            out.append(n + " " * (m + 3 - len(n)) + q[cur:end] + " %d\n" % end)
        out.append(" " * (m + 3) + "".join("*" if len({q[p] for _, q in rows}) == 1 and rows[0][1][p] != "-" else " "
                                           for p in range(cur, end)) + "\n")
        cur += width
    return "".join(out)


def w_stockholm(rows):
    out = ["# STOCKHOLM 1.0\n", "#=GF ID   Goalign generated alignment\n"]
    for n, q in rows:
        out.append(n + "\t" + q + "\n")
    out.append("//")
    return "".join(out)


def write_py(fmt, rows, wopts="000", protein=False):
    if fmt == "fasta":
        return w_fasta(rows)
    if fmt == "phylip":
        return w_phylip(rows, wopts[0] == "1", wopts[1] == "1", wopts[2] == "1")
    if fmt == "nexus":
        return w_nexus(rows, protein)
    if fmt == "clustal":
        return w_clustal(rows)
    return w_stockholm(rows)
