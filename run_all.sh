#!/bin/sh
# runs every claimed check (tier $1, default quick) and summarises; refreshes evidence/*.json
cd "$(dirname "$0")"
tier="${1:-quick}"
for p in $(python3 -c "import json; print(' '.join(c['property_id'] for c in json.load(open('MANIFEST.json'))['checks']))"); do
  s=$(date +%s)
  out=$(./check "$p" "$tier" 2>&1); rc=$?
  e=$(( $(date +%s) - s ))
  nk=$(printf '%s\n' "$out" | grep -c '^KNOWN-FINDING')
  echo "$p rc=$rc ${e}s known=$nk $(printf '%s\n' "$out" | grep '^VIOLATION' | cut -c1-200 | head -2)"
done
