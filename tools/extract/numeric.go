// numeric.go — tie T2 of DESIGN.md: a generic, table-driven translator from straight-line
// float64 Go functions to Lean definitions that are generic in a numeric type
// (`variable {α : Type} [RealLike α]`, class in lean/Gv/Num.lean).
//
// The very same generated text is evaluated at `Float` by the oracle (correspondence with the Go
// code) and reasoned about at `ℝ` by the proof modules.
//
// Supported Go subset (anything else: die(), exit status 2 — never skipped silently):
//   - parameters / locals of type float64, int, bool; `var x T` (zero value), `:=`, `=`, `+= -= *= /=`,
//     simultaneous assignment `a, b = e1, e2`;
//   - receiver fields: a field read before it is written becomes a parameter `<recv>_<field>` (also
//     `<recv>.<field>[<const>]` ↦ `<recv>_<field>_<k>`); written fields become outputs;
//   - `if / else if / else` on comparisons (`< <= > >= == !=`, `&& || !`), either with early `return`
//     or as joins over the variables assigned in the branches;
//   - `return e`, and naked `return` with named results (results of type `error` are ignored; they
//     may only be assigned from calls listed as Opaque);
//   - `math.Log/Exp/Pow/Sqrt/Abs`, `float64(x)` of a float;
//   - `[]float64{…}` literals (↦ `List α`), `mat.NewDense(r, c, []float64{…})` with constant r, c
//     (↦ symbolic r×c matrix of let-bound scalars, output as row-major `List α`), `M.At(i, j)` with
//     constant indices, `M.Apply(func(i, j int, v float64) float64 { return e }, M)` (element-wise
//     rebinding; the closure may not read M itself);
//   - calls listed in numSpec.Opaque (`err = m.computeEigens()`): dropped, and named in the doc
//     comment of the generated definition; calls listed in numSpec.External
//     (`a, b, c := countX(...)`): their results become parameters.
//   - constant sub-expressions are folded exactly as Go folds untyped constants (integer division
//     truncates when both operands are integer constants) and emitted as ratios of naturals, which
//     `Float` evaluates to the correctly rounded value (numerator < 2^53, denominator ≤ 10^22
//     enforced) and which `ring`/`norm_num` handle over ℝ.
package main

import (
	"fmt"
	"go/ast"
	"go/token"
	"math/big"
	"os"
	"path/filepath"
	"sort"
	"strings"
)

// numSpec is one row of a translation table.
type numSpec struct {
	File       string            // path relative to the repository root
	Recv       string            // receiver type name ("" for a plain function)
	Func       string            // function / method name
	Lean       string            // name of the generated definition (default <Recv>_<Func>)
	Opaque     []string          // receiver methods / functions whose call statements are dropped
	External   []string          // calls whose (multi-)results become parameters
	FieldTypes map[string]string // receiver field -> "bool" | "int" | "float" (default float)
}

type ntype int

const (
	tUnknown ntype = iota
	tFloat
	tInt
	tBool
	tUntypedInt
	tUntypedFloat
)

type binding struct {
	kind  string   // "scalar" | "slice" | "matrix"
	typ   ntype    // for scalars
	lean  string   // Lean identifier (scalars)
	elems []string // Lean expressions of the elements (slice: len n; matrix: r*c row-major)
	r, c  int
}

type numParam struct {
	name string
	typ  ntype
}

type ntr struct {
	spec     numSpec
	fd       *ast.FuncDecl
	recv     string
	vars     map[string]*binding // locals, parameters, "recv.field"
	params   []numParam
	pseen    map[string]bool
	results  []string // named non-error results, in order
	unnamed  []bool   // unnamed results: true = float64, false = error
	errNames map[string]bool
	fieldsW  []string         // receiver fields written, in order
	consts   map[string]int64 // compile-time int constants (closure indices)
	dropped  []string
	tmp      int
}

func (t *ntr) pos(n ast.Node) string { return fset.Position(n.Pos()).String() }

func (t *ntr) fail(n ast.Node, format string, a ...interface{}) {
	die("numeric translator: %s.%s: %s at %s", t.spec.Recv, t.spec.Func, fmt.Sprintf(format, a...), t.pos(n))
}

func leanType(ty ntype) string {
	switch ty {
	case tFloat:
		return "α"
	case tInt:
		return "Int"
	case tBool:
		return "Bool"
	}
	return "?"
}

func (t *ntr) addParam(name string, ty ntype) {
	if t.pseen[name] {
		return
	}
	t.pseen[name] = true
	t.params = append(t.params, numParam{name, ty})
}

func goTypeOf(e ast.Expr) ntype {
	if id, ok := e.(*ast.Ident); ok {
		switch id.Name {
		case "float64":
			return tFloat
		case "int":
			return tInt
		case "bool":
			return tBool
		}
	}
	return tUnknown
}

func isErrorType(e ast.Expr) bool {
	id, ok := e.(*ast.Ident)
	return ok && id.Name == "error"
}

// ---- constants ------------------------------------------------------------------------------

type constVal struct {
	r     *big.Rat
	isInt bool
}

// constFold evaluates a literal-only arithmetic expression exactly, following Go's rules for
// untyped constants.
func (t *ntr) constFold(e ast.Expr) (constVal, bool) {
	switch x := e.(type) {
	case *ast.BasicLit:
		switch x.Kind {
		case token.INT:
			r, ok := new(big.Rat).SetString(x.Value)
			return constVal{r, true}, ok
		case token.FLOAT:
			r, ok := new(big.Rat).SetString(x.Value)
			return constVal{r, false}, ok
		}
	case *ast.Ident:
		if v, ok := t.consts[x.Name]; ok {
			return constVal{new(big.Rat).SetInt64(v), true}, true
		}
	case *ast.ParenExpr:
		return t.constFold(x.X)
	case *ast.UnaryExpr:
		v, ok := t.constFold(x.X)
		if !ok {
			return v, false
		}
		switch x.Op {
		case token.SUB:
			return constVal{new(big.Rat).Neg(v.r), v.isInt}, true
		case token.ADD:
			return v, true
		}
	case *ast.BinaryExpr:
		a, ok1 := t.constFold(x.X)
		b, ok2 := t.constFold(x.Y)
		if !ok1 || !ok2 {
			return constVal{}, false
		}
		isInt := a.isInt && b.isInt
		switch x.Op {
		case token.ADD:
			return constVal{new(big.Rat).Add(a.r, b.r), isInt}, true
		case token.SUB:
			return constVal{new(big.Rat).Sub(a.r, b.r), isInt}, true
		case token.MUL:
			return constVal{new(big.Rat).Mul(a.r, b.r), isInt}, true
		case token.QUO:
			if b.r.Sign() == 0 {
				t.fail(e, "constant division by zero")
			}
			q := new(big.Rat).Quo(a.r, b.r)
			if isInt { // integer constant division truncates toward zero
				z := new(big.Int).Quo(q.Num(), q.Denom())
				q = new(big.Rat).SetInt(z)
			}
			return constVal{q, isInt}, true
		}
	}
	return constVal{}, false
}

var two53 = new(big.Int).Lsh(big.NewInt(1), 53)
var ten22 = new(big.Int).Exp(big.NewInt(10), big.NewInt(22), nil)

// ratLit renders an exact rational as a ratio of naturals in the numeric type.
func (t *ntr) ratLit(n ast.Node, r *big.Rat) string {
	num := new(big.Int).Abs(r.Num())
	den := r.Denom()
	if num.Cmp(two53) >= 0 || den.Cmp(ten22) > 0 {
		t.fail(n, "constant %s is not a ratio of exactly representable naturals", r.String())
	}
	s := ""
	if den.Cmp(big.NewInt(1)) == 0 {
		s = fmt.Sprintf("(%s : α)", num.String())
	} else {
		s = fmt.Sprintf("((%s : α) / (%s : α))", num.String(), den.String())
	}
	if r.Sign() < 0 {
		s = "(-" + s + ")"
	}
	return s
}

func (t *ntr) constInt(e ast.Expr) int {
	v, ok := t.constFold(e)
	if !ok || !v.isInt || !v.r.IsInt() {
		t.fail(e, "expected a compile-time integer constant")
	}
	return int(v.r.Num().Int64())
}

// ---- expressions ----------------------------------------------------------------------------

func unify(a, b ntype) ntype {
	if a == tFloat || b == tFloat {
		return tFloat
	}
	if a == tInt || b == tInt {
		return tInt
	}
	if a == tBool || b == tBool {
		return tBool
	}
	if a == tUntypedFloat || b == tUntypedFloat {
		return tUntypedFloat
	}
	return tUntypedInt
}

func (t *ntr) fieldKey(x *ast.SelectorExpr) (string, bool) {
	if id, ok := x.X.(*ast.Ident); ok && t.recv != "" && id.Name == t.recv {
		return t.recv + "." + x.Sel.Name, true
	}
	return "", false
}

func (t *ntr) fieldType(name string) ntype {
	switch t.spec.FieldTypes[name] {
	case "bool":
		return tBool
	case "int":
		return tInt
	}
	return tFloat
}

// lookupScalar resolves an identifier or receiver field to its binding (creating a parameter for
// a field that was never written in this function).
func (t *ntr) lookup(e ast.Expr) *binding {
	switch x := e.(type) {
	case *ast.Ident:
		if b, ok := t.vars[x.Name]; ok {
			return b
		}
		t.fail(e, "unknown identifier %s", x.Name)
	case *ast.SelectorExpr:
		if key, ok := t.fieldKey(x); ok {
			if b, ok := t.vars[key]; ok {
				return b
			}
			lean := t.recv + "_" + x.Sel.Name
			ty := t.fieldType(x.Sel.Name)
			t.addParam(lean, ty)
			b := &binding{kind: "scalar", typ: ty, lean: lean}
			t.vars[key] = b
			return b
		}
	case *ast.ParenExpr:
		return t.lookup(x.X)
	}
	t.fail(e, "unsupported operand %T", e)
	return nil
}

func (t *ntr) typeOf(e ast.Expr) ntype {
	if v, ok := t.constFold(e); ok {
		if v.isInt {
			return tUntypedInt
		}
		return tUntypedFloat
	}
	switch x := e.(type) {
	case *ast.Ident:
		if x.Name == "true" || x.Name == "false" {
			return tBool
		}
		b := t.lookup(x)
		if b.kind != "scalar" {
			t.fail(e, "%s is not a scalar", x.Name)
		}
		return b.typ
	case *ast.ParenExpr:
		return t.typeOf(x.X)
	case *ast.UnaryExpr:
		if x.Op == token.NOT {
			return tBool
		}
		return t.typeOf(x.X)
	case *ast.BinaryExpr:
		switch x.Op {
		case token.ADD, token.SUB, token.MUL, token.QUO:
			return unify(t.typeOf(x.X), t.typeOf(x.Y))
		default:
			return tBool
		}
	case *ast.SelectorExpr:
		if _, ok := t.fieldKey(x); ok {
			b := t.lookup(x)
			if b.kind != "scalar" {
				t.fail(e, "field %s is not a scalar here", x.Sel.Name)
			}
			return b.typ
		}
	case *ast.IndexExpr:
		return tFloat
	case *ast.CallExpr:
		return tFloat
	}
	t.fail(e, "cannot type expression %T", e)
	return tUnknown
}

var mathFuncs = map[string]struct {
	lean string
	n    int
}{
	"Log": {"RealLike.log", 1}, "Exp": {"RealLike.exp", 1}, "Pow": {"RealLike.pow", 2},
	"Sqrt": {"RealLike.sqrt", 1}, "Abs": {"RealLike.abs", 1},
}

// expr renders e in the wanted type (tFloat, tInt or tBool).
func (t *ntr) expr(e ast.Expr, want ntype) string {
	if v, ok := t.constFold(e); ok {
		switch want {
		case tFloat:
			return t.ratLit(e, v.r)
		case tInt:
			if !v.isInt || !v.r.IsInt() {
				t.fail(e, "non-integer constant in integer context")
			}
			return fmt.Sprintf("(%s : Int)", v.r.Num().String())
		}
		t.fail(e, "constant in boolean context")
	}
	switch x := e.(type) {
	case *ast.Ident:
		if x.Name == "true" || x.Name == "false" {
			if want != tBool {
				t.fail(e, "boolean literal in numeric context")
			}
			return x.Name
		}
		b := t.lookup(x)
		if b.kind != "scalar" {
			t.fail(e, "%s is not a scalar", x.Name)
		}
		if b.typ != want {
			t.fail(e, "%s has type %s, wanted %s (implicit conversions are not supported)", x.Name, leanType(b.typ), leanType(want))
		}
		return b.lean
	case *ast.ParenExpr:
		return t.expr(x.X, want)
	case *ast.UnaryExpr:
		switch x.Op {
		case token.SUB:
			if want == tBool {
				t.fail(e, "negation in boolean context")
			}
			return "(-" + t.expr(x.X, want) + ")"
		case token.ADD:
			return t.expr(x.X, want)
		case token.NOT:
			if want != tBool {
				t.fail(e, "! in numeric context")
			}
			return "(!" + t.expr(x.X, tBool) + ")"
		}
	case *ast.BinaryExpr:
		switch x.Op {
		case token.ADD, token.SUB, token.MUL, token.QUO:
			if want == tBool {
				t.fail(e, "arithmetic in boolean context")
			}
			if want == tInt && x.Op == token.QUO {
				t.fail(e, "integer division is not supported")
			}
			return "(" + t.expr(x.X, want) + " " + x.Op.String() + " " + t.expr(x.Y, want) + ")"
		case token.LAND:
			return "(" + t.expr(x.X, tBool) + " && " + t.expr(x.Y, tBool) + ")"
		case token.LOR:
			return "(" + t.expr(x.X, tBool) + " || " + t.expr(x.Y, tBool) + ")"
		case token.LSS, token.GTR, token.LEQ, token.GEQ, token.EQL, token.NEQ:
			if want != tBool {
				t.fail(e, "comparison in numeric context")
			}
			ot := unify(t.typeOf(x.X), t.typeOf(x.Y))
			if ot == tUntypedFloat {
				ot = tFloat
			}
			if ot == tUntypedInt {
				ot = tInt
			}
			a, b := t.expr(x.X, ot), t.expr(x.Y, ot)
			if ot == tFloat {
				switch x.Op {
				case token.LSS:
					return "(RealLike.ltb " + a + " " + b + ")"
				case token.GTR:
					return "(RealLike.ltb " + b + " " + a + ")"
				case token.LEQ:
					return "(RealLike.leb " + a + " " + b + ")"
				case token.GEQ:
					return "(RealLike.leb " + b + " " + a + ")"
				case token.EQL:
					return "(RealLike.eqb " + a + " " + b + ")"
				case token.NEQ:
					return "(!(RealLike.eqb " + a + " " + b + "))"
				}
			}
			if ot == tInt {
				switch x.Op {
				case token.LSS:
					return "(decide (" + a + " < " + b + "))"
				case token.GTR:
					return "(decide (" + b + " < " + a + "))"
				case token.LEQ:
					return "(decide (" + a + " ≤ " + b + "))"
				case token.GEQ:
					return "(decide (" + b + " ≤ " + a + "))"
				case token.EQL:
					return "(" + a + " == " + b + ")"
				case token.NEQ:
					return "(" + a + " != " + b + ")"
				}
			}
			if ot == tBool && (x.Op == token.EQL || x.Op == token.NEQ) {
				return "(" + a + " " + x.Op.String() + " " + b + ")"
			}
		}
	case *ast.SelectorExpr:
		if _, ok := t.fieldKey(x); ok {
			b := t.lookup(x)
			if b.kind != "scalar" {
				t.fail(e, "field %s is not a scalar here", x.Sel.Name)
			}
			if b.typ != want {
				t.fail(e, "field %s has type %s, wanted %s", x.Sel.Name, leanType(b.typ), leanType(want))
			}
			return b.lean
		}
	case *ast.IndexExpr:
		if want != tFloat {
			t.fail(e, "indexing yields a float")
		}
		k := t.constInt(x.Index)
		// receiver field slice never written here: m.pi[0] ↦ parameter m_pi_0
		if se, ok := x.X.(*ast.SelectorExpr); ok {
			if key, ok := t.fieldKey(se); ok {
				if _, bound := t.vars[key]; !bound {
					lean := fmt.Sprintf("%s_%s_%d", t.recv, se.Sel.Name, k)
					t.addParam(lean, tFloat)
					return lean
				}
			}
		}
		b := t.lookup(x.X)
		if b.kind != "slice" {
			t.fail(e, "indexing something that is not a known slice")
		}
		if k < 0 || k >= len(b.elems) {
			t.fail(e, "constant index %d out of range", k)
		}
		return b.elems[k]
	case *ast.CallExpr:
		if want != tFloat {
			t.fail(e, "call in non-float context")
		}
		if se, ok := x.Fun.(*ast.SelectorExpr); ok {
			if id, ok := se.X.(*ast.Ident); ok && id.Name == "math" {
				mf, ok := mathFuncs[se.Sel.Name]
				if !ok || len(x.Args) != mf.n {
					t.fail(e, "unsupported math function %s", se.Sel.Name)
				}
				args := []string{}
				for _, a := range x.Args {
					args = append(args, t.expr(a, tFloat))
				}
				return "(" + mf.lean + " " + strings.Join(args, " ") + ")"
			}
			if se.Sel.Name == "At" && len(x.Args) == 2 {
				b := t.lookup(se.X)
				if b.kind != "matrix" {
					t.fail(e, ".At on something that is not a known matrix")
				}
				i, j := t.constInt(x.Args[0]), t.constInt(x.Args[1])
				if i < 0 || i >= b.r || j < 0 || j >= b.c {
					t.fail(e, ".At(%d,%d) out of range", i, j)
				}
				return b.elems[i*b.c+j]
			}
		}
		if id, ok := x.Fun.(*ast.Ident); ok && id.Name == "float64" && len(x.Args) == 1 {
			if ty := t.typeOf(x.Args[0]); ty == tFloat || ty == tUntypedFloat || ty == tUntypedInt {
				return t.expr(x.Args[0], tFloat)
			}
			t.fail(e, "float64() of a non-float is not supported")
		}
	}
	t.fail(e, "unsupported expression %T", e)
	return ""
}

// ---- statements -----------------------------------------------------------------------------

func (t *ntr) isCallTo(e ast.Expr, names []string) (string, bool) {
	ce, ok := e.(*ast.CallExpr)
	if !ok {
		return "", false
	}
	name := ""
	switch f := ce.Fun.(type) {
	case *ast.Ident:
		name = f.Name
	case *ast.SelectorExpr:
		name = f.Sel.Name
	}
	for _, n := range names {
		if n == name {
			return name, true
		}
	}
	return "", false
}

// float slice literal `[]float64{…}`
func (t *ntr) sliceLit(e ast.Expr) ([]ast.Expr, bool) {
	cl, ok := e.(*ast.CompositeLit)
	if !ok {
		return nil, false
	}
	at, ok := cl.Type.(*ast.ArrayType)
	if !ok || at.Len != nil || goTypeOf(at.Elt) != tFloat {
		return nil, false
	}
	for _, el := range cl.Elts {
		if _, kv := el.(*ast.KeyValueExpr); kv {
			t.fail(el, "keyed slice literal")
		}
	}
	return cl.Elts, true
}

// mat.NewDense(r, c, []float64{…})
func (t *ntr) denseLit(e ast.Expr) (r, c int, el []ast.Expr, ok bool) {
	ce, isCall := e.(*ast.CallExpr)
	if !isCall {
		return
	}
	se, isSel := ce.Fun.(*ast.SelectorExpr)
	if !isSel || se.Sel.Name != "NewDense" {
		return
	}
	if id, isId := se.X.(*ast.Ident); !isId || id.Name != "mat" {
		return
	}
	if len(ce.Args) != 3 {
		t.fail(e, "mat.NewDense with %d arguments", len(ce.Args))
	}
	r, c = t.constInt(ce.Args[0]), t.constInt(ce.Args[1])
	el, ok = t.sliceLit(ce.Args[2])
	if !ok {
		t.fail(e, "mat.NewDense data must be a []float64 literal")
	}
	if len(el) != r*c {
		t.fail(e, "mat.NewDense(%d,%d) with %d elements", r, c, len(el))
	}
	return
}

// target name of an assignable expression: local identifier or receiver field
func (t *ntr) target(e ast.Expr) (key, lean string, isField bool) {
	switch x := e.(type) {
	case *ast.Ident:
		if x.Name == "_" {
			t.fail(e, "blank identifier")
		}
		return x.Name, x.Name, false
	case *ast.SelectorExpr:
		if key, ok := t.fieldKey(x); ok {
			return key, t.recv + "_" + x.Sel.Name, true
		}
	}
	t.fail(e, "unsupported assignment target %T", e)
	return
}

func (t *ntr) noteWrite(key string, isField bool) {
	if !isField {
		return
	}
	name := strings.TrimPrefix(key, t.recv+".")
	for _, f := range t.fieldsW {
		if f == name {
			return
		}
	}
	t.fieldsW = append(t.fieldsW, name)
}

// assignOne emits the lets for `lhs (op)= rhs` and updates the bindings.
func (t *ntr) assignOne(w *strings.Builder, ind string, lhs ast.Expr, tok token.Token, rhs ast.Expr) {
	key, lean, isField := t.target(lhs)
	if els, ok := t.sliceLit(rhs); ok {
		if tok != token.ASSIGN && tok != token.DEFINE {
			t.fail(lhs, "compound assignment of a slice")
		}
		b := &binding{kind: "slice"}
		for k, el := range els {
			nm := fmt.Sprintf("%s_%d", lean, k)
			fmt.Fprintf(w, "%slet %s : α := %s;\n", ind, nm, t.expr(el, tFloat))
			b.elems = append(b.elems, nm)
		}
		t.vars[key] = b
		t.noteWrite(key, isField)
		return
	}
	if r, c, els, ok := t.denseLit(rhs); ok {
		if tok != token.ASSIGN && tok != token.DEFINE {
			t.fail(lhs, "compound assignment of a matrix")
		}
		b := &binding{kind: "matrix", r: r, c: c}
		for k, el := range els {
			nm := fmt.Sprintf("%s_%d_%d", lean, k/c, k%c)
			fmt.Fprintf(w, "%slet %s : α := %s;\n", ind, nm, t.expr(el, tFloat))
			b.elems = append(b.elems, nm)
		}
		t.vars[key] = b
		t.noteWrite(key, isField)
		return
	}
	// scalar
	var ty ntype
	old, had := t.vars[key]
	if had && old.kind == "scalar" {
		ty = old.typ
	} else if isField {
		ty = t.fieldType(strings.TrimPrefix(key, t.recv+"."))
	} else {
		if tok != token.DEFINE {
			t.fail(lhs, "assignment to undeclared %s", key)
		}
		ty = t.typeOf(rhs)
		switch ty {
		case tUntypedFloat:
			ty = tFloat
		case tUntypedInt:
			ty = tInt
		}
	}
	val := t.expr(rhs, ty)
	if op, ok := map[token.Token]string{token.ADD_ASSIGN: "+", token.SUB_ASSIGN: "-",
		token.MUL_ASSIGN: "*", token.QUO_ASSIGN: "/"}[tok]; ok {
		if !had {
			t.fail(lhs, "compound assignment to undeclared %s", key)
		}
		if ty == tInt && op == "/" {
			t.fail(lhs, "integer division")
		}
		val = "(" + old.lean + " " + op + " " + val + ")"
	} else if tok != token.ASSIGN && tok != token.DEFINE {
		t.fail(lhs, "unsupported assignment operator %s", tok)
	}
	fmt.Fprintf(w, "%slet %s : %s := %s;\n", ind, lean, leanType(ty), val)
	t.vars[key] = &binding{kind: "scalar", typ: ty, lean: lean}
	t.noteWrite(key, isField)
}

// assignedScalars lists (in order) the scalar targets assigned anywhere inside stmts.
func (t *ntr) assignedKeys(stmts []ast.Stmt, seen map[string]bool, out *[]ast.Expr) {
	for _, s := range stmts {
		switch x := s.(type) {
		case *ast.AssignStmt:
			for _, l := range x.Lhs {
				key, _, _ := t.target(l)
				if !seen[key] {
					seen[key] = true
					*out = append(*out, l)
				}
			}
		case *ast.IfStmt:
			t.assignedKeys(x.Body.List, seen, out)
			if x.Else != nil {
				switch el := x.Else.(type) {
				case *ast.BlockStmt:
					t.assignedKeys(el.List, seen, out)
				case *ast.IfStmt:
					t.assignedKeys([]ast.Stmt{el}, seen, out)
				}
			}
		case *ast.ExprStmt, *ast.DeclStmt:
			// Apply(...) / opaque calls / declarations inside a branch are handled (or rejected) when
			// the branch is translated
		case *ast.ReturnStmt:
		default:
			t.fail(s, "unsupported statement %T inside a branch", s)
		}
	}
}

func endsInReturn(l []ast.Stmt) bool {
	if len(l) == 0 {
		return false
	}
	switch x := l[len(l)-1].(type) {
	case *ast.ReturnStmt:
		return true
	case *ast.IfStmt:
		if x.Else == nil {
			return false
		}
		if !endsInReturn(x.Body.List) {
			return false
		}
		switch el := x.Else.(type) {
		case *ast.BlockStmt:
			return endsInReturn(el.List)
		case *ast.IfStmt:
			return endsInReturn([]ast.Stmt{el})
		}
	}
	return false
}

func containsReturn(l []ast.Stmt) bool {
	found := false
	for _, s := range l {
		ast.Inspect(s, func(n ast.Node) bool {
			if _, ok := n.(*ast.FuncLit); ok {
				return false
			}
			if _, ok := n.(*ast.ReturnStmt); ok {
				found = true
			}
			return !found
		})
	}
	return found
}

func (t *ntr) snapshot() map[string]*binding {
	m := make(map[string]*binding, len(t.vars))
	for k, v := range t.vars {
		m[k] = v
	}
	return m
}

func elseList(t *ntr, x *ast.IfStmt) []ast.Stmt {
	if x.Else == nil {
		return nil
	}
	switch el := x.Else.(type) {
	case *ast.BlockStmt:
		return el.List
	case *ast.IfStmt:
		return []ast.Stmt{el}
	}
	t.fail(x, "unsupported else")
	return nil
}

// output renders the value returned at a (naked) return.
func (t *ntr) outputFields() []string {
	out := append([]string{}, t.results...)
	for _, f := range t.fieldsW {
		out = append(out, t.recv+"."+f)
	}
	return out
}

func (t *ntr) renderValue(n ast.Node, key string) string {
	b, ok := t.vars[key]
	if !ok {
		t.fail(n, "result %s is never assigned", key)
	}
	switch b.kind {
	case "scalar":
		return b.lean
	default:
		return "[" + strings.Join(b.elems, ", ") + "]"
	}
}

func (t *ntr) outType(n ast.Node, key string) string {
	b, ok := t.vars[key]
	if !ok {
		t.fail(n, "result %s is never assigned", key)
	}
	if b.kind == "scalar" {
		return leanType(b.typ)
	}
	return "List α"
}

// block translates a statement list into a Lean term.
func (t *ntr) block(stmts []ast.Stmt, ind string) string {
	var w strings.Builder
	for k, s := range stmts {
		rest := stmts[k+1:]
		switch x := s.(type) {
		case *ast.ReturnStmt:
			if len(x.Results) == 0 {
				outs := t.outputFields()
				if len(outs) == 0 {
					t.fail(s, "naked return without any result")
				}
				if len(outs) == 1 {
					return w.String() + ind + t.renderValue(s, outs[0]) + "\n"
				}
				parts := []string{}
				for _, k := range outs {
					parts = append(parts, t.renderValue(s, k))
				}
				return w.String() + ind + "⟨" + strings.Join(parts, ", ") + "⟩\n"
			}
			if len(t.fieldsW) > 0 {
				t.fail(s, "value return in a function that also writes receiver fields")
			}
			if len(x.Results) != len(t.unnamed) {
				t.fail(s, "return with %d values in a function with %d unnamed results", len(x.Results), len(t.unnamed))
			}
			// exactly one float64 result; `error` results must be the literal nil
			val, nval := "", 0
			for k, r := range x.Results {
				if t.unnamed[k] {
					val = t.expr(r, tFloat)
					nval++
				} else if id, ok := r.(*ast.Ident); !ok || id.Name != "nil" {
					t.fail(r, "a non-nil error return is not supported")
				}
			}
			if nval != 1 {
				t.fail(s, "value return must have exactly one float64 result")
			}
			return w.String() + ind + val + "\n"
		case *ast.IfStmt:
			if endsInReturn(x.Body.List) {
				if x.Init != nil {
					t.fail(s, "if with init statement")
				}
				cond := t.expr(x.Cond, tBool)
				saved := t.snapshot()
				savedW := append([]string{}, t.fieldsW...)
				a := t.block(x.Body.List, ind+"  ")
				t.vars, t.fieldsW = saved, savedW
				b := t.block(append(append([]ast.Stmt{}, elseList(t, x)...), rest...), ind+"  ")
				return w.String() + fmt.Sprintf("%sif %s then\n%s%selse\n%s", ind, cond, a, ind, b)
			}
			w.WriteString(t.lets(s, ind))
		default:
			w.WriteString(t.lets(s, ind))
		}
	}
	t.fail(t.fd, "control reaches the end of a block without a return")
	return ""
}

// branchLets translates the statements of a joining branch (no return inside) into lets only.
func (t *ntr) branchLets(l []ast.Stmt, ind string) string {
	var w strings.Builder
	for _, s := range l {
		w.WriteString(t.lets(s, ind))
	}
	return w.String()
}

// lets translates one non-returning statement into a sequence of `let … ;` lines.
func (t *ntr) lets(s ast.Stmt, ind string) string {
	var w strings.Builder
	switch x := s.(type) {
	case *ast.DeclStmt:
		gd, ok := x.Decl.(*ast.GenDecl)
		if !ok || gd.Tok != token.VAR {
			t.fail(s, "unsupported declaration")
		}
		for _, sp := range gd.Specs {
			vs := sp.(*ast.ValueSpec)
			ty := tUnknown
			if vs.Type != nil {
				ty = goTypeOf(vs.Type)
			}
			for i, n := range vs.Names {
				if i < len(vs.Values) {
					t.assignOne(&w, ind, n, token.DEFINE, vs.Values[i])
					continue
				}
				zero := map[ntype]string{tFloat: "(0 : α)", tInt: "(0 : Int)", tBool: "false"}[ty]
				if zero == "" {
					t.fail(s, "declaration of %s with unsupported type", n.Name)
				}
				fmt.Fprintf(&w, "%slet %s : %s := %s;\n", ind, n.Name, leanType(ty), zero)
				t.vars[n.Name] = &binding{kind: "scalar", typ: ty, lean: n.Name}
			}
		}
		return w.String()

	case *ast.AssignStmt:
		// calls with a special meaning
		if len(x.Rhs) == 1 {
			if name, ok := t.isCallTo(x.Rhs[0], t.spec.Opaque); ok {
				for _, l := range x.Lhs {
					id, isId := l.(*ast.Ident)
					if !isId || !(t.errNames[id.Name] || id.Name == "_") {
						t.fail(s, "result of opaque call %s assigned to a non-error variable", name)
					}
				}
				t.dropped = append(t.dropped, name)
				return ""
			}
			if _, ok := t.isCallTo(x.Rhs[0], t.spec.External); ok {
				for _, l := range x.Lhs {
					id, isId := l.(*ast.Ident)
					if !isId {
						t.fail(s, "external call result assigned to a non-identifier")
					}
					if id.Name == "_" || t.errNames[id.Name] {
						continue
					}
					t.addParam(id.Name, tFloat)
					t.vars[id.Name] = &binding{kind: "scalar", typ: tFloat, lean: id.Name}
				}
				return ""
			}
		}
		if len(x.Lhs) != len(x.Rhs) {
			t.fail(s, "unsupported multi-value assignment")
		}
		if len(x.Lhs) == 1 {
			t.assignOne(&w, ind, x.Lhs[0], x.Tok, x.Rhs[0])
			return w.String()
		}
		// simultaneous assignment: all right-hand sides are evaluated first
		if x.Tok != token.ASSIGN && x.Tok != token.DEFINE {
			t.fail(s, "compound simultaneous assignment")
		}
		tmps := make([]string, len(x.Lhs))
		tys := make([]ntype, len(x.Lhs))
		for i := range x.Lhs {
			key, _, _ := t.target(x.Lhs[i])
			ty := tUnknown
			if b, ok := t.vars[key]; ok && b.kind == "scalar" {
				ty = b.typ
			} else {
				ty = t.typeOf(x.Rhs[i])
				if ty == tUntypedFloat {
					ty = tFloat
				} else if ty == tUntypedInt {
					ty = tInt
				}
			}
			t.tmp++
			tmps[i] = fmt.Sprintf("tmp%d", t.tmp)
			tys[i] = ty
			fmt.Fprintf(&w, "%slet %s : %s := %s;\n", ind, tmps[i], leanType(ty), t.expr(x.Rhs[i], ty))
		}
		for i := range x.Lhs {
			key, lean, isField := t.target(x.Lhs[i])
			fmt.Fprintf(&w, "%slet %s : %s := %s;\n", ind, lean, leanType(tys[i]), tmps[i])
			t.vars[key] = &binding{kind: "scalar", typ: tys[i], lean: lean}
			t.noteWrite(key, isField)
		}
		return w.String()

	case *ast.ExprStmt:
		if name, ok := t.isCallTo(x.X, t.spec.Opaque); ok {
			t.dropped = append(t.dropped, name)
			return ""
		}
		// M.Apply(func(i, j int, v float64) float64 { return e }, M)
		if ce, ok := x.X.(*ast.CallExpr); ok {
			if se, ok := ce.Fun.(*ast.SelectorExpr); ok && se.Sel.Name == "Apply" && len(ce.Args) == 2 {
				dst := t.lookup(se.X)
				src := t.lookup(ce.Args[1])
				fl, isFn := ce.Args[0].(*ast.FuncLit)
				if dst.kind != "matrix" || src != dst || !isFn {
					t.fail(s, "only M.Apply(func literal, M) on a known matrix is supported")
				}
				var names []string
				for _, p := range fl.Type.Params.List {
					for _, n := range p.Names {
						names = append(names, n.Name)
					}
				}
				if len(names) != 3 || len(fl.Body.List) != 1 {
					t.fail(s, "Apply closure must be func(i, j int, v float64) float64 { return e }")
				}
				ret, isRet := fl.Body.List[0].(*ast.ReturnStmt)
				if !isRet || len(ret.Results) != 1 {
					t.fail(s, "Apply closure must consist of one return statement")
				}
				// the closure must not read the matrix it rewrites (other than through v)
				ast.Inspect(ret.Results[0], func(n ast.Node) bool {
					if c2, ok := n.(*ast.CallExpr); ok {
						if s2, ok := c2.Fun.(*ast.SelectorExpr); ok && s2.Sel.Name == "At" {
							if t.lookup(s2.X) == dst {
								t.fail(n, "Apply closure reads the matrix it rewrites")
							}
						}
					}
					return true
				})
				saved := t.snapshot()
				for k := range dst.elems {
					i, j := k/dst.c, k%dst.c
					t.consts[names[0]], t.consts[names[1]] = int64(i), int64(j)
					t.vars[names[2]] = &binding{kind: "scalar", typ: tFloat, lean: dst.elems[k]}
					val := t.expr(ret.Results[0], tFloat)
					fmt.Fprintf(&w, "%slet %s : α := %s;\n", ind, dst.elems[k], val)
				}
				delete(t.consts, names[0])
				delete(t.consts, names[1])
				// restore locals shadowed by the closure parameters
				for _, n := range names {
					if b, ok := saved[n]; ok {
						t.vars[n] = b
					} else {
						delete(t.vars, n)
					}
				}
				return w.String()
			}
		}
		t.fail(s, "unsupported expression statement")

	case *ast.IfStmt:
		if x.Init != nil {
			t.fail(s, "if with init statement")
		}
		thenS, elseS := x.Body.List, elseList(t, x)
		if containsReturn(thenS) || containsReturn(elseS) {
			t.fail(s, "return inside a branch that does not end every path with a return")
		}
		cond := t.expr(x.Cond, tBool)
		// join over the variables assigned in either branch
		var all []ast.Expr
		t.assignedKeys(append(append([]ast.Stmt{}, thenS...), elseS...), map[string]bool{}, &all)
		if len(all) == 0 {
			t.fail(s, "if statement without effect")
		}
		type tgt struct {
			key, lean string
			isField   bool
			ty        ntype
		}
		tg := []tgt{}
		for _, l := range all {
			key, lean, isField := t.target(l)
			b, ok := t.vars[key]
			if !ok || b.kind != "scalar" {
				t.fail(l, "%s is assigned in a branch but is not a scalar declared before it", key)
			}
			tg = append(tg, tgt{key, lean, isField, b.typ})
		}
		branch := func(l []ast.Stmt) string {
			saved := t.snapshot()
			savedW := append([]string{}, t.fieldsW...)
			var bw strings.Builder
			bw.WriteString(t.branchLets(l, ind+"    "))
			vals := []string{}
			for _, g := range tg {
				vals = append(vals, t.vars[g.key].lean)
			}
			if len(vals) == 1 {
				bw.WriteString(ind + "    " + vals[0] + "\n")
			} else {
				bw.WriteString(ind + "    (" + strings.Join(vals, ", ") + ")\n")
			}
			t.vars, t.fieldsW = saved, savedW
			return bw.String()
		}
		a := branch(thenS)
		b := branch(elseS)
		if len(tg) == 1 {
			fmt.Fprintf(&w, "%slet %s : %s :=\n%s  if %s then\n%s%s  else\n%s%s  ;\n", ind, tg[0].lean, leanType(tg[0].ty),
				ind, cond, a, ind, b, ind)
		} else {
			t.tmp++
			jn := fmt.Sprintf("join%d", t.tmp)
			tys := []string{}
			for _, g := range tg {
				tys = append(tys, leanType(g.ty))
			}
			fmt.Fprintf(&w, "%slet %s : %s :=\n%s  if %s then\n%s%s  else\n%s%s  ;\n", ind, jn, strings.Join(tys, " × "),
				ind, cond, a, ind, b, ind)
			for i, g := range tg {
				proj := jn + strings.Repeat(".2", i)
				if i < len(tg)-1 {
					proj += ".1"
				}
				fmt.Fprintf(&w, "%slet %s : %s := %s;\n", ind, g.lean, leanType(g.ty), proj)
			}
		}
		for _, g := range tg {
			t.vars[g.key] = &binding{kind: "scalar", typ: g.ty, lean: g.lean}
			t.noteWrite(g.key, g.isField)
		}
		return w.String()
	}
	t.fail(s, "unsupported statement %T", s)
	return ""
}

// ---- driver ---------------------------------------------------------------------------------

func recvName(fd *ast.FuncDecl) string {
	if fd.Recv != nil && len(fd.Recv.List) == 1 && len(fd.Recv.List[0].Names) == 1 {
		return fd.Recv.List[0].Names[0].Name
	}
	return ""
}

// translateNumeric renders one definition.
func translateNumeric(repo string, sp numSpec) string {
	f := parseFile(filepath.Join(repo, sp.File))
	fd := findFunc(f, sp.Recv, sp.Func)
	t := &ntr{spec: sp, fd: fd, recv: recvName(fd), vars: map[string]*binding{}, pseen: map[string]bool{},
		errNames: map[string]bool{}, consts: map[string]int64{}}
	if fd.Body == nil {
		t.fail(fd, "no body")
	}
	for _, p := range fd.Type.Params.List {
		ty := goTypeOf(p.Type)
		if ty == tUnknown {
			// a parameter of another type (slices handed to External counters, …) is not bound: any
			// use of it in a translated expression fails loudly as an unknown identifier
			continue
		}
		for _, n := range p.Names {
			t.addParam(n.Name, ty)
			t.vars[n.Name] = &binding{kind: "scalar", typ: ty, lean: n.Name}
		}
	}
	named := false
	if fd.Type.Results != nil {
		for _, r := range fd.Type.Results.List {
			for _, n := range r.Names {
				named = true
				if isErrorType(r.Type) {
					t.errNames[n.Name] = true
				} else {
					t.results = append(t.results, n.Name)
				}
			}
			if len(r.Names) == 0 {
				switch {
				case goTypeOf(r.Type) == tFloat:
					t.unnamed = append(t.unnamed, true)
				case isErrorType(r.Type):
					t.unnamed = append(t.unnamed, false)
				default:
					t.fail(r, "unnamed result of unsupported type")
				}
			}
		}
	}
	_ = named
	stmts := fd.Body.List
	// a function without results falls off the end: treat as a naked return
	if !endsInReturn(stmts) {
		stmts = append(append([]ast.Stmt{}, stmts...), &ast.ReturnStmt{})
	}
	body := t.block(stmts, "  ")

	name := sp.Lean
	if name == "" {
		name = sp.Recv + "_" + sp.Func
		if sp.Recv == "" {
			name = sp.Func
		}
	}
	var w strings.Builder
	outs := t.outputFields()
	retType := "α"
	hasValueReturn := len(t.unnamed) > 0
	if !hasValueReturn {
		if len(outs) == 1 {
			retType = t.outType(fd, outs[0])
		} else {
			sname := name + "_Out"
			fmt.Fprintf(&w, "/-- results of `%s` (named results, then receiver fields written) -/\nstructure %s (α : Type) where\n", name, sname)
			for _, k := range outs {
				fn := strings.ReplaceAll(k, ".", "_")
				fmt.Fprintf(&w, "  %s : %s\n", fn, t.outType(fd, k))
			}
			w.WriteString("\n")
			retType = sname + " α"
		}
	}
	recvTy := sp.Recv
	if recvTy != "" {
		recvTy = "(" + recvTy + ")."
	}
	fmt.Fprintf(&w, "/-- generated from `%s` %s%s", sp.File, recvTy, sp.Func)
	if len(t.dropped) > 0 {
		d := append([]string{}, t.dropped...)
		sort.Strings(d)
		fmt.Fprintf(&w, "; external calls not translated: %s", strings.Join(d, ", "))
	}
	w.WriteString(" -/\n")
	fmt.Fprintf(&w, "def %s", name)
	for _, p := range t.params {
		fmt.Fprintf(&w, " (%s : %s)", p.name, leanType(p.typ))
	}
	fmt.Fprintf(&w, " : %s :=\n%s\n", retType, body)
	return w.String()
}

// emitNumeric writes one generated module from a translation table.
func emitNumeric(repo, outPath, namespace, doc string, table []numSpec, extra string) {
	var w strings.Builder
	w.WriteString("-- GENERATED by tools/extract (numeric translator, tie T2) from the repository working tree. Do not edit.\n")
	w.WriteString("import Gv.Num\n")
	w.WriteString("/-! " + doc + " -/\n")
	w.WriteString("set_option linter.unusedVariables false\n")
	w.WriteString("namespace " + namespace + "\nopen Gv\n\nvariable {α : Type} [RealLike α]\n\n")
	w.WriteString(extra)
	for _, sp := range table {
		w.WriteString(translateNumeric(repo, sp))
	}
	w.WriteString("end " + namespace + "\n")
	writeIfChanged(outPath, w.String())
}

// Debug aid (no effect on normal runs): `extract -numeric-try <repo> <file> <recv> <func> [opaque,… [external,… [boolfield,…]]]`
// prints the translation of one function, or fails loudly.
func init() {
	if len(os.Args) >= 6 && os.Args[1] == "-numeric-try" {
		sp := numSpec{File: os.Args[3], Recv: os.Args[4], Func: os.Args[5], FieldTypes: map[string]string{}}
		if len(os.Args) > 6 && os.Args[6] != "" {
			sp.Opaque = strings.Split(os.Args[6], ",")
		}
		if len(os.Args) > 7 && os.Args[7] != "" {
			sp.External = strings.Split(os.Args[7], ",")
		}
		if len(os.Args) > 8 && os.Args[8] != "" {
			for _, f := range strings.Split(os.Args[8], ",") {
				sp.FieldTypes[f] = "bool"
			}
		}
		fmt.Print(translateNumeric(os.Args[2], sp))
		os.Exit(0)
	}
}
