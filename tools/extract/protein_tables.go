// protein_tables.go — T1 for C18: the seven empirical amino-acid models of
// models/protein/matrices.go.  Each `XMats()` function is *executed symbolically* (exact
// rationals): `m[a*20+b] = lit`, `pi[k] = lit`, the symmetric fill loop, `mat.NewDense(naa, naa, m)`;
// the 400 exchangeabilities and 20 frequencies it returns are emitted as (numerator, denominator)
// pairs.  Also emitted: the dispatch of `NewProtModel` (model constant ↦ table).  Any other
// statement shape makes the extractor fail.
package main

import (
	"bytes"
	"fmt"
	"go/ast"
	"go/printer"
	"go/token"
	"math/big"
	"path/filepath"
	"strings"
)

func nodeString(n ast.Node) string {
	var b bytes.Buffer
	printer.Fprint(&b, fset, n)
	return strings.Join(strings.Fields(b.String()), " ")
}

const symFillLoop = "for i = 0; i < naa; i++ { for j = 0; j < i; j++ { m[j*naa+i] = m[i*naa+j] } }"

type protTable struct {
	m  []*big.Rat
	pi []*big.Rat
}

func execMats(fd *ast.FuncDecl) protTable {
	fail := func(n ast.Node, msg string) {
		die("protein tables: %s: %s at %v", fd.Name.Name, msg, fset.Position(n.Pos()))
	}
	en := env{}
	var m, pi []*big.Rat
	returned := false
	zeros := func(n int64) []*big.Rat {
		out := make([]*big.Rat, n)
		for i := range out {
			out[i] = new(big.Rat)
		}
		return out
	}
	makeLen := func(e ast.Expr) (int64, bool) { // make([]float64, <const>)
		ce, ok := e.(*ast.CallExpr)
		if !ok || len(ce.Args) != 2 {
			return 0, false
		}
		if id, ok := ce.Fun.(*ast.Ident); !ok || id.Name != "make" {
			return 0, false
		}
		if nodeString(ce.Args[0]) != "[]float64" {
			return 0, false
		}
		return evalInt(ce.Args[1], en)
	}
	for _, s := range fd.Body.List {
		if returned {
			fail(s, "statement after return")
		}
		switch x := s.(type) {
		case *ast.DeclStmt:
			if !strings.HasPrefix(nodeString(x), "var ") || !strings.HasSuffix(nodeString(x), " int") {
				fail(s, "unsupported declaration")
			}
		case *ast.ForStmt:
			if nodeString(x) != symFillLoop {
				fail(s, "loop is not the symmetric fill `"+symFillLoop+"`")
			}
			naa, ok := en["naa"]
			if !ok || m == nil || int64(len(m)) != naa*naa {
				fail(s, "fill loop before m/naa are defined")
			}
			for i := int64(0); i < naa; i++ {
				for j := int64(0); j < i; j++ {
					m[j*naa+i] = m[i*naa+j]
				}
			}
		case *ast.ReturnStmt:
			if len(x.Results) != 0 {
				fail(s, "expected a naked return")
			}
			returned = true
		case *ast.AssignStmt:
			if len(x.Lhs) != 1 || len(x.Rhs) != 1 {
				fail(s, "unsupported assignment")
			}
			switch l := x.Lhs[0].(type) {
			case *ast.Ident:
				switch l.Name {
				case "naa":
					v, ok := evalInt(x.Rhs[0], en)
					if !ok {
						fail(s, "naa is not a constant")
					}
					en["naa"] = v
				case "m":
					n, ok := makeLen(x.Rhs[0])
					if !ok {
						fail(s, "m is not make([]float64, const)")
					}
					m = zeros(n)
				case "pi":
					n, ok := makeLen(x.Rhs[0])
					if !ok {
						fail(s, "pi is not make([]float64, const)")
					}
					pi = zeros(n)
				case "dmat":
					if nodeString(x.Rhs[0]) != "mat.NewDense(naa, naa, m)" {
						fail(s, "dmat is not mat.NewDense(naa, naa, m)")
					}
				default:
					fail(s, "assignment to "+l.Name)
				}
			case *ast.IndexExpr:
				id, ok := l.X.(*ast.Ident)
				if !ok || x.Tok != token.ASSIGN {
					fail(s, "unsupported indexed assignment")
				}
				k, ok := evalInt(l.Index, en)
				if !ok {
					fail(s, "index is not constant")
				}
				t := &ntr{consts: map[string]int64{}, spec: numSpec{Recv: "protein", Func: fd.Name.Name}}
				cv, ok := t.constFold(x.Rhs[0])
				if !ok {
					fail(s, "right-hand side is not a numeric literal")
				}
				var dst []*big.Rat
				switch id.Name {
				case "m":
					dst = m
				case "pi":
					dst = pi
				default:
					fail(s, "indexed assignment to "+id.Name)
				}
				if k < 0 || k >= int64(len(dst)) {
					fail(s, "index out of range")
				}
				dst[k] = cv.r
			default:
				fail(s, "unsupported assignment target")
			}
		default:
			fail(s, fmt.Sprintf("unsupported statement %T", s))
		}
	}
	if !returned || m == nil || pi == nil || en["naa"] != 20 || len(m) != 400 || len(pi) != 20 {
		fail(fd, "function does not have the expected shape (naa = 20, m, pi, return)")
	}
	return protTable{m, pi}
}

func ratPairs(fd *ast.FuncDecl, rs []*big.Rat, perLine int) string {
	var w strings.Builder
	w.WriteString("[\n  ")
	for k, r := range rs {
		if r.Sign() < 0 || r.Num().Cmp(two53) >= 0 || r.Denom().Cmp(ten22) > 0 {
			die("protein tables: %s: entry %d (%s) is negative or not exactly representable", fd.Name.Name, k, r.String())
		}
		fmt.Fprintf(&w, "(%s, %s)", r.Num().String(), r.Denom().String())
		if k != len(rs)-1 {
			w.WriteString(",")
			if (k+1)%perLine == 0 {
				w.WriteString("\n  ")
			} else {
				w.WriteString(" ")
			}
		}
	}
	w.WriteString("]")
	return w.String()
}

// iotaConsts returns the names of the leading `iota` run of the first const block containing `first`.
func iotaConsts(f *ast.File, first string) map[string]int64 {
	for _, d := range f.Decls {
		gd, ok := d.(*ast.GenDecl)
		if !ok || gd.Tok != token.CONST || len(gd.Specs) == 0 {
			continue
		}
		vs0 := gd.Specs[0].(*ast.ValueSpec)
		if len(vs0.Names) != 1 || vs0.Names[0].Name != first || len(vs0.Values) != 1 || nodeString(vs0.Values[0]) != "iota" {
			continue
		}
		out := map[string]int64{}
		for k, sp := range gd.Specs {
			vs := sp.(*ast.ValueSpec)
			if k > 0 && len(vs.Values) > 0 {
				break
			}
			if len(vs.Names) != 1 {
				die("protein tables: unexpected const spec")
			}
			out[vs.Names[0].Name] = int64(k)
		}
		return out
	}
	die("protein tables: const block starting with %s = iota not found", first)
	return nil
}

func emitProteinTables(repo, out string) {
	mf := parseFile(filepath.Join(repo, "models/protein/matrices.go"))
	pf := parseFile(filepath.Join(repo, "models/protein/model.go"))
	consts := iotaConsts(pf, "MODEL_DAYHOFF")

	// dispatch of NewProtModel: case MODEL_X: m, pi = XMats()
	fd := findFunc(pf, "", "NewProtModel")
	sw := findSwitch(fd.Body)
	if sw == nil {
		die("protein tables: no switch in NewProtModel")
	}
	type disp struct {
		idx int64
		fn  string
	}
	var ds []disp
	for _, st := range sw.Body.List {
		cc := st.(*ast.CaseClause)
		if cc.List == nil {
			continue
		}
		if len(cc.List) != 1 || len(cc.Body) != 1 {
			die("protein tables: unexpected case clause in NewProtModel")
		}
		id, ok := cc.List[0].(*ast.Ident)
		idx, known := consts[nodeStringIdent(id, ok)]
		if !ok || !known {
			die("protein tables: case label is not a model constant")
		}
		as, ok := cc.Body[0].(*ast.AssignStmt)
		if !ok || nodeString(as.Lhs[0])+","+nodeString(as.Lhs[len(as.Lhs)-1]) != "m,pi" || len(as.Rhs) != 1 {
			die("protein tables: case body is not `m, pi = XMats()`")
		}
		ce, ok := as.Rhs[0].(*ast.CallExpr)
		if !ok || len(ce.Args) != 0 {
			die("protein tables: case body is not a call")
		}
		ds = append(ds, disp{idx, nodeString(ce.Fun)})
	}

	var w strings.Builder
	w.WriteString("-- GENERATED by tools/extract (protein_tables.go, tie T1) from the repository working tree. Do not edit.\n")
	w.WriteString("/-! What `models/protein/matrices.go` returns: 20×20 exchangeabilities (row-major) and 20 frequencies\nper model (20 rows of 20), as exact (numerator, denominator) pairs; and the dispatch of `NewProtModel`. -/\n")
	w.WriteString("namespace Gv.Gen.Protein\n\n")
	done := map[string]bool{}
	for _, d := range ds {
		if done[d.fn] {
			continue
		}
		done[d.fn] = true
		f := findFunc(mf, "", d.fn)
		tb := execMats(f)
		fmt.Fprintf(&w, "def %s_m : List (List (Nat × Nat)) := [\n", d.fn)
		for i := 0; i < 20; i++ {
			sep := ","
			if i == 19 {
				sep = ""
			}
			fmt.Fprintf(&w, "%s%s\n", ratPairs(f, tb.m[i*20:(i+1)*20], 10), sep)
		}
		w.WriteString("]\n\n")
		fmt.Fprintf(&w, "def %s_pi : List (Nat × Nat) := %s\n\n", d.fn, ratPairs(f, tb.pi, 10))
	}
	w.WriteString("/-- `NewProtModel(model, …)`: exchangeabilities and frequencies selected by the model constant -/\n")
	w.WriteString("def table : Nat → Option (List (List (Nat × Nat)) × List (Nat × Nat))\n")
	for _, d := range ds {
		fmt.Fprintf(&w, "  | %d => some (%s_m, %s_pi)\n", d.idx, d.fn, d.fn)
	}
	w.WriteString("  | _ => none\n\n")
	fmt.Fprintf(&w, "def nModels : Nat := %d\n\n", len(ds))
	w.WriteString("end Gv.Gen.Protein\n")
	writeIfChanged(filepath.Join(out, "ProteinTables.lean"), w.String())
}

func nodeStringIdent(id *ast.Ident, ok bool) string {
	if !ok {
		return ""
	}
	return id.Name
}
