package main

// T3 mutation facts for property C19 ("queries never modify their input; copies share nothing").
//
// For every function / method of the listed files we record, syntactically:
//   * writes: statements that write through an identifier that is (derived from) the receiver, a
//     parameter, or a parameter of a function literal defined in the body (callbacks of Iterate*):
//     assignments / ++ / -- whose left-hand side is an index, field or pointer expression rooted at such
//     an identifier, `copy(dst, …)` with such a dst, `append(dst, …)` with such a dst (it writes into the
//     shared backing array when capacity allows), and calls of the in-place helpers Reverse / Complement;
//   * selfCalls: names of functions / methods called on (or with an argument rooted at) such an identifier;
//   * freshArgs: for calls `x.AddSequenceChar(name, V, …)` / `AddSequence`, whether V is a variable
//     assigned from `make(…)`, a conversion `[]uint8(…)`, `append(newslice, …)`, or `….String()` in the
//     same function (fresh) or an expression rooted at the input (shared).
// Identifiers assigned from `New…(…)`, `make(…)`, composite literals, `….Clone()` or declared as named
// results are *fresh* (not input-derived).  Name resolution is by bare name; this over-approximates the
// call graph.  Output: lean/Gv/Gen/MutFacts.lean.

import (
	"fmt"
	"go/ast"
	"go/token"
	"path/filepath"
	"sort"
	"strings"
)

type fnFact struct {
	file, recv, name string
	writes           []string
	selfCalls        []string
	addArgs          []string // "fresh" / "shared:<expr>" per AddSequence* call on a fresh receiver
}

func rootIdent(e ast.Expr) *ast.Ident {
	for {
		switch x := e.(type) {
		case *ast.Ident:
			return x
		case *ast.SelectorExpr:
			e = x.X
		case *ast.IndexExpr:
			e = x.X
		case *ast.SliceExpr:
			e = x.X
		case *ast.StarExpr:
			e = x.X
		case *ast.ParenExpr:
			e = x.X
		case *ast.CallExpr:
			// method call result: rooted at the receiver expression, e.g. seq.SequenceChar()[i]
			if s, ok := x.Fun.(*ast.SelectorExpr); ok {
				e = s.X
				continue
			}
			return nil
		case *ast.TypeAssertExpr:
			e = x.X
		default:
			return nil
		}
	}
}

func isFreshExpr(e ast.Expr, fresh map[string]bool) bool {
	switch x := e.(type) {
	case *ast.CompositeLit:
		return true
	case *ast.UnaryExpr:
		if x.Op == token.AND {
			return isFreshExpr(x.X, fresh)
		}
	case *ast.BasicLit:
		return true
	case *ast.CallExpr:
		switch f := x.Fun.(type) {
		case *ast.Ident:
			if f.Name == "make" || f.Name == "new" || strings.HasPrefix(f.Name, "New") || f.Name == "string" {
				return true
			}
			if f.Name == "append" && len(x.Args) > 0 {
				return isFreshExpr(x.Args[0], fresh)
			}
			if f.Name == "seqBagToAlignment" {
				return false
			}
		case *ast.ArrayType:
			return true // conversion []uint8(s) copies
		case *ast.SelectorExpr:
			if f.Sel.Name == "Clone" || f.Sel.Name == "CloneSeqBag" || f.Sel.Name == "String" || strings.HasPrefix(f.Sel.Name, "New") {
				return true
			}
			if id, ok := f.X.(*ast.Ident); ok && (id.Name == "strings" || id.Name == "fmt" || id.Name == "bytes" || id.Name == "math" || id.Name == "rand" || id.Name == "sort" || id.Name == "mat") {
				return true
			}
		}
	case *ast.Ident:
		return fresh[x.Name]
	}
	return false
}

func analyseFunc(file string, fd *ast.FuncDecl) fnFact {
	ff := fnFact{file: file, name: fd.Name.Name}
	input := map[string]bool{}
	fresh := map[string]bool{}
	kind := map[string]string{} // identifier -> "recv:<type>" | "param:<type>" | "cb:<type>" (inherited by derived locals)
	if fd.Recv != nil {
		for _, f := range fd.Recv.List {
			switch t := f.Type.(type) {
			case *ast.StarExpr:
				if id, ok := t.X.(*ast.Ident); ok {
					ff.recv = id.Name
				}
			case *ast.Ident:
				ff.recv = t.Name
			}
			for _, n := range f.Names {
				input[n.Name] = true
				kind[n.Name] = "recv:" + ff.recv
			}
		}
	}
	for _, f := range fd.Type.Params.List {
		for _, n := range f.Names {
			input[n.Name] = true
			kind[n.Name] = "param:" + typeString(f.Type)
		}
	}
	if fd.Type.Results != nil {
		for _, f := range fd.Type.Results.List {
			for _, n := range f.Names {
				fresh[n.Name] = true
			}
		}
	}
	if fd.Body == nil {
		return ff
	}
	derived := func(e ast.Expr) bool {
		r := rootIdent(e)
		return r != nil && input[r.Name] && !fresh[r.Name]
	}
	bind := func(lhs ast.Expr, rhs ast.Expr) {
		id, ok := lhs.(*ast.Ident)
		if !ok || id.Name == "_" {
			return
		}
		if rhs != nil && isFreshExpr(rhs, fresh) {
			fresh[id.Name] = true
			delete(input, id.Name)
			return
		}
		if rhs != nil && derived(rhs) {
			// scalars copied out of the input (ints, bytes, strings) cannot be written through; slices,
			// maps and pointers can.  Without types we keep every derived identifier.
			input[id.Name] = true
			delete(fresh, id.Name)
			if r := rootIdent(rhs); r != nil {
				kind[id.Name] = kind[r.Name]
			}
		}
	}
	pos := func(n ast.Node) string { return fmt.Sprintf("%d", fset.Position(n.Pos()).Line) }
	kindOf := func(e ast.Expr) string {
		if r := rootIdent(e); r != nil {
			return kind[r.Name]
		}
		return "?"
	}
	// two passes so that bindings that appear later in the text (loops) are seen
	for pass := 0; pass < 2; pass++ {
		ff.writes, ff.selfCalls, ff.addArgs = nil, nil, nil
		ast.Inspect(fd.Body, func(n ast.Node) bool {
			switch x := n.(type) {
			case *ast.FuncLit:
				for _, f := range x.Type.Params.List {
					for _, nm := range f.Names {
						input[nm.Name] = true
						kind[nm.Name] = "cb:" + typeString(f.Type)
					}
				}
			case *ast.AssignStmt:
				for i, l := range x.Lhs {
					var r ast.Expr
					if len(x.Rhs) == len(x.Lhs) {
						r = x.Rhs[i]
					} else if len(x.Rhs) == 1 {
						r = x.Rhs[0]
					}
					switch l.(type) {
					case *ast.Ident:
						bind(l, r)
					default:
						if derived(l) {
							ff.writes = append(ff.writes, kindOf(l)+"|assign@"+pos(x))
						}
					}
				}
			case *ast.RangeStmt:
				if x.Value != nil && derived(x.X) {
					if id, ok := x.Value.(*ast.Ident); ok && id.Name != "_" {
						input[id.Name] = true
						kind[id.Name] = kindOf(x.X)
					}
				}
			case *ast.IncDecStmt:
				if _, ok := x.X.(*ast.Ident); !ok && derived(x.X) {
					ff.writes = append(ff.writes, kindOf(x.X)+"|incdec@"+pos(x))
				}
			case *ast.CallExpr:
				switch f := x.Fun.(type) {
				case *ast.Ident:
					if f.Name == "copy" && len(x.Args) > 0 && derived(x.Args[0]) {
						ff.writes = append(ff.writes, kindOf(x.Args[0])+"|copy@"+pos(x))
					} else if (f.Name == "Reverse" || f.Name == "Complement") && len(x.Args) > 0 && derived(x.Args[0]) {
						ff.writes = append(ff.writes, kindOf(x.Args[0])+"|"+f.Name+"@"+pos(x))
					} else if f.Name != "make" && f.Name != "len" && f.Name != "append" && f.Name != "string" && f.Name != "copy" &&
						f.Name != "uint8" && f.Name != "int" && f.Name != "float64" && f.Name != "rune" && f.Name != "cap" && f.Name != "delete" && f.Name != "panic" && f.Name != "close" {
						for _, a := range x.Args {
							if derived(a) {
								ff.selfCalls = append(ff.selfCalls, f.Name)
								break
							}
						}
					}
					// append(x, …) with x (a slice of) the input writes into the input's backing array whenever
					// cap(x) > len(x) — always the case for the `x[:0]` / `x[a:a]` filtering idiom
					if f.Name == "append" && len(x.Args) > 1 && derived(x.Args[0]) {
						ff.writes = append(ff.writes, kindOf(x.Args[0])+"|append@"+pos(x))
					}
					if f.Name == "delete" && len(x.Args) > 0 && derived(x.Args[0]) {
						ff.writes = append(ff.writes, kindOf(x.Args[0])+"|delete@"+pos(x))
					}
				case *ast.SelectorExpr:
					if derived(f.X) {
						ff.selfCalls = append(ff.selfCalls, f.Sel.Name)
					} else if r := rootIdent(f.X); r != nil && fresh[r.Name] &&
						(f.Sel.Name == "AddSequenceChar" || f.Sel.Name == "AddSequence") && len(x.Args) >= 2 {
						if isFreshExpr(x.Args[1], fresh) {
							ff.addArgs = append(ff.addArgs, "fresh")
						} else {
							ff.addArgs = append(ff.addArgs, "shared@"+pos(x))
						}
					}
				}
			}
			return true
		})
	}
	return ff
}

func typeString(e ast.Expr) string {
	switch t := e.(type) {
	case *ast.Ident:
		return t.Name
	case *ast.StarExpr:
		return "*" + typeString(t.X)
	case *ast.SelectorExpr:
		return typeString(t.X) + "." + t.Sel.Name
	case *ast.ArrayType:
		return "[]" + typeString(t.Elt)
	case *ast.MapType:
		return "map[" + typeString(t.Key) + "]" + typeString(t.Value)
	case *ast.Ellipsis:
		return "..." + typeString(t.Elt)
	case *ast.FuncType:
		return "func"
	case *ast.InterfaceType:
		return "interface"
	case *ast.ChanType:
		return "chan " + typeString(t.Value)
	}
	return "?"
}

func qstrs(l []string) string {
	p := make([]string, len(l))
	for i, s := range l {
		p[i] = fmt.Sprintf("%q", s)
	}
	return "[" + strings.Join(p, ", ") + "]"
}

func emitMutFacts(repo, out string) {
	files := []string{"align/align.go", "align/seqbag.go", "align/sequence.go", "align/aligner.go", "align/phaser.go",
		"align/profile.go", "align/partition.go",
		"distance/dna/distance.go", "distance/dna/jc.go", "distance/dna/k2p.go", "distance/dna/f81.go", "distance/dna/f84.go",
		"distance/dna/tn93.go", "distance/dna/pdist.go", "distance/dna/rawdist.go",
		"distance/protein/lk.go", "distance/protein/model.go", "distance/protein/utils.go",
		"io/fasta/writer.go", "io/phylip/writer.go", "io/nexus/writer.go", "io/clustal/writer.go", "io/stockholm/writer.go", "io/paml/writer.go"}
	var facts []fnFact
	for _, p := range files {
		f := parseFile(filepath.Join(repo, p))
		for _, d := range f.Decls {
			if fd, ok := d.(*ast.FuncDecl); ok {
				facts = append(facts, analyseFunc(p, fd))
			}
		}
	}
	// name table: ids of the function names defined in these files (calls of anything else are dropped)
	ids := map[string]int{}
	var names []string
	for _, ff := range facts {
		if _, ok := ids[ff.name]; !ok {
			ids[ff.name] = len(names)
			names = append(names, ff.name)
		}
	}
	var w strings.Builder
	w.WriteString("-- GENERATED by tools/extract (mutfacts.go) from the repository working tree. Do not edit.\n")
	w.WriteString("namespace Gv.Gen.MutFacts\n\n")
	w.WriteString("/-- a write through an input-derived identifier: root kind (recv / param / cb), its type, the statement -/\n")
	w.WriteString("structure W where\n  root : String\n  typ : String\n  what : String\nderiving Repr\n\n")
	w.WriteString("structure Fn where\n  file : String\n  recv : String\n  name : String\n  id : Nat\n  writes : List W\n  calls : List Nat\n  addArgs : List String\nderiving Repr\n\n")
	fmt.Fprintf(&w, "/-- function names, indexed by id -/\ndef names : List String := %s\n\n", qstrs(names))
	w.WriteString("def fns : List Fn := [\n")
	var lines []string
	for _, ff := range facts {
		sort.Strings(ff.selfCalls)
		calls := []string{}
		last := ""
		for _, c := range ff.selfCalls {
			if c == last {
				continue
			}
			last = c
			if id, ok := ids[c]; ok {
				calls = append(calls, fmt.Sprintf("%d", id))
			}
		}
		ws := []string{}
		for _, wr := range ff.writes {
			// "<root>:<type>|<what>"
			k := strings.SplitN(wr, "|", 2)
			rt := strings.SplitN(k[0], ":", 2)
			typ := ""
			if len(rt) == 2 {
				typ = rt[1]
			}
			ws = append(ws, fmt.Sprintf("⟨%q, %q, %q⟩", rt[0], typ, k[1]))
		}
		lines = append(lines, fmt.Sprintf("  { file := %q, recv := %q, name := %q, id := %d, writes := [%s], calls := [%s], addArgs := %s }",
			ff.file, ff.recv, ff.name, ids[ff.name], strings.Join(ws, ", "), strings.Join(calls, ", "), qstrs(ff.addArgs)))
	}
	w.WriteString(strings.Join(lines, ",\n"))
	w.WriteString("\n]\n\nend Gv.Gen.MutFacts\n")
	writeIfChanged(filepath.Join(out, "MutFacts.lean"), w.String())
}
