// T3 of DESIGN.md: structural concurrency facts for dna.DistMatrix and phaser.Phase.
//
// For the analysed function ("main") and every goroutine it starts with `go func() {...}()` (directly, or
// through a call such as `seqs.SequencesChan()` whose body starts the producer), this pass emits
//
//   - every read / write of a variable declared in the enclosing function and referenced from a goroutine
//     literal (a "captured" variable), wherever it is accessed: role of the accessing goroutine, mutexes
//     held, element access or not, index built from the received job only, inside an `if … != nil`;
//   - the shape of every goroutine: spawn order, spawned in a loop, `wg.Add(1)` right before the `go`,
//     `wg.Done` deferred / last statement, `return` statements, channels ranged over, other receives,
//     sends, closes (deferred / last statement), `wg.Wait` and what follows it;
//   - channel capacities, the wait group, the mutexes, the captured variables of type error.
//
// The pass is syntactic (go/ast): identifiers are resolved by the lexical scoping rules it implements
// itself (function parameters, results, `:=`, `var`, range variables, literal parameters).  Calls of
// locally defined closures (`f := func(...) {...}; f(x)`) are inlined.  Every shape it does not
// understand (select, goto, nested go, unbalanced Lock/Unlock, RWMutex, go f(), …) makes the extractor
// exit 2: a fact is never guessed and never skipped.
package main

import (
	"bytes"
	"fmt"
	"go/ast"
	"go/printer"
	"go/token"
	"path/filepath"
	"sort"
	"strconv"
	"strings"
)

type fAccess struct {
	role      string // main | producer | worker | closer  (main is split later)
	phase     int
	v         string
	write     bool
	locks     []string
	indexed   bool
	ownCell   bool
	errGuard  bool
	afterWait bool
	line      int
	gid       int // goroutine id (0 = main)
}

type fClose struct {
	ch       string
	deferred bool
	last     bool
}

type fGor struct {
	id              int
	role            string
	fn              string
	line            int
	many            bool
	spawnIndex      int
	addBefore       bool
	doneDeferred    bool
	doneStmts       int
	doneLast        bool
	returns         int
	ranges          []string
	otherRecvs      int
	sends           []string
	closes          []fClose
	hasWait         bool
	closesAfterWait []string
	rangesAfterWait []string
}

type varKind int

const (
	kPlain varKind = iota
	kChan
	kWG
	kMutex
	kErr
	kClosure
)

type fscope struct {
	fn      string             // function name (prefix for callee variables)
	prefix  string             // "" for the analysed function, "Callee." for an inlined callee
	vars    map[string]varKind // outer variables of this function
	closure map[string]*ast.FuncLit
	chanCap map[string]int
	results []string          // named results
	rename  map[string]string // channel renaming callee -> caller
}

type factsCtx struct {
	file       string
	pkgDir     string
	name       string
	sc         *fscope
	gors       []*fGor
	accs       []fAccess
	spawnCount int
	mainWaits  bool
	mainDrains []string
	nextGid    int
}

func posLine(p token.Pos) int { return fset.Position(p).Line }

func isSel(e ast.Expr, pkg, name string) bool {
	se, ok := e.(*ast.SelectorExpr)
	if !ok {
		return false
	}
	id, ok := se.X.(*ast.Ident)
	return ok && id.Name == pkg && se.Sel.Name == name
}

func typeKind(t ast.Expr) varKind {
	switch x := t.(type) {
	case *ast.ChanType:
		return kChan
	case *ast.Ident:
		if x.Name == "error" {
			return kErr
		}
	case *ast.SelectorExpr:
		if isSel(x, "sync", "WaitGroup") {
			return kWG
		}
		if isSel(x, "sync", "Mutex") {
			return kMutex
		}
		if isSel(x, "sync", "RWMutex") {
			die("facts: sync.RWMutex is not supported (line %d)", posLine(x.Pos()))
		}
	}
	return kPlain
}

// makeChanCap recognises make(chan T [, N]); returns (isChan, cap)
func makeChanCap(e ast.Expr) (bool, int) {
	c, ok := e.(*ast.CallExpr)
	if !ok {
		return false, 0
	}
	id, ok := c.Fun.(*ast.Ident)
	if !ok || id.Name != "make" || len(c.Args) == 0 {
		return false, 0
	}
	if _, ok := c.Args[0].(*ast.ChanType); !ok {
		return false, 0
	}
	if len(c.Args) == 1 {
		return true, 0
	}
	v, ok := evalInt(c.Args[1], env{})
	if !ok {
		die("facts: channel capacity is not a constant (line %d)", posLine(c.Pos()))
	}
	return true, int(v)
}

// collectScope gathers the variables declared by fd outside go/func literals
func collectScope(fd *ast.FuncDecl, prefix string) *fscope {
	sc := &fscope{fn: fd.Name.Name, prefix: prefix, vars: map[string]varKind{}, closure: map[string]*ast.FuncLit{},
		chanCap: map[string]int{}, rename: map[string]string{}}
	addField := func(fl *ast.FieldList, res bool) {
		if fl == nil {
			return
		}
		for _, f := range fl.List {
			for _, n := range f.Names {
				sc.vars[n.Name] = typeKind(f.Type)
				if res {
					sc.results = append(sc.results, n.Name)
				}
			}
		}
	}
	addField(fd.Recv, false)
	addField(fd.Type.Params, false)
	addField(fd.Type.Results, true)
	ast.Inspect(fd.Body, func(n ast.Node) bool {
		switch x := n.(type) {
		case *ast.FuncLit:
			return false
		case *ast.AssignStmt:
			for i, l := range x.Lhs {
				id, ok := l.(*ast.Ident)
				if !ok {
					continue
				}
				var rhs ast.Expr
				if len(x.Rhs) == len(x.Lhs) {
					rhs = x.Rhs[i]
				}
				if x.Tok == token.DEFINE {
					if _, seen := sc.vars[id.Name]; !seen {
						sc.vars[id.Name] = kPlain
					}
				}
				if rhs != nil {
					if isch, cp := makeChanCap(rhs); isch {
						sc.vars[id.Name] = kChan
						sc.chanCap[id.Name] = cp
					}
					if fl, ok := rhs.(*ast.FuncLit); ok {
						if x.Tok != token.DEFINE {
							die("facts: closure %s is re-assigned (line %d)", id.Name, posLine(x.Pos()))
						}
						sc.vars[id.Name] = kClosure
						sc.closure[id.Name] = fl
					}
				}
			}
			// the right-hand sides may hold closures: only `name := func` is supported, and their bodies
			// are visited when called
			for _, r := range x.Rhs {
				if _, ok := r.(*ast.FuncLit); ok && len(x.Lhs) != len(x.Rhs) {
					die("facts: unsupported closure assignment (line %d)", posLine(x.Pos()))
				}
			}
			return false
		case *ast.ValueSpec:
			for _, id := range x.Names {
				k := kPlain
				if x.Type != nil {
					k = typeKind(x.Type)
				}
				sc.vars[id.Name] = k
			}
		case *ast.RangeStmt:
			if x.Tok == token.DEFINE {
				for _, e := range []ast.Expr{x.Key, x.Value} {
					if id, ok := e.(*ast.Ident); ok && id.Name != "_" {
						sc.vars[id.Name] = kPlain
					}
				}
			}
		}
		return true
	})
	return sc
}

// walker state for one goroutine (or main)
type fwalk struct {
	c         *factsCtx
	sc        *fscope
	role      string
	g         *fGor // nil for main
	locals    []map[string]bool
	jobVars   map[string]bool // range variables bound to a received job
	locks     []string
	deferLock []string
	errGuard  bool
	afterWait bool
	phase     int
	inlining  map[string]bool
}

func (w *fwalk) isLocal(name string) bool {
	for i := len(w.locals) - 1; i >= 0; i-- {
		if w.locals[i][name] {
			return true
		}
	}
	return false
}

func (w *fwalk) push()                { w.locals = append(w.locals, map[string]bool{}) }
func (w *fwalk) pop()                 { w.locals = w.locals[:len(w.locals)-1] }
func (w *fwalk) declare(name string)  { w.locals[len(w.locals)-1][name] = true }
func (w *fwalk) kind(name string) (varKind, bool) {
	if w.isLocal(name) {
		return kPlain, false
	}
	k, ok := w.sc.vars[name]
	return k, ok
}

func (w *fwalk) chanName(name string) string {
	if r, ok := w.sc.rename[name]; ok {
		return r
	}
	return w.sc.prefix + name
}

func (w *fwalk) record(id *ast.Ident, write, indexed, own bool) {
	w.recordAt(id, write, indexed, own, posLine(id.Pos()))
}

func (w *fwalk) recordAt(id *ast.Ident, write, indexed, own bool, line int) {
	k, outer := w.kind(id.Name)
	if !outer {
		return
	}
	switch k {
	case kChan, kWG, kMutex:
		return // synchronisation objects, handled as operations
	case kClosure:
		return
	}
	gid := 0
	if w.g != nil {
		gid = w.g.id
	}
	w.c.accs = append(w.c.accs, fAccess{role: w.role, phase: w.phase, v: w.sc.prefix + id.Name, write: write,
		locks: append(append([]string{}, w.locks...), w.deferLock...), indexed: indexed, ownCell: own,
		errGuard: w.errGuard, afterWait: w.afterWait, line: line, gid: gid})
}

// base of an assignable expression: identifier, whether an index is involved, and whether every index
// expression is a field of a job variable
func (w *fwalk) lhsBase(e ast.Expr) (id *ast.Ident, indexed bool, own bool, idx []ast.Expr) {
	own = true
	for {
		switch x := e.(type) {
		case *ast.Ident:
			return x, indexed, indexed && own, idx
		case *ast.IndexExpr:
			indexed = true
			idx = append(idx, x.Index)
			if !w.isJobField(x.Index) {
				own = false
			}
			e = x.X
		case *ast.SelectorExpr:
			e = x.X
		case *ast.ParenExpr:
			e = x.X
		case *ast.StarExpr:
			e = x.X
		default:
			return nil, indexed, false, idx
		}
	}
}

func (w *fwalk) isJobField(e ast.Expr) bool {
	se, ok := e.(*ast.SelectorExpr)
	if !ok {
		return false
	}
	id, ok := se.X.(*ast.Ident)
	return ok && w.jobVars[id.Name] && w.isLocal(id.Name)
}

// reads in an expression
func (w *fwalk) expr(e ast.Node) {
	if e == nil {
		return
	}
	ast.Inspect(e, func(n ast.Node) bool {
		switch x := n.(type) {
		case *ast.FuncLit:
			die("facts: function literal used as a value at line %d (only `name := func` + direct calls are supported)", posLine(x.Pos()))
		case *ast.SelectorExpr:
			// x.f : read of x (field / method); do not treat `f` as an identifier
			w.expr(x.X)
			return false
		case *ast.KeyValueExpr:
			w.expr(x.Value)
			return false
		case *ast.IndexExpr:
			// element read
			if id, indexed, own, idx := w.lhsBase(x); id != nil {
				w.record(id, false, indexed, own)
				for _, i := range idx {
					w.expr(i)
				}
				return false
			}
		case *ast.UnaryExpr:
			if x.Op == token.ARROW {
				if w.g != nil {
					w.g.otherRecvs++
				} else {
					die("facts: receive in main at line %d is not supported", posLine(x.Pos()))
				}
			}
		case *ast.CallExpr:
			if id, ok := x.Fun.(*ast.Ident); ok {
				if k, outer := w.kind(id.Name); outer && k == kClosure {
					w.inline(id.Name, x)
					return false
				}
				// builtin or package-level function: arguments only
				for _, a := range x.Args {
					w.expr(a)
				}
				return false
			}
		case *ast.Ident:
			if x.Name == "_" || x.Name == "nil" || x.Name == "true" || x.Name == "false" {
				return true
			}
			if k, outer := w.kind(x.Name); outer && k == kClosure {
				die("facts: closure %s used as a value at line %d", x.Name, posLine(x.Pos()))
			}
			w.record(x, false, false, false)
		}
		return true
	})
}

func (w *fwalk) inline(name string, call *ast.CallExpr) {
	if w.inlining[name] {
		die("facts: recursive closure %s", name)
	}
	fl := w.sc.closure[name]
	for _, a := range call.Args {
		w.expr(a)
	}
	w.inlining[name] = true
	w.push()
	if fl.Type.Params != nil {
		for _, f := range fl.Type.Params.List {
			for _, n := range f.Names {
				w.declare(n.Name)
			}
		}
	}
	if fl.Type.Results != nil && len(fl.Type.Results.List) > 0 {
		die("facts: closure %s returns a value (line %d): not supported", name, posLine(fl.Pos()))
	}
	saved := w.g
	// `return` inside an inlined closure returns from the closure, not from the goroutine
	w.block(fl.Body.List, false, true)
	w.g = saved
	w.pop()
	delete(w.inlining, name)
}

func callSel(s ast.Stmt) (recv string, method string, call *ast.CallExpr) {
	es, ok := s.(*ast.ExprStmt)
	if !ok {
		return
	}
	c, ok := es.X.(*ast.CallExpr)
	if !ok {
		return
	}
	se, ok := c.Fun.(*ast.SelectorExpr)
	if !ok {
		return
	}
	id, ok := se.X.(*ast.Ident)
	if !ok {
		return
	}
	return id.Name, se.Sel.Name, c
}

func isCloseCall(c *ast.CallExpr) (string, bool) {
	id, ok := c.Fun.(*ast.Ident)
	if !ok || id.Name != "close" || len(c.Args) != 1 {
		return "", false
	}
	a, ok := c.Args[0].(*ast.Ident)
	if !ok {
		die("facts: close of a non-identifier at line %d", posLine(c.Pos()))
	}
	return a.Name, true
}

func addUniq(l []string, s string) []string {
	for _, x := range l {
		if x == s {
			return l
		}
	}
	return append(l, s)
}

func containsGo(n ast.Node) int {
	k := 0
	ast.Inspect(n, func(m ast.Node) bool {
		switch m.(type) {
		case *ast.FuncLit:
			return false
		case *ast.GoStmt:
			k++
			return false
		}
		return true
	})
	return k
}

// block walks a statement list.  top = the list is the body of the goroutine literal / function (for
// "last statement" facts); inClosure = inside an inlined closure (returns do not count).
func (w *fwalk) block(stmts []ast.Stmt, top bool, inClosure bool) {
	entry := append([]string{}, w.locks...)
	w.push()
	for i, s := range stmts {
		last := top && i == len(stmts)-1
		w.stmt(s, stmts, i, last, inClosure)
	}
	w.pop()
	if strings.Join(entry, ",") != strings.Join(w.locks, ",") {
		line := 0
		if len(stmts) > 0 {
			line = posLine(stmts[0].Pos())
		}
		die("facts: Lock/Unlock not balanced within the block starting at line %d", line)
	}
}

func (w *fwalk) stmt(s ast.Stmt, siblings []ast.Stmt, i int, last bool, inClosure bool) {
	switch x := s.(type) {
	case *ast.GoStmt:
		if w.g != nil {
			die("facts: nested go statement at line %d", posLine(x.Pos()))
		}
		fl, ok := x.Call.Fun.(*ast.FuncLit)
		if !ok {
			die("facts: `go f()` with a non-literal function at line %d is not supported", posLine(x.Pos()))
		}
		if len(x.Call.Args) != 0 {
			die("facts: go func literal with arguments at line %d is not supported", posLine(x.Pos()))
		}
		w.spawn(fl, siblings, i, false, posLine(x.Pos()))
	case *ast.ExprStmt:
		recv, method, call := callSel(x)
		if call != nil {
			if k, outer := w.kind(recv); outer {
				switch {
				case k == kMutex && method == "Lock":
					w.locks = append(w.locks, w.sc.prefix+recv)
					return
				case k == kMutex && method == "Unlock":
					found := false
					for j, l := range w.locks {
						if l == w.sc.prefix+recv {
							w.locks = append(w.locks[:j:j], w.locks[j+1:]...)
							found = true
							break
						}
					}
					if !found {
						die("facts: Unlock without Lock at line %d", posLine(x.Pos()))
					}
					return
				case k == kMutex:
					die("facts: mutex method %s at line %d is not supported", method, posLine(x.Pos()))
				case k == kWG && method == "Wait":
					if w.g == nil {
						w.c.mainWaits = true
					} else {
						w.g.hasWait = true
					}
					w.afterWait = true
					return
				case k == kWG && method == "Done":
					if w.g == nil {
						die("facts: wg.Done in main at line %d", posLine(x.Pos()))
					}
					w.g.doneStmts++
					if last {
						w.g.doneLast = true
					}
					return
				case k == kWG && method == "Add":
					if w.g != nil {
						die("facts: wg.Add inside a goroutine at line %d is not supported", posLine(x.Pos()))
					}
					if len(call.Args) != 1 {
						die("facts: wg.Add arity at line %d", posLine(x.Pos()))
					}
					if v, ok := evalInt(call.Args[0], env{}); !ok || v != 1 {
						die("facts: wg.Add with an argument other than the literal 1 at line %d is not supported", posLine(x.Pos()))
					}
					// must be directly followed by a go statement (checked from the go statement's side)
					if i+1 >= len(siblings) {
						die("facts: wg.Add(1) at line %d is not followed by a go statement", posLine(x.Pos()))
					}
					if _, ok := siblings[i+1].(*ast.GoStmt); !ok {
						die("facts: wg.Add(1) at line %d is not followed by a go statement", posLine(x.Pos()))
					}
					return
				case k == kWG:
					die("facts: wait-group method %s at line %d is not supported", method, posLine(x.Pos()))
				}
			}
		}
		if c, ok := x.X.(*ast.CallExpr); ok {
			if ch, ok := isCloseCall(c); ok {
				if w.g == nil {
					die("facts: close(%s) in main at line %d is not supported", ch, posLine(x.Pos()))
				}
				name := w.chanName(ch)
				w.g.closes = append(w.g.closes, fClose{name, false, last})
				if w.afterWait {
					w.g.closesAfterWait = append(w.g.closesAfterWait, name)
				}
				return
			}
		}
		w.expr(x.X)
	case *ast.DeferStmt:
		if w.g == nil {
			die("facts: defer in main at line %d is not supported", posLine(x.Pos()))
		}
		if se, ok := x.Call.Fun.(*ast.SelectorExpr); ok {
			if id, ok := se.X.(*ast.Ident); ok {
				if k, outer := w.kind(id.Name); outer {
					if k == kWG && se.Sel.Name == "Done" {
						w.g.doneDeferred = true
						return
					}
					if k == kMutex && se.Sel.Name == "Unlock" {
						// held until the goroutine returns
						for j, l := range w.locks {
							if l == w.sc.prefix+id.Name {
								w.locks = append(w.locks[:j:j], w.locks[j+1:]...)
								w.deferLock = append(w.deferLock, l)
								return
							}
						}
						die("facts: defer Unlock without Lock at line %d", posLine(x.Pos()))
					}
				}
			}
		}
		if ch, ok := isCloseCall(x.Call); ok {
			w.g.closes = append(w.g.closes, fClose{w.chanName(ch), true, false})
			return
		}
		die("facts: unsupported defer at line %d", posLine(x.Pos()))
	case *ast.SendStmt:
		id, ok := x.Chan.(*ast.Ident)
		if !ok {
			die("facts: send on a non-identifier channel at line %d", posLine(x.Pos()))
		}
		if w.g == nil {
			die("facts: send in main at line %d is not supported", posLine(x.Pos()))
		}
		w.g.sends = addUniq(w.g.sends, w.chanName(id.Name))
		w.expr(x.Value)
	case *ast.AssignStmt:
		// right-hand sides first (reads), then the writes
		for _, r := range x.Rhs {
			if _, ok := r.(*ast.FuncLit); ok {
				// closure definition: visited when called
				continue
			}
			if w.g == nil {
				if w.calleeProducer(x, r) {
					return
				}
			}
			w.expr(r)
		}
		for _, l := range x.Lhs {
			id, indexed, own, idx := w.lhsBase(l)
			if id == nil {
				die("facts: unsupported assignment target at line %d", posLine(l.Pos()))
			}
			if id.Name == "_" {
				continue
			}
			for _, ie := range idx {
				w.expr(ie)
			}
			if x.Tok == token.DEFINE && !indexed {
				if _, isIdent := l.(*ast.Ident); isIdent {
					if w.g != nil || inClosure {
						w.declare(id.Name)
						continue
					}
					// main: a declaration is the first write of an outer variable
				}
			}
			if x.Tok != token.ASSIGN && x.Tok != token.DEFINE {
				w.record(id, false, indexed, own) // op= reads too
			}
			w.record(id, true, indexed, own)
		}
	case *ast.IncDecStmt:
		id, indexed, own, idx := w.lhsBase(x.X)
		if id == nil {
			die("facts: unsupported inc/dec at line %d", posLine(x.Pos()))
		}
		for _, ie := range idx {
			w.expr(ie)
		}
		w.record(id, false, indexed, own)
		w.record(id, true, indexed, own)
	case *ast.DeclStmt:
		gd, ok := x.Decl.(*ast.GenDecl)
		if !ok || gd.Tok != token.VAR {
			die("facts: unsupported declaration at line %d", posLine(x.Pos()))
		}
		for _, sp := range gd.Specs {
			vs := sp.(*ast.ValueSpec)
			for _, v := range vs.Values {
				w.expr(v)
			}
			for _, id := range vs.Names {
				if w.g != nil || inClosure {
					w.declare(id.Name)
				} else if len(vs.Values) > 0 {
					w.record(id, true, false, false)
				}
			}
		}
	case *ast.IfStmt:
		w.push()
		if x.Init != nil {
			w.stmt(x.Init, nil, 0, false, inClosure)
		}
		w.expr(x.Cond)
		saved := w.errGuard
		if condIsNotNil(x.Cond) {
			w.errGuard = true
		}
		w.block(x.Body.List, false, inClosure)
		w.errGuard = saved
		switch e := x.Else.(type) {
		case nil:
		case *ast.BlockStmt:
			w.block(e.List, false, inClosure)
		case *ast.IfStmt:
			w.stmt(e, nil, 0, false, inClosure)
		default:
			die("facts: unsupported else at line %d", posLine(x.Pos()))
		}
		w.pop()
	case *ast.ForStmt:
		w.push()
		k := 0
		if w.g == nil {
			k = containsGo(x.Body)
		}
		savedPhase := w.phase
		if k > 0 {
			w.phase = w.c.spawnCount + k
		}
		if x.Init != nil {
			w.stmt(x.Init, nil, 0, false, inClosure)
		}
		if x.Cond != nil {
			w.expr(x.Cond)
		}
		if x.Post != nil {
			w.stmt(x.Post, nil, 0, false, inClosure)
		}
		if k > 0 {
			w.loopWithGo(x.Body.List)
			w.phase = w.c.spawnCount
		} else {
			w.block(x.Body.List, false, inClosure)
			w.phase = savedPhase
		}
		w.pop()
	case *ast.RangeStmt:
		w.push()
		isChanRange := false
		if id, ok := x.X.(*ast.Ident); ok {
			if k, outer := w.kind(id.Name); outer && k == kChan {
				isChanRange = true
				name := w.chanName(id.Name)
				if w.g != nil {
					w.g.ranges = append(w.g.ranges, name)
					if w.afterWait {
						w.g.rangesAfterWait = append(w.g.rangesAfterWait, name)
					}
				} else {
					if !w.afterWait {
						die("facts: main ranges over channel %s before Wait (line %d): not supported", name, posLine(x.Pos()))
					}
					w.c.mainDrains = append(w.c.mainDrains, name)
				}
			}
		}
		if !isChanRange {
			w.expr(x.X)
		}
		if w.g == nil && containsGo(x.Body) > 0 {
			die("facts: go statement inside a range loop at line %d is not supported", posLine(x.Pos()))
		}
		for _, e := range []ast.Expr{x.Key, x.Value} {
			if e == nil {
				continue
			}
			id, ok := e.(*ast.Ident)
			if !ok {
				die("facts: unsupported range variable at line %d", posLine(x.Pos()))
			}
			if id.Name == "_" {
				continue
			}
			if x.Tok == token.DEFINE {
				if w.g != nil || inClosure {
					w.declare(id.Name)
					if isChanRange {
						w.jobVars[id.Name] = true
					}
				} else {
					w.record(id, true, false, false)
				}
			} else {
				w.record(id, true, false, false)
			}
		}
		w.block(x.Body.List, false, inClosure)
		w.pop()
	case *ast.ReturnStmt:
		if !inClosure {
			if w.g != nil {
				w.g.returns++
			}
		}
		if len(x.Results) == 0 && w.g == nil && !inClosure {
			// bare return of a function with named results reads them
			for _, r := range w.sc.results {
				w.recordAt(ast.NewIdent(r), false, false, false, posLine(x.Pos()))
			}
		}
		for _, r := range x.Results {
			w.expr(r)
		}
	case *ast.BlockStmt:
		w.block(x.List, false, inClosure)
	case *ast.BranchStmt:
		if x.Tok == token.GOTO || x.Label != nil {
			die("facts: goto / labelled branch at line %d is not supported", posLine(x.Pos()))
		}
	case *ast.EmptyStmt:
	case *ast.SwitchStmt:
		w.push()
		if x.Init != nil {
			w.stmt(x.Init, nil, 0, false, inClosure)
		}
		if x.Tag != nil {
			w.expr(x.Tag)
		}
		for _, cc := range x.Body.List {
			c := cc.(*ast.CaseClause)
			for _, e := range c.List {
				w.expr(e)
			}
			w.block(c.Body, false, inClosure)
		}
		w.pop()
	default:
		die("facts: unsupported statement %T at line %d", s, posLine(s.Pos()))
	}
}

func condIsNotNil(e ast.Expr) bool {
	found := false
	ast.Inspect(e, func(n ast.Node) bool {
		if b, ok := n.(*ast.BinaryExpr); ok && b.Op == token.NEQ {
			if id, ok := b.Y.(*ast.Ident); ok && id.Name == "nil" {
				found = true
			}
		}
		return true
	})
	return found
}

// loopWithGo walks the body of a `for` loop of main that contains go statements
func (w *fwalk) loopWithGo(stmts []ast.Stmt) {
	w.push()
	for i, s := range stmts {
		if g, ok := s.(*ast.GoStmt); ok {
			fl, ok := g.Call.Fun.(*ast.FuncLit)
			if !ok || len(g.Call.Args) != 0 {
				die("facts: unsupported go statement at line %d", posLine(g.Pos()))
			}
			w.spawn(fl, stmts, i, true, posLine(g.Pos()))
			continue
		}
		if containsGo(s) > 0 {
			die("facts: go statement nested deeper inside a loop at line %d is not supported", posLine(s.Pos()))
		}
		w.stmt(s, stmts, i, false, false)
	}
	w.pop()
}

func (w *fwalk) spawn(fl *ast.FuncLit, siblings []ast.Stmt, i int, many bool, line int) {
	c := w.c
	c.nextGid++
	g := &fGor{id: c.nextGid, fn: w.sc.fn, line: line, many: many, spawnIndex: c.spawnCount}
	c.spawnCount++
	if !many {
		w.phase = c.spawnCount
	}
	if i > 0 {
		if recv, method, call := callSel(siblings[i-1]); call != nil && method == "Add" {
			if k, outer := w.kind(recv); outer && k == kWG {
				g.addBefore = true
			}
		}
	}
	if fl.Type.Params != nil && len(fl.Type.Params.List) > 0 {
		die("facts: goroutine literal with parameters at line %d is not supported", line)
	}
	gw := &fwalk{c: c, sc: w.sc, role: "?", g: g, jobVars: map[string]bool{}, inlining: map[string]bool{}}
	start := len(c.accs)
	gw.block(fl.Body.List, true, false)
	// classification
	switch {
	case many:
		g.role = "worker"
	case g.hasWait:
		g.role = "closer"
	default:
		closesOwn := false
		for _, cl := range g.closes {
			for _, s := range g.sends {
				if cl.ch == s {
					closesOwn = true
				}
			}
		}
		if len(g.sends) > 0 && closesOwn {
			g.role = "producer"
		} else {
			die("facts: cannot classify the goroutine started at line %d (not in a loop, no Wait, does not close a channel it sends on)", line)
		}
	}
	for k := start; k < len(c.accs); k++ {
		c.accs[k].role = g.role
	}
	c.gors = append(c.gors, g)
}

// calleeProducer recognises `x = recv.M()` where M (same package) makes a channel, starts one goroutine
// that feeds and closes it, and returns it.
func (w *fwalk) calleeProducer(as *ast.AssignStmt, rhs ast.Expr) bool {
	call, ok := rhs.(*ast.CallExpr)
	if !ok || len(as.Lhs) != 1 || len(as.Rhs) != 1 {
		return false
	}
	se, ok := call.Fun.(*ast.SelectorExpr)
	if !ok {
		return false
	}
	lhs, ok := as.Lhs[0].(*ast.Ident)
	if !ok {
		return false
	}
	if k, outer := w.kind(lhs.Name); !outer || k != kChan {
		return false
	}
	// find the method in the package
	var decl *ast.FuncDecl
	matches, _ := filepath.Glob(filepath.Join(w.c.pkgDir, "*.go"))
	sort.Strings(matches)
	for _, p := range matches {
		if strings.HasSuffix(p, "_test.go") {
			continue
		}
		f := parseFile(p)
		for _, d := range f.Decls {
			if fd, ok := d.(*ast.FuncDecl); ok && fd.Recv != nil && fd.Name.Name == se.Sel.Name && fd.Body != nil {
				if decl != nil {
					die("facts: method %s is declared more than once in %s; cannot resolve the call at line %d syntactically",
						se.Sel.Name, w.c.pkgDir, posLine(call.Pos()))
				}
				decl = fd
			}
		}
	}
	if decl == nil {
		die("facts: channel %s is assigned from %s() whose declaration was not found", lhs.Name, se.Sel.Name)
	}
	if containsGo(decl.Body) != 1 {
		die("facts: %s does not start exactly one goroutine", se.Sel.Name)
	}
	w.expr(se.X)
	for _, a := range call.Args {
		w.expr(a)
	}
	sc := collectScope(decl, se.Sel.Name+".")
	// the returned channel
	ret := ""
	if len(sc.results) == 1 && sc.vars[sc.results[0]] == kChan {
		ret = sc.results[0]
	} else {
		die("facts: %s does not have a single named channel result", se.Sel.Name)
	}
	sc.rename[ret] = lhs.Name
	if cp, ok := sc.chanCap[ret]; ok {
		w.sc.chanCap[lhs.Name] = cp
	} else {
		die("facts: %s does not make its result channel", se.Sel.Name)
	}
	cw := &fwalk{c: w.c, sc: sc, role: "main", phase: w.phase, jobVars: map[string]bool{}, inlining: map[string]bool{}}
	// body shape: [assignment of make] go func(){…}() return
	for i, s := range decl.Body.List {
		switch x := s.(type) {
		case *ast.AssignStmt:
			if isch, _ := makeChanCap(x.Rhs[0]); !isch || len(x.Lhs) != 1 {
				die("facts: unsupported statement in %s at line %d", se.Sel.Name, posLine(s.Pos()))
			}
		case *ast.GoStmt:
			fl, ok := x.Call.Fun.(*ast.FuncLit)
			if !ok || len(x.Call.Args) != 0 {
				die("facts: unsupported go statement in %s", se.Sel.Name)
			}
			cw.locals = nil
			cw.push()
			cw.spawn(fl, decl.Body.List, i, false, posLine(x.Pos()))
			cw.pop()
		case *ast.ReturnStmt:
		default:
			die("facts: unsupported statement %T in %s at line %d", s, se.Sel.Name, posLine(s.Pos()))
		}
	}
	w.phase = w.c.spawnCount
	return true
}

func q(s string) string { return fmt.Sprintf("%q", s) }

func qlist(l []string) string {
	o := make([]string, len(l))
	for i, s := range l {
		o[i] = q(s)
	}
	return "[" + strings.Join(o, ", ") + "]"
}

func lb(b bool) string {
	if b {
		return "true"
	}
	return "false"
}

func analyseFacts(repo, rel, recv, fn, leanName string, w *strings.Builder) {
	path := filepath.Join(repo, rel)
	f := parseFile(path)
	fd := findFunc(f, recv, fn)
	if fd == nil || fd.Body == nil {
		die("facts: %s.%s not found in %s", recv, fn, rel)
	}
	c := &factsCtx{file: rel, pkgDir: filepath.Dir(path), name: fn}
	c.sc = collectScope(fd, "")
	mw := &fwalk{c: c, sc: c.sc, role: "main", jobVars: map[string]bool{}, inlining: map[string]bool{}}
	mw.block(fd.Body.List, true, false)

	// which variables are touched by a goroutine at all
	touched := map[string]bool{}
	for _, a := range c.accs {
		if a.role != "main" {
			touched[a.v] = true
		}
	}
	// roles present
	var producers, workers []*fGor
	for _, g := range c.gors {
		switch g.role {
		case "producer":
			producers = append(producers, g)
		case "worker":
			workers = append(workers, g)
		}
	}
	if len(producers) == 0 || len(workers) == 0 {
		die("facts: %s has no producer or no worker goroutine (shape not understood)", fn)
	}
	jobChan := ""
	for _, g := range producers {
		for _, s := range g.sends {
			for _, cl := range g.closes {
				if cl.ch == s {
					jobChan = s
				}
			}
		}
	}
	resChan := ""
	for _, g := range workers {
		for _, s := range g.sends {
			if resChan != "" && resChan != s {
				die("facts: workers send on more than one channel (%s, %s)", resChan, s)
			}
			resChan = s
		}
	}
	capOf := func(ch string) int {
		if ch == "" {
			return 0
		}
		if v, ok := c.sc.chanCap[ch]; ok {
			return v
		}
		die("facts: capacity of channel %s unknown", ch)
		return 0
	}
	wgName, mutexes, errVars := "", []string{}, []string{}
	var names []string
	for n := range c.sc.vars {
		names = append(names, n)
	}
	sort.Strings(names)
	for _, n := range names {
		switch c.sc.vars[n] {
		case kWG:
			if wgName != "" {
				die("facts: more than one wait group in %s", fn)
			}
			wgName = n
		case kMutex:
			mutexes = append(mutexes, n)
		case kErr:
			if touched[n] {
				errVars = append(errVars, n)
			}
		}
	}
	if wgName == "" {
		die("facts: no wait group in %s", fn)
	}

	fmt.Fprintf(w, "/-- `%s` (%s) -/\ndef %s : Facts :=\n", fn, rel, leanName)
	fmt.Fprintf(w, "  { func := %s, file := %s, jobChan := %s, jobChanCap := %d, resChan := %s, resChanCap := %d,\n",
		q(fn), q(rel), q(jobChan), capOf(jobChan), q(resChan), capOf(resChan))
	fmt.Fprintf(w, "    waitGroup := %s, mutexes := %s, errVars := %s, mainWaits := %s, mainDrains := %s,\n",
		q(wgName), qlist(mutexes), qlist(errVars), lb(c.mainWaits), qlist(c.mainDrains))
	fmt.Fprintf(w, "    goroutines := [\n")
	for i, g := range c.gors {
		cl := make([]string, len(g.closes))
		for k, x := range g.closes {
			cl[k] = fmt.Sprintf("(%s, %s, %s)", q(x.ch), lb(x.deferred), lb(x.last))
		}
		fmt.Fprintf(w, "      { role := .%s, fn := %s, line := %d, many := %s, spawnIndex := %d, addBefore := %s,\n"+
			"        doneDeferred := %s, doneStmts := %d, doneLast := %s, returns := %d, ranges := %s, otherRecvs := %d,\n"+
			"        sends := %s, closes := [%s], hasWait := %s, closesAfterWait := %s, rangesAfterWait := %s }",
			g.role, q(g.fn), g.line, lb(g.many), g.spawnIndex, lb(g.addBefore), lb(g.doneDeferred), g.doneStmts,
			lb(g.doneLast), g.returns, qlist(g.ranges), g.otherRecvs, qlist(g.sends), strings.Join(cl, ", "),
			lb(g.hasWait), qlist(g.closesAfterWait), qlist(g.rangesAfterWait))
		if i+1 < len(c.gors) {
			w.WriteString(",")
		}
		w.WriteString("\n")
	}
	fmt.Fprintf(w, "    ],\n    accesses := [\n")
	var lines []string
	for _, a := range c.accs {
		if !touched[a.v] {
			continue
		}
		role := a.role
		if role == "main" {
			switch {
			case a.afterWait:
				role = "mainAfterWait"
			case a.phase == 0:
				role = "mainBeforeSpawn"
			default:
				role = "mainBetween"
			}
		}
		kind := "read"
		if a.write {
			kind = "write"
		}
		lines = append(lines, fmt.Sprintf("      { role := .%s, phase := %d, var := %s, kind := .%s, locks := %s, indexed := %s, "+
			"ownCell := %s, errGuard := %s, afterWait := %s, line := %d }",
			role, a.phase, q(a.v), kind, qlist(a.locks), lb(a.indexed), lb(a.ownCell), lb(a.errGuard), lb(a.afterWait), a.line))
	}
	// identical facts (same line, same everything) once
	seen := map[string]bool{}
	var uniq []string
	for _, l := range lines {
		if !seen[l] {
			seen[l] = true
			uniq = append(uniq, l)
		}
	}
	w.WriteString(strings.Join(uniq, ",\n"))
	fmt.Fprintf(w, "\n    ] }\n\n")
}

// ---- LongestORF search mode (regular expression or scan) ---------------------------------------

func emitOrfSearch(repo string, w *strings.Builder) {
	f := parseFile(filepath.Join(repo, "align/sequence.go"))
	fd := findFunc(f, "seq", "LongestORF")
	if fd == nil || fd.Body == nil {
		die("facts: seq.LongestORF not found")
	}
	lit, findAll, other := "", false, false
	ast.Inspect(fd.Body, func(n ast.Node) bool {
		c, ok := n.(*ast.CallExpr)
		if !ok {
			return true
		}
		if isSel(c.Fun, "regexp", "Compile") || isSel(c.Fun, "regexp", "MustCompile") {
			if len(c.Args) == 1 {
				if bl, ok := c.Args[0].(*ast.BasicLit); ok && bl.Kind == token.STRING {
					v, err := strconv.Unquote(bl.Value)
					if err != nil {
						die("facts: cannot unquote the regular expression of LongestORF")
					}
					lit = v
					return true
				}
			}
			die("facts: the regular expression of LongestORF is not a string literal")
		}
		if se, ok := c.Fun.(*ast.SelectorExpr); ok {
			if se.Sel.Name == "FindAllStringIndex" {
				findAll = true
			} else if strings.HasPrefix(se.Sel.Name, "Find") || se.Sel.Name == "Longest" {
				other = true
			}
		}
		return true
	})
	switch {
	case lit != "" && findAll && !other:
		fmt.Fprintf(w, "/-- `seq.LongestORF` searches with `regexp` + `FindAllStringIndex` (non-overlapping matches) -/\n"+
			"def longestOrfRegex : Option String := some %s\n\n", q(lit))
	case lit == "" && !findAll && !other:
		fmt.Fprintf(w, "/-- `seq.LongestORF` does not use `regexp` -/\ndef longestOrfRegex : Option String := none\n\n")
	default:
		die("facts: seq.LongestORF uses regexp in a way that is not understood (literal=%q FindAllStringIndex=%v other=%v)", lit, findAll, other)
	}
}

// ---- which pairs DistMatrix's producer sends in range mode ----------------------------------------

func exprText(e ast.Expr) string {
	var b bytes.Buffer
	if err := printer.Fprint(&b, fset, e); err != nil {
		die("facts: cannot print expression: %v", err)
	}
	return strings.Join(strings.Fields(b.String()), " ")
}

// emitRangeGuard finds, in the producer of DistMatrix, the loops `for i := range1Min … { … for j := range2Min … {`
// and the condition under which the pair (i, j) is sent: `if C { … send … }` gives C,
// `if C { continue } … send` gives !(C).
func emitRangeGuard(repo string, w *strings.Builder) {
	f := parseFile(filepath.Join(repo, "distance/dna/distance.go"))
	fd := findFunc(f, "", "DistMatrix")
	if fd == nil {
		die("facts: DistMatrix not found")
	}
	guard := ""
	found := 0
	ast.Inspect(fd.Body, func(n ast.Node) bool {
		fs, ok := n.(*ast.ForStmt)
		if !ok || fs.Init == nil {
			return true
		}
		as, ok := fs.Init.(*ast.AssignStmt)
		if !ok || len(as.Rhs) != 1 {
			return true
		}
		if id, ok := as.Rhs[0].(*ast.Ident); !ok || id.Name != "range2Min" {
			return true
		}
		found++
		hasSend := func(n ast.Node) bool {
			r := false
			ast.Inspect(n, func(m ast.Node) bool {
				if _, ok := m.(*ast.SendStmt); ok {
					r = true
				}
				return true
			})
			return r
		}
		var neg []string
		for _, st := range fs.Body.List {
			if is, ok := st.(*ast.IfStmt); ok && is.Init == nil && is.Else == nil {
				if hasSend(is.Body) {
					guard = exprText(is.Cond)
					for _, c := range neg {
						guard = "!(" + c + ") && " + guard
					}
					return false
				}
				if len(is.Body.List) == 1 {
					if br, ok := is.Body.List[0].(*ast.BranchStmt); ok && br.Tok == token.CONTINUE {
						neg = append(neg, exprText(is.Cond))
						continue
					}
				}
			}
			if _, ok := st.(*ast.SendStmt); ok {
				break
			}
			if hasSend(st) {
				die("facts: the send of the range-mode loop of DistMatrix is not guarded by a simple if (line %d)", posLine(st.Pos()))
			}
		}
		if _, ok := fs.Body.List[len(fs.Body.List)-1].(*ast.SendStmt); ok && len(neg) > 0 {
			parts := make([]string, len(neg))
			for i, c := range neg {
				parts[i] = "!(" + c + ")"
			}
			guard = strings.Join(parts, " && ")
		}
		return false
	})
	if found != 1 || guard == "" {
		die("facts: range-mode loop of DistMatrix not understood (loops over range2Min: %d, guard %q)", found, guard)
	}
	fmt.Fprintf(w, "/-- the condition under which `DistMatrix`'s producer sends the pair `(i, j)` in range mode -/\n"+
		"def rangeSendGuard : String := %s\n\n", q(guard))
}

// ---- mutation facts for the phasing functions ---------------------------------------------------

// inPlaceFuncs: package-level functions that assign to an element of a parameter
func inPlaceFuncs(f *ast.File) map[string]bool {
	out := map[string]bool{}
	for _, d := range f.Decls {
		fd, ok := d.(*ast.FuncDecl)
		if !ok || fd.Recv != nil || fd.Body == nil || fd.Type.Params == nil {
			continue
		}
		params := map[string]bool{}
		for _, p := range fd.Type.Params.List {
			for _, n := range p.Names {
				params[n.Name] = true
			}
		}
		ast.Inspect(fd.Body, func(n ast.Node) bool {
			if as, ok := n.(*ast.AssignStmt); ok {
				for _, l := range as.Lhs {
					if ie, ok := l.(*ast.IndexExpr); ok {
						if id, ok := ie.X.(*ast.Ident); ok && params[id.Name] {
							out[fd.Name.Name] = true
						}
					}
				}
			}
			return true
		})
	}
	return out
}

func baseIdentOf(e ast.Expr) *ast.Ident {
	for {
		switch x := e.(type) {
		case *ast.Ident:
			return x
		case *ast.IndexExpr:
			e = x.X
		case *ast.SelectorExpr:
			e = x.X
		case *ast.ParenExpr:
			e = x.X
		case *ast.StarExpr:
			e = x.X
		case *ast.SliceExpr:
			e = x.X
		default:
			return nil
		}
	}
}

// seqMutators: methods of *seq that write through the receiver
func seqMutators(f *ast.File) []string {
	inplace := inPlaceFuncs(f)
	var out []string
	for _, d := range f.Decls {
		fd, ok := d.(*ast.FuncDecl)
		if !ok || fd.Recv == nil || fd.Body == nil || len(fd.Recv.List) != 1 || len(fd.Recv.List[0].Names) != 1 {
			continue
		}
		st, ok := fd.Recv.List[0].Type.(*ast.StarExpr)
		if !ok {
			continue
		}
		if id, ok := st.X.(*ast.Ident); !ok || id.Name != "seq" {
			continue
		}
		recv := fd.Recv.List[0].Names[0].Name
		mut := false
		ast.Inspect(fd.Body, func(n ast.Node) bool {
			switch x := n.(type) {
			case *ast.AssignStmt:
				if x.Tok == token.DEFINE {
					return true
				}
				for _, l := range x.Lhs {
					if _, isIdent := l.(*ast.Ident); isIdent {
						continue // assignment to a local / named result
					}
					if id := baseIdentOf(l); id != nil && id.Name == recv {
						mut = true
					}
				}
			case *ast.IncDecStmt:
				if _, isIdent := x.X.(*ast.Ident); !isIdent {
					if id := baseIdentOf(x.X); id != nil && id.Name == recv {
						mut = true
					}
				}
			case *ast.CallExpr:
				if id, ok := x.Fun.(*ast.Ident); ok && (inplace[id.Name] || id.Name == "copy") {
					for k, a := range x.Args {
						if id.Name == "copy" && k != 0 {
							continue
						}
						if b := baseIdentOf(a); b != nil && b.Name == recv {
							mut = true
						}
					}
				}
			}
			return true
		})
		if mut {
			out = append(out, fd.Name.Name)
		}
	}
	sort.Strings(out)
	return out
}

func emitMutationFacts(repo string, w *strings.Builder) {
	sf := parseFile(filepath.Join(repo, "align/sequence.go"))
	muts := seqMutators(sf)
	isMut := map[string]bool{}
	for _, m := range muts {
		isMut[m] = true
	}
	fmt.Fprintf(w, "/-- methods of `*seq` that write through the receiver (assignment to a field / element, or the receiver's\nbuffer handed to an in-place function) -/\ndef seqMutators : List String := %s\n\n", qlist(muts))
	type site struct {
		file, recv, fn string
	}
	sites := []site{{"align/phaser.go", "phaser", "Phase"}, {"align/phaser.go", "phaser", "alignAgainstRefsAA"},
		{"align/phaser.go", "phaser", "alignAgainstRefsNT"}, {"align/seqbag.go", "seqbag", "LongestORF"},
		{"align/seqbag.go", "seqbag", "SequencesChan"}}
	var lines []string
	for _, st := range sites {
		f := parseFile(filepath.Join(repo, st.file))
		fd := findFunc(f, st.recv, st.fn)
		if fd == nil || fd.Body == nil {
			die("facts: %s.%s not found in %s", st.recv, st.fn, st.file)
		}
		// assignments in textual order: variable -> position and whether the value is a fresh clone
		type asg struct {
			pos   token.Pos
			fresh bool
		}
		assigns := map[string][]asg{}
		ast.Inspect(fd.Body, func(n ast.Node) bool {
			as, ok := n.(*ast.AssignStmt)
			if !ok {
				return true
			}
			for i, l := range as.Lhs {
				id, ok := l.(*ast.Ident)
				if !ok {
					continue
				}
				fresh := false
				if len(as.Rhs) == len(as.Lhs) {
					if c, ok := as.Rhs[i].(*ast.CallExpr); ok {
						if se, ok := c.Fun.(*ast.SelectorExpr); ok && se.Sel.Name == "Clone" && len(c.Args) == 0 {
							fresh = true
						}
					}
				}
				assigns[id.Name] = append(assigns[id.Name], asg{as.Pos(), fresh})
			}
			return true
		})
		ast.Inspect(fd.Body, func(n ast.Node) bool {
			switch x := n.(type) {
			case *ast.CallExpr:
				se, ok := x.Fun.(*ast.SelectorExpr)
				if !ok || !isMut[se.Sel.Name] {
					return true
				}
				id, ok := se.X.(*ast.Ident)
				if !ok {
					lines = append(lines, fmt.Sprintf("  { fn := %s, recv := \"<expr>\", method := %s, fresh := false, line := %d }",
						q(st.fn), q(se.Sel.Name), posLine(x.Pos())))
					return true
				}
				// the last assignment to the receiver variable textually before the call
				fresh := false
				var best token.Pos = token.NoPos
				for _, a := range assigns[id.Name] {
					if a.pos < x.Pos() && a.pos > best {
						best = a.pos
						fresh = a.fresh
					}
				}
				lines = append(lines, fmt.Sprintf("  { fn := %s, recv := %s, method := %s, fresh := %s, line := %d }",
					q(st.fn), q(id.Name), q(se.Sel.Name), lb(fresh), posLine(x.Pos())))
			case *ast.AssignStmt:
				// element writes through an accessor: x.SequenceChar()[i] = …
				for _, l := range x.Lhs {
					hasCall := false
					ast.Inspect(l, func(m ast.Node) bool {
						if _, ok := m.(*ast.CallExpr); ok {
							hasCall = true
						}
						return true
					})
					if _, isIdx := l.(*ast.IndexExpr); isIdx && hasCall {
						lines = append(lines, fmt.Sprintf("  { fn := %s, recv := \"<accessor>\", method := \"[]=\", fresh := false, line := %d }",
							q(st.fn), posLine(l.Pos())))
					}
				}
			}
			return true
		})
	}
	fmt.Fprintf(w, "/-- every call of a mutating `Sequence` method (by name) and every element write through an accessor in\n`Phase`, `alignAgainstRefsAA`, `alignAgainstRefsNT`, `seqbag.LongestORF`, `seqbag.SequencesChan`; `fresh` = the\nreceiver variable was last assigned from `….Clone()` -/\ndef phaseMutCalls : List MutCall := [\n%s\n]\n\n", strings.Join(lines, ",\n"))
}

// emitFacts writes lean/Gv/Gen/Facts.lean
func emitFacts(repo, out string) {
	var w strings.Builder
	w.WriteString("-- GENERATED by tools/extract (facts.go) from the repository working tree. Do not edit.\n")
	w.WriteString("import Gv.Model.Facts\nnamespace Gv.Gen.Facts\nopen Gv.Model.Facts\n\n")
	analyseFacts(repo, "distance/dna/distance.go", "", "DistMatrix", "distMatrix", &w)
	analyseFacts(repo, "align/phaser.go", "phaser", "Phase", "phase", &w)
	emitRangeGuard(repo, &w)
	emitOrfSearch(repo, &w)
	emitMutationFacts(repo, &w)
	w.WriteString("end Gv.Gen.Facts\n")
	writeIfChanged(filepath.Join(out, "Facts.lean"), w.String())
}
