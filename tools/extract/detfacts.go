package main

// T3 determinism facts for property C11: every place in the non-test packages where run-to-run
// nondeterminism can enter — `range` over a map (Go randomises the order), time.Now, os.Getpid,
// `go` statements, and uses of math/rand — with a syntactic classification of what a map-ordered
// loop does.  Output: lean/Gv/Gen/DetFacts.lean.
//
// Map-typed expressions are recognised syntactically (no type checker): identifiers declared in the
// same function from `make(map…)`, a map composite literal or a map-typed declaration / parameter /
// named result; struct fields declared with a map type anywhere in the scanned packages; calls of
// functions / methods whose first result is declared as a map.

import (
	"fmt"
	"go/ast"
	"go/token"
	"os"
	"path/filepath"
	"sort"
	"strings"
)

type detSite struct {
	file, fn, kind, class, detail string
	line                          int
}

func isMapType(e ast.Expr) bool {
	_, ok := e.(*ast.MapType)
	return ok
}

func isMapExpr(e ast.Expr) bool {
	switch x := e.(type) {
	case *ast.CompositeLit:
		return isMapType(x.Type)
	case *ast.CallExpr:
		if id, ok := x.Fun.(*ast.Ident); ok && id.Name == "make" && len(x.Args) > 0 {
			return isMapType(x.Args[0])
		}
	}
	return false
}

// classifyBody gives a coarse description of what the body of a map-ordered loop does.
func classifyBody(body *ast.BlockStmt, mapLocals map[string]bool, sortedLater func(name string) bool) (string, string) {
	appendsTo := map[string]bool{}
	floatAcc := false
	writesOut := false
	other := false
	otherWhat := ""
	ast.Inspect(body, func(n ast.Node) bool {
		switch x := n.(type) {
		case *ast.AssignStmt:
			for i, l := range x.Lhs {
				switch lt := l.(type) {
				case *ast.IndexExpr:
					// m2[k] = …  : writes keyed by something (order-insensitive when keyed by the loop key)
				case *ast.Ident:
					if i < len(x.Rhs) {
						if c, ok := x.Rhs[i].(*ast.CallExpr); ok {
							if f, ok := c.Fun.(*ast.Ident); ok && f.Name == "append" {
								appendsTo[lt.Name] = true
								continue
							}
						}
					}
					if x.Tok == token.ADD_ASSIGN || x.Tok == token.SUB_ASSIGN || x.Tok == token.MUL_ASSIGN {
						floatAcc = true // accumulation: order matters only for floating point rounding
					}
				default:
					_ = lt
				}
			}
		case *ast.CallExpr:
			if s, ok := x.Fun.(*ast.SelectorExpr); ok {
				n := s.Sel.Name
				if strings.HasPrefix(n, "Write") || strings.HasPrefix(n, "Print") || strings.HasPrefix(n, "Fprint") {
					writesOut = true
				}
			}
		case *ast.ReturnStmt, *ast.BranchStmt:
			// early exit / break: the first visited entry may decide
			if b, ok := x.(*ast.BranchStmt); ok && b.Tok != token.BREAK {
				return true
			}
			other = true
			otherWhat = "early-exit"
		}
		return true
	})
	switch {
	case writesOut:
		return "writes-output", ""
	case other:
		return "early-exit", otherWhat
	case len(appendsTo) > 0:
		names := []string{}
		unsorted := []string{}
		for n := range appendsTo {
			names = append(names, n)
			if !sortedLater(n) {
				unsorted = append(unsorted, n)
			}
		}
		sort.Strings(names)
		sort.Strings(unsorted)
		if len(unsorted) == 0 {
			return "appends-then-sorted", strings.Join(names, ",")
		}
		return "appends-unsorted", strings.Join(unsorted, ",")
	case floatAcc:
		return "accumulates", ""
	}
	return "keyed-writes-or-reads", ""
}

func emitDetFacts(repo, out string) {
	dirs := []string{"align", "cmd", "distance/dna", "distance/protein", "io", "io/clustal", "io/countprofile", "io/fasta",
		"io/nexus", "io/paml", "io/partition", "io/phylip", "io/stockholm", "io/utils", "models", "models/dna", "models/protein",
		"stats", "gutils", "."}
	type pf struct {
		path string
		f    *ast.File
	}
	var files []pf
	for _, d := range dirs {
		ents, err := os.ReadDir(filepath.Join(repo, d))
		if err != nil {
			continue
		}
		for _, e := range ents {
			if e.IsDir() || !strings.HasSuffix(e.Name(), ".go") || strings.HasSuffix(e.Name(), "_test.go") {
				continue
			}
			p := filepath.Join(d, e.Name())
			files = append(files, pf{p, parseFile(filepath.Join(repo, p))})
		}
	}
	// global knowledge: map-typed struct fields, functions whose first result is a map
	mapFields := map[string]bool{}
	mapFuncs := map[string]bool{}
	for _, x := range files {
		ast.Inspect(x.f, func(n ast.Node) bool {
			switch t := n.(type) {
			case *ast.StructType:
				for _, f := range t.Fields.List {
					if isMapType(f.Type) {
						for _, nm := range f.Names {
							mapFields[nm.Name] = true
						}
					}
				}
			case *ast.FuncDecl:
				if t.Type.Results != nil && len(t.Type.Results.List) > 0 && isMapType(t.Type.Results.List[0].Type) {
					mapFuncs[t.Name.Name] = true
				}
			case *ast.InterfaceType:
				for _, m := range t.Methods.List {
					if ft, ok := m.Type.(*ast.FuncType); ok && ft.Results != nil && len(ft.Results.List) > 0 && isMapType(ft.Results.List[0].Type) {
						for _, nm := range m.Names {
							mapFuncs[nm.Name] = true
						}
					}
				}
			}
			return true
		})
	}
	var sites []detSite
	for _, x := range files {
		// package-level `var x = &cobra.Command{ Run: func(...) {...} }` holds most of cmd/: every function
		// literal in a variable initialiser is scanned as a pseudo function named after the variable
		var fdecls []*ast.FuncDecl
		for _, d := range x.f.Decls {
			switch t := d.(type) {
			case *ast.FuncDecl:
				if t.Body != nil {
					fdecls = append(fdecls, t)
				}
			case *ast.GenDecl:
				for _, sp := range t.Specs {
					vs, ok := sp.(*ast.ValueSpec)
					if !ok || len(vs.Names) == 0 {
						continue
					}
					for _, v := range vs.Values {
						ast.Inspect(v, func(n ast.Node) bool {
							if fl, ok := n.(*ast.FuncLit); ok {
								fdecls = append(fdecls, &ast.FuncDecl{Name: ast.NewIdent("var:" + vs.Names[0].Name), Type: fl.Type, Body: fl.Body})
								return false
							}
							return true
						})
					}
				}
			}
		}
		for _, fd := range fdecls {
			locals := map[string]bool{}
			addFields := func(fl *ast.FieldList) {
				if fl == nil {
					return
				}
				for _, f := range fl.List {
					if isMapType(f.Type) {
						for _, nm := range f.Names {
							locals[nm.Name] = true
						}
					}
				}
			}
			addFields(fd.Type.Params)
			addFields(fd.Type.Results)
			// sort calls in the function: sort.X(name) / slices.Sort(name) / sort.Slice(name, …)
			sorted := map[string]bool{}
			ast.Inspect(fd.Body, func(n ast.Node) bool {
				switch t := n.(type) {
				case *ast.AssignStmt:
					for i, l := range t.Lhs {
						if id, ok := l.(*ast.Ident); ok && i < len(t.Rhs) && isMapExpr(t.Rhs[i]) {
							locals[id.Name] = true
						}
						if id, ok := l.(*ast.Ident); ok && len(t.Rhs) == 1 {
							if c, ok := t.Rhs[0].(*ast.CallExpr); ok {
								switch f := c.Fun.(type) {
								case *ast.Ident:
									if mapFuncs[f.Name] && i == 0 {
										locals[id.Name] = true
									}
								case *ast.SelectorExpr:
									if mapFuncs[f.Sel.Name] && i == 0 {
										locals[id.Name] = true
									}
								}
							}
						}
					}
				case *ast.DeclStmt:
					if gd, ok := t.Decl.(*ast.GenDecl); ok {
						for _, sp := range gd.Specs {
							if vs, ok := sp.(*ast.ValueSpec); ok && vs.Type != nil && isMapType(vs.Type) {
								for _, nm := range vs.Names {
									locals[nm.Name] = true
								}
							}
						}
					}
				case *ast.CallExpr:
					if s, ok := t.Fun.(*ast.SelectorExpr); ok {
						if pk, ok := s.X.(*ast.Ident); ok && (pk.Name == "sort" || pk.Name == "slices") && len(t.Args) > 0 {
							if id, ok := t.Args[0].(*ast.Ident); ok {
								sorted[id.Name] = true
							}
						}
					}
				}
				return true
			})
			ast.Inspect(fd.Body, func(n ast.Node) bool {
				switch t := n.(type) {
				case *ast.RangeStmt:
					isMap := false
					what := ""
					switch e := t.X.(type) {
					case *ast.Ident:
						isMap = locals[e.Name]
						what = e.Name
					case *ast.SelectorExpr:
						isMap = mapFields[e.Sel.Name]
						what = e.Sel.Name
					case *ast.CallExpr:
						switch f := e.Fun.(type) {
						case *ast.Ident:
							isMap = mapFuncs[f.Name]
							what = f.Name + "()"
						case *ast.SelectorExpr:
							isMap = mapFuncs[f.Sel.Name]
							what = f.Sel.Name + "()"
						}
					}
					if isMap {
						cls, det := classifyBody(t.Body, locals, func(nm string) bool { return sorted[nm] })
						sites = append(sites, detSite{x.path, fd.Name.Name, "maprange", cls, what + ":" + det, fset.Position(t.Pos()).Line})
					}
				case *ast.GoStmt:
					sites = append(sites, detSite{x.path, fd.Name.Name, "go", "", "", fset.Position(t.Pos()).Line})
				case *ast.CallExpr:
					if s, ok := t.Fun.(*ast.SelectorExpr); ok {
						if pk, ok := s.X.(*ast.Ident); ok {
							if (pk.Name == "time" && s.Sel.Name == "Now") || (pk.Name == "os" && s.Sel.Name == "Getpid") {
								sites = append(sites, detSite{x.path, fd.Name.Name, pk.Name + "." + s.Sel.Name, "", "", fset.Position(t.Pos()).Line})
							}
							if pk.Name == "rand" && (s.Sel.Name == "Seed" || s.Sel.Name == "New" || s.Sel.Name == "NewSource") {
								sites = append(sites, detSite{x.path, fd.Name.Name, "rand." + s.Sel.Name, "", "", fset.Position(t.Pos()).Line})
							}
						}
					}
				}
				return true
			})
		}
	}
	var w strings.Builder
	w.WriteString("-- GENERATED by tools/extract (detfacts.go) from the repository working tree. Do not edit.\n")
	w.WriteString("namespace Gv.Gen.DetFacts\n\n")
	w.WriteString("structure Site where\n  file : String\n  fn : String\n  kind : String\n  cls : String\n  detail : String\n  line : Nat\nderiving Repr\n\n")
	w.WriteString("def sites : List Site := [\n")
	lines := make([]string, len(sites))
	for i, s := range sites {
		lines[i] = fmt.Sprintf("  { file := %q, fn := %q, kind := %q, cls := %q, detail := %q, line := %d }", s.file, s.fn, s.kind, s.class, s.detail, s.line)
	}
	w.WriteString(strings.Join(lines, ",\n"))
	w.WriteString("\n]\n\nend Gv.Gen.DetFacts\n")
	writeIfChanged(filepath.Join(out, "DetFacts.lean"), w.String())
}
