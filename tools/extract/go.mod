module gvextract

go 1.21
